(* C03 — scans()/compscans() partition the current selection and then restore it.  Only statements here.
   Model: Model/Scans.v (generators on top of Model/Select.v = C02; segmentation on top of Model/Categorical.v = C11);
   proofs: Proofs/ScansP.v, Proofs/ScansSegP.v.

   iterate O w body s   = the generator `w` (scans / compscans) run to exhaustion from data-set state s; `body` is what
                          the consumer does at each yield (nothing, or another generator run to exhaustion: nesting);
                          result: the list of yields (index, state/label, target, state during the yield, result of
                          the body) and the state after exhaustion.
   Inv3 o s             = C02's invariant + spw/subarray recorded in _selection; holds in every state reachable from
                          the constructor by successful select() calls (C03_reachable) and at every yield.
   same_sel s' s        = same three masks, same weights/flags selection, same _selection as a dictionary.
   shown y p            = dump p is selected while item y is current. *)
From Coq Require Import ZArith List Bool String Sorting.Sorted.
From KV Require Import Base.Sx Base.Str Base.SelSlice Gen.Generated Model.Select Model.Scans
  Proofs.SelectBaseP Proofs.SelectP Proofs.SelectLawsP Proofs.ScansP.
From KV Require Model.Categorical Proofs.ScansSegP Model.ScansConcat Proofs.ScansConcatP.
Import ListNotations.
Open Scope Z_scope.

(* tie: the skeleton of the two generators found in /repo's dataset.py (keyword and reset of the select() in the
   loop, key popped after the yield, reset of the final re-select, sensors read) is the one the model runs *)
Theorem C03_source_skeleton :
  it_scans_field = "scan_indices"%string /\ it_scans_key = "scans"%string /\ it_scans_yield_reset = ""%string
  /\ it_scans_pop = "scans"%string /\ it_scans_final_reset = ""%string
  /\ it_scans_name_sensor = "Observation/scan_state"%string
  /\ it_compscans_field = "compscan_indices"%string /\ it_compscans_key = "compscans"%string
  /\ it_compscans_yield_reset = ""%string /\ it_compscans_pop = "compscans"%string
  /\ it_compscans_final_reset = ""%string /\ it_compscans_name_sensor = "Observation/label"%string.
Proof. exact skeleton_ok. Qed.
Print Assumptions C03_source_skeleton.

(* every state reachable from the constructor by successful select() calls (distinct keywords per call) satisfies the
   invariant the theorems below assume *)
Theorem C03_reachable : forall o s, reachable_nd o s -> Inv3 o s.
Proof. exact reachable_inv3. Qed.
Print Assumptions C03_reachable.

(* PARTITION.  For every observation, every prior state, both generators and every well-behaved loop body: the items
   visited are exactly the indices present in the prior selection, each once, in increasing (= time) order; while an
   item is current exactly the previously selected dumps of that item are selected; frequency and corrprod selection
   are untouched; the dump sets are pairwise disjoint and their union is the prior time selection. *)
Theorem C03_partition : forall B (O : sobs) w (body : st -> res (B * st)) s ys sf,
  body_ok (so O) body -> Inv3 (so O) s -> iterate O w body s = Ok (ys, sf) ->
  map y_index ys = indices_of (it_field w) (so O) (tk s) /\ StronglySorted Z.lt (map y_index ys)
  /\ (forall y p, In y ys -> shown y p = nth p (tk s) false &&
        match nth_error (o_dumps (so O)) p with Some d => it_field w d =? y_index y | None => false end)
  /\ (forall y, In y ys -> fk (y_st y) = fk s /\ bk (y_st y) = bk s)
  /\ (forall p d, nth_error (o_dumps (so O)) p = Some d -> nth p (tk s) false = true ->
        exists y, In y ys /\ y_index y = it_field w d /\ shown y p = true)
  /\ (forall y y' p, In y ys -> In y' ys -> shown y p = true -> shown y' p = true -> y_index y = y_index y').
Proof. exact partition_facts. Qed.
Print Assumptions C03_partition.

(* YIELDED VALUES.  The state (label) yielded is that of every dump shown, provided the event-indexed sensor agrees
   with the per-dump sensors (names_ok; true of the segmentations of the format classes, shown on the example and
   checked on every generated data set).  The target yielded is a target of the dumps shown, the lowest-numbered one;
   it is THE target of the dumps shown whenever they share one target (every scan of a segmented observation). *)
Theorem C03_yield_values : forall B (O : sobs) w (body : st -> res (B * st)) s ys sf,
  body_ok (so O) body -> Inv3 (so O) s -> iterate O w body s = Ok (ys, sf) ->
  forall y, In y ys ->
  (names_ok O w -> forall p d, nth_error (o_dumps (so O)) p = Some d -> shown y p = true -> y_name y = namefield w d)
  /\ (exists p d, nth_error (o_dumps (so O)) p = Some d /\ shown y p = true /\ d_target d = y_target y)
  /\ (forall p d, nth_error (o_dumps (so O)) p = Some d -> shown y p = true -> y_target y <= d_target d)
  /\ (forall t, (forall p d, nth_error (o_dumps (so O)) p = Some d -> shown y p = true -> d_target d = t) ->
        y_target y = t).
Proof. exact yield_values. Qed.
Print Assumptions C03_yield_values.

(* RESTORE (full strength after the repair of C03-F1; with the original reset='T' this statement is false, witness
   select(dumps=slice(0,10)); select(dumps=slice(5,12), reset='')).  After exhaustion the time, frequency and corrprod
   masks, the weights/flags selection and _selection (as a dictionary) are those in force before iteration, whatever
   the prior history, incl. criteria stacked on one keyword; the invariant holds again, so any further history and
   any further iteration behave as if the generator had never run. *)
Theorem C03_restore : forall B (O : sobs) w (body : st -> res (B * st)) s ys sf,
  body_ok (so O) body -> Inv3 (so O) s -> iterate O w body s = Ok (ys, sf) -> Inv3 (so O) sf /\ same_sel sf s.
Proof. intros B O w body s ys sf HB H3 H. exact (proj1 (iterate_spec O w body HB s ys sf H3 H)). Qed.
Print Assumptions C03_restore.

(* NESTING.  A generator run to exhaustion is itself a well-behaved loop body (so the three theorems above apply to
   the outer generator with any generator nested inside, to any depth); inside every outer yield the inner generator
   starts from a state satisfying the invariant, and restores the selection of that yield. *)
Theorem C03_nested : forall (O : sobs) outer inner,
  body_ok (so O) (iterate_plain O inner)
  /\ forall s ys sf, Inv3 (so O) s -> iterate_nested O outer inner s = Ok (ys, sf) ->
       (Inv3 (so O) sf /\ same_sel sf s)
       /\ forall y, In y ys -> exists s2, iterate_plain O inner (y_st y) = Ok (y_body y, s2)
                                          /\ Inv3 (so O) (y_st y) /\ same_sel s2 (y_st y).
Proof. intros O outer inner. split; [apply iterate_plain_body_ok | intros s ys sf H3 H; exact (nested_facts O outer inner s ys sf H3 H)]. Qed.
Print Assumptions C03_nested.

(* EVERY DUMP ONCE (partial: see below).  For EVERY well-formed categorical series x starting at dump 0 (C11's WF),
   the index sensor the format classes build from it, CategoricalData(range(len(x)), x.events), is well formed, has
   the events of x, gives every dump exactly one index, and its per-dump list is numbered consecutively from zero in
   time order.  (scan_index is built this way from scan_state, compscan_index from label.) *)
Theorem C03_every_dump_once_partial : forall c : cdz,
  Categorical.WF c -> Categorical.start0 c -> Categorical.idx c <> [] ->
  let ic := index_cd c in
  Categorical.WF ic /\ Categorical.start0 ic /\ Categorical.ev ic = Categorical.ev c
  /\ Categorical.ndumps ic = Categorical.ndumps c
  /\ List.length (Categorical.expand zd ic) = Categorical.ndumps c
  /\ Categorical.expand zd ic
     = Categorical.expand_evs (Categorical.ev c) (map Z.of_nat (seq 0 (List.length (Categorical.idx c))))
  /\ numbered (Categorical.expand zd ic) = true.
Proof. exact ScansSegP.index_cd_numbered. Qed.
Print Assumptions C03_every_dump_once_partial.
(* Full statement NOT proved (C03_every_dump_once): for every fmt, params and well-formed act / label / target
   starting at dump 0 with N > 0 dumps,  segment fmt P act label target = Some g -> seg_ok N g = true.
   Missing: the chaining of C11_add_unmatched_expand / C11_align_expand / C11_remove_repeats_expand / C11_add_expand
   through the pipeline and two small lemmas (drop_first keeps WF; align keeps the first event at dump 0).
   What is established instead: seg_ok is evaluated on the model output for every generated data set of every format
   (and the model output is compared with the real sensors), and seg_ok means what it says: *)
Theorem C03_seg_ok_sound : forall N (c : cdz), cd_ok N c = true ->
  Categorical.incr (Categorical.ev c) /\ List.length (Categorical.ev c) = S (List.length (Categorical.idx c))
  /\ Forall (fun i => (i < List.length (Categorical.uv c))%nat) (Categorical.idx c)
  /\ Categorical.start0 c /\ Categorical.ndumps c = N.
Proof. exact ScansSegP.cd_ok_sound. Qed.
Print Assumptions C03_seg_ok_sound.

(* NON-VACUITY.  A 12-dump observation segmented by the v4 pipeline (5 scans, 2 compound scans, targets A B A), the
   prior history select(dumps=slice(0,10)); select(dumps=slice(5,12), reset='') (the witness of C03-F1): the state is
   reachable, names_ok holds for both generators, scans() nested in compscans() succeeds, yields the items below
   (index, state/label id, target, dumps shown, inner items) and dumps 5..9 are selected again afterwards. *)
Theorem C03_example :
  reachable_nd (so ex_O) ex_s /\ positions (tk ex_s) = [5; 6; 7; 8; 9]
  /\ map d_scan (o_dumps (so ex_O)) = [0; 0; 0; 1; 1; 2; 2; 3; 3; 4; 4; 4]
  /\ map d_cscan (o_dumps (so ex_O)) = [0; 0; 0; 0; 0; 0; 0; 1; 1; 1; 1; 1]
  /\ map d_target (o_dumps (so ex_O)) = [0; 0; 0; 0; 0; 1; 1; 1; 1; 0; 0; 0]
  /\ names_ok ex_O WScans /\ names_ok ex_O WCompscans
  /\ exists ys sf, iterate_nested ex_O WCompscans WScans ex_s = Ok (ys, sf)
       /\ map (summary (map (summary (fun _ : unit => tt)))) ys =
          [(0, 1, 1, [5; 6], [(2, 0, 1, [5; 6], tt)]);
           (1, 2, 0, [7; 8; 9], [(3, 2, 1, [7; 8], tt); (4, 3, 0, [9], tt)])]
       /\ positions (tk sf) = [5; 6; 7; 8; 9] /\ fk sf = fk ex_s /\ bk sf = bk ex_s.
Proof. exact ex_facts. Qed.
Print Assumptions C03_example.

(* ---------------------------------------------------------------------------------------------------------------
   CONCATENATED DATA SETS (katdal/concatdata.py:ConcatenatedDataSet; Model/ScansConcat.v, Proofs/ScansConcatP.v).
   A ConcatenatedDataSet inherits select(), scans() and compscans() from DataSet, so everything above applies to it
   with the observation read from the concatenated sensors; what it adds is the run-on numbering of the parts' scan
   and compscan index sensors.

   run_on_parts w parts  = the parts' index sensors (chronological order) after the loop of __init__: unique values
                           shifted by the running offset, which starts at cc_*_start and advances per part by the
                           translated rule cc_*_advance = len(unique_values), the number of scans the part HAS.
   run_on_dumps w parts  = their per-dump index lists, one after the other = per-dump indices of the concatenation.
   concat_index w parts  = the index sensor of the concatenation (concatenate_categorical, no allow_repeats).
   separated ls          = every index in an earlier list is smaller than every index in a later list. *)

(* tie: the statements of the loop found in /repo's concatdata.py (sort key, sensors, initial offsets, shift,
   advance) are the ones the model runs *)
Theorem C03_concat_source_skeleton :
  cc_sort_key = "start_time"%string
  /\ cc_scan_sensor = "Observation/scan_index"%string /\ cc_compscan_sensor = "Observation/compscan_index"%string
  /\ cc_scan_start = 0 /\ cc_compscan_start = 0
  /\ cc_scan_shift = "index+start"%string /\ cc_compscan_shift = "index+start"%string
  /\ cc_scan_advance = "len(unique_values)"%string /\ cc_compscan_advance = "len(unique_values)"%string.
Proof. exact ScansConcatP.cc_skeleton_ok. Qed.
Print Assumptions C03_concat_source_skeleton.

(* NUMBERING OF A CONCATENATION.  For EVERY list of parts (any number, any lengths) whose scan_state / label series
   are well formed and start at dump 0, with the index sensors the format classes build from them
   (CategoricalData(range(n), events)), and for both kinds of index: the per-dump indices of the concatenation are
   numbered consecutively from zero in time order; no index is shared by dumps of different parts and later parts
   have larger indices (collision-free, so a scan of the concatenation is one physical scan of one part); every dump
   of every part gets exactly one index; and the concatenated index sensor exists, is well formed, starts at dump 0
   and expands to exactly this per-dump list. *)
Theorem C03_concat_numbering : forall w (cs : list cdz),
  Forall (fun c => Categorical.WF c /\ Categorical.start0 c /\ Categorical.idx c <> []) cs ->
  let parts := map index_cd cs in
  numbered (ScansConcat.run_on_dumps w parts) = true
  /\ ScansConcat.separated (map (Categorical.expand zd) (ScansConcat.run_on_parts w parts))
  /\ List.length (ScansConcat.run_on_dumps w parts) = list_sum (map Categorical.ndumps cs)
  /\ (forall c, ScansConcat.concat_index w parts = Some c ->
        Categorical.WF c /\ Categorical.start0 c /\ Categorical.expand zd c = ScansConcat.run_on_dumps w parts).
Proof. exact ScansConcatP.concat_numbering_formats. Qed.
Print Assumptions C03_concat_numbering.

(* the decidable form of `separated` evaluated on the model output for every generated concatenation means what it
   says *)
Theorem C03_concat_separatedb_sound : forall ls, ScansConcat.separatedb ls = true -> ScansConcat.separated ls.
Proof. exact ScansConcatP.separatedb_sound. Qed.
Print Assumptions C03_concat_separatedb_sound.

(* non-vacuity, and why the offset has to advance by the number of scans a part HAS: two parts of two scans each
   give 0 0 1 1 2 2 3 3; advancing the offset by one instead (e.g. because only one scan of the first part was
   selected when it was concatenated) gives 0 0 1 1 1 1 2 2 - two physical scans share number 1 *)
Theorem C03_concat_example :
  ScansConcat.index_part ScansConcatP.ex_part
  /\ ScansConcat.run_on_dumps WScans [ScansConcatP.ex_part; ScansConcatP.ex_part] = [0; 0; 1; 1; 2; 2; 3; 3]
  /\ List.concat (map (Categorical.expand zd) [ScansConcat.shift_cd 0 ScansConcatP.ex_part; ScansConcat.shift_cd 1 ScansConcatP.ex_part])
     = [0; 0; 1; 1; 1; 1; 2; 2]
  /\ ScansConcat.separatedb (map (Categorical.expand zd) [ScansConcat.shift_cd 0 ScansConcatP.ex_part; ScansConcat.shift_cd 1 ScansConcatP.ex_part]) = false.
Proof. exact (conj ScansConcatP.ex_index_part (conj ScansConcatP.ex_run_on ScansConcatP.ex_too_small_collides)). Qed.
Print Assumptions C03_concat_example.
