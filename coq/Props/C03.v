(* C03 — scans()/compscans() partition the current selection and then restore it.  Only statements here. *)
From Coq Require Import ZArith List Bool String.
From KV Require Import Base.Sx Base.Str Base.SelSlice Gen.Generated Model.Select Model.Scans
  Proofs.SelectBaseP Proofs.SelectP Proofs.SelectLawsP Proofs.ScansP.
Import ListNotations.
Open Scope Z_scope.

(* tie: the skeleton of the two generators found in /repo's dataset.py is the one the theorems below are about *)
Theorem C03_source_skeleton :
  it_scans_field = "scan_indices"%string /\ it_scans_key = "scans"%string /\ it_scans_yield_reset = ""%string
  /\ it_scans_pop = "scans"%string /\ it_scans_final_reset = ""%string
  /\ it_scans_name_sensor = "Observation/scan_state"%string
  /\ it_compscans_field = "compscan_indices"%string /\ it_compscans_key = "compscans"%string
  /\ it_compscans_yield_reset = ""%string /\ it_compscans_pop = "compscans"%string
  /\ it_compscans_final_reset = ""%string /\ it_compscans_name_sensor = "Observation/label"%string.
Proof. exact skeleton_ok. Qed.
Print Assumptions C03_source_skeleton.
