(* C03 — scans()/compscans() partition the current selection and then restore it.  Only statements here.
   Model: Model/Scans.v (generators on top of Model/Select.v = C02; segmentation on top of Model/Categorical.v = C11);
   proofs: Proofs/ScansP.v, Proofs/ScansSegP.v.

   iterate O w body s   = the generator `w` (scans / compscans) run to exhaustion from data-set state s; `body` is what
                          the consumer does at each yield (nothing, or another generator run to exhaustion: nesting);
                          result: the list of yields (index, state/label, target, state during the yield, result of
                          the body) and the state after exhaustion.
   Inv3 o s             = C02's invariant + spw/subarray recorded in _selection; holds in every state reachable from
                          the constructor by successful select() calls (C03_reachable) and at every yield.
   same_sel s' s        = same three masks, same weights/flags selection, same _selection as a dictionary.
   shown y p            = dump p is selected while item y is current. *)
From Coq Require Import ZArith List Bool String Sorting.Sorted.
From KV Require Import Base.Sx Base.Str Base.SelSlice Gen.Generated Model.Select Model.Scans
  Proofs.SelectBaseP Proofs.SelectP Proofs.SelectLawsP Proofs.ScansP.
From KV Require Model.Categorical Proofs.ScansSegP Model.ScansConcat Proofs.ScansConcatP Proofs.ScansPipeP Proofs.ScansNamesP
  Proofs.ScansBodyP Proofs.ScansOrderP Proofs.ScansTotalP.
Import ListNotations.
Open Scope Z_scope.

(* tie: the skeleton of the two generators found in /repo's dataset.py (keyword and reset of the select() in the
   loop, key popped after the yield, reset of the final re-select, sensors read) is the one the model runs *)
Theorem C03_source_skeleton :
  it_scans_field = "scan_indices"%string /\ it_scans_key = "scans"%string /\ it_scans_yield_reset = ""%string
  /\ it_scans_pop = "scans"%string /\ it_scans_final_reset = ""%string
  /\ it_scans_name_sensor = "Observation/scan_state"%string
  /\ it_compscans_field = "compscan_indices"%string /\ it_compscans_key = "compscans"%string
  /\ it_compscans_yield_reset = ""%string /\ it_compscans_pop = "compscans"%string
  /\ it_compscans_final_reset = ""%string /\ it_compscans_name_sensor = "Observation/label"%string.
Proof. exact skeleton_ok. Qed.
Print Assumptions C03_source_skeleton.

(* tie: the attribute -> sensor table read from the last statements of select() (each of the form
   self.<attr> = sorted(set(self.sensor[<sensor>])), assigned nowhere else) is the one the model reads the copied
   index lists and target_indices through *)
Theorem C03_index_attrs_source :
  sel_indices_attrs = [("scan_indices", "Observation/scan_index"); ("compscan_indices", "Observation/compscan_index");
                       ("target_indices", "Observation/target_index")]%string
  /\ it_field WScans = d_scan /\ it_field WCompscans = d_cscan /\ it_tfield = d_target
  (* the `target = ...` statement of each generator: scans() reads target_indices[0] (lowest-numbered target of the selection),
     compscans() the target index of the first selected dump (self.sensor['Observation/target_index'][0]) *)
  /\ (forall o m, pick_target WScans o m = hd_error (indices_of d_target o m))
  /\ (forall o m, pick_target WCompscans o m = hd_error (map d_target (kept_dumps o m))).
Proof. split; [apply index_attrs_ok|]. split; [apply index_attrs_ok|]. split; [apply index_attrs_ok|]. split; [apply index_attrs_ok|].
  split; [exact pick_target_scans | exact pick_target_compscans]. Qed.
Print Assumptions C03_index_attrs_source.

(* tie: the numbers and strings in the decisions of the segmentation pipelines of VisibilityDataV4 / H5DataV3 /
   H5DataV2 (statement order and comparison operators are fixed by the shape test of the translator item; the model
   `segment` RUNS on these numbers through segk_of, and add_unmatched on C11's translated default match distance) *)
Theorem C03_segmentation_source_skeleton :
  (seg_v4_slew_len_gt = 1 /\ seg_v4_slew_event_index = 1 /\ seg_v4_slew_event_value = 1 /\ seg_v4_slew_dump = 1
   /\ seg_v4_slew_value = "slew"%string /\ seg_v4_label_uv_gt = 1 /\ seg_v4_label_removed = ""%string /\ seg_v4_label_first_gt = 0
   /\ seg_v4_label_add_event = 0 /\ seg_v4_label_add_value = ""%string /\ seg_v4_stop_value = "stop"%string /\ seg_v4_stop_dump = 0)
  /\ (seg_v3_slew_len_gt = 1 /\ seg_v3_slew_event_index = 1 /\ seg_v3_slew_event_value = 1 /\ seg_v3_slew_dump = 1
   /\ seg_v3_slew_value = "slew"%string /\ seg_v3_label_uv_gt = 1 /\ seg_v3_label_removed = ""%string /\ seg_v3_label_first_gt = 0
   /\ seg_v3_label_add_event = 0 /\ seg_v3_label_add_value = ""%string /\ seg_v3_nothing_len_gt = 1 /\ seg_v3_nothing_dump = 0
   /\ seg_v3_nothing_value = "Nothing, special"%string)
  /\ (seg_v2_slew_len_gt = 1 /\ seg_v2_slew_event_index = 1 /\ seg_v2_slew_event_value = 1 /\ seg_v2_slew_dump = 1
   /\ seg_v2_slew_value = "slew"%string /\ seg_v2_label_uv_gt = 1 /\ seg_v2_label_removed = ""%string /\ seg_v2_label_first_gt = 0
   /\ seg_v2_label_add_event = 0 /\ seg_v2_label_add_value = ""%string)
  /\ k_dist (segk_of V4) = 1%nat.
Proof. exact ScansNamesP.seg_skeleton_ok. Qed.
Print Assumptions C03_segmentation_source_skeleton.

(* every state reachable from the constructor by successful select() calls (distinct keywords per call) satisfies the
   invariant the theorems below assume *)
Theorem C03_reachable : forall o s, reachable_nd o s -> Inv3 o s.
Proof. exact reachable_inv3. Qed.
Print Assumptions C03_reachable.

(* PARTITION.  For every observation, every prior state, both generators and every well-behaved loop body: the items
   visited are exactly the indices present in the prior selection, each once, in increasing (= time) order; while an
   item is current exactly the previously selected dumps of that item are selected; frequency and corrprod selection
   are untouched; the dump sets are pairwise disjoint and their union is the prior time selection. *)
Theorem C03_partition : forall B (O : sobs) w (body : st -> res (B * st)) s ys sf,
  body_ok (so O) body -> Inv3 (so O) s -> iterate O w body s = Ok (ys, sf) ->
  map y_index ys = indices_of (it_field w) (so O) (tk s) /\ StronglySorted Z.lt (map y_index ys)
  /\ (forall y p, In y ys -> shown y p = nth p (tk s) false &&
        match nth_error (o_dumps (so O)) p with Some d => it_field w d =? y_index y | None => false end)
  /\ (forall y, In y ys -> fk (y_st y) = fk s /\ bk (y_st y) = bk s)
  /\ (forall p d, nth_error (o_dumps (so O)) p = Some d -> nth p (tk s) false = true ->
        exists y, In y ys /\ y_index y = it_field w d /\ shown y p = true)
  /\ (forall y y' p, In y ys -> In y' ys -> shown y p = true -> shown y' p = true -> y_index y = y_index y').
Proof. exact partition_facts. Qed.
Print Assumptions C03_partition.

(* YIELDED VALUES.  The state (label) yielded is that of every dump shown, provided the event-indexed sensor agrees
   with the per-dump sensors (names_ok; true of the segmentations of the format classes, shown on the example and
   checked on every generated data set).  The target yielded is a target of the dumps shown: scans() yields the
   lowest-numbered one, compscans() the target of the FIRST dump shown in time order (no earlier dump is shown) - the
   "first target associated with compound scan" of its docstring, full strength after the repair of C03-F2; either way it
   is THE target of the dumps shown whenever they share one target (every scan of a segmented observation). *)
Theorem C03_yield_values : forall B (O : sobs) w (body : st -> res (B * st)) s ys sf,
  body_ok (so O) body -> Inv3 (so O) s -> iterate O w body s = Ok (ys, sf) ->
  forall y, In y ys ->
  (names_ok O w -> forall p d, nth_error (o_dumps (so O)) p = Some d -> shown y p = true -> y_name y = namefield w d)
  /\ (exists p d, nth_error (o_dumps (so O)) p = Some d /\ shown y p = true /\ d_target d = y_target y)
  /\ (w = WScans -> forall p d, nth_error (o_dumps (so O)) p = Some d -> shown y p = true -> y_target y <= d_target d)
  /\ (w = WCompscans -> exists p d, nth_error (o_dumps (so O)) p = Some d /\ shown y p = true /\ d_target d = y_target y
                                    /\ forall q, (q < p)%nat -> shown y q = false)
  /\ (forall t, (forall p d, nth_error (o_dumps (so O)) p = Some d -> shown y p = true -> d_target d = t) ->
        y_target y = t).
Proof. exact yield_values. Qed.
Print Assumptions C03_yield_values.

(* RESTORE (full strength after the repair of C03-F1; with the original reset='T' this statement is false, witness
   select(dumps=slice(0,10)); select(dumps=slice(5,12), reset='')).  After exhaustion the time, frequency and corrprod
   masks, the weights/flags selection and _selection (as a dictionary) are those in force before iteration, whatever
   the prior history, incl. criteria stacked on one keyword; the invariant holds again, so any further history and
   any further iteration behave as if the generator had never run. *)
Theorem C03_restore : forall B (O : sobs) w (body : st -> res (B * st)) s ys sf,
  body_ok (so O) body -> Inv3 (so O) s -> iterate O w body s = Ok (ys, sf) -> Inv3 (so O) sf /\ same_sel sf s.
Proof. intros B O w body s ys sf HB H3 H. exact (proj1 (iterate_spec O w body HB s ys sf H3 H)). Qed.
Print Assumptions C03_restore.

(* NESTING.  A generator run to exhaustion is itself a well-behaved loop body (so the three theorems above apply to
   the outer generator with any generator nested inside, to any depth); inside every outer yield the inner generator
   starts from a state satisfying the invariant, and restores the selection of that yield. *)
Theorem C03_nested : forall (O : sobs) outer inner,
  body_ok (so O) (iterate_plain O inner)
  /\ forall s ys sf, Inv3 (so O) s -> iterate_nested O outer inner s = Ok (ys, sf) ->
       (Inv3 (so O) sf /\ same_sel sf s)
       /\ forall y, In y ys -> exists s2, iterate_plain O inner (y_st y) = Ok (y_body y, s2)
                                          /\ Inv3 (so O) (y_st y) /\ same_sel s2 (y_st y).
Proof. intros O outer inner. split; [apply iterate_plain_body_ok | intros s ys sf H3 H; exact (nested_facts O outer inner s ys sf H3 H)]. Qed.
Print Assumptions C03_nested.

(* INDEX SENSORS.  For EVERY well-formed categorical series x starting at dump 0 (C11's WF), the index sensor the format
   classes build from it, CategoricalData(range(len(x)), x.events), is well formed, has the events of x, gives every
   dump exactly one index, and its per-dump list is numbered consecutively from zero in time order.  (scan_index is
   built this way from scan_state, compscan_index from label.) *)
Theorem C03_index_sensor_numbered : forall c : cdz,
  Categorical.WF c -> Categorical.start0 c -> Categorical.idx c <> [] ->
  let ic := index_cd c in
  Categorical.WF ic /\ Categorical.start0 ic /\ Categorical.ev ic = Categorical.ev c
  /\ Categorical.ndumps ic = Categorical.ndumps c
  /\ List.length (Categorical.expand zd ic) = Categorical.ndumps c
  /\ Categorical.expand zd ic
     = Categorical.expand_evs (Categorical.ev c) (map Z.of_nat (seq 0 (List.length (Categorical.idx c))))
  /\ numbered (Categorical.expand zd ic) = true.
Proof. exact ScansSegP.index_cd_numbered. Qed.
Print Assumptions C03_index_sensor_numbered.

(* EVERY DUMP ONCE (full strength; was C03_every_dump_once_partial).  good N c = c is well formed (C11's WF), starts
   at dump 0 and ends at dump N.  For EVERY format (v4 / v3 / v2), every choice of the four strings the pipelines
   test for, and EVERY activity / label / target series covering the N > 0 dumps (what sensor_to_categorical
   delivers): whenever the pipeline  slew workaround -> label.remove('') -> scan.add_unmatched(label.events) ->
   label.align(scan.events) -> label.add(0,'') -> [v3: drop 'Nothing, special'] -> target.align(scan.events) ->
   [v4: remove_repeats, initial-stop-target loop, align onto itself]  returns at all, ALL SIX sensors cover exactly the
   dumps 0..N-1 (seg_good: well formed, first event 0, last event N), scan_index / compscan_index / target_index
   have the events of scan_state / label / target (so unique_values[indices[i]] IS the name of item i), the per-dump
   scan and compscan indices are numbered consecutively from zero in time order, the decidable run-time check
   seg_ok accepts, the observation handed to select() has exactly N dumps whose fields are the N entries of the
   per-dump lists (every dump: exactly one scan, one compound scan, one target), and names_ok - the hypothesis of
   C03_yield_values - holds for both generators.  What must NOT happen is excluded too: no dump without a value
   (first event 0, last N), no dump with two (events strictly increasing). *)
Theorem C03_every_dump_once : forall f P (act label target : cdz) N g, (0 < N)%nat ->
  ScansPipeP.good N act -> ScansPipeP.good N label -> ScansPipeP.good N target ->
  segment f P act label target = Some g ->
  ScansPipeP.seg_good N g /\ seg_ok N g = true
  /\ (forall ts, List.length (dumps_of_seg g ts) = N
        /\ map d_scan (dumps_of_seg g ts) = Categorical.expand zd (sg_scan g)
        /\ map d_cscan (dumps_of_seg g ts) = Categorical.expand zd (sg_cscan g)
        /\ map d_target (dumps_of_seg g ts) = Categorical.expand zd (sg_tindex g)
        /\ map d_state (dumps_of_seg g ts) = Categorical.expand zd (sg_state g)
        /\ map d_label (dumps_of_seg g ts) = Categorical.expand zd (sg_label g))
  /\ (forall o w, names_ok (sobs_of_seg g o) w).
Proof.
  intros f P act label target N g HN Ga Gl Gt H.
  pose proof (ScansPipeP.segment_good f P act label target N g HN Ga Gl Gt H) as SG.
  split; [exact SG|]. split; [exact (ScansPipeP.seg_good_ok N g SG)|].
  split; [intro ts; exact (ScansNamesP.seg_dumps N g ts SG) | intros o w; exact (ScansNamesP.seg_names_ok N g o w HN SG)].
Qed.
Print Assumptions C03_every_dump_once.

(* THE PIPELINES NEVER FAIL on such inputs (no IndexError / ValueError from align, add, remove_repeats, the _lookup
   calls of the initial-stop loop): the hypothesis `segment ... = Some g` of C03_every_dump_once is always met *)
Theorem C03_pipeline_total : forall f P (act label target : cdz) N, (0 < N)%nat ->
  ScansPipeP.good N act -> ScansPipeP.good N label -> ScansPipeP.good N target ->
  exists g, segment f P act label target = Some g.
Proof. exact ScansTotalP.segment_total. Qed.
Print Assumptions C03_pipeline_total.

Theorem C03_pipeline_total_v1 : forall states groups labels targets segs N, (0 < N)%nat ->
  Categorical.incr segs -> hd 0%nat segs = 0%nat -> last segs 0%nat = N ->
  List.length segs = S (List.length states) -> List.length groups = List.length states ->
  List.length labels = List.length states -> List.length targets = List.length states ->
  exists g, segment_v1 states groups labels targets segs = Some g.
Proof. exact ScansTotalP.segment_v1_total. Qed.
Print Assumptions C03_pipeline_total_v1.

(* what seg_good says, field by field (definitional unfolding, so that the statement above can be read here) *)
Theorem C03_seg_good_means : forall N g, ScansPipeP.seg_good N g ->
  (forall c, In c [sg_state g; sg_scan g; sg_label g; sg_cscan g; sg_target g; sg_tindex g] ->
     Categorical.WF c /\ Categorical.start0 c /\ Categorical.ndumps c = N
     /\ List.length (Categorical.expand zd c) = N)
  /\ Categorical.ev (sg_scan g) = Categorical.ev (sg_state g)
  /\ Categorical.ev (sg_cscan g) = Categorical.ev (sg_label g)
  /\ Categorical.ev (sg_tindex g) = Categorical.ev (sg_target g)
  /\ numbered (Categorical.expand zd (sg_scan g)) = true /\ numbered (Categorical.expand zd (sg_cscan g)) = true.
Proof.
  intros N g SG. destruct SG as [A B C D E F E1 E2 E3 _ _ _ N1 N2]. split; [|repeat split; assumption].
  intros c [<-|[<-|[<-|[<-|[<-|[<-|[]]]]]]];
    (match goal with G : ScansPipeP.good N ?c |- _ /\ _ /\ Categorical.ndumps ?c = _ /\ _ =>
       pose proof (ScansPipeP.good_expand_length N c G); destruct G as (? & ? & ?); auto end).
Qed.
Print Assumptions C03_seg_good_means.

(* the same for v1 files (already cut into scan groups: one state, compscan group, label and target per group) *)
Theorem C03_every_dump_once_v1 : forall states groups labels targets segs N g, (0 < N)%nat ->
  Categorical.incr segs -> hd 0%nat segs = 0%nat -> last segs 0%nat = N ->
  List.length segs = S (List.length states) -> List.length groups = List.length states ->
  List.length labels = List.length states -> List.length targets = List.length states ->
  segment_v1 states groups labels targets segs = Some g ->
  ScansPipeP.seg_good N g /\ seg_ok N g = true /\ (forall o w, names_ok (sobs_of_seg g o) w).
Proof.
  intros states groups labels targets segs N g HN I H0 HL L1 L2 L3 L4 H.
  pose proof (ScansPipeP.segment_v1_good states groups labels targets segs N g HN I H0 HL L1 L2 L3 L4 H) as SG.
  split; [exact SG|]. split; [exact (ScansPipeP.seg_good_ok N g SG) | intros o w; exact (ScansNamesP.seg_names_ok N g o w HN SG)].
Qed.
Print Assumptions C03_every_dump_once_v1.

(* YIELDED NAME on segmented observations: no names_ok hypothesis left.  For every observation built from a seg_good
   segmentation the state (label) yielded by scans() (compscans()) is the state (label) of EVERY dump shown. *)
Theorem C03_yield_name_segmented : forall B N g o w (body : st -> res (B * st)) s ys sf, (0 < N)%nat ->
  ScansPipeP.seg_good N g ->
  body_ok (so (sobs_of_seg g o)) body -> Inv3 (so (sobs_of_seg g o)) s ->
  iterate (sobs_of_seg g o) w body s = Ok (ys, sf) ->
  forall y p d, In y ys -> nth_error (o_dumps (so (sobs_of_seg g o))) p = Some d -> shown y p = true ->
    y_name y = namefield w d.
Proof. exact ScansNamesP.yield_values_seg. Qed.
Print Assumptions C03_yield_name_segmented.

(* non-vacuity of C03_every_dump_once: the three input series of C03_example are `good 12`, the v4 pipeline returns a
   segmentation, it is seg_good, and its per-dump indices are the ones listed *)
Example C03_every_dump_once_example : exists g, ex_seg = Some g /\ ScansPipeP.seg_good 12 g /\ seg_ok 12 g = true
  /\ Categorical.expand zd (sg_scan g) = [0; 0; 0; 1; 1; 2; 2; 3; 3; 4; 4; 4]
  /\ Categorical.expand zd (sg_cscan g) = [0; 0; 0; 0; 0; 0; 0; 1; 1; 1; 1; 1]
  /\ Categorical.expand zd (sg_tindex g) = [0; 0; 0; 0; 0; 1; 1; 1; 1; 0; 0; 0].
Proof. exact ScansNamesP.ex_seg_good. Qed.
Print Assumptions C03_every_dump_once_example.

(* the decidable check evaluated at run time on every generated data set means what it says: *)
Theorem C03_seg_ok_sound : forall N (c : cdz), cd_ok N c = true ->
  Categorical.incr (Categorical.ev c) /\ List.length (Categorical.ev c) = S (List.length (Categorical.idx c))
  /\ Forall (fun i => (i < List.length (Categorical.uv c))%nat) (Categorical.idx c)
  /\ Categorical.start0 c /\ Categorical.ndumps c = N.
Proof. exact ScansSegP.cd_ok_sound. Qed.
Print Assumptions C03_seg_ok_sound.

(* NON-VACUITY.  A 12-dump observation segmented by the v4 pipeline (5 scans, 2 compound scans, targets A B A), the
   prior history select(dumps=slice(0,10)); select(dumps=slice(5,12), reset='') (the witness of C03-F1): the state is
   reachable, names_ok holds for both generators, scans() nested in compscans() succeeds, yields the items below
   (index, state/label id, target, dumps shown, inner items) and dumps 5..9 are selected again afterwards. *)
Theorem C03_example :
  reachable_nd (so ex_O) ex_s /\ positions (tk ex_s) = [5; 6; 7; 8; 9]
  /\ map d_scan (o_dumps (so ex_O)) = [0; 0; 0; 1; 1; 2; 2; 3; 3; 4; 4; 4]
  /\ map d_cscan (o_dumps (so ex_O)) = [0; 0; 0; 0; 0; 0; 0; 1; 1; 1; 1; 1]
  /\ map d_target (o_dumps (so ex_O)) = [0; 0; 0; 0; 0; 1; 1; 1; 1; 0; 0; 0]
  /\ names_ok ex_O WScans /\ names_ok ex_O WCompscans
  /\ exists ys sf, iterate_nested ex_O WCompscans WScans ex_s = Ok (ys, sf)
       /\ map (summary (map (summary (fun _ : unit => tt)))) ys =
          [(0, 1, 1, [5; 6], [(2, 0, 1, [5; 6], tt)]);
           (1, 2, 1, [7; 8; 9], [(3, 2, 1, [7; 8], tt); (4, 3, 0, [9], tt)])]
       /\ positions (tk sf) = [5; 6; 7; 8; 9] /\ fk sf = fk ex_s /\ bk sf = bk ex_s.
Proof. exact ex_facts. Qed.
Print Assumptions C03_example.

(* ---------------------------------------------------------------------------------------------------------------
   LAWS A USER RELIES ON (Proofs/ScansOrderP.v) *)

(* IN TIME ORDER.  C03_partition gives increasing INDEX order; on every observation built from a seg_good segmentation
   (C03_every_dump_once: every output of the pipelines) that IS time order: every dump shown by an item comes before
   every dump shown by an item with a larger index. *)
Theorem C03_time_order : forall B N g o w (body : st -> res (B * st)) s ys sf, (0 < N)%nat -> ScansPipeP.seg_good N g ->
  body_ok (so (sobs_of_seg g o)) body -> Inv3 (so (sobs_of_seg g o)) s ->
  iterate (sobs_of_seg g o) w body s = Ok (ys, sf) ->
  forall y y' p q, In y ys -> In y' ys -> shown y p = true -> shown y' q = true -> y_index y < y_index y' -> (p < q)%nat.
Proof. exact ScansOrderP.items_in_time_order. Qed.
Print Assumptions C03_time_order.

(* ITERATING AGAIN after exhaustion: same items, same dumps per item, same selection afterwards *)
Theorem C03_iterate_again : forall B B2 (O : sobs) w (body : st -> res (B * st)) (body2 : st -> res (B2 * st)) s ys sf ys2 sf2,
  body_ok (so O) body -> body_ok (so O) body2 -> Inv3 (so O) s ->
  iterate O w body s = Ok (ys, sf) -> iterate O w body2 sf = Ok (ys2, sf2) ->
  map y_index ys2 = map y_index ys
  /\ (forall y y2 p, In y ys -> In y2 ys2 -> y_index y = y_index y2 -> shown y2 p = shown y p)
  /\ same_sel sf2 s.
Proof. exact ScansOrderP.iterate_again. Qed.
Print Assumptions C03_iterate_again.

(* NESTED PARTITION (scans inside compscans and the other way round): inside every outer item the inner items are the
   inner indices present in the dumps of the outer item, increasing; an inner item shows exactly the dumps of the prior
   selection that belong to BOTH the outer and the inner item; every dump of the outer item is shown by an inner item *)
Theorem C03_nested_partition : forall (O : sobs) outer inner s ys sf, Inv3 (so O) s ->
  iterate_nested O outer inner s = Ok (ys, sf) ->
  forall y, In y ys ->
    map y_index (y_body y) = indices_of (it_field inner) (so O) (tk (y_st y))
    /\ StronglySorted Z.lt (map y_index (y_body y))
    /\ (forall z p, In z (y_body y) -> shown z p = nth p (tk s) false &&
          match nth_error (o_dumps (so O)) p with
          | Some d => (it_field outer d =? y_index y) && (it_field inner d =? y_index z)
          | None => false end)
    /\ (forall p, shown y p = true -> exists z, In z (y_body y) /\ shown z p = true).
Proof. exact ScansOrderP.nested_partition. Qed.
Print Assumptions C03_nested_partition.

(* ---------------------------------------------------------------------------------------------------------------
   LOOP BODIES THAT CALL select() THEMSELVES (Proofs/ScansBodyP.v).
   tkey k              = k is a keyword of the time dimension (dumps, timerange, scans, compscans, targets, target_tags)
   body_tk_ok o body   = the body keeps the invariant and never ADDS a time criterion to _selection (it may change the
                         frequency / corrprod / weights / flags selection, drop time criteria, even clear the time mask)
   body_calls O calls  = the body that issues the given select() calls at every yield. *)

(* every well-behaved body of C03_partition is in this larger class *)
Theorem C03_body_ok_is_time_safe : forall B o (body : st -> res (B * st)), body_ok o body -> ScansBodyP.body_tk_ok o body.
Proof. exact ScansBodyP.body_ok_tk. Qed.
Print Assumptions C03_body_ok_is_time_safe.

(* a body made of ANY select() calls none of which names a time keyword (whatever their reset) is in the class *)
Theorem C03_selecting_body_calls : forall O calls, Forall ScansBodyP.no_time_call calls ->
  ScansBodyP.body_tk_ok (so O) (body_calls O calls).
Proof. exact ScansBodyP.body_calls_tk_ok. Qed.
Print Assumptions C03_selecting_body_calls.

(* PARTITION AND TIME RESTORE for every body of the class: same items, once each, increasing; each item shows exactly
   the previously selected dumps of the item WHATEVER the earlier bodies did; union and disjointness; after exhaustion
   the invariant holds, the time mask is the one before and the time criteria recorded in _selection are the ones
   before.  (Frequency / corrprod selection after exhaustion is whatever the bodies left, re-filtered by the saved
   criteria: not claimed equal.) *)
Theorem C03_selecting_body : forall B (O : sobs) w (body : st -> res (B * st)) s ys sf,
  ScansBodyP.body_tk_ok (so O) body -> Inv3 (so O) s -> iterate O w body s = Ok (ys, sf) ->
  map y_index ys = indices_of (it_field w) (so O) (tk s) /\ StronglySorted Z.lt (map y_index ys)
  /\ (forall y p, In y ys -> shown y p = nth p (tk s) false &&
        match nth_error (o_dumps (so O)) p with Some d => it_field w d =? y_index y | None => false end)
  /\ (forall p d, nth_error (o_dumps (so O)) p = Some d -> nth p (tk s) false = true ->
        exists y, In y ys /\ y_index y = it_field w d /\ shown y p = true)
  /\ (forall y y' p, In y ys -> In y' ys -> shown y p = true -> shown y' p = true -> y_index y = y_index y')
  /\ Inv3 (so O) sf /\ tk sf = tk s
  /\ (forall k, ScansBodyP.tkey k = true -> lookup k (sel sf) = lookup k (sel s)).
Proof. exact ScansBodyP.partition_facts_t. Qed.
Print Assumptions C03_selecting_body.

(* non-vacuity, and why the class cannot be larger: on the 12-dump example a body d.select(channels=slice(0,2),
   reset='') leaves every scan intact and the time selection restored (channels stay selected); a body
   d.select(dumps=slice(0,4), reset='') ADDS a time criterion, which select() re-applies for every later item: scan 1
   shows dump 3 only, an empty item raises IndexError, and after exhaustion dumps 0..3 are selected instead of 0..4
   (_set_keep restores the mask but not _selection).  Outside the domain of the property (ASSUMPTIONS). *)
Example C03_selecting_body_example :
  Forall ScansBodyP.no_time_call ScansBodyP.ex_body_freq
  /\ (exists ys sf, iterate ex_O WScans (body_calls ex_O ScansBodyP.ex_body_freq) (init (so ex_O)) = Ok (ys, sf)
     /\ map ScansBodyP.tsummary ys = [(0, [0; 1; 2]); (1, [3; 4]); (2, [5; 6]); (3, [7; 8]); (4, [9; 10; 11])]
     /\ positions (tk sf) = [0; 1; 2; 3; 4; 5; 6; 7; 8; 9; 10; 11] /\ positions (fk sf) = [0; 1])
  /\ iterate ex_O WScans (body_calls ex_O ScansBodyP.ex_body_time) (init (so ex_O)) = Err EFail
  /\ (exists s0 ys sf, select (so ex_O) (init (so ex_O)) [("scans"%string, VScans [SIdx 0; SIdx 1])] = Ok s0
     /\ positions (tk s0) = [0; 1; 2; 3; 4]
     /\ iterate ex_O WScans (body_calls ex_O ScansBodyP.ex_body_time) s0 = Ok (ys, sf)
     /\ map ScansBodyP.tsummary ys = [(0, [0; 1; 2]); (1, [3])] /\ positions (tk sf) = [0; 1; 2; 3]).
Proof. exact (conj ScansBodyP.ex_body_freq_ok ScansBodyP.ex_body_facts). Qed.
Print Assumptions C03_selecting_body_example.

(* ---------------------------------------------------------------------------------------------------------------
   ABANDONED ITERATION (break, return, exception in the body, generator closed / garbage collected).
   iterate_break O w body n s = the consumer leaves the loop while item number n (0-based) is current; the first n
   items were complete iterations.  The generators have no try/finally: nothing after that yield runs.  The docstring
   promises "after each iteration the data set will reflect the scan selection" and the restore only on exhaustion.

   What is left behind, for ALL observations, states, bodies and n: exactly the state of that yield - the invariant
   holds (so every later select() / iteration behaves as specified), the time mask is the prior selection restricted
   to the item, frequency / corrprod / weights / flags selection are the prior ones, _selection is the prior one plus
   <key> = the item; the first n items were visited as in C03_partition; name and target are those of the item. *)
Theorem C03_abandoned : forall B (O : sobs) w (body : st -> res (B * st)) n s ys a sf,
  body_ok (so O) body -> Inv3 (so O) s -> iterate_break O w body n s = Ok (ys, Some a, sf) ->
  sf = ab_st a
  /\ nth_error (indices_of (it_field w) (so O) (tk s)) n = Some (ab_index a)
  /\ map y_index ys = firstn n (indices_of (it_field w) (so O) (tk s))
  /\ Inv3 (so O) sf /\ tk sf = mand (tk s) (fmask (so O) w (ab_index a)) /\ fk sf = fk s /\ bk sf = bk s
  /\ wk sf = wk s /\ flk sf = flk s
  /\ (forall k, lookup k (sel sf) = if String.eqb k (it_pop w) then Some (VScans [SIdx (ab_index a)]) else lookup k (sel s))
  /\ name_of O w (ab_index a) = Some (ab_name a)
  /\ pick_target w (so O) (tk sf) = Some (ab_target a).
Proof.
  intros B O w body n s ys a sf HB H3 H.
  destruct (ScansBodyP.break_spec O w body HB n s ys a sf H3 H) as (A1 & A2 & A3 & _ & A4).
  split; [exact A1|]. split; [exact A2|]. split; [exact A3 | exact A4].
Qed.
Print Assumptions C03_abandoned.

(* with n at or beyond the number of selected items the loop is not abandoned: iterate_break IS iterate *)
Theorem C03_abandoned_beyond : forall B (O : sobs) w (body : st -> res (B * st)) n s,
  nth_error (indices_of (it_field w) (so O) (tk s)) n = None ->
  iterate_break O w body n s = match iterate O w body s with Ok (ys, sf) => Ok (ys, None, sf) | Err e => Err e end.
Proof. intro B. exact (@ScansBodyP.break_beyond B). Qed.
Print Assumptions C03_abandoned_beyond.

(* picking the work up after a break: a generator of the same kind started in the abandoned state visits exactly
   the abandoned item and restores the ABANDONED selection (the selection before the first loop is not recovered
   by iterating again; select() with reset='T' or no arguments is needed) *)
Theorem C03_abandoned_then_iterate : forall B B2 (O : sobs) w (body : st -> res (B * st)) (body2 : st -> res (B2 * st))
  n s ys a sf ys2 sf2,
  body_ok (so O) body -> body_ok (so O) body2 -> Inv3 (so O) s ->
  iterate_break O w body n s = Ok (ys, Some a, sf) -> iterate O w body2 sf = Ok (ys2, sf2) ->
  map y_index ys2 = [ab_index a] /\ Inv3 (so O) sf2 /\ same_sel sf2 sf.
Proof. exact ScansBodyP.break_then_iterate. Qed.
Print Assumptions C03_abandoned_then_iterate.

(* non-vacuity: the history of C03_example (dumps 5..9 selected), scans(), break while the second item (scan 3) is
   current: scan 2 was a complete iteration, dumps 7, 8 stay selected, _selection['scans'] = 3; iterating again
   yields scan 3 alone *)
Example C03_abandoned_example :
  exists ys a sf, iterate_break ex_O WScans no_body 1 ex_s = Ok (ys, Some a, sf)
    /\ map ScansBodyP.tsummary ys = [(2, [5; 6])] /\ ab_index a = 3 /\ positions (tk sf) = [7; 8]
    /\ lookup "scans" (sel sf) = Some (VScans [SIdx 3])
    /\ exists ys2 sf2, iterate_plain ex_O WScans sf = Ok (ys2, sf2) /\ map ScansBodyP.tsummary ys2 = [(3, [7; 8])]
                       /\ positions (tk sf2) = [7; 8].
Proof. exact ScansBodyP.ex_break_facts. Qed.
Print Assumptions C03_abandoned_example.

(* boundary of the nesting guarantee (C03_nested is about inner generators RUN TO EXHAUSTION): a break in the inner
   loop leaves the inner key in _selection, which the outer generator neither pops nor saves - the next outer item is
   intersected with it (here: empty, IndexError), and with a single outer item the inner item alone stays selected
   after the outer generator is exhausted.  Outside the domain of the property; the model follows the code and the
   real generators are compared with it on such loops (wire_35). *)
Example C03_inner_break_example :
  iterate_nested_break ex_O WCompscans WScans 0 (init (so ex_O)) = Err EFail
  /\ iterate_nested_break ex_O WScans WCompscans 0 (init (so ex_O)) = Err EFail
  /\ (exists s0 ys sf, select (so ex_O) (init (so ex_O)) [("compscans"%string, VScans [SIdx 1])] = Ok s0
       /\ positions (tk s0) = [7; 8; 9; 10; 11]
       /\ iterate_nested_break ex_O WCompscans WScans 0 s0 = Ok (ys, sf)
       /\ map ScansBodyP.tsummary ys = [(1, [7; 8; 9; 10; 11])] /\ positions (tk sf) = [7; 8]
       /\ lookup "scans" (sel sf) = Some (VScans [SIdx 3])).
Proof. exact ScansBodyP.ex_inner_break_facts. Qed.
Print Assumptions C03_inner_break_example.

(* ---------------------------------------------------------------------------------------------------------------
   CONCATENATED DATA SETS (katdal/concatdata.py:ConcatenatedDataSet; Model/ScansConcat.v, Proofs/ScansConcatP.v).
   A ConcatenatedDataSet inherits select(), scans() and compscans() from DataSet, so everything above applies to it
   with the observation read from the concatenated sensors; what it adds is the run-on numbering of the parts' scan
   and compscan index sensors.

   run_on_parts w parts  = the parts' index sensors (chronological order) after the loop of __init__: unique values
                           shifted by the running offset, which starts at cc_*_start and advances per part by the
                           translated rule cc_*_advance = len(unique_values), the number of scans the part HAS.
   run_on_dumps w parts  = their per-dump index lists, one after the other = per-dump indices of the concatenation.
   concat_index w parts  = the index sensor of the concatenation (concatenate_categorical, no allow_repeats).
   separated ls          = every index in an earlier list is smaller than every index in a later list. *)

(* tie: the statements of the loop found in /repo's concatdata.py (sort key, sensors, initial offsets, shift,
   advance) are the ones the model runs *)
Theorem C03_concat_source_skeleton :
  cc_sort_key = "start_time"%string
  /\ cc_scan_sensor = "Observation/scan_index"%string /\ cc_compscan_sensor = "Observation/compscan_index"%string
  /\ cc_scan_start = 0 /\ cc_compscan_start = 0
  /\ cc_scan_shift = "index+start"%string /\ cc_compscan_shift = "index+start"%string
  /\ cc_scan_advance = "len(unique_values)"%string /\ cc_compscan_advance = "len(unique_values)"%string.
Proof. exact ScansConcatP.cc_skeleton_ok. Qed.
Print Assumptions C03_concat_source_skeleton.

(* NUMBERING OF A CONCATENATION.  For EVERY list of parts (any number, any lengths) whose scan_state / label series
   are well formed and start at dump 0, with the index sensors the format classes build from them
   (CategoricalData(range(n), events)), and for both kinds of index: the per-dump indices of the concatenation are
   numbered consecutively from zero in time order; no index is shared by dumps of different parts and later parts
   have larger indices (collision-free, so a scan of the concatenation is one physical scan of one part); every dump
   of every part gets exactly one index; and the concatenated index sensor exists, is well formed, starts at dump 0
   and expands to exactly this per-dump list. *)
Theorem C03_concat_numbering : forall w (cs : list cdz),
  Forall (fun c => Categorical.WF c /\ Categorical.start0 c /\ Categorical.idx c <> []) cs ->
  let parts := map index_cd cs in
  numbered (ScansConcat.run_on_dumps w parts) = true
  /\ ScansConcat.separated (map (Categorical.expand zd) (ScansConcat.run_on_parts w parts))
  /\ List.length (ScansConcat.run_on_dumps w parts) = list_sum (map Categorical.ndumps cs)
  /\ (forall c, ScansConcat.concat_index w parts = Some c ->
        Categorical.WF c /\ Categorical.start0 c /\ Categorical.expand zd c = ScansConcat.run_on_dumps w parts).
Proof. exact ScansConcatP.concat_numbering_formats. Qed.
Print Assumptions C03_concat_numbering.

(* the decidable form of `separated` evaluated on the model output for every generated concatenation means what it
   says *)
Theorem C03_concat_separatedb_sound : forall ls, ScansConcat.separatedb ls = true -> ScansConcat.separated ls.
Proof. exact ScansConcatP.separatedb_sound. Qed.
Print Assumptions C03_concat_separatedb_sound.

(* non-vacuity, and why the offset has to advance by the number of scans a part HAS: two parts of two scans each
   give 0 0 1 1 2 2 3 3; advancing the offset by one instead (e.g. because only one scan of the first part was
   selected when it was concatenated) gives 0 0 1 1 1 1 2 2 - two physical scans share number 1 *)
Theorem C03_concat_example :
  ScansConcat.index_part ScansConcatP.ex_part
  /\ ScansConcat.run_on_dumps WScans [ScansConcatP.ex_part; ScansConcatP.ex_part] = [0; 0; 1; 1; 2; 2; 3; 3]
  /\ List.concat (map (Categorical.expand zd) [ScansConcat.shift_cd 0 ScansConcatP.ex_part; ScansConcat.shift_cd 1 ScansConcatP.ex_part])
     = [0; 0; 1; 1; 1; 1; 2; 2]
  /\ ScansConcat.separatedb (map (Categorical.expand zd) [ScansConcat.shift_cd 0 ScansConcatP.ex_part; ScansConcat.shift_cd 1 ScansConcatP.ex_part]) = false.
Proof. exact (conj ScansConcatP.ex_index_part (conj ScansConcatP.ex_run_on ScansConcatP.ex_too_small_collides)). Qed.
Print Assumptions C03_concat_example.

(* ================================================================================================================ *)
(* THE STORED ATTRIBUTES scan_indices / compscan_indices / target_indices (property anchor "state": "indices present in the
   current selection").  Model/ScansIdx.v keeps them as part of the state: select() assigns them in its last statements
   (translated table sel_indices_attrs), `_set_keep(old_timekeep.copy())` after a yield does NOT, the generators read the
   STORED values (`self.scan_indices[:]`, `self.target_indices[0]`). *)
From KV Require Model.ScansIdx Proofs.ScansIdxP.
Import ScansIdx ScansIdxP.

(* what "fresh" means: the three attributes by name are indices_of of the per-dump index sensors over the CURRENT time mask;
   indices_of = strictly increasing (sorted, duplicate-free) and exactly the indices of the dumps kept *)
Theorem C03_index_lists_mean : forall o x, fresh o x ->
  xattr "scan_indices" x = indices_of d_scan o (tk (x_st x))
  /\ xattr "compscan_indices" x = indices_of d_cscan o (tk (x_st x))
  /\ xattr "target_indices" x = indices_of d_target o (tk (x_st x)).
Proof. exact fresh_means. Qed.
Print Assumptions C03_index_lists_mean.
Theorem C03_indices_of_mean : forall f o m,
  StronglySorted Z.lt (indices_of f o m)
  /\ forall i, In i (indices_of f o m) <-> exists p d, nth_error (o_dumps o) p = Some d /\ nth p m false = true /\ f d = i.
Proof. exact indices_of_means. Qed.
Print Assumptions C03_indices_of_mean.

(* REFINEMENT.  For every observation, both generators, every body on the extended state that refines a body on the plain
   state, started on fresh attributes: the generator reading STORED attributes does exactly what `iterate` (where they are
   computed on demand) does - same yields, same final state, same error -, the attributes the consumer sees at every yield
   are fresh, and they are fresh after exhaustion (also when nothing was selected: the final select() recomputes them).
   So all theorems above about `iterate` are theorems about the generator with stored attributes. *)
Theorem C03_index_lists_refinement : forall B (O : sobs) w (xbody : xst -> res (B * xst)) body, refines (so O) xbody body ->
  forall x, fresh (so O) x ->
  match xiterate O w xbody x with
  | Ok (ys, ix, xf) => iterate O w body (x_st x) = Ok (ys, x_st xf) /\ fresh (so O) xf /\ yields_fresh (so O) ys ix
  | Err e => iterate O w body (x_st x) = Err e
  end.
Proof. exact xiterate_refines. Qed.
Print Assumptions C03_index_lists_refinement.

(* nesting closes (a generator run to exhaustion is a refining body), and so do bodies made of select() calls *)
Theorem C03_index_lists_nesting : forall O w, refines (so O) (xiterate_plain O w) (iterate_plain O w).
Proof. exact xiterate_plain_refines. Qed.
Print Assumptions C03_index_lists_nesting.
Theorem C03_index_lists_selecting_body : forall O calls, refines (so O) (xbody_calls O calls) (body_calls_u O calls).
Proof. exact xbody_calls_refines. Qed.
Print Assumptions C03_index_lists_selecting_body.

(* abandoned iteration: same state as iterate_break, attributes fresh (they describe the abandoned item) *)
Theorem C03_index_lists_abandoned : forall B (O : sobs) w (xbody : xst -> res (B * xst)) body, refines (so O) xbody body ->
  forall n x, fresh (so O) x ->
  match xiterate_break O w xbody n x with
  | Ok (ys, a, xf) => iterate_break O w body n (x_st x) = Ok (ys, a, x_st xf) /\ fresh (so O) xf
  | Err e => iterate_break O w body n (x_st x) = Err e
  end.
Proof. exact xiterate_break_refines. Qed.
Print Assumptions C03_index_lists_abandoned.

(* INVARIANT OVER HISTORIES.  After EVERY sequence of select() calls, complete iterations (plain, nested either way, with a
   body that calls select()) and abandoned iterations, starting from a freshly opened data set: the model with stored
   attributes went through the states of the plain model, and the three stored attributes are the sorted duplicate-free
   indices present in the current time selection. *)
Theorem C03_index_lists_after_every_history : forall O ops x', xrun O (xinit (so O)) ops = Some x' ->
  run O (init (so O)) ops = Some (x_st x')
  /\ xattr "scan_indices" x' = indices_of d_scan (so O) (tk (x_st x'))
  /\ xattr "compscan_indices" x' = indices_of d_cscan (so O) (tk (x_st x'))
  /\ xattr "target_indices" x' = indices_of d_target (so O) (tk (x_st x')).
Proof. exact index_lists_after_every_history. Qed.
Print Assumptions C03_index_lists_after_every_history.

(* non-vacuity and the boundary: on the 12-dump example (scans 2,3,4 selected) the attributes ARE stale while the generator
   is suspended between two items (old mask back, attributes of item 2) - a state no consumer can observe -, fresh at every
   yield and after exhaustion *)
Theorem C03_index_lists_stale_example :
  fresh (so ex_O) ex_x
  /\ xattr "scan_indices" ex_x = [2; 3; 4]
  /\ (exists xb, xbetween ex_O WScans ex_x = Some xb /\ positions (tk (x_st xb)) = [5; 6; 7; 8; 9]
        /\ xattr "scan_indices" xb = [2] /\ xattr "target_indices" xb = [1] /\ freshb (so ex_O) xb = false)
  /\ (exists ys ix xf, xiterate ex_O WScans xno_body ex_x = Ok (ys, ix, xf)
        /\ map (fun t => map snd t) ix = [[[2]; [0]; [1]]; [[3]; [1]; [1]]; [[4]; [1]; [0]]]
        /\ map snd (x_idx xf) = [[2; 3; 4]; [0; 1]; [0; 1]] /\ freshb (so ex_O) xf = true).
Proof. exact stale_between_items. Qed.
Print Assumptions C03_index_lists_stale_example.
