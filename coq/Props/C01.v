(* C01 — Selected data are the stored samples at the selected coordinates (all formats).  Only statements here.
   Model / spec / wire: Model/DataSet.v (on top of Model/Select.v, Base/NdArray.v, Model/Flags.v);
   proofs: Proofs/DataSetBaseP.v, DataSetP.v, DataSetTopP.v, DataSetExP.v, DataSetSensP.v;
   data sets opened with a preselection: Model/DataSetPre.v, Proofs/DataSetPreP.v (time / frequency axes: C17's
   Model/TimeFreq.v, Proofs/TimeFreqP.v, imported unchanged).

   Reading guide.  [run c (start c) h = Some d]: the history h of select() calls, indexer acquisitions
   (x = d.vis | d.flags | d.weights | d.raw_flags | d.timestamps), reads and observations was carried out from the
   freshly opened data set c (any format, any numbers of dumps / channels / products, any scan structure, duplicate
   final dump, sideband, ...) and led to state d.  S is the stored array as an arbitrary tree: the theorems hold for
   every stored content.  [get t [i; j; l]] is the element of t at that multi-index.  dumps / channels / cp_idx of a
   selection state are the data set's dumps, channels and the positions of its corr_products. *)
From Coq Require Import ZArith QArith List Bool String.
From KV Require Import Base.Sx Base.Str Base.SelSlice Base.PySlice Base.AxisIndex Base.NdArray Gen.Generated
  Model.Flags Model.DataSet Proofs.DataSetBaseP Proofs.DataSetP Proofs.DataSetTopP Proofs.DataSetExP
  Proofs.DataSetSensP Model.DataSetPre Proofs.DataSetPreP
  Model.DataSetFreq Proofs.DataSetFreqP Model.DataSetDims Proofs.DataSetDimsP Model.DataSetWin Proofs.DataSetWinP.
From KV Require Model.Select Proofs.SelectP Model.TimeFreq Proofs.TimeFreqP Model.SelectX Proofs.SelectXRefP.
Import ListNotations.
Open Scope Z_scope.

(* ------------------------------------------------------------------ tie to the source (translator) *)

(* The public attributes recomputed at the end of DataSet.select in /repo are the ones modelled: shape = the three
   mask sums, dumps / channels = nonzero, freqs / corr_products = full[mask]. *)
Theorem C01_attributes_are_the_modelled_ones :
  ds_attr_table = [("shape", ("sum", "_time_keep,_freq_keep,_corrprod_keep"));
                   ("dumps", ("nonzero", "_time_keep")); ("channels", ("nonzero", "_freq_keep"));
                   ("freqs", ("index", "_freq_keep")); ("corr_products", ("index", "_corrprod_keep"))]%string.
Proof. exact attr_table_documented. Qed.
Print Assumptions C01_attributes_are_the_modelled_ones.

(* Syntactic snapshot discipline of the source: no closure created by an indexer-producing property / method refers to
   `self`; the mutable masks and selections are copied (v1 corrprod mask, v4 flag selection, DaskLazyIndexer.keep,
   LazyIndexer lookup); the duplicate final dump is padded away at the three sites. *)
Theorem C01_source_snapshot_discipline :
  forallb snd snapshot_closures_free_of_self = true /\ forallb snd snapshot_copies = true
  /\ forallb snd dup_final_dump_padded = true
  /\ map fst snapshot_copies = ["H5DataV1.corrprod_keep"; "VisibilityDataV4.flags_select"; "DaskLazyIndexer.keep";
                                "LazyIndexer.lookup"]%string
  /\ map fst dup_final_dump_padded = ["H5DataV2.timestamps"; "H5DataV2._vislike_indexer";
                                      "H5DataV3._vislike_indexer"]%string.
Proof. exact snapshot_static. Qed.
Print Assumptions C01_source_snapshot_discipline.

(* ------------------------------------------------------------------ the documented conversions *)

(* timestamps (linear forms re-translated from the source): v1 ms -> s + half a dump; v2 start -> mid-dump;
   v3 + half a CBF dump unless centroid; v4 as served by the data source; all plus time_offset (v4: already added) *)
Theorem C01_conv_timestamps : forall c t,
  (c_fmt c = V1 -> conv_t c t == (1 # 1000) * t + (1 # 2) * c_dump c + c_off c)%Q
  /\ (c_fmt c = V2 -> conv_t c t == t + (1 # 2) * c_dump c + c_off c)%Q
  /\ (c_fmt c = V3 -> conv_t c t == t + (if c_centroid c then 0 else (1 # 2) * c_cbf_dump c) + c_off c)%Q
  /\ (c_fmt c = V4 -> conv_t c t == t)%Q.
Proof. exact conv_t_forms. Qed.
Print Assumptions C01_conv_timestamps.

(* visibilities: conjugated in v1 and v2, in v3 iff lower sideband, never in v4 *)
Theorem C01_conv_vis : forall c s,
  conv_of c s KVis = CVis (match c_fmt c with V1 | V2 => true | V3 => negb (c_upper c) | V4 => false end).
Proof. exact conv_vis. Qed.
Print Assumptions C01_conv_vis.

(* flags: bool ((stored AND mask) <> 0) with the mask of the documented names of the flag selection (C16): bit i =
   i-th name for v3 / v4, reversed for v2; v1 has no flags *)
Theorem C01_conv_flags : forall c s,
  conv_of c s KFlags = CFlags (match c_fmt c with
                               | V1 => 0
                               | V2 => spec_mask_v2 (spec_wanted (atom_arg c (Select.flk s)))
                               | V3 | V4 => spec_mask_v34 (spec_wanted (atom_arg c (Select.flk s))) end).
Proof. exact conv_flags. Qed.
Print Assumptions C01_conv_flags.

(* weights: stored (v4 always; v2 / v3 iff the weight selection names 'precision'), else 1.0 (v1 always) *)
Theorem C01_conv_weights : forall c s,
  conv_of c s KWeights = CWeights (match c_fmt c with
                                   | V1 => false
                                   | V2 | V3 => weights_on ["precision"%string] (atom_arg c (Select.wk s))
                                   | V4 => true end).
Proof. exact conv_weights. Qed.
Print Assumptions C01_conv_weights.

(* the conversions of the model (re-translated from the source) ARE the documented ones (the spec side of the wire) *)
Theorem C01_conv_is_documented : forall c s k t,
  conv_of c s k = spec_conv_of c s k /\ (conv_t c t == spec_conv_t c t)%Q.
Proof. intros c s k t. exact (conj (conv_is_spec c s k) (conv_t_is_spec c t)). Qed.
Print Assumptions C01_conv_is_documented.

(* ------------------------------------------------------------------ C01_elements (full strength) *)

(* For every data set c, every stored content S, every history h1, every kind of three-axis indexer acquired after
   h1, EVERY continuation h2 (further select() calls of any kind, acquisitions, reads) and every second-stage index
   ix2 that is answered: the indexer found in the table still has the kind and the conversion of the selection in
   force at its acquisition, the answer has the shape (|pt|, |pf|, |pb|) of the positions ix2 resolves to on the
   acquisition-time selection, and its element (i, j, l) is the stored sample at
   (dumps[pt[i]], channels[pf[j]], corr_products[pb[l]]) -- dumps, channels, corr_products being those of the data set
   WHEN THE INDEXER WAS ACQUIRED, whatever h2 did afterwards. *)
Theorem C01_elements : forall c S h1 k h2 d1 d2 ix2 out, cfg_ok c -> k <> KTime ->
  run c (start c) h1 = Some d1 ->
  run c (start c) (h1 ++ OAcquire k :: h2) = Some d2 ->
  index_op S d2 (List.length (ds_ixs d1)) ix2 = Ok out ->
  let s := ds_sel d1 in
  (exists x, nth_error (ds_ixs d2) (List.length (ds_ixs d1)) = Some x /\ ix_kind x = k /\ ix_conv x = conv_of c s k)
  /\ exists pt pf pb,
       resolve_keep (zlen (dumps s)) (ix_at ix2 3 0) = Ok pt
       /\ resolve_keep (zlen (channels s)) (ix_at ix2 3 1) = Ok pf
       /\ resolve_keep (zlen (cp_idx s)) (ix_at ix2 3 2) = Ok pb
       /\ nd_shape out = [zlen pt; zlen pf; zlen pb]
       /\ forall i j l, 0 <= i < zlen pt -> 0 <= j < zlen pf -> 0 <= l < zlen pb ->
            get (nd_body out) [i; j; l]
            = get S [znth (dumps s) (znth pt i); znth (channels s) (znth pf j); znth (cp_idx s) (znth pb l)].
Proof. exact elements_history. Qed.
Print Assumptions C01_elements.

(* the same for the timestamps indexer (v1 / v2; v3 / v4 serve an array, which is its own snapshot) *)
Theorem C01_elements_timestamps : forall c S h1 h2 d1 d2 ix2 out, cfg_ok c ->
  run c (start c) h1 = Some d1 ->
  run c (start c) (h1 ++ OAcquire KTime :: h2) = Some d2 ->
  index_op S d2 (List.length (ds_ixs d1)) ix2 = Ok out ->
  let s := ds_sel d1 in
  exists pt,
    resolve_keep (zlen (dumps s)) (ix_at ix2 1 0) = Ok pt
    /\ nd_shape out = [zlen pt]
    /\ forall i, 0 <= i < zlen pt -> get (nd_body out) [i] = get S [znth (dumps s) (znth pt i)].
Proof. exact time_elements_history. Qed.
Print Assumptions C01_elements_timestamps.

(* On labels (what crosses the wire): whenever the executable model answers, the answer is exactly the shape and the
   C-order positions (dumps[.] * F + channels[.]) * B + corr_products[.] computed by the executable spec from the
   acquisition-time selection -- so a behavioural disagreement with the model IS a disagreement with the spec. *)
Theorem C01_model_is_spec : forall c h1 k h2 d1 d2 ix2 out x, cfg_ok c ->
  run c (start c) h1 = Some d1 ->
  run c (start c) (h1 ++ OAcquire k :: h2) = Some d2 ->
  nth_error (ds_ixs d2) (List.length (ds_ixs d1)) = Some x ->
  index (stored_labels x) x ix2 = Ok out ->
  spec_index c (ds_sel d1) k ix2 = Ok (nd_shape out, flatten (nd_body out)).
Proof. exact model_is_spec_history. Qed.
Print Assumptions C01_model_is_spec.

(* the coordinates are coordinates: increasing positions inside the stored axes *)
Theorem C01_coordinates : forall c h d, run c (start c) h = Some d ->
  let s := ds_sel d in
  in_range (nT c) (dumps s) /\ in_range (nF c) (channels s) /\ in_range (nB c) (cp_idx s)
  /\ increasing (dumps s) = true /\ increasing (channels s) = true /\ increasing (cp_idx s) = true.
Proof. exact coordinates_history. Qed.
Print Assumptions C01_coordinates.

(* link with C05 / C04: for the formats with one underlying dataset (v2, v3, v4) the model IS
   dataset[first-stage masks][ix2] under outer indexing, i.e. the spec that C05 proves of LazyIndexer and C04 of
   DaskLazyIndexer, applied to the first-stage index handed over by the format glue (time mask padded for a duplicate
   final dump, frequency mask, corrprod mask) *)
Theorem C01_single_dataset_formats_are_two_stage_outer_indexing : forall c S s k ix2, c_fmt c <> V1 ->
  let x := acquire c s k in
  exists n m, ix_rows x = [n] /\ ix_tmasks x = [m]
    /\ index S x ix2 = (a1 <- oindex_keep (mk_nd (n :: ix_dims x) S) (map AMask (m :: ix_tail x)) ;; oindex_keep a1 ix2).
Proof. exact single_dataset_two_stage. Qed.
Print Assumptions C01_single_dataset_formats_are_two_stage_outer_indexing.

(* ------------------------------------------------------------------ C01_shape (full strength) *)

(* After every history: shape = (|dumps|, |channels|, |corr_products|) = (len timestamps, len freqs, len corr_products)
   = the shape advertised by an indexer of any kind acquired now = the shape of x[:], which always exists. *)
Theorem C01_shape : forall c h d, cfg_ok c -> run c (start c) h = Some d ->
  let s := ds_sel d in
  shape s = [zlen (dumps s); zlen (channels s); zlen (cp_idx s)]
  /\ (stored_rows c <= zlen (c_ts c) -> zlen (timestamps c s) = zlen (dumps s))
  /\ (forall A (full : list A), zlen full = nF c -> zlen (freqs full s) = zlen (channels s))
  /\ zlen (corr_products c s) = zlen (cp_idx s)
  /\ (forall A (full : list A), zlen full = nT c -> zlen (sensor full s) = zlen (dumps s))
  /\ forall k, let x := acquire c s k in
       adv_shape x = (match k with KTime => [zlen (dumps s)] | _ => shape s end)
       /\ forall S, exists out, index S x [] = Ok out /\ nd_shape out = adv_shape x.
Proof. exact shape_history. Qed.
Print Assumptions C01_shape.

(* ... and an indexer acquired earlier keeps advertising and delivering the shape of ITS selection after any
   continuation of the history *)
Theorem C01_shape_snapshot : forall c h1 k h2 d1 d2, cfg_ok c ->
  run c (start c) h1 = Some d1 ->
  run c (start c) (h1 ++ OAcquire k :: h2) = Some d2 ->
  exists x, nth_error (ds_ixs d2) (List.length (ds_ixs d1)) = Some x
    /\ adv_shape x = (match k with KTime => [zlen (dumps (ds_sel d1))] | _ => shape (ds_sel d1) end)
    /\ forall S, exists out, index_op S d2 (List.length (ds_ixs d1)) [] = Ok out /\ nd_shape out = adv_shape x.
Proof. exact adv_shape_history. Qed.
Print Assumptions C01_shape_snapshot.

(* ------------------------------------------------------------------ C01_labels (full strength) *)

(* After every history: timestamps[i] = conv_t (stored timestamp of dump dumps[i]) (the duplicate final one is never
   served), freqs[j] = channel frequency of channel channels[j], a per-dump sensor array holds the values of the
   dumps in dumps, corr_products[l] = product cp_idx[l] of the subarray -- for labels of any type. *)
Theorem C01_labels : forall c h d, cfg_ok c -> run c (start c) h = Some d ->
  let s := ds_sel d in
  (zlen (c_ts c) = stored_rows c -> forall i, 0 <= i < zlen (dumps s) ->
     nth (Z.to_nat i) (timestamps c s) 0%Q = conv_t c (nth (Z.to_nat (znth (dumps s) i)) (c_ts c) 0%Q))
  /\ (forall A (full : list A) d0 j, zlen full = nF c -> 0 <= j < zlen (channels s) ->
        nth (Z.to_nat j) (freqs full s) d0 = nth (Z.to_nat (znth (channels s) j)) full d0)
  /\ (forall A (full : list A) d0 i, zlen full = nT c -> 0 <= i < zlen (dumps s) ->
        nth (Z.to_nat i) (sensor full s) d0 = nth (Z.to_nat (znth (dumps s) i)) full d0)
  /\ (forall d0 l, 0 <= l < zlen (cp_idx s) ->
        nth (Z.to_nat l) (corr_products c s) d0 = nth (Z.to_nat (znth (cp_idx s) l)) (Select.o_cps (c_obs c)) d0).
Proof. exact labels_history. Qed.
Print Assumptions C01_labels.

(* the timestamps served are, dump by dump, the DOCUMENTED conversion of the stored timestamps of the dumps in
   [dumps] (the spec side of the wire), after every history *)
Theorem C01_timestamps_documented : forall c h d, cfg_ok c -> run c (start c) h = Some d ->
  zlen (c_ts c) = stored_rows c ->
  Forall2 Qeq (timestamps c (ds_sel d)) (spec_timestamps c (ds_sel d)).
Proof. intros c h d Hc H. exact (timestamps_is_spec c (ds_sel d) Hc (run_wf c h d H)). Qed.
Print Assumptions C01_timestamps_documented.

(* ------------------------------------------------------------------ per-dump sensors are evaluated AT the timestamps *)

(* tie: the time array that each format's __init__ leaves in its SensorCache, as re-translated from /repo: v1 the
   data set's own timestamps property (everything selected), v2 a LazyIndexer over the stored timestamps without the
   duplicate final dump with the SAME linear form as H5DataV2.timestamps, v3 / v4 the very array that the timestamps
   property masks.  (A conditional / missing restore statement, another array or another linear form breaks this.) *)
Theorem C01_sensor_grid_source :
  grid_of V1 = GProperty /\ grid_of V2 = GStoredPrefix tconv_v2 /\ grid_of V3 = GSameArray /\ grid_of V4 = GSameArray.
Proof. exact grid_translated. Qed.
Print Assumptions C01_sensor_grid_source.

(* for every data set of every format: sensor.timestamps[:] (the grid on which sensors, virtual sensors and
   select(timerange=) are evaluated) IS d.timestamps[:] with everything selected -- irregular grids included, the
   theorem quantifies over every list of stored timestamps *)
Theorem C01_sensor_cache_holds_the_timestamps : forall c, cfg_ok c -> zlen (c_ts c) = stored_rows c ->
  cache_ts c = timestamps c (Select.init (c_obs c)).
Proof. exact cache_is_timestamps. Qed.
Print Assumptions C01_sensor_cache_holds_the_timestamps.

(* after every history, for every sensor evaluated dump by dump (g = the interpolated stored history of a numeric
   sensor, the MJD / LST of the time, az / el ...): d.sensor[name] = g at d.timestamps, element by element -- the values
   of the SAME dumps *)
Theorem C01_sensors_at_dataset_timestamps : forall A (g : Q -> A) c h d, cfg_ok c -> run c (start c) h = Some d ->
  zlen (c_ts c) = stored_rows c ->
  sensor_eval (map g) c (ds_sel d) = map g (timestamps c (ds_sel d)).
Proof. exact @sensors_history. Qed.
Print Assumptions C01_sensors_at_dataset_timestamps.

(* ... and for a sensor whose per-dump values depend on the whole grid (categorical sensors: events aligned with the
   dumps): element i is the value that the data set's full timestamps give to dump dumps[i] *)
Theorem C01_sensors_of_selected_dumps : forall A (G : list Q -> list A) (d0 : A) c h d i, cfg_ok c ->
  run c (start c) h = Some d -> zlen (c_ts c) = stored_rows c ->
  zlen (G (timestamps c (Select.init (c_obs c)))) = nT c -> 0 <= i < zlen (dumps (ds_sel d)) ->
  nth (Z.to_nat i) (sensor_eval G c (ds_sel d)) d0
  = nth (Z.to_nat (znth (dumps (ds_sel d)) i)) (G (timestamps c (Select.init (c_obs c)))) d0.
Proof. exact @sensors_gridwise_history. Qed.
Print Assumptions C01_sensors_of_selected_dumps.

(* non-vacuity / why the restore statements of v1 and v2 matter: a v2 file whose first and last dumps are on the uniform
   grid (the "quick test for uniform spacing" passes: last - first = (T - 1) dump periods) but whose second dump is
   half a second late: the estimated grid first + dump * arange(T) that the cache holds while the scans are built is
   101, 103, 105, 107, the data set's timestamps (and the cache after __init__) are 101, 103.5, 105, 107 *)
Theorem C01_estimated_grid_is_not_the_timestamps :
  cfg_ok ex_late
  /\ (nth 3 (c_ts ex_late) 0 - nth 0 (c_ts ex_late) 0 == inject_Z (nT ex_late - 1) * c_dump ex_late)%Q
  /\ timestamps ex_late (Select.init (c_obs ex_late)) = map (conv_t ex_late) [100; 102 + (1 # 2); 104; 106]%Q
  /\ cache_ts ex_late = map (conv_t ex_late) [100; 102 + (1 # 2); 104; 106]%Q
  /\ map Qred (grid_ts GSynth ex_late) = [101; 103; 105; 107]%Q
  /\ map Qred (cache_ts ex_late) = [101; 103 + (1 # 2); 105; 107]%Q.
Proof. exact estimated_grid_differs. Qed.
Print Assumptions C01_estimated_grid_is_not_the_timestamps.

(* select(timerange=(a, b)) (dataset.py:771-772 compares sensor.timestamps[:], C02's timerange_mask): when the dump
   times of the select() model are the cache's times (unit u after t0 -- the harness derives them from the STORED
   timestamps), a dump is kept iff its DATA SET timestamp lies in [a + dump / 2, b - dump / 2] *)
Theorem C01_timerange_on_dataset_timestamps : forall c t0 u lo hi, cfg_ok c -> zlen (c_ts c) = stored_rows c ->
  (0 < u)%Q -> obs_times_ok c t0 u ->
  Forall2 (fun (b : bool) (t : Q) =>
             b = true <-> (t0 + inject_Z (lo + Select.o_half (c_obs c)) * u <= t
                           /\ t <= t0 + inject_Z (hi - Select.o_half (c_obs c)) * u)%Q)
          (Select.timerange_mask (c_obs c) lo hi) (timestamps c (Select.init (c_obs c))).
Proof. exact timerange_on_timestamps. Qed.
Print Assumptions C01_timerange_on_dataset_timestamps.

(* non-vacuity: the late-dump file with times in half seconds after 101: timerange (102.5, 107) keeps the late dump 1
   (mid-dump 103.5) and dump 2 *)
Theorem C01_timerange_example : obs_times_ok ex_late 101 (1 # 2)
  /\ Select.timerange_mask (c_obs ex_late) 3 12 = [false; true; true; false].
Proof. exact ex_late_times_ok. Qed.
Print Assumptions C01_timerange_example.

(* FINDING C01r-F1 (open, by design of the v1 / v2 readers): sensors that are extracted WHILE __init__ partitions the
   data set into scans (v2: activity and target of the reference antenna, the labels; hence Observation/scan_state,
   scan_index, label, compscan_index, target) are aligned with the array the cache holds at that moment
   [construction_ts]: the estimate first + dump_period * arange(T) whenever |(last - first) / dump + 1 - T| < 1/100
   (thresholds and branch structure re-translated from the source).  Full-strength statement refuted, partial one
   proved: *)
Theorem C01_construction_grid_refuted :
  exists c, cfg_ok c /\ zlen (c_ts c) = stored_rows c /\ quick_test c (1, 100) = true
    /\ construction_ts c <> timestamps c (Select.init (c_obs c)).
Proof. exact construction_refuted. Qed.
Print Assumptions C01_construction_grid_refuted.

Theorem C01_construction_grid_partial : forall c, cfg_ok c -> zlen (c_ts c) = stored_rows c ->
  c_fmt c = V3 \/ c_fmt c = V4 \/ quick_test c (1, 100) = false ->
  construction_ts c = timestamps c (Select.init (c_obs c)).
Proof. exact construction_partial. Qed.
Print Assumptions C01_construction_grid_partial.

(* ------------------------------------------------------------------ non-vacuity, one example per format quirk *)

(* v1: scan groups of 2 + 3 dumps, milliseconds, conjugation; the indexer acquired under dumps 1..3 / 4 products keeps
   them after select(ants=..., reset='') and select(channels=...) *)
Theorem C01_example_v1 :
  cfg_ok ex_v1
  /\ read ex_v1 ex_h1 0 [full; AInt 1] = Some ([3; 1; 4], [16; 17; 18; 19; 28; 29; 30; 31; 40; 41; 42; 43])
  /\ read ex_v1 ex_h1 1 [] = Some ([3], [1; 2; 3])
  /\ final_shape ex_v1 ex_h1 = Some [3; 2; 2]
  /\ option_map (fun d => timestamps ex_v1 (ds_sel d)) (run ex_v1 (start ex_v1) ex_h1)
     = Some (map (conv_t ex_v1) [102000; 104000; 106000]%Q)
  /\ (conv_t ex_v1 102000 == 103)%Q
  /\ conv_of ex_v1 (Select.init ex_obs) KVis = CVis true.
Proof. exact example_v1. Qed.
Print Assumptions C01_example_v1.

(* v2 with a duplicate final dump; flags / weights indexers keep their flag / weight selection *)
Theorem C01_example_v2 :
  stored_rows ex_v2 = 6
  /\ read ex_v2 ex_h2 0 [ASlice (Some 3) None None; AInt 0; AInt 0] = Some ([2; 1; 1], [36; 48])
  /\ read ex_v2 ex_h2 1 [] = Some ([5], [0; 1; 2; 3; 4])
  /\ option_map (fun d => map ix_conv (ds_ixs d)) (run ex_v2 (start ex_v2) ex_h2)
     = Some [CVis true; CTime; CFlags 255; CWeights true; CFlags 32; CWeights false]
  /\ (conv_t ex_v2 100 == 101)%Q.
Proof. exact example_v2. Qed.
Print Assumptions C01_example_v2.

(* v3: sidebands, centroid / start timestamps, duplicate final dump, negative second-stage integer *)
Theorem C01_example_v3 :
  conv_of ex_v3 (Select.init ex_obs) KVis = CVis true /\ conv_of ex_v3u (Select.init ex_obs) KVis = CVis false
  /\ (conv_t ex_v3 100 == 100)%Q /\ (conv_t ex_v3u 100 == 100 + (1 # 4))%Q
  /\ read ex_v3 [OSelect kw_chan; OAcquire KWeights; OSelect []] 0 [AInt (-1)]
     = Some ([1; 2; 4], [48; 49; 50; 51; 56; 57; 58; 59])
  /\ read ex_v3 [OAcquire KTime] 0 [] = Some ([5], [0; 1; 2; 3; 4])
  /\ option_map (fun d => map ix_conv (ds_ixs d))
       (run ex_v3 (start ex_v3) [OAcquire KFlags; OSelect kw_flags_cam; OAcquire KFlags])
     = Some [CFlags 255; CFlags 4].
Proof. exact example_v3. Qed.
Print Assumptions C01_example_v3.

(* v4: mask / unsorted list / strided slice as second-stage index on raw flags *)
Theorem C01_example_v4 :
  conv_of ex_v4 (Select.init ex_obs) KVis = CVis false /\ (conv_t ex_v4 100 == 100)%Q
  /\ read ex_v4 [OSelect kw_dumps; OAcquire KRaw; OSelect []]
       0 [AMask [true; false; true]; AList [2; 0]; ASlice None None (Some 2)]
     = Some ([2; 2; 2], [20; 22; 12; 14; 44; 46; 36; 38])
  /\ final_shape ex_v4 [OSelect kw_dumps; OAcquire KRaw; OSelect []] = Some [5; 3; 4].
Proof. exact example_v4. Qed.
Print Assumptions C01_example_v4.

(* ------------------------------------------------------------------ the code before the repairs (F8, F17) *)

(* F8 (v1): with the live reference to _corrprod_keep the indexer acquired under 4 products followed the later
   select(ants=..., reset='') and answered with 2 -- the snapshot clause of the property was violated *)
Theorem C01_snapshot_refuted_before_fix_v1 :
  live_read ex_v1 ex_h1 0 [full; AInt 1] = Some ([3; 1; 2], [16; 17; 28; 29; 40; 41])
  /\ read ex_v1 ex_h1 0 [full; AInt 1] = Some ([3; 1; 4], [16; 17; 18; 19; 28; 29; 30; 31; 40; 41; 42; 43]).
Proof. exact snapshot_refuted_before_fix_v1. Qed.
Print Assumptions C01_snapshot_refuted_before_fix_v1.

(* F8 (v2 / v3): flags / weights transforms read the current selection *)
Theorem C01_snapshot_refuted_before_fix_v23 :
  option_map (fun d => map (fun x => ix_conv (live ex_v3 (ds_sel d) x)) (ds_ixs d))
    (run ex_v3 (start ex_v3) [OAcquire KFlags; OAcquire KWeights; OSelect kw_flags_cam; OSelect kw_weights_none])
  = Some [CFlags 4; CWeights false]
  /\ option_map (fun d => map ix_conv (ds_ixs d))
    (run ex_v3 (start ex_v3) [OAcquire KFlags; OAcquire KWeights; OSelect kw_flags_cam; OSelect kw_weights_none])
  = Some [CFlags 255; CWeights true].
Proof. exact snapshot_refuted_before_fix_v23. Qed.
Print Assumptions C01_snapshot_refuted_before_fix_v23.

(* F17 (v2, duplicate final dump): the unpadded time mask was used as integer positions: wrong timestamps for the
   selection "second of two dumps", an exception for every selection that is not strictly increasing as 0 / 1 *)
Theorem C01_timestamps_refuted_before_fix :
  (match Select.select ex_obs2 (Select.init ex_obs2) kw_dump1 with
   | Select.Ok s => labels_of (index_time_prefix ex_v2_f17 s (arange [3] 0) [])
   | _ => None end) = Some ([2], [0; 1])
  /\ read ex_v2_f17 [OSelect kw_dump1; OAcquire KTime] 0 [] = Some ([1], [1])
  /\ labels_of (index_time_prefix ex_v2_f17 (Select.init ex_obs2) (arange [3] 0) []) = None.
Proof. exact timestamps_refuted_before_fix. Qed.
Print Assumptions C01_timestamps_refuted_before_fix.

(* ------------------------------------------------------------------ v4 data sets opened WITH a preselection *)

(* Reading guide.  [st] describes what is stored: (s_T, s_F, s_B) chunk-store arrays and the telstate attributes of the
   two axes.  [open_pre st pd pc = Some o]: katdal.open(..., preselect = dict(dumps = pd, channels = pc)) (a key may
   be absent; bounds may be None / negative: slice.indices) yields the subset of dumps o_a .. o_b - 1 and channels
   o_c .. o_d - 1 with the spectral window o_w = SpectralWindow.subrange (as regenerated from the source).
   [served S o] = S[o_a : o_b, o_c : o_d, :] is what the data source hands to the data set.  c is the opened data set
   ([pre_ok]: it has the shape of the subset). *)

(* which preselections open, and onto what: the normalised non-empty ranges inside the stored axes, all of them *)
Theorem C01_preselect_opens : forall st pd pc, 0 <= s_T st -> 0 < s_F st ->
  (forall o, open_pre st pd pc = Some o ->
     (o_a o, o_b o) = norm (s_T st) pd /\ (o_c o, o_d o) = norm (s_F st) pc
     /\ 0 <= o_a o /\ o_a o < o_b o /\ o_b o <= s_T st /\ 0 <= o_c o /\ o_c o < o_d o /\ o_d o <= s_F st
     /\ TimeFreq.s_n (o_w o) = o_d o - o_c o)
  /\ (fst (norm (s_T st) pd) < snd (norm (s_T st) pd) -> fst (norm (s_F st) pc) < snd (norm (s_F st) pc) ->
      exists o, open_pre st pd pc = Some o).
Proof. exact preselect_opens. Qed.
Print Assumptions C01_preselect_opens.

(* C01_elements for the opened subset, in STORED coordinates: for every stored content S, every history, every
   continuation and every answered second-stage index, element (i, j, l) of x[ix2] is the stored sample at
   (o_a + dumps[pt[i]], o_c + channels[pf[j]], corr_products[pb[l]]) -- dumps / channels / corr_products being those
   the data set reported when x was acquired *)
Theorem C01_preselect_elements : forall st o c S h1 k h2 d1 d2 ix2 out, c_fmt c = V4 -> pre_ok st o c -> k <> KTime ->
  run c (start c) h1 = Some d1 ->
  run c (start c) (h1 ++ OAcquire k :: h2) = Some d2 ->
  index_op (served S o) d2 (List.length (ds_ixs d1)) ix2 = Ok out ->
  let s := ds_sel d1 in
  exists pt pf pb,
    resolve_keep (zlen (dumps s)) (ix_at ix2 3 0) = Ok pt
    /\ resolve_keep (zlen (channels s)) (ix_at ix2 3 1) = Ok pf
    /\ resolve_keep (zlen (cp_idx s)) (ix_at ix2 3 2) = Ok pb
    /\ nd_shape out = [zlen pt; zlen pf; zlen pb]
    /\ forall i j l, 0 <= i < zlen pt -> 0 <= j < zlen pf -> 0 <= l < zlen pb ->
         get (nd_body out) [i; j; l]
         = get S [o_a o + znth (dumps s) (znth pt i); o_c o + znth (channels s) (znth pf j);
                  znth (cp_idx s) (znth pb l)].
Proof. exact pre_elements. Qed.
Print Assumptions C01_preselect_elements.

(* on labels (what crosses the wire): the executable spec answers, and every element of the model answer is the
   C-order position IN THE STORED ARRAY that the spec lists *)
Theorem C01_preselect_element_labels : forall st o c h1 k h2 d1 d2 ix2 out, c_fmt c = V4 -> pre_ok st o c ->
  k <> KTime -> o_b o <= s_T st -> o_d o <= s_F st ->
  run c (start c) h1 = Some d1 ->
  run c (start c) (h1 ++ OAcquire k :: h2) = Some d2 ->
  index_op (served (stored_labels_of st k) o) d2 (List.length (ds_ixs d1)) ix2 = Ok out ->
  let s := ds_sel d1 in
  exists pt pf pb,
    spec_index_pre st o s k ix2
    = Ok ([zlen pt; zlen pf; zlen pb],
          flat_map (fun i => flat_map (fun j => map (fun l =>
            pos3 (s_F st) (s_B st) (o_a o + znth (dumps s) i) (o_c o + znth (channels s) j) (znth (cp_idx s) l))
            pb) pf) pt)
    /\ nd_shape out = [zlen pt; zlen pf; zlen pb]
    /\ forall i j l, 0 <= i < zlen pt -> 0 <= j < zlen pf -> 0 <= l < zlen pb ->
         get (nd_body out) [i; j; l]
         = Leaf (pos3 (s_F st) (s_B st) (o_a o + znth (dumps s) (znth pt i)) (o_c o + znth (channels s) (znth pf j))
                      (znth (cp_idx s) (znth pb l))).
Proof. exact pre_element_labels. Qed.
Print Assumptions C01_preselect_element_labels.

(* the timestamps array of the subset: element i is the stored timestamp of dump o_a + dumps[pt[i]] *)
Theorem C01_preselect_elements_timestamps : forall st o c S h1 h2 d1 d2 ix2 out, c_fmt c = V4 -> pre_ok st o c ->
  run c (start c) h1 = Some d1 ->
  run c (start c) (h1 ++ OAcquire KTime :: h2) = Some d2 ->
  index_op (served1 S o) d2 (List.length (ds_ixs d1)) ix2 = Ok out ->
  let s := ds_sel d1 in
  exists pt,
    resolve_keep (zlen (dumps s)) (ix_at ix2 1 0) = Ok pt
    /\ nd_shape out = [zlen pt]
    /\ forall i, 0 <= i < zlen pt -> get (nd_body out) [i] = get S [o_a o + znth (dumps s) (znth pt i)].
Proof. exact pre_time_elements. Qed.
Print Assumptions C01_preselect_elements_timestamps.

(* "freqs are the labels of those same channels": after every history on the opened subset, d.freqs has one entry per
   channel and freqs[j] is the DOCUMENTED centre frequency center_freq + (k - n_chans // 2) * bandwidth / n_chans of the
   STORED channel k = o_c + channels[j] -- the channel whose samples C01_preselect_elements delivers at position j.
   (The window is SpectralWindow.subrange as regenerated from the source: a change of its centre-channel arithmetic
   changes Generated.gen_spw_subrange and this theorem no longer checks.) *)
Theorem C01_preselect_freqs : forall st pd pc o c h d, 0 <= s_T st -> 0 < s_F st -> open_pre st pd pc = Some o ->
  c_fmt c = V4 -> pre_ok st o c -> run c (start c) h = Some d ->
  let s := ds_sel d in
  zlen (pre_freqs o s) = zlen (channels s)
  /\ forall j, 0 <= j < zlen (channels s) ->
       (nth (Z.to_nat j) (pre_freqs o s) 0
        == TimeFreq.spec_chan_freq (s_centre st) (s_bw st) (s_F st) 1 (o_c o + znth (channels s) j))%Q.
Proof. exact pre_freq_labels. Qed.
Print Assumptions C01_preselect_freqs.

(* "timestamps are the labels of those same dumps": timestamps[i] is the documented time (sync_time + first_timestamp
   + k * int_time + time_offset, minus the CBF-dump fix of old captures: C17) of the STORED dump k = o_a + dumps[i] *)
Theorem C01_preselect_timestamps : forall st o c h d, c_fmt c = V4 -> c_dup c = false -> c_ts c = pre_ts st o ->
  pre_ok st o c -> run c (start c) h = Some d ->
  let s := ds_sel d in
  zlen (timestamps c s) = zlen (dumps s)
  /\ forall i, 0 <= i < zlen (dumps s) ->
       (nth (Z.to_nat i) (timestamps c s) 0
        == TimeFreq.spec_timestamp (s_tm st) (o_a o + znth (dumps s) i))%Q.
Proof. exact pre_timestamp_labels. Qed.
Print Assumptions C01_preselect_timestamps.

(* the stored coordinates named by a selection on the subset stay inside the preselected ranges (hence inside the
   stored axes), one per dump / channel of the data set *)
Theorem C01_preselect_coordinates : forall st pd pc o c h d, 0 <= s_T st -> 0 <= s_F st ->
  open_pre st pd pc = Some o -> pre_ok st o c -> run c (start c) h = Some d ->
  let s := ds_sel d in
  Forall (fun p => o_a o <= p < o_b o) (stored_dumps o s) /\ Forall (fun p => o_c o <= p < o_d o) (stored_channels o s)
  /\ 0 <= o_a o /\ o_b o <= s_T st /\ 0 <= o_c o /\ o_d o <= s_F st
  /\ zlen (stored_dumps o s) = zlen (dumps s) /\ zlen (stored_channels o s) = zlen (channels s).
Proof. exact pre_coordinates. Qed.
Print Assumptions C01_preselect_coordinates.

(* the configuration the wire function runs satisfies the hypotheses above by construction *)
Theorem C01_preselect_wire_cfg : forall st o c0,
  c_fmt (pre_cfg st o c0) = V4 /\ c_dup (pre_cfg st o c0) = false /\ c_ts (pre_cfg st o c0) = pre_ts st o
  /\ c_obs (pre_cfg st o c0) = c_obs c0
  /\ (pre_okb st o (pre_cfg st o c0) = true -> pre_ok st o (pre_cfg st o c0)).
Proof. exact preselect_wire_cfg. Qed.
Print Assumptions C01_preselect_wire_cfg.

(* non-vacuity: 9 stored channels (ODD), preselect channels = slice(2, -3) = 2:6 (first + last EVEN), dumps = 3:7 of 8;
   after select(channels=[1, 3], dumps=slice(1, 3)) the data set's channels [1, 3] are stored channels [3, 5] (one
   below / one above the centre channel 9 // 2 = 4 at 1284: freqs 1283, 1285), its dumps [1, 2] stored dumps [4, 5]
   (times t0 + 4 * 8, t0 + 5 * 8), and vis[0, :, 1] holds stored positions (4, 3, 1) and (4, 5, 1) *)
Theorem C01_preselect_example :
  exists o, open_pre ex_store ex_pd ex_pc = Some o
    /\ (o_a o, o_b o, o_c o, o_d o) = (3, 7, 2, 6)
    /\ pre_okb ex_store o (pre_cfg ex_store o ex_c0) = true
    /\ option_map (fun d => (stored_dumps o (ds_sel d), stored_channels o (ds_sel d)))
         (run (pre_cfg ex_store o ex_c0) (start (pre_cfg ex_store o ex_c0)) [OSelect kw_pre])
       = Some ([4; 5], [3; 5])
    /\ option_map (fun d => map Qred (pre_freqs o (ds_sel d)))
         (run (pre_cfg ex_store o ex_c0) (start (pre_cfg ex_store o ex_c0)) [OSelect kw_pre])
       = Some [1283; 1285]%Q
    /\ option_map (fun d => map Qred (spec_pre_freqs ex_store o (ds_sel d)))
         (run (pre_cfg ex_store o ex_c0) (start (pre_cfg ex_store o ex_c0)) [OSelect kw_pre])
       = Some [1283; 1285]%Q
    /\ option_map (fun d => map Qred (timestamps (pre_cfg ex_store o ex_c0) (ds_sel d)))
         (run (pre_cfg ex_store o ex_c0) (start (pre_cfg ex_store o ex_c0)) [OSelect kw_pre])
       = Some [1600000132; 1600000140]%Q
    /\ (match run (pre_cfg ex_store o ex_c0) (start (pre_cfg ex_store o ex_c0))
                [OSelect kw_pre; OAcquire KVis; OSelect []] with
        | Some d => labels_of (index_op (served (stored_labels_of ex_store KVis) o) d 0 [AInt 0; full; AInt 1])
        | None => None end)
       = Some ([1; 2; 1], [pos3 9 4 4 3 1; pos3 9 4 4 5 1]).
Proof. exact example_pre. Qed.
Print Assumptions C01_preselect_example.

(* ------------------------------------------------------------------ the frequency axis of the HDF5 readers (v1, v2, v3) *)

(* Reading guide.  [a : fattrs] is what the FILE (and the open() call) says about the frequency axis; [window_of f a]
   is the SpectralWindow the reader of format f builds from it (attribute names, channel-width expression, sideband
   default, v3 receiver table, "fake UHF" rule, bandwidth workaround and the order of the centre-frequency overrides
   re-translated from the source); [spec_freq f a k] the documented frequency of stored channel k. *)

(* tie: which stored attribute feeds which SpectralWindow parameter, and the constants, as found in the source *)
Theorem C01_freq_axis_source :
  (gen_spw_default_sideband = -1 /\ gen_v1_sideband = None /\ gen_v2_sideband = None
   /\ gen_v1_freq_attrs = [("centre_freq", "center_frequency_hz"); ("channel_width", "channel_bandwidth_hz");
                           ("num_chans", "num_freq_channels")]%string
   /\ gen_v2_freq_attrs = [("num_chans", "n_chans"); ("bandwidth", "bandwidth")]%string
   /\ gen_v2_centre_sensors = ("2.1", ("RFE/center-frequency-hz", "RFE/rfe7.lo1.frequency"))%string)
  /\ (gen_v3_spw_prog = [1; 2; 3; 4; 5; 6; 7; 8; 9; 10]
      /\ gen_v3_rx_table = [("l", ("L", (Some 1284000000, 1))); ("u", ("UHF", (Some 816000000, 1)));
                            ("x", ("Ku", (None, 1)))]%string
      /\ gen_v3_rx_default = (""%string, (None, 1)) /\ gen_v3_bw_workaround = (857152196, 856000000)
      /\ gen_v3_fake_uhf = ("UHF"%string, (856000000, (428000000, -1))) /\ gen_v3_ku_band = "Ku"%string
      /\ gen_v3_default_centre = 0).
Proof. exact (conj kat7_axis_source v3_source). Qed.
Print Assumptions C01_freq_axis_source.

(* every reader builds a window (never refuses), with the channel count of the file, the lower sideband exactly when
   the documented axis is flipped, and channel k at its DOCUMENTED frequency: v1 centre - (k - n // 2) * width,
   v2 (sensor [- 4200 MHz]) - (k - n // 2) * bandwidth / n, v3 receiver table / fake UHF / L0 attribute / argument *)
Theorem C01_freq_axis_documented : forall f a, f <> V4 -> 0 < fa_n a ->
  exists w, window_of f a = Some w /\ TimeFreq.s_n w = fa_n a
    /\ TimeFreq.s_side w = (if spec_lower f a then -1 else 1)
    /\ forall k, (TimeFreq.chan_freq w k == spec_freq f a k)%Q.
Proof. exact axis_documented. Qed.
Print Assumptions C01_freq_axis_documented.

(* "freqs are the labels of those same channels", v1 / v2 / v3: after every history d.freqs has one entry per channel
   and freqs[j] is the documented frequency of STORED channel channels[j] (the channel C01_elements delivers at j) *)
Theorem C01_freqs_documented : forall f a w c h d, f <> V4 -> 0 < fa_n a -> window_of f a = Some w -> cfg_ok c ->
  nF c = fa_n a -> run c (start c) h = Some d ->
  let s := ds_sel d in
  zlen (axis_freqs w s) = zlen (channels s)
  /\ forall j, 0 <= j < zlen (channels s) ->
       (nth (Z.to_nat j) (axis_freqs w s) 0 == spec_freq f a (znth (channels s) j))%Q.
Proof. exact freqs_history. Qed.
Print Assumptions C01_freqs_documented.

(* the visibilities are conjugated exactly when the window has the lower sideband = exactly when the documented axis
   is flipped (two separately translated facts meet: .conjugate() per vis property, sideband per SpectralWindow call);
   v4: upper sideband, never conjugated *)
Theorem C01_conjugation_iff_flipped_spectrum :
  (forall f a w c s, c_fmt c = f -> f <> V4 -> 0 < fa_n a -> window_of f a = Some w ->
     c_upper c = (TimeFreq.s_side w =? 1) ->
     conv_of c s KVis = CVis (TimeFreq.s_side w =? -1) /\ (TimeFreq.s_side w =? -1) = spec_lower f a)
  /\ (forall c s centre bw n, c_fmt c = V4 -> 0 < n ->
        conv_of c s KVis = CVis false /\ TimeFreq.s_side (TimeFreq.v4_spw centre bw n) = 1).
Proof. exact (conj conj_iff_lower conj_v4). Qed.
Print Assumptions C01_conjugation_iff_flipped_spectrum.

(* non-vacuity: KAT-7 axes run downwards, the LO correction of old v2 files, MeerKAT L band, "fake UHF" (with the CBF
   bandwidth bug), L0 attribute overridden by the argument, unknown band -> 0 Hz *)
Theorem C01_freq_axis_examples :
  map (fun k => Qred (spec_freq V1 (ex_fa 1822 1 4 false "" None None) k)) [0; 1; 2; 3] = [1824; 1823; 1822; 1821]%Q
  /\ option_map (fun w => map Qred (TimeFreq.freqs_full w)) (window_of V1 (ex_fa 1822 1 4 false "" None None))
     = Some [1824; 1823; 1822; 1821]%Q
  /\ option_map (fun w => map Qred (TimeFreq.freqs_full w)) (window_of V2 (ex_fa 6022000000 4 4 true "" None None))
     = Some [1822000002; 1822000001; 1822000000; 1821999999]%Q
  /\ option_map (fun w => map Qred (TimeFreq.freqs_full w)) (window_of V3 (ex_fa 0 10 5 false "l" None None))
     = Some [1283999996; 1283999998; 1284000000; 1284000002; 1284000004]%Q
  /\ option_map (fun w => (TimeFreq.s_side w, map Qred (TimeFreq.freqs_full w)))
       (window_of V3 (ex_fa 0 857152196 2 false "u" None None))
     = Some (-1, [856000000; 428000000]%Q)
  /\ spec_lower V3 (ex_fa 0 857152196 2 false "u" None None) = true
  /\ option_map (fun w => (TimeFreq.s_side w, map Qred (TimeFreq.freqs_full w)))
       (window_of V3 (ex_fa 0 544000000 2 false "u" (Some 900000000%Q) (Some 1000000000%Q)))
     = Some (1, [728000000; 1000000000]%Q)
  /\ option_map (fun w => map Qred (TimeFreq.freqs_full w)) (window_of V3 (ex_fa 0 4 2 false "s" None None))
     = Some [-(2); 0]%Q.
Proof. exact example_axes. Qed.
Print Assumptions C01_freq_axis_examples.

(* ------------------------------------------------------------------ dimensionality of answers, keepdims *)

(* tie: in /repo H5DataV2 / H5DataV3 append, as LAST transform of vis / flags / weights and iff the constructor argument
   keepdims (default False) is set, the function that re-inserts one axis per scalar item of the second-stage index
   (padded / truncated to three items) *)
Theorem C01_keepdims_source : keepdims_glue = [("H5DataV2", true); ("H5DataV3", true)]%string.
Proof. reflexivity. Qed.
Print Assumptions C01_keepdims_source.

(* for every data set, selection, kind, stored content and answered ix2: what the indexer class returns ([index_np]:
   a scalar index drops its axis, numpy / LazyIndexer / DaskLazyIndexer) has the SAME elements in the SAME order as the
   canonical answer of C01_elements (so every statement about elements carries over), its shape is the canonical shape
   without the scalar-indexed axes, it has as many axes as there are non-scalar items, and as many elements;
   with keepdims=False that is the answer, with keepdims=True (v2 / v3; vis, flags, weights) the answer has the
   canonical shape: always 3 axes, every scalar-indexed one of length 1 *)
Theorem C01_answer_dimensions : forall c s k S0 ix2 out, index S0 (acquire c s k) ix2 = Ok out ->
  exists out', index_np S0 (acquire c s k) ix2 = Ok out'
    /\ flatten (nd_body out') = flatten (nd_body out)
    /\ nd_shape out' = drop_axes (scalar_axes (naxes k) ix2) (nd_shape out)
    /\ size (nd_shape out') = size (nd_shape out)
    /\ List.length (nd_shape out') = List.length (filter negb (scalar_axes (naxes k) ix2))
    /\ (forall f, answer_shape f false k ix2 (nd_shape out') = nd_shape out')
    /\ (forall f, (f = V2 \/ f = V3) -> k <> KTime -> k <> KRaw ->
          answer_shape f true k ix2 (nd_shape out') = nd_shape out).
Proof. exact answer_dims. Qed.
Print Assumptions C01_answer_dimensions.

(* FINDING C01x-F1 (repaired): before the repair the v2 / v3 flags answer for a selection that is scalar on all three
   axes had shape (1,) instead of (), and (1, 1, 1, 1) instead of (1, 1, 1) with keepdims=True *)
Theorem C01_flags_dimensions_refuted_before_fix :
  answer_shape V3 false KFlags [AInt 0; AInt 0; AInt 0] (flags_np_shape_before_fix []) = [1]
  /\ answer_shape V3 true KFlags [AInt 0; AInt 0; AInt 0] (flags_np_shape_before_fix []) = [1; 1; 1; 1]
  /\ answer_shape V3 false KFlags [AInt 0; AInt 0; AInt 0] [] = []
  /\ answer_shape V3 true KFlags [AInt 0; AInt 0; AInt 0] [] = [1; 1; 1].
Proof. exact flags_dims_refuted_before_fix. Qed.
Print Assumptions C01_flags_dimensions_refuted_before_fix.

Theorem C01_answer_dimensions_example :
  drop_axes (scalar_axes 3 [full; AInt 2; AList [0; 3]]) [5; 1; 2] = [5; 2]
  /\ answer_shape V3 true KVis [full; AInt 2; AList [0; 3]] [5; 2] = [5; 1; 2]
  /\ answer_shape V3 false KVis [full; AInt 2; AList [0; 3]] [5; 2] = [5; 2]
  /\ answer_shape V4 true KVis [AInt 1] [4; 6] = [4; 6]
  /\ answer_shape V2 true KVis [AInt 1] [4; 6] = [1; 4; 6]
  /\ answer_shape V2 true KTime [AInt 1] [] = [].
Proof. exact example_dims. Qed.
Print Assumptions C01_answer_dimensions_example.

(* ------------------------------------------------------------------ several spectral windows / subarrays *)

(* Reading guide.  wc = a data set whose dumps were recorded with SEVERAL spectral windows (MVF v2: the RFE centre
   frequency was retuned during the observation) and / or subarrays: [w_xo wc] lists, per dump, the window and subarray
   it was recorded with (Observation/spw_index, Observation/subarray_index), the channel frequencies of every window and
   the products of every subarray; [w_cfg wc] is the format description of the single-window theorems.  A history is a
   list of wop := WSelect kw | WAcquire kind | WIndex id ix2 | WObserve; WSelect is C02's model [SelectX.xselect] of
   DataSet.select with spw= / subarray= (which always leaves a state behind, also when the call raises part-way);
   [call_ok]: the keywords of a call are distinct (a Python call); [accepted]: no call of the history raised part-way.
   [dump_win xo i] / [dump_sub xo i]: the window / subarray dump i was recorded with. *)

(* the dump mask from which the time dimension restarts -- whatever makes it restart -- as re-translated from
   dataset.py: the dumps recorded with the requested window AND subarray *)
Theorem C01_window_time_base : forall xo spw sub,
  SelectX.window_mask xo spw sub
  = map (fun x => (SelectX.xd_spw x =? spw) && (SelectX.xd_sub x =? sub)) (SelectX.x_dumps xo).
Proof. exact window_base_documented. Qed.
Print Assumptions C01_window_time_base.

(* After EVERY history of select() calls of any kind (spw=, subarray=, time / frequency / product criteria, any reset
   string, the bare select(), calls that raise part-way), acquisitions and reads: every dump of the time mask -- the
   dumps every indexer acquired now serves and timestamps / sensors are masked with -- was recorded with the ACTIVE
   spectral window and the ACTIVE subarray. *)
Theorem C01_window_dumps : forall wc h, SelectXRefP.has_windows (w_xo wc) -> Forall call_ok h ->
  let s := ws_sel (wrun wc (wstart wc) h) in
  forall i, In i (dumps (SelectX.x_core s)) ->
    dump_win (w_xo wc) i = SelectX.x_spw s /\ dump_sub (w_xo wc) i = SelectX.x_sub s.
Proof. exact window_dumps. Qed.
Print Assumptions C01_window_dumps.

(* When no call raised part-way, the public attributes are those of the masks under the active window / subarray:
   dumps / channels = nonzero, shape = the mask sums, freqs = channel frequencies OF THE ACTIVE WINDOW at the selected
   channels, corr_products = products OF THE ACTIVE SUBARRAY at the selected positions. *)
Theorem C01_window_attributes : forall wc h, SelectXRefP.has_windows (w_xo wc) -> Forall call_ok h ->
  accepted wc (wstart wc) h ->
  let s := ws_sel (wrun wc (wstart wc) h) in
  wdumps s = dumps (SelectX.x_core s) /\ wchannels s = channels (SelectX.x_core s)
  /\ wshape s = shape (SelectX.x_core s)
  /\ wfreqs s = freqs (SelectX.w_freqs (win_of (w_xo wc) (SelectX.x_spw s))) (SelectX.x_core s)
  /\ wcps s = corr_products (cfg_of wc s) (SelectX.x_core s).
Proof. exact window_attributes. Qed.
Print Assumptions C01_window_attributes.

(* shape = (|dumps|, |channels|, |corr_products|), len(freqs) = |channels|, = the shape advertised and delivered (x[:])
   by an indexer of any kind acquired now *)
Theorem C01_window_shape : forall wc h, SelectXRefP.has_windows (w_xo wc) -> Forall call_ok h ->
  accepted wc (wstart wc) h -> cfg_ok (cfg_at wc 0 0) ->
  let s := ws_sel (wrun wc (wstart wc) h) in
  wshape s = [zlen (wdumps s); zlen (wchannels s); zlen (wcps s)]
  /\ zlen (wfreqs s) = zlen (wchannels s)
  /\ forall k, adv_shape (wacquire wc s k) = (match k with KTime => [zlen (wdumps s)] | _ => wshape s end)
       /\ forall S, exists out, index S (wacquire wc s k) [] = Ok out /\ nd_shape out = adv_shape (wacquire wc s k).
Proof. exact window_shape. Qed.
Print Assumptions C01_window_shape.

(* THE LABELS ARE THOSE OF THE SELECTED DUMPS: for every selected dump i, freqs[j] is the documented frequency of channel
   channels[j] in the window dump i was recorded with, and corr_products[l] is product cp_idx[l] of the subarray dump i
   was recorded with (so freqs / corr_products describe the samples vis / flags / weights deliver for that dump). *)
Theorem C01_window_labels : forall wc h, SelectXRefP.has_windows (w_xo wc) -> Forall call_ok h ->
  accepted wc (wstart wc) h ->
  let s := ws_sel (wrun wc (wstart wc) h) in
  forall i, In i (wdumps s) ->
    dump_win (w_xo wc) i = SelectX.x_spw s /\ dump_sub (w_xo wc) i = SelectX.x_sub s
    /\ (forall j, 0 <= j < zlen (wchannels s) ->
          nth (Z.to_nat j) (wfreqs s) (-1) = dump_chan_freq (w_xo wc) i (znth (wchannels s) j))
    /\ (forall l, 0 <= l < zlen (cp_idx (SelectX.x_core s)) ->
          nth (Z.to_nat l) (wcps s) ((-1, -1), (-1, -1))
          = dump_cprod (w_xo wc) i (znth (cp_idx (SelectX.x_core s)) l)).
Proof. exact window_labels. Qed.
Print Assumptions C01_window_labels.

(* C01_elements on a data set with several windows / subarrays: every stored content S, every history h1, three-axis
   kind, EVERY continuation h2 (incl. select(spw=...) onto another window), every answered ix2: element (i, j, l) is the
   stored sample at (dumps[pt[i]], channels[pf[j]], cps[pb[l]]) of the selection in force at acquisition, and that dump
   was recorded with the window and subarray active at acquisition. *)
Theorem C01_window_elements : forall wc S h1 k h2 ix2 out, SelectXRefP.has_windows (w_xo wc) ->
  cfg_ok (cfg_at wc 0 0) -> k <> KTime -> Forall call_ok h1 ->
  let d1 := wrun wc (wstart wc) h1 in
  windex_op S (wrun wc (wstart wc) (h1 ++ WAcquire k :: h2)) (List.length (ws_ixs d1)) ix2 = Ok out ->
  let s := ws_sel d1 in
  let m := SelectX.x_core s in
  exists pt pf pb,
    resolve_keep (zlen (dumps m)) (ix_at ix2 3 0) = Ok pt
    /\ resolve_keep (zlen (channels m)) (ix_at ix2 3 1) = Ok pf
    /\ resolve_keep (zlen (cp_idx m)) (ix_at ix2 3 2) = Ok pb
    /\ nd_shape out = [zlen pt; zlen pf; zlen pb]
    /\ forall i j l, 0 <= i < zlen pt -> 0 <= j < zlen pf -> 0 <= l < zlen pb ->
         get (nd_body out) [i; j; l]
         = get S [znth (dumps m) (znth pt i); znth (channels m) (znth pf j); znth (cp_idx m) (znth pb l)]
         /\ dump_win (w_xo wc) (znth (dumps m) (znth pt i)) = SelectX.x_spw s
         /\ dump_sub (w_xo wc) (znth (dumps m) (znth pt i)) = SelectX.x_sub s.
Proof. exact window_elements. Qed.
Print Assumptions C01_window_elements.

Theorem C01_window_elements_timestamps : forall wc S h1 h2 ix2 out, SelectXRefP.has_windows (w_xo wc) ->
  cfg_ok (cfg_at wc 0 0) -> Forall call_ok h1 ->
  let d1 := wrun wc (wstart wc) h1 in
  windex_op S (wrun wc (wstart wc) (h1 ++ WAcquire KTime :: h2)) (List.length (ws_ixs d1)) ix2 = Ok out ->
  let s := ws_sel d1 in
  let m := SelectX.x_core s in
  exists pt,
    resolve_keep (zlen (dumps m)) (ix_at ix2 1 0) = Ok pt
    /\ nd_shape out = [zlen pt]
    /\ forall i, 0 <= i < zlen pt ->
         get (nd_body out) [i] = get S [znth (dumps m) (znth pt i)]
         /\ dump_win (w_xo wc) (znth (dumps m) (znth pt i)) = SelectX.x_spw s
         /\ dump_sub (w_xo wc) (znth (dumps m) (znth pt i)) = SelectX.x_sub s.
Proof. exact window_elements_timestamps. Qed.
Print Assumptions C01_window_elements_timestamps.

(* on labels (the wire): the executable model answers exactly what the executable spec demands *)
Theorem C01_window_model_is_spec : forall wc h1 k ix2 out, SelectXRefP.has_windows (w_xo wc) ->
  cfg_ok (cfg_at wc 0 0) -> Forall call_ok h1 ->
  let s := ws_sel (wrun wc (wstart wc) h1) in
  let x := wacquire wc s k in
  index (stored_labels x) x ix2 = Ok out ->
  spec_index (cfg_of wc s) (SelectX.x_core s) k ix2 = Ok (nd_shape out, flatten (nd_body out)).
Proof. exact window_model_is_spec. Qed.
Print Assumptions C01_window_model_is_spec.

(* non-vacuity: three dumps recorded with windows 0 / 1 / 0; as opened: dumps [0; 2] with the frequencies of window 0;
   select(spw=1): dump [1] with those of window 1; then select(dumps=slice(None)) and the bare select() restart the
   time axis and STILL select dump [1] only *)
Theorem C01_window_example :
  let s0 := ws_sel (wstart ex_wc) in
  let s1 := ws_sel (wrun ex_wc (wstart ex_wc) [ex_spw1]) in
  let s2 := ws_sel (wrun ex_wc (wstart ex_wc) [ex_spw1; ex_dumps_all]) in
  let s3 := ws_sel (wrun ex_wc (wstart ex_wc) [ex_spw1; ex_dumps_all; ex_bare]) in
  (wdumps s0, wfreqs s0) = ([0; 2], [100; 96])
  /\ (wdumps s1, wfreqs s1) = ([1], [60; 56])
  /\ (wdumps s2, wfreqs s2, SelectX.x_spw s2) = ([1], [60; 56], 1)
  /\ (wdumps s3, wfreqs s3, SelectX.x_spw s3) = ([1], [60; 56], 1).
Proof. exact window_example. Qed.
Print Assumptions C01_window_example.

(* ------------------------------------------------------------------------------------------------------------------ *)
(* Round 5: the time axis H5DataV3.__init__ builds from the file -- resynthesis from the ADC sample counter, wrap     *)
(* handling, error branches (Model/DataSetResyn.v, Proofs/DataSetResynP.v).  [open_v3 f o] is the model of the block  *)
(* h5datav3.py:222-323 (every expression and comparison operator re-translated: item_c01_v3_resynth); f = what the    *)
(* file says, o = time_scale= / time_origin= / time_offset= of the open() call.                                       *)
From KV Require Import Model.DataSetResyn Proofs.DataSetResynP.
From Coq Require Import Qround.
Open Scope Z_scope.

(* tie: the comparison operators found in the source are `sensor_duration > data_duration`, `sensor_start_time -
   time_origin > adc_wrap_period`, `time_deltas < -adc_wrap_period / 2` (an edit changes Generated.gen_v3_resyn_cmps) *)
Theorem C01_v3_resynthesis_source : c_pick = 3 /\ c_loop = 3 /\ c_wraps = 1 /\ gen_v3_adc_bits = 48.
Proof. split; [|split; [|split]]; try apply cmps_translated; reflexivity. Qed.
Print Assumptions C01_v3_resynthesis_source.

(* EVERY file and open() call with a positive effective time scale that opens: the timestamps of the data set are,
   dump by dump, the DOCUMENTED times: stored timestamp -> 48-bit sample counter scale * (t - sync); one more wrap
   whenever the counter falls by more than 2^47 from one dump to the next; (counter + 2^48 * wraps) / time_scale +
   sync', + half a CBF dump unless centroid, + time_offset; the duplicate final dump dropped.  Nothing else changes. *)
Theorem C01_v3_timestamps_documented : forall f o ts og,
  (0 < eff_scale f o)%Q -> open_v3 f o = ROk ts og ->
  og = final_origin f o /\ Forall2 Qeq ts (map (spec_mid f o) (drop_dup (spec_v3_times f o og))).
Proof. exact open_v3_documented. Qed.
Print Assumptions C01_v3_timestamps_documented.

(* the sync time finally used (the model's closed form IS the result of the while loop): origin0 + k * wrap with the
   smallest k >= 0 such that the sensor record starts at most one wrap period later; for every smaller j the loop
   condition still held *)
Theorem C01_v3_sync_time_documented : forall f o,
  (0 < wrap_period f o)%Q -> spec_origin_ok (sensor_start f) (origin0 f o) (wrap_period f o) (final_origin f o).
Proof. exact final_origin_documented. Qed.
Print Assumptions C01_v3_sync_time_documented.

Theorem C01_v3_sync_loop : forall ss origin wrap, (0 < wrap)%Q ->
  let k := origin_steps ss origin wrap in
  0 <= k /\ origin_continue ss (origin + inject_Z k * wrap) wrap = false /\
  forall j, 0 <= j < k -> origin_continue ss (origin + inject_Z j * wrap) wrap = true.
Proof. exact origin_steps_loop. Qed.
Print Assumptions C01_v3_sync_loop.

(* without overrides, with a recent enough sync time and no fall of the counter by more than 2^47: the resynthesis is
   the identity -- timestamps = stored timestamps (+ half a CBF dump unless centroid, + time_offset), which is the
   time axis [conv_t] of the data-set model of C01_elements / C01_labels for v3 *)
Theorem C01_v3_resynthesis_identity : forall f o ts og,
  ro_scale o = None -> ro_origin o = None -> (0 < rf_scale f)%Q ->
  origin_steps (sensor_start f) (rf_sync f) (wrap_period f o) = 0 ->
  existsb (fun d => TimeFreq.Qltb d (- two47)) (diffs (map (counter f) (rf_ts f))) = false ->
  open_v3 f o = ROk ts og ->
  (og == rf_sync f)%Q /\ Forall2 Qeq ts (map (spec_mid f o) (drop_dup (rf_ts f))).
Proof. exact open_v3_identity. Qed.
Print Assumptions C01_v3_resynthesis_identity.

(* which files open: every file with a known timestamp reference, at least one dump and as many timestamps as data
   rows opens (none is refused); and a refusal has exactly its documented cause *)
Theorem C01_v3_opens : forall f o,
  rf_ref f <> Some false -> (rf_ref f = None -> rf_cbf_dump f <> None) -> rf_ts f <> [] ->
  Z.of_nat (List.length (rf_ts f)) = rf_rows f -> exists ts, open_v3 f o = ROk ts (final_origin f o).
Proof. exact open_v3_opens. Qed.
Print Assumptions C01_v3_opens.

Theorem C01_v3_refusals : forall f o c, open_v3 f o = RErr c ->
  (c = 1 /\ rf_ref f = Some false) \/ (c = 2 /\ rf_ref f = None /\ rf_cbf_dump f = None) \/
  (c = 4 /\ rf_ts f = []) \/ (c = 3 /\ Z.of_nat (List.length (rf_ts f)) <> rf_rows f).
Proof. exact open_v3_error_cause. Qed.
Print Assumptions C01_v3_refusals.

(* the number of dumps never changes except for the duplicate final dump *)
Theorem C01_v3_unwrap_keeps_length : forall w l, List.length (unwrap w l) = List.length l.
Proof. exact unwrap_len. Qed.
Print Assumptions C01_v3_unwrap_keeps_length.

(* non-vacuity: a counter that wraps every 8 s inside the observation; sync time moved forward by 6 wrap periods on
   the evidence of a 50 s sensor record; time_scale= halved; time_origin=; the three refusals; centroid + duplicate *)
Theorem C01_v3_resynthesis_examples :
  ok_eqb (open_v3 (ex_file []) (ex_open None None)) [101 + (1#4); 103 + (1#4); 105 + (1#4); 107 + (1#4); 109 + (1#4)]%Q 100 = true
  /\ ok_eqb (open_v3 (ex_file [(120, 121); (150, 200)]%Q) (ex_open None None))
            [149 + (1#4); 151 + (1#4); 153 + (1#4); 155 + (1#4); 157 + (1#4)]%Q 148 = true.
Proof. split; apply resyn_examples. Qed.
Print Assumptions C01_v3_resynthesis_examples.
