(* C10 — Categorical sensors are mapped onto dumps by the documented rule.  Only statements here.

   Model.SensorToCat: `per_dump` = data[:] of the CategoricalData returned by the model of sensor_to_categorical
   (searchsorted against dump end times with the extra prior dump, clipping, transform, initial value incl. the
   repaired F7 branch, events[0] := 0, the index-based generator with the in-place events[i] += 1, indexing by
   cleaned_up, repeat removal, unique_in_order / _lookup).  `spec_per_dump` = the documented rule over TIMES,
   recursion free: dump k covers (end_{k-1}, end_k]; its value is `pick` (latest greedy, else last) of
   [value of the last event at or before end_{k-1}, or else the start value] ++ [values of the events inside];
   start value = initial value, else first event at or before the last dump end.  The transform is applied to the
   values before anything else on both sides (greedy membership and repeat removal see transformed values only).

   FULL statement of the property = C10_per_dump_partial WITHOUT its guard; it is refuted for the code as it is by
   C10_greedy_initial_refuted (finding F14), and C10_per_dump_as_coded says exactly what the code does instead for
   EVERY input (the rule with the initial value dropped in the F14 situation).  The guard `c10_guard` excludes
   "initial value given, no event at or before the start of dump 0, an event inside dump 0"; F14 is the sub-case
   where that initial value is greedy (for a non-greedy one code and rule agree, which is only checked by the
   correspondence, not proved). *)
From Coq Require Import ZArith List Bool.
From KV Require Import Base.Sx Model.SensorToCat Proofs.SensorToCatP.
Import ListNotations.
Open Scope Z_scope.

(* ---- the generator, index-based model (nth / upd, events[i] += 1), all inputs ----
   For EVERY list l of (dump, value) events after a first event (0, v0), dumps non-decreasing and below N, and every
   greedy predicate, the events selected by `single_event_per_dump`, read as (value, mutated dump) pairs:
   (1) the value in force at each dump k in [0, N) is pick (carried value ++ values of the events inside dump k);
   (2) they lie in [0, N), their dumps strictly increase and the first one is at dump 0. *)
Theorem C10_generator_per_dump : forall (isg : Z -> bool) (v0 : Z) (l : list (Z * Z)) (N : Z),
  nondecr 0 l -> Forall (fun e => fst e < N) ((0, v0) :: l) ->
  let evt := 0 :: map fst l ++ [N] in
  let vals := v0 :: map snd l in
  let ce := single_event_per_dump evt (map isg vals) in
  let out := map (fun i => (nth i vals 0, nth i (snd ce) 0)) (fst ce) in
  (forall k, 0 <= k < N -> lookupd 0 out k = ivalue isg ((0, v0) :: l) k) /\
  Forall (fun e => 0 <= snd e < N) out /\ ssorted (map snd out) /\ exists v t, out = (v, 0) :: t.
Proof. exact generator_rule. Qed.
Print Assumptions C10_generator_per_dump.

(* ---- searchsorted layer: an event at time t lands in dump k iff end_{k-1} < t <= end_k ----
   a = the dump end times preceded by the extra prior dump (strictly increasing), (lo, hi) its k-th pair of
   neighbours: lo < t <= hi iff searchsorted(a, t) = k + 1, and t <= lo iff searchsorted(a, t) <= k. *)
Theorem C10_searchsorted_dump : forall a, ssorted a -> forall k lo hi,
  nth_error (combine a (tl a)) k = Some (lo, hi) -> forall t,
  ((lo <? t) && (t <=? hi) = Nat.eqb (ss_left a t) (S k)) /\ ((t <=? lo) = Nat.leb (ss_left a t) k).
Proof. exact ss_pairs. Qed.
Print Assumptions C10_searchsorted_dump.

(* ---- the whole function, EVERY input: what the code computes is the rule with `init_as_coded` ----
   and (C10_wellformed) events start at 0, strictly increase, end at N, one more event than values, and no two
   consecutive values are equal unless allow_repeats. *)
Theorem C10_per_dump_as_coded : forall ts vals e0 er P tr init greedy ar,
  let ends := e0 :: er in
  ssorted ends -> 0 < P -> time_sorted ts -> length ts = length vals ->
  per_dump ts vals ends P tr init greedy ar =
    match spec_per_dump ts vals ends P tr (init_as_coded ts ends P init) greedy with
    | Some l => Ok l | None => Err end.
Proof. intros. apply per_dump_coded; assumption. Qed.
Print Assumptions C10_per_dump_as_coded.

Theorem C10_wellformed : forall ts vals e0 er P tr init greedy ar v e,
  let ends := e0 :: er in
  ssorted ends -> 0 < P -> time_sorted ts -> length ts = length vals ->
  s2c ts vals ends P tr init greedy ar = Ok (v, e) ->
  (exists t, e = 0 :: t) /\ ssorted e /\ last e 0 = Z.of_nat (length ends) /\ length e = S (length v) /\
  (ar = false -> norep v).
Proof.
  intros ts vals e0 er P tr init greedy ar v e ends H1 H2 H3 H4 H5.
  exact (proj2 (per_dump_coded ts vals e0 er P tr init greedy ar H1 H2 H3 H4) v e H5).
Qed.
Print Assumptions C10_wellformed.

(* ---- THE theorem under the guard that excludes the F14 situation ---- *)
Theorem C10_per_dump_partial : forall ts vals e0 er P tr init greedy ar,
  let ends := e0 :: er in
  ssorted ends -> 0 < P -> time_sorted ts -> length ts = length vals ->
  c10_guard ts ends P init = true ->
  per_dump ts vals ends P tr init greedy ar =
    match spec_per_dump ts vals ends P tr init greedy with Some l => Ok l | None => Err end.
Proof. exact per_dump_guarded. Qed.
Print Assumptions C10_per_dump_partial.

(* hypotheses and guard are satisfiable; prior event, greedy value inside a dump, edge event, late event *)
Theorem C10_per_dump_example :
  let ts := [-5; 1; 2; 4; 9] in let vals := [2; 3; 1; 4; 2] in let ends := [0; 2; 4] in
  ssorted ends /\ time_sorted ts /\ c10_guard ts ends 2 (Some 5) = true /\
  per_dump ts vals ends 2 None (Some 5) [3] false = Ok [2; 3; 4] /\
  spec_per_dump ts vals ends 2 None (Some 5) [3] = Some [2; 3; 4].
Proof. exact per_dump_guard_example. Qed.
Print Assumptions C10_per_dump_example.

(* F14: without the guard the full statement fails for the code as it is. *)
Theorem C10_greedy_initial_refuted :
  exists ts vals ends P init greedy,
    per_dump ts vals ends P None (Some init) greedy false = Ok [1; 2; 2] /\
    spec_per_dump ts vals ends P None (Some init) greedy = Some [3; 2; 2].
Proof. exact greedy_initial_refuted. Qed.
Print Assumptions C10_greedy_initial_refuted.
