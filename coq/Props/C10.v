(* C10 — Categorical sensors are mapped onto dumps by the documented rule.  Only statements here. *)
From Coq Require Import ZArith List Bool.
From KV Require Import Base.Sx Model.SensorToCat Proofs.SensorToCatP.
Import ListNotations.
Open Scope Z_scope.

Theorem C10_greedy_initial_refuted :
  exists ts vals ends P init greedy,
    per_dump ts vals ends P None (Some init) greedy false = Ok [1; 2; 2] /\
    spec_per_dump ts vals ends P None (Some init) greedy = Some [3; 2; 2].
Proof. exact greedy_initial_refuted. Qed.
Print Assumptions C10_greedy_initial_refuted.
