(* C10 — Categorical sensors are mapped onto dumps by the documented rule.  Only statements here.

   FULL STATEMENT (C10_per_dump, not closed in this development; see design.d/C10.md for what is missing):
     forall ts vals ends P tr init greedy ar st,
       sorted ts -> strictly increasing ends -> 0 < P -> length ts = length vals ->
       start_value (combine ts (map (app_tr tr) vals)) init (last ends 0) = Some st ->
       per_dump ts vals ends P tr init greedy ar = Ok l <-> spec_per_dump ts vals ends P tr init greedy = Some l
   It is refuted for the code as it stands by C10_greedy_initial_refuted (finding F14); the version that holds
   replaces `init` on the spec side by `init_as_coded ts ends P init`.
   What IS proved for all inputs is the heart of the rule, C10_generator_per_dump_partial below: the
   _single_event_per_dump state machine (in its cached-look-up form, Model.SensorToCat.afinal, tied to the real
   generator and to the index-based model by the correspondence) yields, for every non-decreasing placement of
   any number of events over any number of dumps and every greedy predicate, change events whose expansion is
   the documented per-dump value, and they are well formed. *)
From Coq Require Import ZArith List Bool.
From KV Require Import Base.Sx Model.SensorToCat Proofs.SensorToCatP.
Import ListNotations.
Open Scope Z_scope.

(* F14: the unrepaired code ignores a greedy initial value when the first event lies inside dump 0. *)
Theorem C10_greedy_initial_refuted :
  exists ts vals ends P init greedy,
    per_dump ts vals ends P None (Some init) greedy false = Ok [1; 2; 2] /\
    spec_per_dump ts vals ends P None (Some init) greedy = Some [3; 2; 2].
Proof. exact greedy_initial_refuted. Qed.
Print Assumptions C10_greedy_initial_refuted.

(* For EVERY list of (dump, value) events l after a first event (0, v0), dumps non-decreasing and below N, and every
   greedy predicate: the (value, dump) change events produced by the generator satisfy
   (1) per-dump rule: for each dump k in [0, N) the value in force at k (value of the last change event at or
       before k) is pick (carried value ++ values of the events inside dump k) = latest greedy one, else the last;
   (2) well-formedness: change events lie in [0, N), their dumps strictly increase and the first one is at dump 0. *)
Theorem C10_generator_per_dump_partial : forall (isg : Z -> bool) (v0 : Z) (l : list (Z * Z)) (N : Z),
  nondecr 0 l -> Forall (fun e => fst e < N) ((0, v0) :: l) ->
  let out := afinal isg v0 l N in
  (forall k, 0 <= k < N -> lookupd 0 out k = ivalue isg ((0, v0) :: l) k) /\
  Forall (fun e => 0 <= snd e < N) out /\ ssorted (map snd out) /\ exists v t, out = (v, 0) :: t.
Proof. exact afinal_rule. Qed.
Print Assumptions C10_generator_per_dump_partial.

(* the hypotheses are satisfiable and the conclusion discriminates (greedy g at dump 0 beats the later a, which is
   pushed to dump 1 and loses to b there) *)
Theorem C10_generator_example :
  let isg := fun v => memZ v [3] in
  nondecr 0 [(0, 1); (1, 2); (3, 1)] /\ Forall (fun e => fst e < 5) ((0, 3) :: [(0, 1); (1, 2); (3, 1)]) /\
  afinal isg 3 [(0, 1); (1, 2); (3, 1)] 5 = [(3, 0); (2, 1); (1, 3)] /\
  map (ivalue isg ((0, 3) :: [(0, 1); (1, 2); (3, 1)])) [0; 1; 2; 3; 4] = [3; 2; 2; 1; 1].
Proof. exact afinal_example. Qed.
Print Assumptions C10_generator_example.

(* One step of the index-based generator (gstep: nth / upd on the mutated events array, exactly as the code) is
   simulated by one step of the cached-look-up machine (astep) under the relation R (winner index below the
   current event, its dump/value cached, events from position ce-1 on unmutated, yielded indices below ce-1 and
   their (value, dump) pairs equal).  This is the inductive step of the link between `single_event_per_dump` and
   `afinal`; iterating it over the event list (pure index plumbing) is not done yet. *)
Theorem C10_generator_simulation_step_partial :
  forall (isg : Z -> bool) (evt vals : list Z) (ce : nat) (s : gst) (a : ast),
  R evt vals ce s a -> (ce < length evt)%nat -> (length vals + 1 = length evt)%nat ->
  apd a <= nth ce evt 0 ->
  R evt vals (S ce) (gstep (map isg vals) s ce (nth ce evt 0))
                        (astep isg a (nth ce evt 0) (nth ce vals 0) (ce <? length vals)%nat).
Proof. exact sim_step. Qed.
Print Assumptions C10_generator_simulation_step_partial.
