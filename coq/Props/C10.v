(* C10 — Categorical sensors are mapped onto dumps by the documented rule.  Only statements here.

   WHAT THE THEOREMS ARE ABOUT.  Model.SensorToCatSrc: `per_dump_src ts vals mids P tr init greedy ar` = data[:] of the
   CategoricalData returned by the model of sensor_to_categorical(ts, vals, mids, P, transform, initial_value,
   greedy_values, allow_repeats).  That model is written over the definitions REGENERATED FROM THE SOURCE at every
   run (Gen/Generated.v `c10_*`: searchsorted sides, the -1 / 0 / +1 constants, every comparison of
   _single_event_per_dump, the initial-value condition, the repeat-removal condition, the default allow_repeats, the
   0.5 of the dump end times, the _lookup bounds) inside a statement skeleton the translator fixes
   (transform -> initial value -> events[0] = 0 -> greedy flags -> terminator -> generator -> repeat removal).
   `rule ts vals mids P tr init greedy` = the documented rule over TIMES, recursion free (Model.SensorToCat
   spec_per_dump): dump k covers (end_{k-1}, end_k], end_k = mid_k + P/2; its value is `pick` (latest greedy, else
   last) of [value of the last event at or before end_{k-1}, or else the start value] ++ [values of the events
   inside]; start value = initial value, else first event at or before the last dump end; Err when no start value
   exists (or there is no dump).  Values are transformed before anything else on both sides.
   `c10_domain ts vals mids P` = at least one dump, mid times strictly increase, 0 < P, timestamps non-decreasing
   (SensorCache sorts them: C10_cache_path in Props/C10.v discharges this hypothesis for the public path), as many
   values as timestamps.

   THE PROPERTY = C10_per_dump_exact: code = rule EXACTLY when `f14_differs = false`; F14 (open finding) is its
   complement, shown non-empty by C10_greedy_initial_refuted, and confined to dump 0 by C10_later_dumps_always. *)
From Coq Require Import ZArith List Bool.
From KV Require Import Base.Sx Gen.Generated Model.SensorToCat Model.SensorToCatSrc Model.SensorToCatPath
  Model.SensorToCatTables Proofs.SensorToCatTablesP Proofs.SensorToCatMoreP Model.SensorToCatValues
  Proofs.SensorToCatValuesP
  Proofs.SensorToCatP Proofs.SensorToCatInitP Proofs.SensorToCatLawsP Proofs.SensorToCatSrcP Proofs.SensorToCatTopP
  Proofs.SensorToCatPathP Model.SensorToCatHist Proofs.SensorToCatHistP.
Import ListNotations.
Open Scope Z_scope.

(* ================= clause: "assigns every dump exactly one value: the latest greedy value ... otherwise the value in
   effect at the end of the dump, where the last event before the first dump (or else the initial value, or else
   the first event) defines the value at the start and events after the last dump are ignored" ================= *)

(* EVERY input of the domain: what the code computes is the rule with the initial value as the code treats it
   (dropped when no event lies at or before the start of dump 0 but one lies inside dump 0); Err exactly when the
   rule defines no start value. *)
Theorem C10_per_dump_as_coded : forall ts vals mids P tr init greedy ar, c10_domain ts vals mids P ->
  per_dump_src ts vals mids P tr init greedy ar =
  rule ts vals mids P tr (init_as_coded ts (dump_ends mids P) P init) greedy.
Proof. exact per_dump_src_coded. Qed.
Print Assumptions C10_per_dump_as_coded.

(* THE property, with the exact boundary of finding F14: the code obeys the rule iff the initial value it drops would
   not have won dump 0; and when it does not, ONLY dump 0 is wrong. *)
Theorem C10_per_dump_exact : forall ts vals mids P tr init greedy ar, c10_domain ts vals mids P ->
  (f14_differs ts vals (dump_ends mids P) P tr init greedy = false ->
     per_dump_src ts vals mids P tr init greedy ar = rule ts vals mids P tr init greedy) /\
  (f14_differs ts vals (dump_ends mids P) P tr init greedy = true ->
     exists x y T, x <> y /\ per_dump_src ts vals mids P tr init greedy ar = Ok (x :: T) /\
                   rule ts vals mids P tr init greedy = Ok (y :: T)).
Proof. exact per_dump_src_exact. Qed.
Print Assumptions C10_per_dump_exact.

(* the property statement itself under the guard that is exactly the F14 situation: an initial value that is GREEDY,
   no event at or before the start of dump 0, an event inside dump 0.  (A plain initial value is covered.) *)
Theorem C10_per_dump_partial : forall ts vals mids P tr init greedy ar, c10_domain ts vals mids P ->
  f14_situation ts (dump_ends mids P) P init greedy = false ->
  per_dump_src ts vals mids P tr init greedy ar = rule ts vals mids P tr init greedy.
Proof. exact per_dump_src_unless_f14. Qed.
Print Assumptions C10_per_dump_partial.

(* F14: without the guard the statement fails for the code as it is (witness evaluated by vm_compute). *)
Theorem C10_greedy_initial_refuted :
  exists ts vals mids P init greedy,
    c10_domain ts vals mids P /\
    f14_differs ts vals (dump_ends mids P) P None (Some init) greedy = true /\
    per_dump_src ts vals mids P None (Some init) greedy None = Ok [1; 2; 2] /\
    rule ts vals mids P None (Some init) greedy = Ok [3; 2; 2].
Proof. exact f14_refuted_src. Qed.
Print Assumptions C10_greedy_initial_refuted.

(* dumps 1 .. N-1 obey the rule for EVERY input of the domain (F14 or not), and there is one value per dump *)
Theorem C10_later_dumps_always : forall ts vals mids P tr init greedy ar, c10_domain ts vals mids P ->
  match per_dump_src ts vals mids P tr init greedy ar, rule ts vals mids P tr init greedy with
  | Ok l, Ok s => tl l = tl s /\ length l = length mids
  | Err, Err => True
  | _, _ => False
  end.
Proof. exact per_dump_src_later_dumps. Qed.
Print Assumptions C10_later_dumps_always.

Theorem C10_one_value_per_dump : forall ts vals mids P tr init greedy ar l, c10_domain ts vals mids P ->
  per_dump_src ts vals mids P tr init greedy ar = Ok l -> length l = length mids.
Proof. exact src_one_value_per_dump. Qed.
Print Assumptions C10_one_value_per_dump.

(* "the last event before the first dump defines the value at the start": such an event makes the initial value
   irrelevant (nothing changes when it is supplied, changed or omitted) *)
Theorem C10_prior_event_overrides_initial : forall ts vals mids P tr i greedy ar, c10_domain ts vals mids P ->
  no_prior ts (hd 0 (dump_ends mids P) - P) = false ->
  per_dump_src ts vals mids P tr (Some i) greedy ar = per_dump_src ts vals mids P tr None greedy ar.
Proof. exact src_prior_overrides_initial. Qed.
Print Assumptions C10_prior_event_overrides_initial.

(* "events after the last dump are ignored": appending any events later than the last dump end changes nothing *)
Theorem C10_late_events_ignored : forall ts vals lts lvals mids P tr init greedy ar,
  c10_domain (ts ++ lts) (vals ++ lvals) mids P -> length ts = length vals ->
  Forall (fun t => last (dump_ends mids P) 0 < t) lts ->
  per_dump_src (ts ++ lts) (vals ++ lvals) mids P tr init greedy ar = per_dump_src ts vals mids P tr init greedy ar.
Proof. exact src_late_events_ignored. Qed.
Print Assumptions C10_late_events_ignored.

(* "otherwise the value in effect at the end of the dump": with no greedy values every dump takes the value of the
   last event at or before its END (or the start value) *)
Theorem C10_no_greedy_value_at_end : forall ts vals mids P tr init ar, c10_domain ts vals mids P ->
  per_dump_src ts vals mids P tr init [] ar =
  let tv := combine ts (map (app_tr tr) vals) in
  match start_value tv init (last (dump_ends mids P) 0) with
  | Some st => Ok (map (value_at_end tv st) (dump_ends mids P))
  | None => Err
  end.
Proof. exact src_no_greedy_value_at_end. Qed.
Print Assumptions C10_no_greedy_value_at_end.

(* nothing foreign can appear: every per-dump value is the initial value or a (transformed) sensor value *)
Theorem C10_values_closed : forall ts vals mids P tr init greedy ar l, c10_domain ts vals mids P ->
  per_dump_src ts vals mids P tr init greedy ar = Ok l ->
  Forall (fun v => In v (olist init ++ map (app_tr tr) vals)) l.
Proof. exact src_values_closed. Qed.
Print Assumptions C10_values_closed.

(* only relative times matter: shifting sensor timestamps AND dump mid times by the same amount changes nothing *)
Theorem C10_time_shift : forall c ts vals mids P tr init greedy ar, c10_domain ts vals mids P ->
  per_dump_src (shiftZ c ts) vals (shiftZ c mids) P tr init greedy ar = per_dump_src ts vals mids P tr init greedy ar.
Proof. exact src_time_shift. Qed.
Print Assumptions C10_time_shift.

(* searchsorted layer, with the side the code uses: an event at time t lands in dump k iff end_{k-1} < t <= end_k *)
Theorem C10_searchsorted_dump : forall a, ssorted a -> forall k lo hi,
  nth_error (combine a (tl a)) k = Some (lo, hi) -> forall t,
  ((lo <? t) && (t <=? hi) = Nat.eqb (ss_side c10_events_side_right a t) (S k)) /\
  ((t <=? lo) = Nat.leb (ss_side c10_events_side_right a t) k).
Proof. exact ss_pairs_src. Qed.
Print Assumptions C10_searchsorted_dump.

(* the generator (index-based model over the regenerated comparisons, nth / upd, events[i] += push), ALL inputs:
   for every list l of (dump, value) events after a first event (0, v0), dumps non-decreasing and below N, every greedy
   predicate, the selected events read as (value, mutated dump) pairs expand to the per-dump rule, lie in [0, N),
   strictly increase and start at dump 0 *)
Theorem C10_generator_per_dump : forall (isg : Z -> bool) (v0 : Z) (l : list (Z * Z)) (N : Z),
  nondecr 0 l -> Forall (fun e => fst e < N) ((0, v0) :: l) ->
  let evt := 0 :: map fst l ++ [N] in
  let vals := v0 :: map snd l in
  let ce := single_event_per_dump_src evt (map isg vals) in
  let out := map (fun i => (nth i vals 0, nth i (snd ce) 0)) (fst ce) in
  (forall k, 0 <= k < N -> lookupd 0 out k = ivalue isg ((0, v0) :: l) k) /\
  Forall (fun e => 0 <= snd e < N) out /\ ssorted (map snd out) /\ exists v t, out = (v, 0) :: t.
Proof. exact generator_rule_src. Qed.
Print Assumptions C10_generator_per_dump.

(* ================= clause: "always covers dumps 0..N-1 with strictly increasing event boundaries ... and contains no
   repeated consecutive values unless repeats are allowed" ================= *)
Theorem C10_wellformed : forall ts vals mids P tr init greedy ar v e, c10_domain ts vals mids P ->
  s2c_src ts vals (ends_of_mids mids P) P tr init greedy (allow_repeats_of ar) = Ok (v, e) ->
  (exists t, e = 0 :: t) /\ ssorted e /\ last e 0 = Z.of_nat (length mids) /\ length e = S (length v) /\
  (allow_repeats_of ar = false -> norep v).
Proof. exact wellformed_src. Qed.
Print Assumptions C10_wellformed.

(* allow_repeats (default: the regenerated default = False) changes the events, never the per-dump values *)
Theorem C10_allow_repeats_same_values : forall ts vals mids P tr init greedy ar ar', c10_domain ts vals mids P ->
  per_dump_src ts vals mids P tr init greedy ar = per_dump_src ts vals mids P tr init greedy ar'.
Proof. exact src_allow_repeats_same_values. Qed.
Print Assumptions C10_allow_repeats_same_values.

(* ================= clause: "applies the optional transform before any comparison" =================
   EVERY input (no hypothesis): transforming inside is the same as handing over transformed values with no transform,
   for the per-dump values AND for the events / values handed to CategoricalData (so greedy membership, the
   initial-value decision and repeat removal only ever see transformed values) *)
Theorem C10_transform_first : forall ts vals mids P m init greedy ar,
  per_dump_src ts vals mids P (Some m) init greedy ar = per_dump_src ts (map (apply_map m) vals) mids P None init greedy ar /\
  s2c_src ts vals (ends_of_mids mids P) P (Some m) init greedy (allow_repeats_of ar) =
  s2c_src ts (map (apply_map m) vals) (ends_of_mids mids P) P None init greedy (allow_repeats_of ar).
Proof. exact src_transform_first. Qed.
Print Assumptions C10_transform_first.

(* ================= the public path: SensorCache.get -> _extract -> sensor_to_categorical ================= *)
(* EVERY raw sample list (unsorted, duplicate timestamps, unreadable statuses, empty), every time offset: the
   categorical extraction obeys the rule over the cleaned samples (C12's clean-up: stable sort, last of equal
   timestamps, readable status), a sensor without usable samples is replaced by ONE dummy sample at time 0 carrying
   the initial value (or the default of its type).  No sortedness hypothesis is left. *)
Theorem C10_cache_path : forall raw has_status off dflt mids P tr init greedy ar,
  mids <> [] -> ssorted mids -> 0 < P ->
  let s := usable_samples raw has_status off init dflt in
  extract_per_dump_src raw has_status off dflt mids P tr init greedy ar =
  rule (map fst s) (map snd s) mids P tr (init_as_coded (map fst s) (dump_ends mids P) P init) greedy
  /\ c10_domain (map fst s) (map snd s) mids P.
Proof. exact extract_cat_rule. Qed.
Print Assumptions C10_cache_path.

(* a sensor without usable samples: ONE dummy sample at time 0 carrying the initial value, else the type's default;
   the default time offset is 0 *)
Theorem C10_dummy_sample : forall raw has_status off init dflt,
  (match raw with [] => [] | _ => clean_r has_status (shift_r (match off with Some o => o | None => 0 end) raw) end) = [] ->
  usable_samples raw has_status off init dflt = [(0, match init with Some i => i | None => dflt end)].
Proof. exact usable_dummy. Qed.
Print Assumptions C10_dummy_sample.

(* cache[name] = get(name, select=True): a boolean keep mask with one entry per dump selects exactly the masked
   per-dump values, slice(None) all of them *)
Theorem C10_select_mask : forall c (l : list Z) mask,
  cat_all_src c = Ok l -> Z.of_nat (List.length mask) = last (cevents c) 0 ->
  cat_select_src c (Some mask) = Ok (select_mask mask l) /\ cat_select_src c None = Ok l.
Proof. exact select_is_mask. Qed.
Print Assumptions C10_select_mask.

(* the categorical / numerical decision of _extract: an explicit `categorical` property wins, otherwise every
   non-float sensor is categorical *)
Theorem C10_categorical_decision : forall (p : option bool) (is_float : bool),
  decide_categorical_src p is_float = spec_categorical p is_float.
Proof. exact decide_categorical_eq. Qed.
Print Assumptions C10_categorical_decision.

(* ================= value equality of array-valued (wrapped) sensors =================
   The ids of the theorems above stand for sensor values; for array-valued sensors the code compares values with
   ComparableArrayWrapper.__eq__ (model `caw_eq_src` over the regenerated branch condition; np.array_equal fixed by the
   translator skeleton).  A value is (kind, shape, flat data). *)

(* equal array values have the SAME SHAPE and the same elements (a broadcasting comparison would break exactly this:
   repeat removal would drop a genuine change of value) *)
Theorem C10_equal_arrays_same_shape : forall a b, is_nd a || is_nd b = true -> caw_eq_src a b = true ->
  arr_shape a = arr_shape b /\ wdata a = wdata b /\ nan_free a = true.
Proof. exact caw_eq_arrays. Qed.
Print Assumptions C10_equal_arrays_same_shape.

(* for NaN-free values of one sensor (no tuple next to a list) the code's equality IS "same shape, same elements" *)
Theorem C10_value_equality_exact : forall a b, compatible a b = true -> nan_free a = true ->
  caw_eq_src a b = arr_eqb a b.
Proof. exact caw_eq_is_arr_eqb. Qed.
Print Assumptions C10_value_equality_exact.

(* the ids are the quotient of the values by that equality: same id iff same shape and same elements *)
Theorem C10_value_ids_faithful : forall (u : list wv),
  (forall x, In x u -> nan_free x = true) -> (forall x y, In x u -> In y u -> compatible x y = true) ->
  forall x y i j, In x u -> In y u ->
  (id_in caw_eq_src u i x = id_in caw_eq_src u j y <-> arr_shape x = arr_shape y /\ wdata x = wdata y).
Proof. exact value_ids_faithful. Qed.
Print Assumptions C10_value_ids_faithful.

(* a value containing NaN is equal to nothing, not even to itself (hence never a "repeat": open finding F111) *)
Theorem C10_nan_values_never_equal : forall a b, nan_free a = false -> caw_eq_src a b = false.
Proof. exact caw_eq_nan. Qed.
Print Assumptions C10_nan_values_never_equal.
(* greedy membership of an array-valued sensor is BY VALUE (finding F27, repaired: sensor_to_categorical wraps the greedy
   values, so the membership test goes through ComparableArrayWrapper.__eq__ on both sides): a value of the sensor is
   greedy iff some greedy value has the same shape and the same elements *)
Theorem C10_greedy_by_value : forall (u g : list wv),
  (forall x, In x u -> nan_free x = true) -> (forall x y, In x u -> In y u -> compatible x y = true) ->
  incl g u -> forall x i j, In x u ->
  (In (id_in caw_eq_src u i x) (ids_from caw_eq_src u j g) <->
   exists y, In y g /\ arr_shape y = arr_shape x /\ wdata y = wdata x).
Proof. exact greedy_by_value. Qed.
Print Assumptions C10_greedy_by_value.
Definition C10_example_array_greedy := ex_array_greedy.
Definition C10_example_value_equality := ex_value_equality.
Definition C10_example_shape_change := ex_shape_change_is_not_a_repeat.

(* ================= the sensor property tables of the formats (regenerated from dataset.py, h5datav1/2/3.py,
   visdatav4.py) =================
   sensor_to_categorical compares `initial_value` and `greedy_values` with TRANSFORMED values (and inserts the initial
   value among them), so every table entry must give them in the range of its transform; an entry that does not
   (finding F110, repaired: the noise-diode sensors had the raw values '0' / 0.0 for a transform yielding booleans)
   makes numpy promote the transformed array and defeats greedy membership. *)
Theorem C10_tables_transformed : Forall (fun t => offending t = []) c10_all_tables.
Proof. exact tables_transformed. Qed.
Print Assumptions C10_tables_transformed.
Definition C10_example_tables := offending_example.

(* ================= the dump-edge convention of the public arguments (dump MID times + dump period) =================
   dump k of the rule ENDS half a period after its own mid time; dump 0 starts one full period before that end; every
   later dump starts where the previous one ended (irregular grids included); one interval per dump *)
Theorem C10_dump_edge_convention : forall mids P k lo hi, nth_error (dump_intervals mids P) k = Some (lo, hi) ->
  exists m, nth_error mids k = Some m /\ hi = m + P / 2 /\
    match k with
    | O => lo = m + P / 2 - P
    | S j => exists m', nth_error mids j = Some m' /\ lo = m' + P / 2
    end.
Proof. exact dump_intervals_nth. Qed.
Print Assumptions C10_dump_edge_convention.

(* on a regular grid with period 2h dump k covers exactly (mid_k - h, mid_k + h]; and the rule every other theorem
   speaks about is the per-dump choice over exactly these intervals *)
Theorem C10_dump_edge_regular : forall mids h k lo hi, regular_grid mids (2 * h) ->
  nth_error (dump_intervals mids (2 * h)) k = Some (lo, hi) ->
  exists m, nth_error mids k = Some m /\ lo = m - h /\ hi = m + h.
Proof. exact dump_edge_regular. Qed.
Print Assumptions C10_dump_edge_regular.

Theorem C10_rule_over_dump_intervals : forall ts vals mids P tr init greedy l, rule ts vals mids P tr init greedy = Ok l ->
  List.length (dump_intervals mids P) = List.length mids /\
  exists st, l = map (dump_value (fun v => memZ v greedy) (combine ts (map (app_tr tr) vals)) st) (dump_intervals mids P).
Proof. exact rule_over_intervals_len. Qed.
Print Assumptions C10_rule_over_dump_intervals.

(* "events after the last dump are ignored" means after its END (mid + P/2): with no greedy values the LAST sample at
   or before the end of the last dump - in particular one in the second half of the last dump, after its mid time -
   gives the last dump its value, whatever follows the end; nothing is trimmed at the last mid time *)
Theorem C10_last_dump_event_counts : forall ts vals t v lts lvals mids P tr init ar,
  c10_domain (ts ++ t :: lts) (vals ++ v :: lvals) mids P -> List.length ts = List.length vals ->
  t <= last (dump_ends mids P) 0 -> Forall (fun u => last (dump_ends mids P) 0 < u) lts ->
  exists l, per_dump_src (ts ++ t :: lts) (vals ++ v :: lvals) mids P tr init [] ar = Ok l
            /\ last l 0 = app_tr tr v /\ List.length l = List.length mids.
Proof. exact src_last_dump_event_counts. Qed.
Print Assumptions C10_last_dump_event_counts.

(* ================= histories: the conversion leaves the getter's raw samples alone =================
   (decided from the REGENERATED lists of names written in place by sensor_to_categorical / _extract / the clean-up) *)
Theorem C10_conversion_keeps_raw_samples : forall raw off tr, conv_raw raw off tr = raw.
Proof. exact conv_raw_id. Qed.
Print Assumptions C10_conversion_keeps_raw_samples.

(* any sequence of conversions over one getter (different offsets, transforms - idempotent or not -, initial / greedy
   values): the samples are what they were and EVERY result is the conversion of the ORIGINAL samples with its own
   properties - independent of what was converted before *)
Theorem C10_history_independent : forall has_status dflt mids P raw ops,
  run_hist has_status dflt mids P raw ops = (raw, map (convert has_status dflt mids P raw) ops).
Proof. exact run_hist_pure'. Qed.
Print Assumptions C10_history_independent.

(* through SensorCache.get with its cache and aliases sharing the getter: any order of gets of any names *)
Theorem C10_cache_history : forall has_status dflt mids P pt raw gets,
  run_cache has_status dflt mids P pt raw [] gets
  = (raw, map (fun n => convert has_status dflt mids P raw (pt n)) gets).
Proof. exact run_cache_fresh. Qed.
Print Assumptions C10_cache_history.

Theorem C10_alias_same_answer : forall has_status dflt mids P pt raw gets a b, pt a = pt b -> In a gets -> In b gets ->
  forall k k' d, nth_error gets k = Some a -> nth_error gets k' = Some b ->
  nth k (snd (run_cache has_status dflt mids P pt raw [] gets)) d
  = nth k' (snd (run_cache has_status dflt mids P pt raw [] gets)) d.
Proof. exact alias_same_answer. Qed.
Print Assumptions C10_alias_same_answer.

(* non-vacuity: two conversions with a non-idempotent transform give the same values; a machine that writes the
   transformed values / shifted times back into the samples does not; quarter placements in the first and last dump *)
Definition C10_example_history := hist_example.
Definition C10_example_dump_edges := edge_example.
Print Assumptions C10_example_history.

(* ================= non-vacuity: hypotheses satisfiable, statements discriminate (all by vm_compute) =================
   one Example per theorem lives next to its lemma (Proofs/SensorToCatTopP.v and Proofs/SensorToCatPathP.v, names ex_...) *)
Theorem C10_examples :
  c10_domain [-5; 1; 2; 4; 9] [2; 3; 1; 4; 2] [-1; 1; 3] 2 /\
  (per_dump_src [-5; 1; 2; 4; 9] [2; 3; 1; 4; 2] [-1; 1; 3] 2 None (Some 5) [3] None = Ok [2; 3; 4] /\
   rule [-5; 1; 2; 4; 9] [2; 3; 1; 4; 2] [-1; 1; 3] 2 None (Some 5) [3] = Ok [2; 3; 4] /\
   f14_situation [-5; 1; 2; 4; 9] (dump_ends [-1; 1; 3] 2) 2 (Some 5) [3] = false) /\
  (c10_domain [-1; 2] [1; 2] [-1; 1; 3] 2 /\
   f14_situation [-1; 2] (dump_ends [-1; 1; 3] 2) 2 (Some 5) [3] = false /\
   per_dump_src [-1; 2] [1; 2] [-1; 1; 3] 2 None (Some 5) [3] None = Ok [1; 2; 2] /\
   rule [-1; 2] [1; 2] [-1; 1; 3] 2 None (Some 5) [3] = Ok [1; 2; 2]).
Proof. exact (conj ex_domain (conj ex_rule ex_plain_initial)). Qed.
Print Assumptions C10_examples.

Definition C10_example_f14_harmless := ex_f14_situation_harmless.
Definition C10_example_generator := ex_generator.
Definition C10_example_searchsorted := ex_searchsorted.
Definition C10_example_wellformed := ex_wellformed.
Definition C10_example_transform_first := ex_transform_first.
Definition C10_example_prior_overrides := ex_prior_overrides.
Definition C10_example_late_ignored := ex_late_ignored.
Definition C10_example_no_greedy := ex_no_greedy.
Definition C10_example_errors := ex_errors.
Definition C10_example_cache_path := ex_usable.
Definition C10_example_dummy := ex_dummy.
Definition C10_example_decision := ex_decision.
Definition C10_example_select := ex_select.
Definition C10_example_time_shift := ex_time_shift.
Definition C10_example_values_closed := ex_values_closed.
Print Assumptions C10_example_cache_path.
