(* C02 — select() criteria combine as documented, whatever the call history.  Only statements here.
   Model / spec / wire: Model/Select.v (+ Base/SelSlice.v); proofs: Proofs/SelectBaseP.v, SelectP.v, SelectLawsP.v,
   SelectCritP.v, SelectExP.v. *)
From Coq Require Import ZArith List Bool String Permutation.
From KV Require Import Base.Sx Base.Str Base.SelSlice Gen.Generated Model.Select
  Proofs.SelectBaseP Proofs.SelectP Proofs.SelectLawsP Proofs.SelectCritP Proofs.SelectExP.
Import ListNotations.
Open Scope Z_scope.

(* ------------------------------------------------------------------ tie to the source (translator) *)

(* The keyword tables and the reset skeleton found in /repo's DataSet.select are the documented ones. *)
Theorem C02_tables_are_documented :
  sel_time_selectors = doc_group DT /\ sel_freq_selectors = doc_group DF /\ sel_corrprod_selectors = doc_group DB
  /\ sel_valid_kwargs = doc_valid /\ sel_strict_default = true
  /\ sel_noarg_reset = "TFB"%string /\ sel_default_reset = "auto"%string
  /\ sel_auto_table = [("T"%string, doc_group DT); ("F"%string, doc_group DF); ("B"%string, doc_group DB)]
  /\ sel_clear_table = [("T"%string, ("_time_keep"%string, doc_group DT));
                        ("F"%string, ("_freq_keep"%string, doc_group DF));
                        ("B"%string, ("_corrprod_keep"%string, doc_group DB))].
Proof. exact tables_are_documented. Qed.
Print Assumptions C02_tables_are_documented.

(* Every branch of the re-application loop found in the source ANDs into the mask of the documented group of its
   keyword(s), and the branches cover exactly the twelve selectors plus weights and flags. *)
Theorem C02_loop_branches_match_groups :
  forallb (fun row => forallb (fun k => match attr_dim (snd row), key_dim k with
                                        | Some d, Some d' => dim_eqb d d'
                                        | None, None => true
                                        | _, _ => false end) (fst row)) sel_loop_table = true
  /\ flat_map fst sel_loop_table = doc_group DT ++ doc_group DF ++ doc_group DB ++ ["weights"%string; "flags"%string].
Proof. exact loop_table_matches_groups. Qed.
Print Assumptions C02_loop_branches_match_groups.

(* ------------------------------------------------------------------ histories *)

(* Invariant of the re-application scheme: in every state reachable from the constructor by any history of
   successful calls, the masks have the lengths of the observation, _selection has distinct keys, every retained
   criterion can be evaluated and already holds of its mask, and a retained weights / flags entry is the current one. *)
Theorem C02_invariant : forall o s, reachable o s -> Inv o s.
Proof. exact reachable_inv. Qed.
Print Assumptions C02_invariant.

(* MAIN.  For every observation, every reachable state and every further call (distinct keywords, as Python
   guarantees), the model of the code and the documented rule agree: same exception class, or the same three masks
     new_d = (all-true if d is reset else old_d) AND all criteria of dimension d given in this call. *)
Theorem C02_refines : forall o s kw, reachable o s -> NoDup (keys kw) ->
  res_masks (select o s kw) = spec_select o (masks_of s) kw.
Proof. intros o s kw H. apply refines_inv. apply reachable_inv. exact H. Qed.
Print Assumptions C02_refines.

(* Repeating a call changes nothing: same masks, same weights / flags selection, same _selection up to key order. *)
Theorem C02_idempotent : forall o s kw s1, reachable o s -> NoDup (keys kw) ->
  select o s kw = Ok s1 -> res_equiv (select o s1 kw) (Ok s1).
Proof.
  intros o s kw s1 H. pose proof (reachable_inv o s H) as HI.
  apply idempotent; [exact (inv_wf _ _ HI) | exact (inv_nodup _ _ HI)].
Qed.
Print Assumptions C02_idempotent.

(* Keyword order is irrelevant, now and after any common continuation of the history. *)
Theorem C02_kw_order : forall o s kw kw' rest, reachable o s ->
  Permutation kw kw' -> NoDup (keys kw) -> Forall (fun c => NoDup (keys c)) rest ->
  res_equiv (run o s (kw :: rest)) (run o s (kw' :: rest)).
Proof.
  intros o s kw kw' rest H. pose proof (reachable_inv o s H) as HI.
  apply kw_order; [exact (inv_wf _ _ HI) | exact (inv_nodup _ _ HI)].
Qed.
Print Assumptions C02_kw_order.

(* The order of the entries of _selection never matters: equivalent states stay equivalent under any history. *)
Theorem C02_selection_order_irrelevant : forall o calls s s', wf_st o s -> st_equiv s s' ->
  Forall (fun c => NoDup (keys c)) calls -> res_equiv (run o s calls) (run o s' calls).
Proof. exact run_equiv. Qed.
Print Assumptions C02_selection_order_irrelevant.

(* Reset laws, for every reachable state. *)
Theorem C02_reset_laws : forall o s, reachable o s ->
  (* select() without arguments succeeds and selects everything *)
  (exists s', select o s [] = Ok s' /\ masks_of s' = all_ones o) /\
  (* after any successful call, per dimension: reset or old mask, ANDed with this call's criteria on it *)
  (forall kw s' d, NoDup (keys kw) -> select o s kw = Ok s' ->
     mget d s' = fold_left mand (spec_crit_masks o d kw)
                           (if spec_reset kw d then ones (dimlen o d) else mget d s)) /\
  (* an explicit reset (incl. '': stacking) clears exactly the named dimensions *)
  (forall kw r d, lookup "reset" kw = Some (VStr r) -> r <> "auto"%string ->
     spec_reset kw d = has_char (doc_letter d) r) /\
  (* absent / 'auto' reset with at least one keyword clears the dimensions mentioned by the keywords *)
  (forall kw d, kw <> [] -> (lookup "reset" kw = None \/ lookup "reset" kw = Some (VStr "auto")) ->
     spec_reset kw d = hits kw (doc_group d)) /\
  (* a dimension neither reset nor mentioned is left as it was *)
  (forall kw s' d, NoDup (keys kw) -> select o s kw = Ok s' ->
     spec_reset kw d = false -> hits kw (doc_group d) = false -> mget d s' = mget d s).
Proof.
  intros o s H. pose proof (reachable_inv o s H) as HI.
  split; [apply noarg_clears; exact HI|].
  split; [intros kw s' d Nk Hs; exact (select_dim o s kw s' d HI Nk Hs)|].
  split; [exact spec_reset_explicit|]. split; [exact spec_reset_auto|].
  intros kw s' d Nk Hs H1 H2. rewrite (select_dim o s kw s' d HI Nk Hs). apply untouched_dim; assumption.
Qed.
Print Assumptions C02_reset_laws.

(* flags= / weights= never change the masks (reused by C16, C03): a call carrying only these keywords succeeds,
   leaves the three masks alone and sets exactly the named selection(s); and any successful call that does not
   mention flags= (weights=) keeps the flags (weights) selection. *)
Theorem C02_flags_weights_never_change_masks : forall o s kw, reachable o s -> NoDup (keys kw) ->
  (kw <> [] -> (forall k, In k (keys kw) -> k = "flags"%string \/ k = "weights"%string) ->
   exists s', select o s kw = Ok s' /\ masks_of s' = masks_of s
              /\ (forall v, In ("flags"%string, v) kw -> flk s' = v)
              /\ (forall v, In ("weights"%string, v) kw -> wk s' = v)
              /\ (lookup "flags" kw = None -> flk s' = flk s) /\ (lookup "weights" kw = None -> wk s' = wk s))
  /\ (forall s', select o s kw = Ok s' ->
        (lookup "flags" kw = None -> flk s' = flk s) /\ (lookup "weights" kw = None -> wk s' = wk s)).
Proof.
  intros o s kw H Nk. pose proof (reachable_inv o s H) as HI. split.
  - intros Hne Hk. apply flags_weights_only; assumption.
  - intros s' Hs. exact (flags_kept o s kw s' HI Nk Hs).
Qed.
Print Assumptions C02_flags_weights_never_change_masks.

(* strict: an unknown keyword raises TypeError before anything is touched; strict=False never does, and the unknown
   keyword contributes no mask. *)
Theorem C02_strict : forall o s kw k,
  ((lookup "strict" kw = None \/ exists v, lookup "strict" kw = Some v /\ truthy v = true) ->
   In k (keys kw) -> mem_string k doc_valid = false -> select o s kw = Err ETypeError)
  /\ (forall v, lookup "strict" kw = Some v -> truthy v = false -> select o s kw <> Err ETypeError)
  /\ (forall v, mem_string k doc_valid = false -> crit o k v = CNone).
Proof.
  intros o s kw k. split; [apply strict_unknown_rejected|].
  split; [intros v; apply nonstrict_never_typeerror | intros v; apply unknown_kw_no_mask].
Qed.
Print Assumptions C02_strict.

(* ------------------------------------------------------------------ what each criterion keeps *)

(* timerange / freqrange keep exactly the dumps / channels lying wholly inside the range. *)
Theorem C02_timerange_wholly_inside : forall o lo hi i,
  crit o "timerange" (VRange lo hi) = CMask DT (timerange_mask o lo hi) /\
  (nth i (timerange_mask o lo hi) false = true <->
   exists d, nth_error (o_dumps o) i = Some d /\ lo <= d_ts d - o_half o /\ d_ts d + o_half o <= hi).
Proof. exact timerange_wholly_inside. Qed.
Print Assumptions C02_timerange_wholly_inside.

Theorem C02_freqrange_wholly_inside : forall o lo hi i,
  crit o "freqrange" (VRange lo hi) = CMask DF (freqrange_mask o lo hi) /\
  (nth i (freqrange_mask o lo hi) false = true <->
   exists f, nth_error (o_freqs o) i = Some f /\ lo <= f - o_halfw o /\ f + o_halfw o <= hi).
Proof. exact freqrange_wholly_inside. Qed.
Print Assumptions C02_freqrange_wholly_inside.

(* scans by index / state / ~state: what one item keeps; '~x' keeps exactly what 'x' drops. *)
Theorem C02_scans_item : forall o it i,
  nth i (scans_mask o [it]) false = true <->
  exists d, nth_error (o_dumps o) i = Some d /\
            match it with SIdx z => d_scan d = z | SName id => d_state d = id | SNot id => d_state d <> id end.
Proof. exact scans_item. Qed.
Print Assumptions C02_scans_item.

Theorem C02_tilde_negates : forall o id,
  scans_mask o [SNot id] = map negb (scans_mask o [SName id]) /\
  compscans_mask o [SNot id] = map negb (compscans_mask o [SName id]).
Proof. exact tilde_negates. Qed.
Print Assumptions C02_tilde_negates.

(* unknown target names and unknown tags select nothing. *)
Theorem C02_unknown_target_or_tag_selects_nothing : forall o id i,
  ((forall t, In t (o_targets o) -> ~ In id (t_names t)) -> nth i (targets_mask o [TName id]) false = false)
  /\ (~ In id (flat_map t_tags (o_targets o)) -> nth i (tags_mask o [id]) false = false).
Proof.
  intros o id i. split; [apply unknown_target_selects_nothing | apply unknown_tag_selects_nothing].
Qed.
Print Assumptions C02_unknown_target_or_tag_selects_nothing.

(* items inside one criterion are ORed (scans, compscans, targets, target_tags). *)
Theorem C02_or_within : forall o i,
  (forall a b, nth i (scans_mask o (a ++ b)) false = nth i (scans_mask o a) false || nth i (scans_mask o b) false)
  /\ (forall a b, nth i (compscans_mask o (a ++ b)) false
                  = nth i (compscans_mask o a) false || nth i (compscans_mask o b) false)
  /\ (forall a b, nth i (targets_mask o (a ++ b)) false
                  = nth i (targets_mask o a) false || nth i (targets_mask o b) false)
  /\ (forall a b, nth i (tags_mask o (a ++ b)) false = nth i (tags_mask o a) false || nth i (tags_mask o b) false).
Proof.
  intros o i. repeat split; intros a b;
    [apply or_within_scans | apply or_within_compscans | apply or_within_targets | apply or_within_tags].
Qed.
Print Assumptions C02_or_within.

(* ants: both antennas among the plain names; when all names carry a tilde (or none are given): neither antenna
   among them. *)
Theorem C02_ants : forall o l i,
  (is_deselection l = false ->
   (nth i (ants_mask o l) false = true <->
    exists cp, nth_error (o_cps o) i = Some cp /\
               In (ant_of (fst cp)) (map snd (filter (fun a => negb (fst a)) l)) /\
               In (ant_of (snd cp)) (map snd (filter (fun a => negb (fst a)) l))))
  /\ (is_deselection l = true ->
      (nth i (ants_mask o l) false = true <->
       exists cp, nth_error (o_cps o) i = Some cp /\
                  ~ In (ant_of (fst cp)) (map snd l) /\ ~ In (ant_of (snd cp)) (map snd l))).
Proof. intros o l i. split; [apply ants_membership | apply ants_all_tilde_complement]. Qed.
Print Assumptions C02_ants.

(* pol: 'h' is 'hh', 'v' is 'vv'; a two-letter item keeps the products with exactly these two polarisations;
   corrprods='cross' is the complement of 'auto'. *)
Theorem C02_pol : forall o,
  pol_mask o [POne 0] = pol_mask o [PTwo 0 0] /\ pol_mask o [POne 1] = pol_mask o [PTwo 1 1]
  /\ (forall p q i, exists m, pol_mask o [PTwo p q] = Some m /\
        (nth i m false = true <->
         exists cp, nth_error (o_cps o) i = Some cp /\ pol_of (fst cp) = p /\ pol_of (snd cp) = q))
  /\ corrprods_mask o VCross = option_map (map negb) (corrprods_mask o VAuto).
Proof.
  intro o. destruct (pol_h_is_hh o) as [A B]. split; [exact A|]. split; [exact B|].
  split; [intros p q i; apply pol_item | apply auto_cross].
Qed.
Print Assumptions C02_pol.

(* dumps / channels / corrprods given as slice(a, b) inside the axis keep exactly positions a .. b-1. *)
Theorem C02_slice_unit_step : forall n a b i, 0 <= a <= Z.of_nat n -> 0 <= b <= Z.of_nat n ->
  exists m, index_mask n (IxSlice (Some a) (Some b) None) = Some m /\
            (nth i m false = true <-> (i < n)%nat /\ a <= Z.of_nat i < b).
Proof. exact slice_unit_step. Qed.
Print Assumptions C02_slice_unit_step.

(* ------------------------------------------------------------------ non-vacuity *)
(* A 12-dump, 3-target observation and a 4-call history (scans+pol; channels; stacked targets; timerange+flags)
   on which every hypothesis above is met: the calls have distinct keywords, succeed, the final state is reachable. *)
Theorem C02_example :
  run ex_obs (init ex_obs) ex_history = Ok ex_s4 /\ reachable ex_obs ex_s4
  /\ Forall (fun c => NoDup (keys c)) ex_history
  /\ tk ex_s4 = map b [0;1;1;1; 1;1;1;1; 0;0;0;0] /\ fk ex_s4 = map b [0;1;1;0] /\ bk ex_s4 = map b [1;0;1;0;1;0]
  /\ flk ex_s4 = VAtom 3
  /\ keys (sel ex_s4) = ["spw"; "subarray"; "pol"; "channels"; "timerange"; "flags"]%string.
Proof. exact ex_run. Qed.
Print Assumptions C02_example.
