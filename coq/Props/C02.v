(* C02 — select() criteria combine as documented, whatever the call history.  Only statements here. *)
From Coq Require Import ZArith List Bool String.
From KV Require Import Base.Sx Base.Str Base.SelSlice Gen.Generated Model.Select Proofs.SelectP.
Import ListNotations.
Open Scope Z_scope.

Theorem C02_tables_are_documented :
  sel_time_selectors = doc_group DT /\ sel_freq_selectors = doc_group DF /\ sel_corrprod_selectors = doc_group DB
  /\ sel_valid_kwargs = doc_valid.
Proof. exact tables_are_documented. Qed.
Print Assumptions C02_tables_are_documented.
