(* C02 — select() criteria combine as documented, whatever the call history.  Only statements here.
   Part 1 (single spectral window / subarray, criteria as evaluated values): Model/Select.v (+ Base/SelSlice.v);
   proofs: Proofs/SelectBaseP.v, SelectP.v, SelectLawsP.v, SelectCritP.v, SelectExP.v.
   Part 2 (several windows / subarrays, spw= / subarray=, the strings and sequences the caller passes, every
   outcome of a call incl. the state left behind when it raises part-way, the public attributes, the constructor
   path): Model/SelectX.v; proofs: Proofs/SelectXP.v, SelectXRefP.v, SelectXLawsP.v, SelectXFormsP.v, SelectXExP.v. *)
From Coq Require Import ZArith List Bool String Ascii Permutation Sorted.
From KV Require Import Base.Sx Base.Str Base.SelSlice Gen.Generated Model.Select Model.SelectX Model.SelectA Proofs.SelectAP
  Proofs.SelectBaseP Proofs.SelectP Proofs.SelectLawsP Proofs.SelectCritP Proofs.SelectExP
  Proofs.SelectXP Proofs.SelectXRefP Proofs.SelectXLawsP Proofs.SelectXFormsP Proofs.SelectXExP.
Import ListNotations.
Open Scope Z_scope.

(* ------------------------------------------------------------------ tie to the source (translator) *)

(* The keyword tables and the reset skeleton found in /repo's DataSet.select are the documented ones. *)
Theorem C02_tables_are_documented :
  sel_time_selectors = doc_group DT /\ sel_freq_selectors = doc_group DF /\ sel_corrprod_selectors = doc_group DB
  /\ sel_valid_kwargs = doc_valid /\ sel_strict_default = true
  /\ sel_noarg_reset = "TFB"%string /\ sel_default_reset = "auto"%string
  /\ sel_auto_table = [("T"%string, doc_group DT); ("F"%string, doc_group DF); ("B"%string, doc_group DB)]
  /\ sel_clear_table = [("T"%string, ("_time_keep"%string, doc_group DT));
                        ("F"%string, ("_freq_keep"%string, doc_group DF));
                        ("B"%string, ("_corrprod_keep"%string, doc_group DB))].
Proof. exact tables_are_documented. Qed.
Print Assumptions C02_tables_are_documented.

(* Every branch of the re-application loop found in the source ANDs into the mask of the documented group of its
   keyword(s), and the branches cover exactly the twelve selectors plus weights and flags. *)
Theorem C02_loop_branches_match_groups :
  forallb (fun row => forallb (fun k => match attr_dim (snd row), key_dim k with
                                        | Some d, Some d' => dim_eqb d d'
                                        | None, None => true
                                        | _, _ => false end) (fst row)) sel_loop_table = true
  /\ flat_map fst sel_loop_table = doc_group DT ++ doc_group DF ++ doc_group DB ++ ["weights"%string; "flags"%string].
Proof. exact loop_table_matches_groups. Qed.

(* ------------------------------------------------------------------ histories *)

(* Invariant of the re-application scheme: in every state reachable from the constructor by any history of
   successful calls, the masks have the lengths of the observation, _selection has distinct keys, every retained
   criterion can be evaluated and already holds of its mask, and a retained weights / flags entry is the current one. *)
Theorem C02_invariant : forall o s, reachable o s -> Inv o s.
Proof. exact reachable_inv. Qed.

(* MAIN.  For every observation, every reachable state and every further call (distinct keywords, as Python
   guarantees), the model of the code and the documented rule agree: same exception class, or the same three masks
     new_d = (all-true if d is reset else old_d) AND all criteria of dimension d given in this call. *)
Theorem C02_refines : forall o s kw, reachable o s -> NoDup (keys kw) ->
  res_masks (select o s kw) = spec_select o (masks_of s) kw.
Proof. intros o s kw H. apply refines_inv. apply reachable_inv. exact H. Qed.
Print Assumptions C02_refines.

(* Repeating a call changes nothing: same masks, same weights / flags selection, same _selection up to key order. *)
Theorem C02_idempotent : forall o s kw s1, reachable o s -> NoDup (keys kw) ->
  select o s kw = Ok s1 -> res_equiv (select o s1 kw) (Ok s1).
Proof.
  intros o s kw s1 H. pose proof (reachable_inv o s H) as HI.
  apply idempotent; [exact (inv_wf _ _ HI) | exact (inv_nodup _ _ HI)].
Qed.

(* Keyword order is irrelevant, now and after any common continuation of the history. *)
Theorem C02_kw_order : forall o s kw kw' rest, reachable o s ->
  Permutation kw kw' -> NoDup (keys kw) -> Forall (fun c => NoDup (keys c)) rest ->
  res_equiv (run o s (kw :: rest)) (run o s (kw' :: rest)).
Proof.
  intros o s kw kw' rest H. pose proof (reachable_inv o s H) as HI.
  apply kw_order; [exact (inv_wf _ _ HI) | exact (inv_nodup _ _ HI)].
Qed.

(* The order of the entries of _selection never matters: equivalent states stay equivalent under any history. *)
Theorem C02_selection_order_irrelevant : forall o calls s s', wf_st o s -> st_equiv s s' ->
  Forall (fun c => NoDup (keys c)) calls -> res_equiv (run o s calls) (run o s' calls).
Proof. exact run_equiv. Qed.

(* Reset laws, for every reachable state. *)
Theorem C02_reset_laws : forall o s, reachable o s ->
  (* select() without arguments succeeds and selects everything *)
  (exists s', select o s [] = Ok s' /\ masks_of s' = all_ones o) /\
  (* after any successful call, per dimension: reset or old mask, ANDed with this call's criteria on it *)
  (forall kw s' d, NoDup (keys kw) -> select o s kw = Ok s' ->
     mget d s' = fold_left mand (spec_crit_masks o d kw)
                           (if spec_reset kw d then ones (dimlen o d) else mget d s)) /\
  (* an explicit reset (incl. '': stacking) clears exactly the named dimensions *)
  (forall kw r d, lookup "reset" kw = Some (VStr r) -> r <> "auto"%string ->
     spec_reset kw d = has_char (doc_letter d) r) /\
  (* absent / 'auto' reset with at least one keyword clears the dimensions mentioned by the keywords *)
  (forall kw d, kw <> [] -> (lookup "reset" kw = None \/ lookup "reset" kw = Some (VStr "auto")) ->
     spec_reset kw d = hits kw (doc_group d)) /\
  (* a dimension neither reset nor mentioned is left as it was *)
  (forall kw s' d, NoDup (keys kw) -> select o s kw = Ok s' ->
     spec_reset kw d = false -> hits kw (doc_group d) = false -> mget d s' = mget d s).
Proof.
  intros o s H. pose proof (reachable_inv o s H) as HI.
  split; [apply noarg_clears; exact HI|].
  split; [intros kw s' d Nk Hs; exact (select_dim o s kw s' d HI Nk Hs)|].
  split; [exact spec_reset_explicit|]. split; [exact spec_reset_auto|].
  intros kw s' d Nk Hs H1 H2. rewrite (select_dim o s kw s' d HI Nk Hs). apply untouched_dim; assumption.
Qed.

(* flags= / weights= never change the masks (reused by C16, C03): a call carrying only these keywords succeeds,
   leaves the three masks alone and sets exactly the named selection(s); and any successful call that does not
   mention flags= (weights=) keeps the flags (weights) selection. *)
Theorem C02_flags_weights_never_change_masks : forall o s kw, reachable o s -> NoDup (keys kw) ->
  (kw <> [] -> (forall k, In k (keys kw) -> k = "flags"%string \/ k = "weights"%string) ->
   exists s', select o s kw = Ok s' /\ masks_of s' = masks_of s
              /\ (forall v, In ("flags"%string, v) kw -> flk s' = v)
              /\ (forall v, In ("weights"%string, v) kw -> wk s' = v)
              /\ (lookup "flags" kw = None -> flk s' = flk s) /\ (lookup "weights" kw = None -> wk s' = wk s))
  /\ (forall s', select o s kw = Ok s' ->
        (lookup "flags" kw = None -> flk s' = flk s) /\ (lookup "weights" kw = None -> wk s' = wk s)).
Proof.
  intros o s kw H Nk. pose proof (reachable_inv o s H) as HI. split.
  - intros Hne Hk. apply flags_weights_only; assumption.
  - intros s' Hs. exact (flags_kept o s kw s' HI Nk Hs).
Qed.

(* strict: an unknown keyword raises TypeError before anything is touched; strict=False never does, and the unknown
   keyword contributes no mask. *)
Theorem C02_strict : forall o s kw k,
  ((lookup "strict" kw = None \/ exists v, lookup "strict" kw = Some v /\ truthy v = true) ->
   In k (keys kw) -> mem_string k doc_valid = false -> select o s kw = Err ETypeError)
  /\ (forall v, lookup "strict" kw = Some v -> truthy v = false -> select o s kw <> Err ETypeError)
  /\ (forall v, mem_string k doc_valid = false -> crit o k v = CNone).
Proof.
  intros o s kw k. split; [apply strict_unknown_rejected|].
  split; [intros v; apply nonstrict_never_typeerror | intros v; apply unknown_kw_no_mask].
Qed.

(* ------------------------------------------------------------------ what each criterion keeps *)

(* timerange / freqrange keep exactly the dumps / channels lying wholly inside the range. *)
Theorem C02_timerange_wholly_inside : forall o lo hi i,
  crit o "timerange" (VRange lo hi) = CMask DT (timerange_mask o lo hi) /\
  (nth i (timerange_mask o lo hi) false = true <->
   exists d, nth_error (o_dumps o) i = Some d /\ lo <= d_ts d - o_half o /\ d_ts d + o_half o <= hi).
Proof. exact timerange_wholly_inside. Qed.

Theorem C02_freqrange_wholly_inside : forall o lo hi i,
  crit o "freqrange" (VRange lo hi) = CMask DF (freqrange_mask o lo hi) /\
  (nth i (freqrange_mask o lo hi) false = true <->
   exists f, nth_error (o_freqs o) i = Some f /\ lo <= f - o_halfw o /\ f + o_halfw o <= hi).
Proof. exact freqrange_wholly_inside. Qed.

(* scans by index / state / ~state: what one item keeps; '~x' keeps exactly what 'x' drops. *)
Theorem C02_scans_item : forall o it i,
  nth i (scans_mask o [it]) false = true <->
  exists d, nth_error (o_dumps o) i = Some d /\
            match it with SIdx z => d_scan d = z | SName id => d_state d = id | SNot id => d_state d <> id end.
Proof. exact scans_item. Qed.

Theorem C02_tilde_negates : forall o id,
  scans_mask o [SNot id] = map negb (scans_mask o [SName id]) /\
  compscans_mask o [SNot id] = map negb (compscans_mask o [SName id]).
Proof. exact tilde_negates. Qed.

(* unknown target names and unknown tags select nothing. *)
Theorem C02_unknown_target_or_tag_selects_nothing : forall o id i,
  ((forall t, In t (o_targets o) -> ~ In id (t_names t)) -> nth i (targets_mask o [TName id]) false = false)
  /\ (~ In id (flat_map t_tags (o_targets o)) -> nth i (tags_mask o [id]) false = false).
Proof.
  intros o id i. split; [apply unknown_target_selects_nothing | apply unknown_tag_selects_nothing].
Qed.

(* items inside one criterion are ORed (scans, compscans, targets, target_tags). *)
Theorem C02_or_within : forall o i,
  (forall a b, nth i (scans_mask o (a ++ b)) false = nth i (scans_mask o a) false || nth i (scans_mask o b) false)
  /\ (forall a b, nth i (compscans_mask o (a ++ b)) false
                  = nth i (compscans_mask o a) false || nth i (compscans_mask o b) false)
  /\ (forall a b, nth i (targets_mask o (a ++ b)) false
                  = nth i (targets_mask o a) false || nth i (targets_mask o b) false)
  /\ (forall a b, nth i (tags_mask o (a ++ b)) false = nth i (tags_mask o a) false || nth i (tags_mask o b) false).
Proof.
  intros o i. repeat split; intros a b;
    [apply or_within_scans | apply or_within_compscans | apply or_within_targets | apply or_within_tags].
Qed.

(* ants: both antennas among the plain names; when all names carry a tilde (or none are given): neither antenna
   among them. *)
Theorem C02_ants : forall o l i,
  (is_deselection l = false ->
   (nth i (ants_mask o l) false = true <->
    exists cp, nth_error (o_cps o) i = Some cp /\
               In (ant_of (fst cp)) (map snd (filter (fun a => negb (fst a)) l)) /\
               In (ant_of (snd cp)) (map snd (filter (fun a => negb (fst a)) l))))
  /\ (is_deselection l = true ->
      (nth i (ants_mask o l) false = true <->
       exists cp, nth_error (o_cps o) i = Some cp /\
                  ~ In (ant_of (fst cp)) (map snd l) /\ ~ In (ant_of (snd cp)) (map snd l))).
Proof. intros o l i. split; [apply ants_membership | apply ants_all_tilde_complement]. Qed.

(* pol: 'h' is 'hh', 'v' is 'vv'; a two-letter item keeps the products with exactly these two polarisations;
   corrprods='cross' is the complement of 'auto'. *)
Theorem C02_pol : forall o,
  pol_mask o [POne 0] = pol_mask o [PTwo 0 0] /\ pol_mask o [POne 1] = pol_mask o [PTwo 1 1]
  /\ (forall p q i, exists m, pol_mask o [PTwo p q] = Some m /\
        (nth i m false = true <->
         exists cp, nth_error (o_cps o) i = Some cp /\ pol_of (fst cp) = p /\ pol_of (snd cp) = q))
  /\ corrprods_mask o VCross = option_map (map negb) (corrprods_mask o VAuto).
Proof.
  intro o. destruct (pol_h_is_hh o) as [A B]. split; [exact A|]. split; [exact B|].
  split; [intros p q i; apply pol_item | apply auto_cross].
Qed.

(* dumps / channels / corrprods given as slice(a, b) inside the axis keep exactly positions a .. b-1. *)
Theorem C02_slice_unit_step : forall n a b i, 0 <= a <= Z.of_nat n -> 0 <= b <= Z.of_nat n ->
  exists m, index_mask n (IxSlice (Some a) (Some b) None) = Some m /\
            (nth i m false = true <-> (i < n)%nat /\ a <= Z.of_nat i < b).
Proof. exact slice_unit_step. Qed.

(* ------------------------------------------------------------------ non-vacuity *)
(* A 12-dump, 3-target observation and a 4-call history (scans+pol; channels; stacked targets; timerange+flags)
   on which every hypothesis above is met: the calls have distinct keywords, succeed, the final state is reachable. *)
Theorem C02_example :
  run ex_obs (init ex_obs) ex_history = Ok ex_s4 /\ reachable ex_obs ex_s4
  /\ Forall (fun c => NoDup (keys c)) ex_history
  /\ tk ex_s4 = map b [0;1;1;1; 1;1;1;1; 0;0;0;0] /\ fk ex_s4 = map b [0;1;1;0] /\ bk ex_s4 = map b [1;0;1;0;1;0]
  /\ flk ex_s4 = VAtom 3
  /\ keys (sel ex_s4) = ["spw"; "subarray"; "pol"; "channels"; "timerange"; "flags"]%string.
Proof. exact ex_run. Qed.


(* ==================================================================================================== *)
(* PART 2: several spectral windows / subarrays, surface forms, failed calls, public attributes       *)
(* ==================================================================================================== *)

(* ------------------------------------------------------------------ tie to the source (translator) *)

(* Every comparison operator, margin, index, sensor name, letter and special character that the translator reads
   from DataSet.select, _selection_to_list and _is_deselection is the documented one. *)
Theorem C02_decisions_are_documented :
  sel_spw_range = (0, ("LtE", "Lt"))%string /\ sel_sub_range = (0, ("LtE", "Lt"))%string
  /\ sel_spw_change = ("NotEq", "TF")%string /\ sel_sub_change = ("NotEq", "TB")%string
  /\ sel_init_spw = -1 /\ sel_init_sub = -1
  /\ sel_time_base = [("Observation/spw_index", ("Eq", "spw")); ("Observation/subarray_index", ("Eq", "subarray"))]%string
  /\ sel_timerange = [(0, ("Add", ((1, 2), "GtE"))); (1, ("Sub", ((1, 2), "LtE")))]%string
  /\ sel_freqrange = [(0, ("Add", ((1, 2), "GtE"))); (1, ("Sub", ((1, 2), "LtE")))]%string
  /\ sel_scan_negation = ("Eq"%string, 126) /\ sel_deselection = ("NotEq"%string, 126) /\ sel_list_sep = 44
  /\ sel_auto_cmp = "Eq"%string /\ sel_cross_cmp = "NotEq"%string
  /\ sel_ants_desel = ("NotIn", ("And", "NotIn"))%string /\ sel_ants_sel = ("In", ("And", "In"))%string
  /\ sel_inputs_ops = ("In", ("And", "In"))%string
  /\ sel_pol_single = [104; 118] /\ sel_pol_repeat = 2 /\ sel_pol_nonempty = ("Gt"%string, 0)
  /\ sel_pol_match = (("Eq"%string, 0), ("And"%string, ("Eq"%string, 1))).
Proof. exact decisions_are_documented. Qed.
Print Assumptions C02_decisions_are_documented.

(* The comparisons as written in the source, interpreted generically, ARE the masks of the model: timerange /
   freqrange margins and inequalities, auto / cross, ants (selection and deselection), inputs, two-letter pol. *)
Theorem C02_source_comparisons_agree : forall o,
  (forall lo hi, gen_timerange_mask o lo hi = timerange_mask o lo hi)
  /\ (forall lo hi, gen_freqrange_mask o lo hi = freqrange_mask o lo hi)
  /\ Some (gen_auto_mask o) = corrprods_mask o VAuto /\ Some (gen_cross_mask o) = corrprods_mask o VCross
  /\ (forall l, gen_ants_mask o l = ants_mask o l)
  /\ (forall l, gen_inputs_mask o l = inputs_mask o l)
  /\ (forall cp p q, gen_pol_keep cp p q = pitem_keep cp (PTwo p q)).
Proof. exact gen_agrees. Qed.

(* ------------------------------------------------------------------ constructor and invariants *)

(* DataSet.__init__ followed by the constructor's select(spw=0, subarray=0): window 0 / subarray 0, the dumps
   recorded with them, all channels, all products, _selection = {spw, subarray}; the invariants hold. *)
Theorem C02_constructor_state : forall xo, has_windows xo ->
  xinit xo = with_core (xinit_core xo) 0 0 (pub_of (view_at xo 0 0) (sub_at xo 0) (xinit_core xo))
  /\ tk (xinit_core xo) = window_mask xo 0 0 /\ window_mask xo 0 0 = wmask xo 0 0
  /\ XInv xo (xinit xo).
Proof.
  intros xo [Hs Hb]. split; [apply xinit_closed; assumption|]. split; [reflexivity|].
  split; [apply window_mask_base | apply XInv_init; assumption].
Qed.

(* xreach_any: states after ANY history from the constructor.  xreach: the constructor state, the state after an
   ACCEPTED call from any xreach_any state (so also after failed calls have been recovered from), and such states
   after documented rejections - i.e. every state in which no part-way failure is pending. *)
(* After ANY history (accepted, rejected and part-way failed calls): window and subarray in range, masks of the
   lengths of the current window / subarray, distinct keys, and the time selection inside the dumps recorded with
   the current window and subarray (spw / subarray are "always active").  After a history without part-way
   failures moreover: every retained criterion holds of its mask and the public attributes are those of the masks. *)
Theorem C02_multiwindow_invariant : forall xo s, has_windows xo ->
  (xreach_any xo s -> WInv xo s) /\ (xreach xo s -> XInv xo s).
Proof. intros xo s H. split; [apply xreach_any_WInv | apply xreach_XInv]; exact H. Qed.

(* ------------------------------------------------------------------ MAIN (several windows / subarrays) *)

(* For every observation, every state reachable without part-way failure and every further call given in its
   surface form with distinct keywords: the model of the code and the documented rule agree on the outcome
   (accepted / TypeError / IndexError / other exception) and, unless the call raises part-way, on the three masks,
   the window and the subarray:  new_d = (fresh_d if d starts afresh else old_d) AND criteria of this call on d,
   where d starts afresh by the reset rule or because the window (T, F) / subarray (T, B) changes, and fresh_T =
   dumps recorded with the new window and subarray. *)
Theorem C02_multiwindow_refines : forall xo s xkw, has_windows xo -> xreach xo s -> NoDup (map fst xkw) ->
  fst (xselect xo s xkw) = fst (xspec_select xo (xm_of s) xkw) /\
  (fst (xselect xo s xkw) <> OFail -> xm_of (snd (xselect xo s xkw)) = snd (xspec_select xo (xm_of s) xkw)).
Proof. intros xo s xkw H R. apply xrefines. apply xreach_XInv; assumption. Qed.
Print Assumptions C02_multiwindow_refines.

Example C02_multiwindow_refines_example :
  XInv ex_xobs xs2 /\ NoDup (map fst xc3)
  /\ xspec_select ex_xobs (xm_of xs2) xc3 = (OOk, xm_of xs3)
  /\ xspec_select ex_xobs (xm_of xs3) xc4 = (OOk, xm_of xs4)
  /\ fst (xspec_select ex_xobs (xm_of xs5) xc_neg) = OIndexError.
Proof. exact ex_refines_instance. Qed.

(* Whole histories: as long as the documented rule never meets a call that raises part-way, outcome and selection
   after EVERY call are those of the documented rule; hence keyword order is irrelevant now and after any
   continuation, and repeating an accepted call changes neither selection nor public attributes. *)
Theorem C02_history_refines : forall xo s calls, has_windows xo -> xreach xo s ->
  Forall (fun c => NoDup (map fst c)) calls -> no_partway_failure (xspec_run xo (xm_of s) calls) ->
  xrun xo s calls = xspec_run xo (xm_of s) calls.
Proof. intros xo s calls H R. apply xhistory_refines. apply xreach_XInv; assumption. Qed.
Print Assumptions C02_history_refines.

Theorem C02_multiwindow_kw_order : forall xo s xkw xkw' rest, has_windows xo -> xreach xo s ->
  Permutation xkw xkw' -> NoDup (map fst xkw) -> Forall (fun c => NoDup (map fst c)) rest ->
  no_partway_failure (xspec_run xo (xm_of s) (xkw :: rest)) ->
  xrun xo s (xkw :: rest) = xrun xo s (xkw' :: rest).
Proof. intros xo s xkw xkw' rest H R. apply xkw_order. apply xreach_XInv; assumption. Qed.

Theorem C02_multiwindow_idempotent : forall xo s xkw s1, has_windows xo -> xreach xo s -> NoDup (map fst xkw) ->
  xselect xo s xkw = (OOk, s1) ->
  exists s2, xselect xo s1 xkw = (OOk, s2) /\ xm_of s2 = xm_of s1 /\ x_pub s2 = x_pub s1.
Proof. intros xo s xkw s1 H R. apply xidempotent. apply xreach_XInv; assumption. Qed.

Example C02_history_example :
  no_partway_failure (xspec_run ex_xobs (xm_of xs0) [xc1; xc2; xc3; xc4; xc5; xc_neg; xc_bogus; xc8])
  /\ xrun ex_xobs xs0 [xc1; xc2; xc3] = xrun ex_xobs xs0 [xc1; xc2; xc3']
  /\ Permutation xc3 xc3'.
Proof. exact ex_history_instance. Qed.

(* What a change of window / subarray resets - and what it must NOT touch.  After an accepted call, per dimension:
   fresh-or-old mask ANDed with this call's criteria; a change of window forces time and frequency afresh, a
   change of subarray time and products; a dimension that neither starts afresh nor is mentioned is unchanged
   (e.g. the products and their retained criteria survive spw=, the channels survive subarray=). *)
Theorem C02_window_change_resets : forall xo s xkw s', has_windows xo -> xreach xo s -> NoDup (map fst xkw) ->
  xselect xo s xkw = (OOk, s') ->
  let kw := elab_kw (x_vocab xo) xkw in
  let chg_spw := negb (x_spw s' =? x_spw s) in
  let chg_sub := negb (x_sub s' =? x_sub s) in
  let o := view_at xo (x_spw s') (x_sub s') in
  (forall d, mget d (x_core s') = fold_left mand (spec_crit_masks o d kw)
                (if xspec_reset kw chg_spw chg_sub d then xbase xo o (x_spw s') (x_sub s') d else mget d (x_core s)))
  /\ (chg_spw = true -> xspec_reset kw chg_spw chg_sub DT = true /\ xspec_reset kw chg_spw chg_sub DF = true)
  /\ (chg_sub = true -> xspec_reset kw chg_spw chg_sub DT = true /\ xspec_reset kw chg_spw chg_sub DB = true)
  /\ (forall d, xspec_reset kw chg_spw chg_sub d = false -> hits kw (doc_group d) = false ->
        mget d (x_core s') = mget d (x_core s)).
Proof. intros xo s xkw s' H R. apply xselect_dims. apply xreach_XInv; assumption. Qed.

(* weights= / flags= with several windows: an accepted call sets exactly the selection it names and keeps the other
   (whatever it does to masks, window and subarray). *)
Theorem C02_multiwindow_flags_weights : forall xo s xkw s', has_windows xo -> xreach xo s -> NoDup (map fst xkw) ->
  xselect xo s xkw = (OOk, s') ->
  let kw := elab_kw (x_vocab xo) xkw in
  wk (x_core s') = match lookup "weights" kw with Some v => v | None => wk (x_core s) end
  /\ flk (x_core s') = match lookup "flags" kw with Some v => v | None => flk (x_core s) end.
Proof. intros xo s xkw s' H R. apply xselect_weights_flags. apply xreach_XInv; assumption. Qed.

(* spw= / subarray= outside 0 .. n-1 - negative indices included - is rejected (IndexError, or the TypeError of an
   unknown keyword) and nothing is touched. *)
Theorem C02_window_out_of_range : forall xo s xkw z,
  let kw := elab_kw (x_vocab xo) xkw in
  (lookup "spw" kw = Some (VAtom z) /\ ~ (0 <= z < Z.of_nat (List.length (x_spws xo)))
   \/ (atom_of (x_spw s) (lookup "spw" kw) <> None /\ lookup "subarray" kw = Some (VAtom z)
       /\ ~ (0 <= z < Z.of_nat (List.length (x_subs xo))))) ->
  (fst (xselect xo s xkw) = OIndexError \/ fst (xselect xo s xkw) = OTypeError) /\ snd (xselect xo s xkw) = s.
Proof. exact window_out_of_range. Qed.

(* ------------------------------------------------------------------ calls that raise *)

(* `a call that raises leaves the data set as it was`:
   _partial : true for the documented rejections (TypeError of an unknown keyword, IndexError of spw / subarray);
   _refuted : false for a call that raises while a criterion is applied - from a reachable state the masks change,
              shape disagrees with the masks, the offending criterion is retained and the next, unrelated call
              (channels=0) raises too (finding F74). *)
Theorem C02_body_rejections_atomic : forall xo s xkw oc s', xselect xo s xkw = (oc, s') ->
  oc = OTypeError \/ oc = OIndexError -> s' = s.
Proof. exact rejected_untouched. Qed.

Theorem C02_body_alone_not_atomic :
  exists xo s xkw s' later,
    xreach xo s /\ NoDup (map fst xkw) /\ xselect xo s xkw = (OFail, s')
    /\ masks_of (x_core s') <> masks_of (x_core s)
    /\ p_shape (x_pub s') <> [count (tk (x_core s')); count (fk (x_core s')); count (bk (x_core s'))]
    /\ (exists k v, In (k, v) (sel (x_core s')) /\ crit (view_at xo (x_spw s') (x_sub s')) k v = CErr)
    /\ lookup "channels" (elab_kw (x_vocab xo) later) <> None /\ List.length later = 1%nat
    /\ fst (xselect xo s' later) = OFail.
Proof. exact failed_call_not_atomic. Qed.
Print Assumptions C02_body_alone_not_atomic.

(* keyword order IS visible in the state left by a failed call (so C02_multiwindow_kw_order needs its hypothesis) *)
Theorem C02_body_alone_failed_call_sees_kw_order :
  exists xo s xkw xkw', xreach xo s /\ Permutation xkw xkw' /\ NoDup (map fst xkw)
    /\ fst (xselect xo s xkw) = OFail /\ fst (xselect xo s xkw') = OFail
    /\ tk (x_core (snd (xselect xo s xkw))) <> tk (x_core (snd (xselect xo s xkw'))).
Proof. exact failed_call_sees_kw_order. Qed.

(* What exactly a call that raised part-way leaves behind, from any state: window / subarray of the call in force,
   public attributes not recomputed, every keyword of the call retained, one retained criterion unevaluable, weak
   invariant intact. *)
Theorem C02_failed_call_state : forall xo s xkw s' spw sub,
  WInv xo s -> NoDup (map fst xkw) ->
  xpre xo (x_spw s) (x_sub s) (elab_kw (x_vocab xo) xkw) = inr (spw, sub) ->
  xselect xo s xkw = (OFail, s') ->
  let kw := elab_kw (x_vocab xo) xkw in
  x_spw s' = spw /\ x_sub s' = sub /\ x_pub s' = x_pub s
  /\ (forall k v, In (k, v) kw -> ~ special k -> In (k, v) (sel (x_core s')))
  /\ (exists k v, In (k, v) (sel (x_core s')) /\ crit (view_at xo spw sub) k v = CErr)
  /\ WInv xo s'.
Proof. exact failed_call_state. Qed.

(* ... and the retained offender makes every later call fail that neither replaces it nor starts its dimension afresh *)
Theorem C02_poison_persists : forall xo s xkw k v spw sub,
  WInv xo s -> NoDup (map fst xkw) ->
  xpre xo (x_spw s) (x_sub s) (elab_kw (x_vocab xo) xkw) = inr (spw, sub) ->
  In (k, v) (sel (x_core s)) -> crit (view_at xo spw sub) k v = CErr ->
  lookup k (elab_kw (x_vocab xo) xkw) = None ->
  popped (xreset (x_spw s) (x_sub s) (elab_kw (x_vocab xo) xkw) spw sub) k = false ->
  fst (xselect xo s xkw) = OFail.
Proof. exact poison_persists. Qed.

(* RECOVERY, from whatever state any history left: select() without arguments is accepted and restores the dumps of
   the current window / subarray, all channels, all products; ANY accepted call re-establishes the strong invariant
   (so all theorems above apply again) and gives the documented result on every dimension it starts afresh. *)
Theorem C02_recovery : forall xo s, has_windows xo -> xreach_any xo s ->
  (exists s', xselect xo s [] = (OOk, s') /\ XInv xo s' /\ x_spw s' = x_spw s /\ x_sub s' = x_sub s /\
     masks_of (x_core s') = {| m_t := wmask xo (x_spw s) (x_sub s);
                                m_f := ones (dimlen (view_at xo (x_spw s) (x_sub s)) DF);
                                m_b := ones (dimlen (view_at xo (x_spw s) (x_sub s)) DB) |})
  /\ (forall xkw s', NoDup (map fst xkw) -> xselect xo s xkw = (OOk, s') ->
        XInv xo s' /\ fst (xspec_select xo (xm_of s) xkw) = OOk /\
        forall d, xspec_fresh xo (xm_of s) xkw d = true ->
          mk d (masks_of (x_core s')) = mk d (xm_masks (snd (xspec_select xo (xm_of s) xkw)))).
Proof.
  intros xo s H R. pose proof (xreach_any_WInv xo s H R) as W. split.
  - apply xselect_noarg. exact W.
  - intros xkw s' N E. apply xrecovery; assumption.
Qed.
Print Assumptions C02_recovery.

Example C02_recovery_example :
  WInv ex_xobs xs6 /\ ~ Inv (view_at ex_xobs (x_spw xs6) (x_sub xs6)) (x_core xs6)
  /\ xselect ex_xobs xs6 [("corrprods"%string, XCore VAuto)] = (OOk, snd (xselect ex_xobs xs6 [("corrprods"%string, XCore VAuto)]))
  /\ xspec_fresh ex_xobs (xm_of xs6) [("corrprods"%string, XCore VAuto)] DB = true
  /\ xspec_fresh ex_xobs (xm_of xs6) [("corrprods"%string, XCore VAuto)] DT = false
  /\ tk (x_core (snd (xselect ex_xobs xs6 [("corrprods"%string, XCore VAuto)]))) = map bb [1;1;0;0;0;0;0;0].
Proof. exact ex_recovery_instance. Qed.

(* ------------------------------------------------------------------ the forms the caller may use *)

(* Names: a comma string is the list of its stripped fields ('' is the empty list; an int / object is a
   singleton); 'a,b,c' = ['a','b','c'] for names without commas and surrounding blanks; '~x' negates x, '' raises,
   integers are indices; pol is case-insensitive; _is_deselection on the strings agrees with the all-tilde test of
   the model (and raises / short-circuits as the code does). *)
Theorem C02_surface_forms :
  (sel_to_list (XBare (AStr EmptyString)) = Some []
   /\ (forall c s, sel_to_list (XBare (AStr (String c s))) = Some (map (fun f => AStr (strip f)) (split_on 44 (String c s))))
   /\ (forall z, sel_to_list (XBare (AInt z)) = Some [AInt z])
   /\ (forall id, sel_to_list (XBare (AObj id)) = Some [AObj id])
   /\ (forall l, sel_to_list (XSeq l) = Some l))
  /\ (forall items, items <> [] -> join items <> EmptyString -> forallb clean items = true ->
        sel_to_list (XBare (AStr (join items))) = sel_to_list (XSeq (map AStr items)))
  /\ (forall tbl, elab_scan tbl (AStr EmptyString) = None
        /\ (forall n, elab_scan tbl (AStr (String "~"%char n)) = Some (SNot (id_of tbl n)))
        /\ (forall c n, code c <> 126 -> elab_scan tbl (AStr (String c n)) = Some (SName (id_of tbl (String c n))))
        /\ (forall z, elab_scan tbl (AInt z) = Some (SIdx z)))
  /\ (forall s, elab_pol (AStr (lower s)) = elab_pol (AStr s))
  /\ (forall tbl l l', elab_ants tbl l = Some l' -> ants_desel l = Some (is_deselection l')).
Proof.
  split; [exact sel_to_list_forms|]. split; [exact comma_string_is_list|]. split; [exact elab_scan_forms|].
  split; [exact elab_pol_case | exact elab_ants_desel].
Qed.

Example C02_surface_forms_example :
  join ["m000"; "~m001"; "m 062"]%string = "m000,~m001,m 062"%string
  /\ forallb clean ["m000"; "~m001"; "m 062"]%string = true
  /\ elab ex_vocab "ants" (XBare (AStr " m000 ,m001")) = Some (VAnts [(false, 0); (false, 1)])
  /\ elab ex_vocab "ants" (XSeq [AStr " m000"; AStr "m001"]) = Some (VAnts [(false, -1); (false, 1)])
  /\ elab ex_vocab "ants" (XSeq [AStr "~m000"; AStr ""]) = None
  /\ elab ex_vocab "ants" (XSeq [AStr "m000"; AStr ""]) = Some (VAnts [(false, 0); (false, -1)])
  /\ elab ex_vocab "scans" (XBare (AStr "track,,slew")) = None
  /\ elab ex_vocab "scans" (XBare (AStr "~track, 2")) = Some (VScans [SNot 1; SName (-1)])
  /\ elab ex_vocab "scans" (XSeq [AStr "~track"; AInt 2]) = Some (VScans [SNot 1; SIdx 2])
  /\ elab ex_vocab "pol" (XBare (AStr "H, vh,")) = Some (VPols [POne 0; PTwo 1 0; PEmpty])
  /\ elab ex_vocab "inputs" (XBare (AStr "m000h,M000V")) = Some (VInputs [(0, 0); (-1, -1)])
  /\ elab ex_vocab "target_tags" (XBare (AStr "")) = Some (VIds []).
Proof. exact ex_forms_instance. Qed.

(* Index forms of dumps / channels / corrprods: a 0-d or one-element mask is broadcast (True neutral, False
   absorbing); an empty sequence selects nothing; an integer is the one-element list; -k is n-k; duplicates and
   order of a list (or tuple) are irrelevant; slice(a, b, c) with a positive step keeps a, a+c, ... below b. *)
Theorem C02_index_forms : forall n,
  ((forall b, index_mask n (IxMask [b]) = Some (repeat b n))
   /\ index_mask n (IxList []) = Some (repeat false n)
   /\ (forall z, index_mask n (IxInt z) = index_mask n (IxList [z]))
   /\ (forall k, 1 <= k <= Z.of_nat n -> index_mask n (IxInt (- k)) = index_mask n (IxInt (Z.of_nat n - k)))
   /\ (forall l l', (forall z, In z l <-> In z l') -> index_mask n (IxList l) = index_mask n (IxList l')))
  /\ (forall m, List.length m = n -> mand m (ones n) = m /\ mand m (repeat false n) = repeat false n)
  /\ (forall a b c i, 0 <= a <= Z.of_nat n -> 0 <= b <= Z.of_nat n -> 0 < c ->
        exists m, index_mask n (IxSlice (Some a) (Some b) (Some c)) = Some m /\
                  (nth i m false = true <-> (i < n)%nat /\ a <= Z.of_nat i < b /\ (Z.of_nat i - a) mod c = 0)).
Proof.
  intro n. split; [apply index_forms|]. split; [intros m H; apply mand_ones; exact H | apply slice_step].
Qed.

Example C02_index_forms_example :
  index_mask 5 (IxMask [true]) = Some (map bb [1;1;1;1;1]) /\ index_mask 5 (IxList []) = Some (map bb [0;0;0;0;0])
  /\ index_mask 5 (IxInt (-2)) = Some (map bb [0;0;0;1;0]) /\ index_mask 5 (IxList [3; 3; -5]) = Some (map bb [1;0;0;1;0])
  /\ index_mask 5 (IxSlice (Some 1) (Some 5) (Some 2)) = Some (map bb [0;1;0;1;0])
  /\ index_mask 5 (IxSlice None None (Some (-2))) = Some (map bb [1;0;1;0;1])
  /\ index_mask 5 (IxList [5]) = None /\ index_mask 5 (IxMask [true; false]) = None.
Proof. exact ex_index_instance. Qed.

(* ------------------------------------------------------------------ public attributes *)

(* In every state reached without part-way failure: shape counts the masks; dumps / channels are the ascending
   positions of the selected entries and as many as shape says; corr_products are the selected products; inputs
   are exactly the inputs of the selected products, strictly ascending (no duplicates); ants are the antennas of
   the current subarray, in its order, that own a selected input. *)
Theorem C02_public_attributes : forall xo s, has_windows xo -> xreach xo s ->
  let c := x_core s in let p := x_pub s in
  let o := view_at xo (x_spw s) (x_sub s) in
  p_shape p = [count (tk c); count (fk c); count (bk c)]
  /\ p_dumps p = nonzero (tk c) /\ p_channels p = nonzero (fk c)
  /\ Z.of_nat (List.length (p_dumps p)) = count (tk c) /\ Z.of_nat (List.length (p_channels p)) = count (fk c)
  /\ Z.of_nat (List.length (p_freqs p)) = count (fk c) /\ Z.of_nat (List.length (p_cps p)) = count (bk c)
  /\ (forall cp, In cp (p_cps p) <-> exists i, nth_error (o_cps o) i = Some cp /\ nth i (bk c) false = true)
  /\ StronglySorted input_lt (p_inputs p)
  /\ (forall x, In x (p_inputs p) <-> exists cp, In cp (p_cps p) /\ (x = fst cp \/ x = snd cp))
  /\ (forall a, In a (p_ants p) <-> In a (sa_ants (sub_at xo (x_sub s))) /\ exists x, In x (p_inputs p) /\ ant_of x = a).
Proof.
  intros xo s H R c p o. pose proof (xreach_XInv xo s H R) as I. unfold p. rewrite (xi_pub _ _ I).
  apply pub_of_spec. apply (inv_wf _ _ (xi_inv _ _ I)).
Qed.
Print Assumptions C02_public_attributes.

Theorem C02_dumps_ascending : forall m,
  StronglySorted Z.lt (nonzero m)
  /\ (forall z, In z (nonzero m) <-> exists i, z = Z.of_nat i /\ nth i m false = true)
  /\ Z.of_nat (List.length (nonzero m)) = count m.
Proof. exact nonzero_spec. Qed.

(* ------------------------------------------------------------------ non-vacuity: a two-window history *)
(* 8 dumps, windows of 4 and 6 channels, subarrays of 3 and 2 products: spw=1; channels=[0,5]; scans='track, scan'
   stacked; spw=0 with ants='~m001'; dumps=[0]; corrprods=[7] with scans='slew' RAISES; channels=0 RAISES too;
   select() recovers; spw=-1 -> IndexError, bogus=7 -> TypeError, both without effect. *)
Example C02_multiwindow_example :
  (xinit ex_xobs = xs0
   /\ xselect ex_xobs xs0 xc1 = (OOk, xs1) /\ xselect ex_xobs xs1 xc2 = (OOk, xs2)
   /\ xselect ex_xobs xs2 xc3 = (OOk, xs3) /\ xselect ex_xobs xs3 xc4 = (OOk, xs4)
   /\ xselect ex_xobs xs4 xc5 = (OOk, xs5) /\ xselect ex_xobs xs5 xc6 = (OFail, xs6)
   /\ xselect ex_xobs xs6 xc7 = (OFail, xs7) /\ xselect ex_xobs xs7 xc8 = (OOk, xs8)
   /\ xselect ex_xobs xs5 xc_neg = (OIndexError, xs5) /\ xselect ex_xobs xs5 xc_bogus = (OTypeError, xs5))
  /\ has_windows ex_xobs /\ xreach ex_xobs xs5 /\ xreach_any ex_xobs xs6
  /\ xreach ex_xobs (snd (xselect ex_xobs xs6 [("corrprods"%string, XCore VAuto)]))
  /\ tk (x_core xs1) = map bb [0;0;0;1;1;0;0;0] /\ fk (x_core xs1) = map bb [1;1;1;1;1;1] /\ bk (x_core xs1) = bk (x_core xs0)
  /\ tk (x_core xs4) = map bb [1;1;1;0;0;0;0;0] /\ fk (x_core xs4) = map bb [1;1;1;1] /\ bk (x_core xs4) = map bb [1;0;0]
  /\ keys (sel (x_core xs6)) = ["spw"; "subarray"; "corrprods"; "scans"]%string /\ p_shape (x_pub xs6) = [1; 4; 1]
  /\ tk (x_core xs6) = map bb [1;1;1;0;0;0;0;0]
  /\ p_shape (x_pub xs8) = [3; 4; 3] /\ p_inputs (x_pub xs8) = [(0, 0); (1, 0); (1, 1)] /\ p_ants (x_pub xs8) = [0; 1].
Proof.
  split; [exact ex_steps|]. split; [exact ex_windows|]. split; [exact ex_reach5|]. split; [exact ex_any6|].
  split; [exact ex_reach_after_failure|].
  pose proof ex_masks as M. repeat split; vm_compute; reflexivity.
Qed.

(* ------------------------------------------------------------------ part 3: the decorated method is all-or-nothing *)
(* `xselect` above is the BODY of DataSet.select; the caller reaches it through the decorator
   `_restore_selection_on_error` (repair of finding F74), modelled by `xselect_a` (Model/SelectA.v): on an exception of
   whatever class the handler puts back the attributes named in the generated list `sel_atomic_restores`.  The
   theorems `C02_body_*`, `C02_failed_call_state`, `C02_poison_persists`, `C02_recovery` above describe what the body
   alone would leave behind - i.e. what the decorator protects the caller from. *)

(* the decorator is on `select` and its handler restores exactly the eight components of the selection state *)
Theorem C02_atomic_decorator_is_documented :
  sel_atomic = true
  /\ sel_atomic_restores = ["_time_keep"; "_freq_keep"; "_corrprod_keep"; "_selection"; "spw"; "subarray";
                            "_weights_keep"; "_flags_keep"]%string
  /\ (forall old cur, x_pub cur = x_pub old -> restore old cur = old)
  /\ (forall xo s xkw, fst (xselect xo s xkw) <> OOk -> x_pub (snd (xselect xo s xkw)) = x_pub s).
Proof.
  destruct atomic_is_documented as [A B]. split; [exact A|]. split; [exact B|].
  split; [exact restore_is_old | exact xselect_pub_unchanged].
Qed.

(* ATOMICITY at full strength (any state, any call, any exception): a call that is not accepted leaves the WHOLE
   state - masks, retained criteria, weights / flags, window, subarray, public attributes - exactly as it was; an
   accepted call is the body's accepted call. *)
Theorem C02_failed_call_atomic : forall xo s xkw,
  (fst (xselect_a xo s xkw) <> OOk -> snd (xselect_a xo s xkw) = s)
  /\ fst (xselect_a xo s xkw) = fst (xselect xo s xkw)
  /\ (forall s', xselect_a xo s xkw = (OOk, s') <-> xselect xo s xkw = (OOk, s')).
Proof.
  intros xo s xkw. split; [apply failed_call_atomic|]. split; [apply xselect_a_fst | intro s'; apply xselect_a_ok].
Qed.
Print Assumptions C02_failed_call_atomic.

(* After ANY history through the decorated method - accepted, rejected and failed calls in any order - no failure
   is pending: the state is `xreach`, so every theorem of part 2 stated for `xreach` applies, and the strong
   invariant holds (every retained criterion holds of its mask, public attributes = those of the masks). *)
Theorem C02_atomic_any_history_is_clean : forall xo calls, has_windows xo ->
  Forall (fun c => NoDup (map fst c)) calls ->
  let s := xafter_a xo (xinit xo) calls in
  xreach_a xo s /\ xreach xo s /\ XInv xo s.
Proof.
  intros xo calls H N s. assert (R : xreach_a xo s) by (apply xafter_a_reach; [constructor | exact N]).
  split; [exact R|]. split; [apply xreach_a_clean; exact R | apply xreach_a_XInv; assumption].
Qed.

(* MAIN, whole histories, NO side condition: outcome class and selection (three masks, window, subarray) after
   EVERY call of EVERY history are those of the documented rule - a failed call included (it changes nothing). *)
Theorem C02_atomic_history_refines : forall xo s calls, has_windows xo -> xreach_a xo s ->
  Forall (fun c => NoDup (map fst c)) calls ->
  xrun_a xo s calls = xspec_run xo (xm_of s) calls.
Proof. intros xo s calls H R. apply xhistory_refines_a. apply xreach_a_XInv; assumption. Qed.
Print Assumptions C02_atomic_history_refines.

(* keyword order is irrelevant for every call, failing ones too, now and after any continuation; a failing call
   fails with the same class in any order and leaves the same (old) state *)
Theorem C02_atomic_kw_order : forall xo s xkw xkw' rest, has_windows xo -> xreach_a xo s ->
  Permutation xkw xkw' -> NoDup (map fst xkw) -> Forall (fun c => NoDup (map fst c)) rest ->
  xrun_a xo s (xkw :: rest) = xrun_a xo s (xkw' :: rest)
  /\ (fst (xselect_a xo s xkw) <> OOk -> xselect_a xo s xkw' = (fst (xselect_a xo s xkw), s)).
Proof.
  intros xo s xkw xkw' rest H R P N Nr. pose proof (xreach_a_XInv xo s H R) as I.
  split; [apply xkw_order_a; assumption | apply failed_kw_order_a; assumption].
Qed.

(* NO POISON: a call that is not accepted is invisible to everything that follows (outcomes, selections, state) *)
Theorem C02_atomic_failed_call_invisible : forall xo s bad rest, fst (xselect_a xo s bad) <> OOk ->
  xrun_a xo s (bad :: rest) = (fst (xselect_a xo s bad), xm_of s) :: xrun_a xo s rest
  /\ xafter_a xo s (bad :: rest) = xafter_a xo s rest.
Proof. exact failed_call_invisible. Qed.

(* repeating ANY call changes nothing: same outcome, same selection, same public attributes *)
Theorem C02_atomic_idempotent : forall xo s xkw, has_windows xo -> xreach_a xo s -> NoDup (map fst xkw) ->
  let r1 := xselect_a xo s xkw in
  let r2 := xselect_a xo (snd r1) xkw in
  fst r2 = fst r1 /\ xm_of (snd r2) = xm_of (snd r1) /\ x_pub (snd r2) = x_pub (snd r1).
Proof. intros xo s xkw H R. apply xidempotent_a. apply xreach_a_XInv; assumption. Qed.

(* non-vacuity: on the history of the example the body leaves xs6 <> xs5 after `corrprods=[7], scans='slew'` and
   then fails `channels=0`; the decorated method leaves xs5, accepts `channels=0` (shape 1 x 1 x 1), and the whole
   ten-call history (5 accepted, 1 raised part-way, 1 accepted, IndexError, TypeError, select()) equals the rule *)
Example C02_atomic_example :
  xselect ex_xobs xs5 xc6 = (OFail, xs6) /\ xs6 <> xs5
  /\ xselect_a ex_xobs xs5 xc6 = (OFail, xs5)
  /\ fst (xselect ex_xobs xs6 xc7) = OFail
  /\ fst (xselect_a ex_xobs xs5 xc7) = OOk
  /\ p_shape (x_pub (snd (xselect_a ex_xobs xs5 xc7))) = [1; 1; 1]
  /\ xrun_a ex_xobs xs0 [xc1; xc2; xc3; xc4; xc5; xc6; xc7; xc_neg; xc_bogus; xc8]
     = xspec_run ex_xobs (xm_of xs0) [xc1; xc2; xc3; xc4; xc5; xc6; xc7; xc_neg; xc_bogus; xc8]
  /\ map fst (xrun_a ex_xobs xs0 [xc1; xc2; xc3; xc4; xc5; xc6; xc7; xc_neg; xc_bogus; xc8])
     = [OOk; OOk; OOk; OOk; OOk; OFail; OOk; OIndexError; OTypeError; OOk]
  /\ xreach_a ex_xobs (xafter_a ex_xobs (xinit ex_xobs) [xc1; xc2; xc3; xc4; xc5; xc6])
  /\ xafter_a ex_xobs (xinit ex_xobs) [xc1; xc2; xc3; xc4; xc5; xc6] = xs5.
Proof. exact ex_atomic_instance. Qed.

(* A switching call that also names a criterion of the THIRD dimension (default reset): the call changes the window
   and carries a product criterion, or changes the subarray and carries a channel criterion - then all three
   dimensions start afresh: each mask is the base of the new window / subarray ANDed with this call's criteria of
   that dimension, whatever was selected before (the old products / channels are NOT ANDed in). *)
Theorem C02_switching_call_with_third_dimension : forall xo s xkw s', has_windows xo -> xreach_a xo s ->
  NoDup (map fst xkw) -> xselect_a xo s xkw = (OOk, s') ->
  let kw := elab_kw (x_vocab xo) xkw in
  let o := view_at xo (x_spw s') (x_sub s') in
  lookup "reset" kw = None ->
  (x_spw s' <> x_spw s /\ hits kw (doc_group DB) = true) \/ (x_sub s' <> x_sub s /\ hits kw (doc_group DF) = true) ->
  forall d, mget d (x_core s') = fold_left mand (spec_crit_masks o d kw) (xbase xo o (x_spw s') (x_sub s') d).
Proof. intros xo s xkw s' H R. apply switch_third_dimension. apply xreach_a_XInv; assumption. Qed.

(* pol='h' keeps products [1;1;0] of subarray 0; then spw=1, corrprods=[2]: products [0;0;1] - not [0;0;0] *)
Example C02_switching_call_example :
  bk (x_core (xafter_a ex_xobs xs0 [xc_pol])) = map bb [1;1;0]
  /\ fst (xselect_a ex_xobs (xafter_a ex_xobs xs0 [xc_pol]) xc_switch) = OOk
  /\ bk (x_core (xafter_a ex_xobs xs0 [xc_pol; xc_switch])) = map bb [0;0;1]
  /\ keys (sel (x_core (xafter_a ex_xobs xs0 [xc_pol; xc_switch]))) = ["spw"; "subarray"; "corrprods"]%string
  /\ x_spw (xafter_a ex_xobs xs0 [xc_pol; xc_switch]) = 1
  /\ hits (elab_kw ex_vocab xc_switch) (doc_group DB) = true /\ lookup "reset" (elab_kw ex_vocab xc_switch) = None.
Proof. exact ex_switch_instance. Qed.

(* Names with INNER blanks: a non-empty string without comma and without blanks at its two ends is ONE item, itself
   (so compscans='drift scan' is compscans=['drift scan']); only the blanks around a comma-separated field go. *)
Theorem C02_inner_blanks_are_part_of_the_name : forall name, name <> EmptyString -> forallb clean [name] = true ->
  sel_to_list (XBare (AStr name)) = Some [AStr name].
Proof. exact single_name_kept. Qed.

Example C02_inner_blanks_example :
  sel_to_list (XBare (AStr "drift scan")) = Some [AStr "drift scan"]
  /\ sel_to_list (XBare (AStr " noise diode ,drift scan")) = Some [AStr "noise diode"; AStr "drift scan"]
  /\ sel_to_list (XBare (AStr "~drift scan, track")) = sel_to_list (XSeq [AStr "~drift scan"; AStr "track"])
  /\ mapM (elab_scan blank_labels) [AStr "drift scan"; AStr "~noise diode"; AStr "driftscan"]
     = Some [SName 2; SNot 3; SName unknown_id].
Proof. exact ex_inner_blank_instance. Qed.

(* ------------------------------------------------------------------ assumptions of everything above *)
(* One Print Assumptions over the tuple of ALL theorems and examples of this file (individual ones are printed
   above for the principal theorems only: each costs about a second of checking time). *)
Definition C02_all_theorems :=
  (C02_tables_are_documented,
   C02_loop_branches_match_groups,
   C02_invariant,
   C02_refines,
   C02_idempotent,
   C02_kw_order,
   C02_selection_order_irrelevant,
   C02_reset_laws,
   C02_flags_weights_never_change_masks,
   C02_strict,
   C02_timerange_wholly_inside,
   C02_freqrange_wholly_inside,
   C02_scans_item,
   C02_tilde_negates,
   C02_unknown_target_or_tag_selects_nothing,
   C02_or_within,
   C02_ants,
   C02_pol,
   C02_slice_unit_step,
   C02_example,
   C02_decisions_are_documented,
   C02_source_comparisons_agree,
   C02_constructor_state,
   C02_multiwindow_invariant,
   C02_multiwindow_refines,
   C02_multiwindow_refines_example,
   C02_history_refines,
   C02_multiwindow_kw_order,
   C02_multiwindow_idempotent,
   C02_history_example,
   C02_window_change_resets,
   C02_multiwindow_flags_weights,
   C02_window_out_of_range,
   C02_body_rejections_atomic,
   C02_body_alone_not_atomic,
   C02_body_alone_failed_call_sees_kw_order,
   C02_failed_call_state,
   C02_poison_persists,
   C02_recovery,
   C02_recovery_example,
   C02_surface_forms,
   C02_surface_forms_example,
   C02_index_forms,
   C02_index_forms_example,
   C02_public_attributes,
   C02_dumps_ascending,
   C02_multiwindow_example,
   C02_atomic_decorator_is_documented,
   C02_failed_call_atomic,
   C02_atomic_any_history_is_clean,
   C02_atomic_history_refines,
   C02_atomic_kw_order,
   C02_atomic_failed_call_invisible,
   C02_atomic_idempotent,
   C02_atomic_example,
   C02_switching_call_with_third_dimension,
   C02_switching_call_example,
   C02_inner_blanks_are_part_of_the_name,
   C02_inner_blanks_example).
Print Assumptions C02_all_theorems.
