(* C05 — HDF5-era lazy and concatenated indexers equal composed outer indexing.  Only statements here. *)
From Coq Require Import ZArith List Bool.
From KV Require Import Base.Sx Base.PySlice Base.AxisIndex Base.NdArray Base.LazyDType Gen.Generated
  Model.LazyIdx Model.LazyNd Model.ConcatIdx Model.LazyKeep Model.LazyHist Proofs.LazyIdxP Proofs.LazyNdP Proofs.ConcatIdxP Proofs.LazyKeepP
  Proofs.LazyHistP.
Import ListNotations.
Open Scope Z_scope.

(* Positions selected by a Python slice lie on the axis (PySlice model, also compared exhaustively
   with Python's slice.indices on a small scope by the harness). *)
Theorem C05_slice_positions_on_axis : forall n a b c ps x,
  0 <= n -> slice_positions n a b c = Some ps -> In x ps -> 0 <= x < n.
Proof. exact slice_positions_in_range. Qed.
Print Assumptions C05_slice_positions_on_axis.

(* Composition law of outer indexing on N-d arrays of any content. *)
Theorem C05_oindex_compose : forall t s1 s2,
  List.length s1 = List.length s2 ->
  Forall (fun s => snd s = false) s1 ->
  Forall2 (fun a b => in_range (zlen (fst a)) (fst b) /\ (snd b = true -> fst b <> [])) s1 s2 ->
  take (take t s1) s2 = take t (compose_sels s1 s2).
Proof. exact take_compose. Qed.
Print Assumptions C05_oindex_compose.

(* axis_plan_reconstructs: for a strictly increasing list of positions on an axis of length n, the
   segment decomposition fills the pre-allocated output exactly with that list and the output
   slices cover [0, |l|) -- for BOTH read strategies (b = true: one spanning slice + post-selection,
   b = false: one slice per contiguous run), so the 20 % heuristic cannot change the result. *)
Theorem C05_axis_plan_reconstructs : forall n (b : bool) x r,
  increasing (x :: r) = true -> 0 <= x -> last (x :: r) 0 < n ->
  do_segs n (repeat None (Z.to_nat (seg_total (adv_segs b (x :: r))))) (adv_segs b (x :: r)) = Ok (map Some (x :: r))
  /\ seg_total (adv_segs b (x :: r)) = zlen (x :: r).
Proof. exact adv_gather. Qed.
Print Assumptions C05_axis_plan_reconstructs.

(* Per axis: whatever the first-stage item i1 and the second-stage item i2 (int, slice with any
   start/stop/step, mask, integer sequence), if the indexer delivers dataset positions g they are the
   numpy positions p2 of i2 on the first-stage result mapped through the numpy positions p1 of i1. *)
Theorem C05_axis : forall n i1 i2 lk p1 g d, 0 <= n ->
  mk_lookup n i1 = Ok lk -> resolve_keep n i1 = Ok p1 -> axis_sel n lk i2 = Ok (g, d) ->
  exists p2, resolve (zlen p1) i2 = Ok (p2, d) /\ g = map (znth p1) p2 /\ (d = true -> p2 <> []).
Proof. exact axis_sel_correct. Qed.
Print Assumptions C05_axis.

(* C05_getitem (full strength): for every source content [ds] of every shape, every first-stage and
   second-stage index tuple and every transform chain: if source[stage 1] exists and the indexer
   answers, the answer is exactly transforms(source[stage 1][stage 2]) under outer indexing
   (values, shape and dtype). *)
Theorem C05_getitem : forall shape ds k1 ts dt k2 li out a1,
  Forall (fun d => 0 <= d) shape ->
  mk_lazy shape k1 ts dt = Ok li ->
  oindex_keep (mk_nd shape ds) k1 = Ok a1 ->
  getitem li ds k2 = Ok out ->
  spec_getitem shape ds k1 ts dt k2 = Ok out.
Proof. exact getitem_correct. Qed.
Print Assumptions C05_getitem.

(* ---- the N-d chunk loop (np.mgrid over the segment products, np.empty buffer, post-selection, block assignment) ---- *)

(* C05_nd_loop (full strength): on abstract per-axis writes.  If on every kept axis the segment writes tile the output
   range [0, |G|) (axis_tiled) then looping over ALL combinations of one segment per axis, reading the chunk
   take ds (...) and assigning it to its output block, turns EVERY buffer of the right shape - whatever it held -
   into the outer product take ds Gs.  (Induction over the axes; rows of a block are independent.) *)
Theorem C05_nd_loop : forall Ws Gs, Forall2 axis_tiled Ws Gs ->
  forall ds g, shaped (take_shape Gs) g -> pure_loop ds Ws g = take ds Gs.
Proof. exact pure_loop_correct. Qed.
Print Assumptions C05_nd_loop.

(* C05_nd_refines (full strength): for plans whose output slices are contiguous from 0 (plan_tiled; every plan of
   LazyIndexer is, C05_plans_tiled), any dataset content and ANY content of the np.empty buffer: if the real loop
   (read_sel = dataset[ints / slices], post-selection per kept axis, write_nd = out[slices] = chunk with exact shape
   match, or the single read when every axis is a scalar) succeeds, then every axis gathers in the 1-D model and the
   result IS the outer product of the per-axis gathers, with shape [np.sum(segments) ...]. *)
Theorem C05_nd_refines : forall garbage shape plans ds t,
  List.length plans = List.length shape -> Forall plan_tiled plans ->
  (forall sh, shaped sh (garbage sh)) ->
  nd_extract garbage shape plans ds = Ok t ->
  exists sels, mapM (fun a => axis_gather (fst a) (snd a)) (combine shape plans) = Ok sels
    /\ t = take ds sels /\ take_shape sels = out_shape_of plans.
Proof. exact nd_extract_sound. Qed.
Print Assumptions C05_nd_refines.

Theorem C05_plans_tiled : forall n m p, axis_plan n m = Ok p -> plan_tiled p.
Proof. exact axis_plan_tiled. Qed.
Print Assumptions C05_plans_tiled.

(* C05_nd_equiv (full strength): for every indexer that can be constructed, every dataset content, every index tuple
   and every content of np.empty, the indexer with its chunk loop and the per-axis model give THE SAME result - the same
   answer, and also the same rejections (the loop neither changes an answer nor rejects a request whose axes all
   gather).  Hence every statement about [getitem] (C05_getitem, C05_rejects*, C05_shape_dtype, the F30 / F31
   witnesses) is a statement about the real loop. *)
Theorem C05_nd_equiv : forall garbage shape k1 ts dt li ds ixs,
  Forall (fun d => 0 <= d) shape -> (forall sh, shaped sh (garbage sh)) ->
  mk_lazy shape k1 ts dt = Ok li ->
  getitem_nd garbage li ds ixs = getitem li ds ixs.
Proof. exact getitem_nd_equiv. Qed.
Print Assumptions C05_nd_equiv.

(* C05_getitem_nd (full strength): C05_getitem for the indexer WITH its chunk loop and an arbitrary np.empty. *)
Theorem C05_getitem_nd : forall garbage shape ds k1 ts dt k2 li out a1,
  Forall (fun d => 0 <= d) shape -> (forall sh, shaped sh (garbage sh)) ->
  mk_lazy shape k1 ts dt = Ok li ->
  oindex_keep (mk_nd shape ds) k1 = Ok a1 ->
  getitem_nd garbage li ds k2 = Ok out ->
  spec_getitem shape ds k1 ts dt k2 = Ok out.
Proof. exact getitem_nd_correct. Qed.
Print Assumptions C05_getitem_nd.

(* no element of the answer is left over from the uninitialised buffer *)
Theorem C05_getitem_nd_garbage_free : forall g1 g2 li ds ixs o1 o2,
  List.length (li_lookup li) = List.length (li_shape li) ->
  (forall sh, shaped sh (g1 sh)) -> (forall sh, shaped sh (g2 sh)) ->
  getitem_nd g1 li ds ixs = Ok o1 -> getitem_nd g2 li ds ixs = Ok o2 -> o1 = o2.
Proof. exact getitem_nd_garbage_free. Qed.
Print Assumptions C05_getitem_nd_garbage_free.

(* non-vacuity: 3-d, dense + scalar + sparse axes through the loop; all-scalar read; an out-of-range scalar next to an
   empty selection and a negative step down to 0 are rejected *)
Theorem C05_getitem_nd_example :
  run_lazy_nd [12; 3; 4] [ASlice (Some 1) None None; AMask [true; false; true]] [AList [0; 2; 3; 7; 9]; AInt (-1); AList [0; 3]]
  = spec_getitem [12; 3; 4] (arange [12; 3; 4] 0) [ASlice (Some 1) None None; AMask [true; false; true]] [] 0
                 [AList [0; 2; 3; 7; 9]; AInt (-1); AList [0; 3]]
  /\ run_lazy_nd [12; 3; 4] [ASlice (Some 1) None None; AMask [true; false; true]] [AList [0; 2; 3; 7; 9]; AInt (-1); AList [0; 3]] <> Err
  /\ run_lazy_nd [5; 2] [] [AInt 1; AInt 0] = spec_getitem [5; 2] (arange [5; 2] 0) [] [] 0 [AInt 1; AInt 0]
  /\ run_lazy_nd [5; 2] [] [AList []; AInt 5] = Err
  /\ run_lazy_nd [5] [] [ASlice None None (Some (-1))] = Err.
Proof. exact lazy_nd_example. Qed.
Print Assumptions C05_getitem_nd_example.

(* the hypotheses are satisfiable: a dense (span + post-select) and a sparse (per-run) selection *)
Theorem C05_getitem_example :
  run_lazy [12; 3] [ASlice (Some 1) None None; AMask [true; false; true]] [AList [0; 2; 3; 7; 9]; AInt (-1)]
  = spec_getitem [12; 3] (arange [12; 3] 0) [ASlice (Some 1) None None; AMask [true; false; true]] [] 0 [AList [0; 2; 3; 7; 9]; AInt (-1)]
  /\ run_lazy [12; 3] [ASlice (Some 1) None None; AMask [true; false; true]] [AList [0; 2; 3; 7; 9]; AInt (-1)] <> Err
  /\ run_lazy [12] [] [AList [0; 9]] = spec_getitem [12] (arange [12] 0) [] [] 0 [AList [0; 9]]
  /\ run_lazy [12] [] [AList [0; 9]] <> Err.
Proof. exact lazy_example_supported. Qed.
Print Assumptions C05_getitem_example.

(* C05_rejects: a sequence that is not strictly increasing (unsorted or repeated, including a list
   repeating ONE index) or contains a negative integer is rejected; together with C05_getitem it is
   never answered with other data.  Through a first-stage lookup the test applies to the mapped sequence. *)
Theorem C05_rejects : forall n l,
  increasing l = false \/ (exists x, In x l /\ x < 0) -> axis_sel n None (AList l) = Err.
Proof. exact axis_rejects. Qed.
Print Assumptions C05_rejects.

Theorem C05_rejects_mapped : forall n l1 is,
  (forall vs, np_take l1 is = Ok vs -> increasing vs = false) -> axis_sel n (Some l1) (AList is) = Err.
Proof. exact axis_rejects_mapped. Qed.
Print Assumptions C05_rejects_mapped.

(* an N-d answer means that every axis was accepted (so one rejected axis rejects the whole request) *)
Theorem C05_rejects_nd : forall li ds ixs out, getitem li ds ixs = Ok out ->
  forall n lk ix, In (n, lk, ix) (combine (combine (li_shape li) (li_lookup li)) (pad_to (List.length (li_shape li)) ixs)) ->
  exists s, axis_sel n lk ix = Ok s.
Proof. exact getitem_ok_axes. Qed.
Print Assumptions C05_rejects_nd.

(* C05_shape_dtype (full strength): the .shape and .dtype properties are the shape and dtype of self[:],
   for every source, first stage (that exists) and transform chain accepted at construction. *)
Theorem C05_shape_dtype : forall shape ds k1 ts dt li a1 out s,
  Forall (fun d => 0 <= d) shape ->
  mk_lazy shape k1 ts dt = Ok li -> oindex_keep (mk_nd shape ds) k1 = Ok a1 ->
  lazy_shape li = Ok s -> getitem li ds [] = Ok out ->
  nd_shape (a_nd out) = s /\ a_dtype out = lazy_dtype li.
Proof. exact getitem_full_shape_dtype. Qed.
Print Assumptions C05_shape_dtype.

(* every answer (any index) has the dtype property and the shape obtained by folding the declared new_shape *)
Theorem C05_shape_dtype_any_index : forall li ds ixs out, getitem li ds ixs = Ok out ->
  a_dtype out = lazy_dtype li /\
  exists sels, lazy_sels li ixs = Ok sels /\
    nd_shape (a_nd out) = fold_left (fun sh t => tr_new_shape t sh) (li_ts li) (take_shape sels).
Proof. exact getitem_shape_dtype. Qed.
Print Assumptions C05_shape_dtype_any_index.

(* C05_concat (full strength): for every list of raw parts (any number, some without data on the first axis, each
   a LazyIndexer with its own source, its own first stage AND ITS OWN DTYPE), every index tuple (head: scalar incl.
   negative, slice with any start/stop, mask, integer list incl. negative / unsorted-across-parts; any tail) and every
   transform chain of the concatenation: if the indexer could be constructed (c_mk: the dtypes of the parts with rows
   are all equal or all byte strings, katdal's rule) and it answers, the answer is exactly the transforms of the SAME
   index applied to np.concatenate (first axis) of the parts' first-stage results -- values, shape and dtype, where
   the dtype of the concatenation is numpy's promotion of the parts' dtypes (spec_concat / promote_all) and not the
   dtype of any particular part.  Every part answers in its own dtype and is cast to the result dtype where it enters
   the result (part_get / astype / cast_val: a narrower byte-string buffer truncates, see C05_concat_dtype_example);
   the theorem holds because _initial_dtype is at least as wide as every part (C05_common_dtype).
   Hypotheses, stated explicitly: shapes are non-negative and have at least one axis (raw_ok) and every part's first
   stage exists (numpy accepts source[stage 1]).  No common-dtype hypothesis any more.
   No guard for the open finding F30b: the indexer raises there, so the implication holds.  F10 / F10b are repaired:
   C05_concat_slice_head_answers / C05_concat_mask_head_answers show that these requests are answered. *)
Theorem C05_concat : forall raws ts ix c out fulls,
  Forall raw_ok raws ->
  mapM (fun r => oindex_keep (mk_nd (r_shape r) (r_ds r)) (r_keep r)) raws = Ok fulls ->
  c_mk raws ts = Ok c -> c_getitem c ix = Ok out ->
  spec_concat raws ts ix = Ok out.
Proof. exact concat_correct. Qed.
Print Assumptions C05_concat.

(* C05_concat_shape_dtype (full strength): the .shape and .dtype properties of the concatenated indexer are the shape and
   dtype of c[:] (through the whole transform chain), and len(c) = shape[0] is the sum of the lengths of ALL parts'
   first-stage results - parts without rows are dropped at construction and contribute nothing, a part that only
   selects nothing on a LATER axis keeps its rows. *)
Theorem C05_concat_shape_dtype : forall raws ts c out fulls s d,
  Forall raw_ok raws ->
  mapM (fun r => oindex_keep (mk_nd (r_shape r) (r_ds r)) (r_keep r)) raws = Ok fulls ->
  c_mk raws ts = Ok c -> c_getitem c [] = Ok out ->
  c_shape c = Ok s -> c_dtype c = Ok d ->
  nd_shape (a_nd out) = s /\ a_dtype out = d /\ hd 0 s = zsum (map (fun a => hd 0 (nd_shape a)) fulls).
Proof. exact concat_shape_dtype. Qed.
Print Assumptions C05_concat_shape_dtype.

Theorem C05_concat_shape_dtype_example :
  let raws := [mk_craw [3; 2] [] (arange [3; 2] 0) 0; mk_craw [0; 2] [] (arange [0; 2] 1) 0; mk_craw [4; 2] [ASlice None None (Some 2)] (arange [4; 2] 1) 0] in
  let ts := [TMap 2 1 (Some 1); TAdd; TMap 1 0 (Some 4)] in
  exists c out, c_mk raws ts = Ok c /\ c_getitem c [] = Ok out /\ c_shape c = Ok [5; 2; 1] /\ c_dtype c = Ok 4
    /\ nd_shape (a_nd out) = [5; 2; 1] /\ a_dtype out = 4.
Proof. exact concat_shape_dtype_example. Qed.
Print Assumptions C05_concat_shape_dtype_example.

(* what katdal's _initial_dtype guarantees when it accepts the dtypes of the kept parts: every part's dtype can be
   stored in it without changing a value, and it is numpy's promotion (the dtype of np.concatenate) of them *)
Theorem C05_common_dtype : forall l dt, common_dtype l = Ok dt ->
  Forall (fun d => dtype_le d dt) l /\ promote_all l = Ok dt.
Proof. exact common_dtype_spec. Qed.
Print Assumptions C05_common_dtype.

(* storing an element in an array whose dtype it fits keeps the value (equal dtype, or a wider byte string) ... *)
Theorem C05_cast_widen : forall from to v, dtype_le from to -> cast_val from to v = v.
Proof. exact cast_widen. Qed.
Print Assumptions C05_cast_widen.

(* ... and so does every cast np.concatenate performs (bool < int < float < complex, byte strings by width):
   this is why spec_concat needs no value cast *)
Theorem C05_promotion_keeps_values : forall a b c v, promote a b = Ok c -> cast_val a c v = v /\ cast_val b c v = v.
Proof. exact promote_cast_id. Qed.
Print Assumptions C05_promotion_keeps_values.

(* parts |S2, (empty float part), |S4: list, slice, scalar and mask heads equal the spec and answer in |S4; int + float
   parts are rejected at construction; and the cast |S4 -> |S2 (a buffer of the first part's dtype) loses data *)
Theorem C05_concat_dtype_example :
  run_concat bytes_parts [AList [4; 0]] = spec_concat bytes_parts [] [AList [4; 0]]
  /\ has_dtype 104 (run_concat bytes_parts [AList [4; 0]])
  /\ run_concat bytes_parts [ASlice None (Some 2) None] = spec_concat bytes_parts [] [ASlice None (Some 2) None]
  /\ has_dtype 104 (run_concat bytes_parts [ASlice None (Some 2) None])
  /\ run_concat bytes_parts [AInt 1] = spec_concat bytes_parts [] [AInt 1]
  /\ run_concat bytes_parts [AMask [false; true; false; false; true]] = spec_concat bytes_parts [] [AMask [false; true; false; false; true]]
  /\ run_concat [mk_craw [2] [] (arange [2] 0) 0; mk_craw [2] [] (arange [2] 1) 1] [] = Err
  /\ cast_val 104 102 (enc_val 104 7) <> enc_val 104 7.
Proof. exact concat_dtype_example. Qed.
Print Assumptions C05_concat_dtype_example.

(* the core of C05_concat on abstract parts: any parts which, cast to the result dtype [dt], behave like outer
   indexing of their own result [f] (part_ok), with running offsets; C05_concat_parts + C05_concat_part_cast show
   that every LazyIndexer part whose dtype fits [dt] does *)
Theorem C05_concat_core : forall ps fs T dt,
  Forall2 (part_ok T dt) ps fs -> ps <> [] -> Forall (fun p => 0 <= part_len p) ps ->
  forall ts ixs out,
  c_initial_dtype ps = Ok dt ->
  c_getitem (mk_concat ps ts) ixs = Ok out ->
  (r <- oindex (mk_nd (zsum (map part_len ps) :: T)
                      (Node (List.concat (map (fun f => children (nd_body f)) fs)))) ixs ;;
   apply_transforms ts (mk_arr dt r)) = Ok out.
Proof. exact concat_core. Qed.
Print Assumptions C05_concat_core.

(* every real part answers like outer indexing of its own result, in its own dtype (by C05_getitem) ... *)
Theorem C05_concat_parts : forall r li a1,
  Forall (fun d => 0 <= d) (r_shape r) -> r_shape r <> [] ->
  mk_lazy (r_shape r) (r_keep r) [] (r_dt r) = Ok li ->
  oindex_keep (mk_nd (r_shape r) (r_ds r)) (r_keep r) = Ok a1 ->
  part_ok0 (tl (nd_shape a1)) (mk_cpart li (r_ds r)) a1 /\ 0 <= part_len (mk_cpart li (r_ds r)).
Proof. exact part_ok_of_raw. Qed.
Print Assumptions C05_concat_parts.

(* ... and therefore satisfies the hypothesis of C05_concat_core for every result dtype that its own dtype fits *)
Theorem C05_concat_part_cast : forall T dt p f, part_ok0 T p f -> dtype_le (part_dtype p) dt -> part_ok T dt p f.
Proof. exact part_ok_upgrade. Qed.
Print Assumptions C05_concat_part_cast.

(* arithmetic core of the slice branch: splitting a progression at a part boundary *)
Theorem C05_concat_split : forall st e B, 0 < st -> forall (n : nat) s, e - s <= Z.of_nat n ->
  py_range s e st = py_range s (Z.min B e) st ++ py_range (first_ge s st B) e st.
Proof. exact py_range_split. Qed.
Print Assumptions C05_concat_split.

Theorem C05_concat_first_in_part : forall start off stride, 0 < stride -> start < off ->
  let cs := (start - off) mod stride in
  0 <= cs < stride
  /\ (off + cs - start) mod stride = 0
  /\ forall j, off <= j -> (j - start) mod stride = 0 -> off + cs <= j.
Proof. exact first_in_part. Qed.
Print Assumptions C05_concat_first_in_part.

Theorem C05_concat_examples :
  run_concat two_parts [ASlice (Some 1) None (Some 3)] = spec_concat two_parts [] [ASlice (Some 1) None (Some 3)]
  /\ run_concat two_parts [ASlice (Some 1) None (Some 3)] <> Err
  /\ run_concat two_parts [AList [3; 0; -1]] = spec_concat two_parts [] [AList [3; 0; -1]]
  /\ run_concat two_parts [AMask [true; false; false; true; true]; AInt 0]
     = spec_concat two_parts [] [AMask [true; false; false; true; true]; AInt 0].
Proof. exact concat_example_supported. Qed.
Print Assumptions C05_concat_examples.

(* ---- transforms that use their `keep` argument (katdal's keepdims and weights transforms) ---- *)

(* C05_getitem_keep (full strength): LazyIndexer with its chunk loop and ANY chain of transforms, including transforms
   that depend on `keep` (KKeepdims: scalar-indexed axes come back with length 1; KAux: another array of the first-stage
   shape indexed with the same keep): the answer is that chain applied - with the second-stage index exactly as the
   user wrote it and the shape of source[stage 1] - to source[stage 1][stage 2]. *)
Theorem C05_getitem_keep : forall garbage shape ds k1 ts dt k2 k out a1,
  Forall (fun d => 0 <= d) shape -> (forall sh, shaped sh (garbage sh)) ->
  mk_k shape k1 ts dt = Ok k ->
  oindex_keep (mk_nd shape ds) k1 = Ok a1 ->
  getitem_k garbage k ds k2 = Ok out ->
  spec_getitem_k shape ds k1 ts dt k2 = Ok out.
Proof. exact getitem_k_correct. Qed.
Print Assumptions C05_getitem_keep.

(* C05_shape_dtype_keep (full strength): .shape, .dtype and len() are the shape, dtype and length of self[:] through
   every chain (several dtype-declaring transforms: the LAST declared dtype; keep-aware transforms declare nothing);
   the shape has at least one axis. *)
Theorem C05_shape_dtype_keep : forall garbage shape ds k1 ts dt k a1 out s,
  Forall (fun d => 0 <= d) shape -> (forall sh, shaped sh (garbage sh)) ->
  mk_k shape k1 ts dt = Ok k -> oindex_keep (mk_nd shape ds) k1 = Ok a1 ->
  klazy_shape k = Ok s -> getitem_k garbage k ds [] = Ok out ->
  nd_shape (a_nd out) = s /\ a_dtype out = klazy_dtype k /\ klazy_len k = Ok (hd 0 (nd_shape (a_nd out))) /\ s <> [].
Proof. exact getitem_k_full_shape_dtype. Qed.
Print Assumptions C05_shape_dtype_keep.

(* every answer has the dtype property, whatever the index *)
Theorem C05_dtype_keep : forall ctx ts x y, k_apply_all ctx ts x = Ok y -> a_dtype y = chain_dtype (a_dtype x) ts.
Proof. exact k_apply_all_dtype. Qed.
Print Assumptions C05_dtype_keep.

(* C05_concat_keep (full strength): the concatenated indexer with a keep-aware chain; the chain is told the shape of
   np.concatenate of the parts (C05_concat_full_shape) *)
Theorem C05_concat_keep : forall raws ts ix k out fulls,
  Forall raw_ok raws ->
  mapM (fun r => oindex_keep (mk_nd (r_shape r) (r_ds r)) (r_keep r)) raws = Ok fulls ->
  kc_mk raws ts = Ok k -> kc_getitem k ix = Ok out ->
  spec_concat_k raws ts ix = Ok out.
Proof. exact kconcat_correct. Qed.
Print Assumptions C05_concat_keep.

Theorem C05_concat_full_shape : forall raws ts c fulls init,
  Forall raw_ok raws ->
  mapM (fun r => oindex_keep (mk_nd (r_shape r) (r_ds r)) (r_keep r)) raws = Ok fulls ->
  c_mk raws ts = Ok c -> c_initial_shape (c_parts c) = Ok init ->
  exists x0, spec_concat raws [] [] = Ok x0 /\ nd_shape (a_nd x0) = init.
Proof. exact concat_full_spec. Qed.
Print Assumptions C05_concat_full_shape.

Theorem C05_keep_example :
  run_k [4; 3; 2] [] [KKeepdims] [ASlice (Some 1) None None; AInt (-1)]
  = spec_getitem_k [4; 3; 2] (arange [4; 3; 2] 0) [] [KKeepdims] 0 [ASlice (Some 1) None None; AInt (-1)]
  /\ (exists x, run_k [4; 3; 2] [] [KKeepdims] [ASlice (Some 1) None None; AInt (-1)] = Ok x /\ nd_shape (a_nd x) = [3; 1; 2])
  /\ run_k [6; 2] [ASlice (Some 1) None (Some 2)] [KAux 1000; KPlain (TMap 2 0 None)] [AList [0; 2]; AInt 1]
     = spec_getitem_k [6; 2] (arange [6; 2] 0) [ASlice (Some 1) None (Some 2)] [KAux 1000; KPlain (TMap 2 0 None)] 0 [AList [0; 2]; AInt 1]
  /\ (exists x, run_k [6; 2] [ASlice (Some 1) None (Some 2)] [KAux 1000; KPlain (TMap 2 0 None)] [AList [0; 2]; AInt 1] = Ok x
                /\ flatten (nd_body (a_nd x)) = [2 * (3 + 1000 * 1); 2 * (11 + 1000 * 5)]).
Proof. exact keep_example. Qed.
Print Assumptions C05_keep_example.

(* ---- open findings: the faithful model reproduces them (full-strength "always answers" refuted) ---- *)

(* F30 *)
Theorem C05_lazy_negative_step_refuted :
  run_lazy [5] [] [ASlice None None (Some (-1))] = Err
  /\ spec_getitem [5] (arange [5] 0) [] [] 0 [ASlice None None (Some (-1))] <> Err.
Proof. exact lazy_negative_step_refuted. Qed.
Print Assumptions C05_lazy_negative_step_refuted.

(* F31 *)
Theorem C05_lazy_negative_stage1_int_refuted :
  run_lazy [5] [AInt (-1)] [] = Err /\ spec_getitem [5] (arange [5] 0) [AInt (-1)] [] 0 [] <> Err.
Proof. exact lazy_negative_stage1_int_refuted. Qed.
Print Assumptions C05_lazy_negative_stage1_int_refuted.

(* ---- F10 / F10b are repaired (katdal 575a063, 9126cf6): the full-strength statements ---- *)

(* C05_concat_slice_head_answers (full strength, replaces the refuted "always answers" of F10 and F10b): for every list
   of parts (at least one, lengths non-negative), every head slice with a positive step - any start / stop, also a
   slice that selects nothing and whose start lies in a later part than its stop - and every tail, also one that
   selects nothing on some axis: the concatenated indexer rejects nothing itself (np.concatenate always receives a
   chunk, the reshape to the explicit chunk length always succeeds); it answers whenever the parts answer the
   slices they are handed.  With C05_concat the answer is the one of numpy. *)
Theorem C05_concat_slice_head_answers : forall ps dt tail S, ps <> [] -> Forall (fun p => 0 <= part_len p) ps ->
  forall a b cc start stop st,
  slice_indices (zsum (map part_len ps)) a b cc = Some (start, stop, st) -> 0 < st ->
  (forall p x y, In p ps -> part_get dt p (ASlice (Some x) (Some y) (Some st) :: tail) <> Err) ->
  c_head ps dt (zsum (map part_len ps)) S (ASlice a b cc) tail <> Err.
Proof. exact concat_slice_head_answers. Qed.
Print Assumptions C05_concat_slice_head_answers.

(* the same for a boolean-mask head (F10b) *)
Theorem C05_concat_mask_head_answers : forall ps dt tail S, ps <> [] -> Forall (fun p => 0 <= part_len p) ps ->
  forall m, zlen m = zsum (map part_len ps) ->
  (forall p mm, In p ps -> part_get dt p (AMask mm :: tail) <> Err) ->
  c_head ps dt (zsum (map part_len ps)) S (AMask m) tail <> Err.
Proof. exact concat_mask_head_answers. Qed.
Print Assumptions C05_concat_mask_head_answers.

(* F10: the witness c[5:2] (and a strided one) now equals numpy ... *)
Theorem C05_concat_empty_head_slice_fixed :
  run_concat two_parts [ASlice (Some 5) (Some 2) None] = spec_concat two_parts [] [ASlice (Some 5) (Some 2) None]
  /\ run_concat two_parts [ASlice (Some 5) (Some 2) None] <> Err
  /\ run_concat two_parts [ASlice (Some 4) (Some 1) (Some 2)] = spec_concat two_parts [] [ASlice (Some 4) (Some 1) (Some 2)]
  /\ run_concat two_parts [ASlice (Some 4) (Some 1) (Some 2)] <> Err.
Proof. exact concat_empty_head_slice_fixed. Qed.
Print Assumptions C05_concat_empty_head_slice_fixed.

(* ... and what failed before the repair: without `stop = max(start, stop)` no indexer was visited *)
Theorem C05_concat_empty_head_slice_refuted_before_fix :
  py_range (concat_first_indexer (find_indexer [0; 3] 5) (find_indexer [0; 3] 2))
           (concat_end_indexer (find_indexer [0; 3] 5) (find_indexer [0; 3] 2)) 1 = []
  /\ (forall dt st, concat_chunks dt st [] = Err)
  /\ spec_concat two_parts [] [ASlice (Some 5) (Some 2) None] <> Err.
Proof. exact concat_empty_head_slice_refuted_before_fix. Qed.
Print Assumptions C05_concat_empty_head_slice_refuted_before_fix.

(* F10b: the witnesses (slice and mask head, empty tail) now equal numpy ... *)
Theorem C05_concat_empty_tail_fixed :
  run_concat two_parts [full; ASlice (Some 1) (Some 0) None] = spec_concat two_parts [] [full; ASlice (Some 1) (Some 0) None]
  /\ run_concat two_parts [full; ASlice (Some 1) (Some 0) None] <> Err
  /\ run_concat two_parts [AMask [true; false; false; true; true]; AList []]
     = spec_concat two_parts [] [AMask [true; false; false; true; true]; AList []]
  /\ run_concat two_parts [AMask [true; false; false; true; true]; AList []] <> Err.
Proof. exact concat_empty_tail_fixed. Qed.
Print Assumptions C05_concat_empty_tail_fixed.

(* ... and what failed before the repair: .reshape([-1] + shape_tails) cannot infer -1 next to an empty dimension *)
Theorem C05_concat_empty_tail_refuted_before_fix : forall x,
  reshape_chunk_before_fix [0] x = Err /\ reshape_chunk [0] x = Ok x
  /\ spec_concat two_parts [] [full; ASlice (Some 1) (Some 0) None] <> Err.
Proof. exact concat_empty_tail_refuted_before_fix. Qed.
Print Assumptions C05_concat_empty_tail_refuted_before_fix.

(* F30b *)
Theorem C05_concat_negative_step_refuted :
  run_concat two_parts [ASlice None None (Some (-1))] = Err
  /\ spec_concat two_parts [] [ASlice None None (Some (-1))] <> Err.
Proof. exact concat_negative_step_refuted. Qed.
Print Assumptions C05_concat_negative_step_refuted.

(* ---- the unsupported forms are REJECTED (C05_getitem* / C05_concat* say: whatever is answered equals the spec) ---- *)

(* a negative step on the first dimension of the concatenated indexer is rejected for every list of parts, every
   bounds and every tail: never answered from the wrong indexer *)
Theorem C05_concat_negative_step_rejected : forall ps dt total S a b c tail start stop stride,
  slice_indices total a b c = Some (start, stop, stride) -> stride < 0 ->
  c_head ps dt total S (ASlice a b c) tail = Err.
Proof. exact concat_negative_step_rejected. Qed.
Print Assumptions C05_concat_negative_step_rejected.

(* a scalar outside [-len, len) on the first dimension is rejected *)
Theorem C05_concat_scalar_out_of_range_rejected : forall ps dt total S z tail, 0 <= total -> z < - total \/ total <= z ->
  c_head ps dt total S (AInt z) tail = Err.
Proof. exact concat_scalar_out_of_range_rejected. Qed.
Print Assumptions C05_concat_scalar_out_of_range_rejected.

(* ====================================================================== Round 7: the indexer as an object with state,
   read many times; the requests it sends to its dataset (Model/LazyHist.v, Proofs/LazyHistP.v) *)

(* the pieces of LazyIndexer.__getitem__ that decide about memory, regenerated from the source at every run: the
   post-selection offsets are `dim_keep - dim_keep[0]` computed into a NEW array (not inside dim_keep, which may be a
   view of self._lookup or the caller's own index array); the only objects stored through are the output buffer and the
   local bookkeeping lists; what is returned is the np.empty buffer or one element read with scalars *)
Theorem C05_getitem_memory_discipline :
  (forall x first, lazy_post_offset x first = x - first) /\ lazy_post_inplace = false
  /\ Forall (fun c => c = 0 \/ c = 1) lazy_getitem_writes /\ result_fresh = true.
Proof. exact (conj post_offset_is_difference (conj post_not_inplace (conj getitem_writes_local result_is_fresh))). Qed.
Print Assumptions C05_getitem_memory_discipline.

(* C05_reads_preserve_state (full): one __getitem__ - any indexer, dataset, index, np.empty content; answered or
   rejected - leaves self._lookup and every index object of the caller exactly as they were, and its answer is the pure
   function of (indexer, dataset, index) that C05_getitem_nd is about *)
Theorem C05_reads_preserve_state : forall garbage li ds ixs,
  read_st lazy_post_inplace garbage li ds ixs
  = (getitem_nd garbage li ds ixs, li, pad_to (List.length (li_shape li)) ixs).
Proof. exact read_preserves_state. Qed.
Print Assumptions C05_reads_preserve_state.

(* C05_history (full): ANY sequence of reads through one indexer, between which the caller may overwrite the arrays it
   was handed, is answered request by request by the pure function; indexer and dataset are unchanged at the end *)
Theorem C05_history : forall garbage li ds evs,
  run_history lazy_post_inplace result_fresh garbage li ds evs
  = (map (getitem_nd garbage li ds) (reads_of evs), (li, ds)).
Proof. exact history_pure. Qed.
Print Assumptions C05_history.

(* the answer to a request does not depend on the requests before it (repeating a request repeats the answer) *)
Theorem C05_history_prefix_irrelevant : forall garbage li ds pre ixs,
  last (fst (run_history lazy_post_inplace result_fresh garbage li ds (pre ++ [ERead ixs]))) Err
  = getitem_nd garbage li ds ixs.
Proof. exact history_prefix_irrelevant. Qed.
Print Assumptions C05_history_prefix_irrelevant.

(* every answer given anywhere in a history is the property's answer for its own request *)
Theorem C05_history_spec : forall garbage shape ds k1 ts dt li a1 evs,
  Forall (fun d => 0 <= d) shape -> (forall sh, shaped sh (garbage sh)) ->
  mk_lazy shape k1 ts dt = Ok li ->
  oindex_keep (mk_nd shape ds) k1 = Ok a1 ->
  Forall2 (fun ixs a => forall out, a = Ok out -> spec_getitem shape ds k1 ts dt ixs = Ok out)
          (reads_of evs) (fst (run_history lazy_post_inplace result_fresh garbage li ds evs))
  /\ snd (run_history lazy_post_inplace result_fresh garbage li ds evs) = (li, ds).
Proof. exact history_spec. Qed.
Print Assumptions C05_history_spec.

(* non-vacuity: the state model CAN express the hazard.  With the offsets computed in place the second identical
   request is answered with other elements (through a view of the lookup), the caller's index array is overwritten,
   and an answer that were a view of the dataset would let the caller's write through; the real flags give equal answers *)
Theorem C05_history_example :
  fst (run_history true true hist_g hist_li hist_ds [ERead [full]; ERead [full]])
  = [Ok (mk_arr 0 (mk_nd [6] (Node (map Leaf [1; 2; 4; 5; 7; 8])))); Ok (mk_arr 0 (mk_nd [6] (Node (map Leaf [0; 1; 3; 4; 6; 7]))))]
  /\ li_lookup (fst (snd (run_history true true hist_g hist_li hist_ds [ERead [full]]))) = [Some [0; 1; 3; 4; 6; 7]]
  /\ snd (read_st true hist_g (mk_lazyidx [10] [None] [] 0) hist_ds [AList [1; 2; 4; 5; 7; 8]]) = [AList [0; 1; 3; 4; 6; 7]]
  /\ fst (run_history lazy_post_inplace result_fresh hist_g hist_li hist_ds [ERead [full]; EScribble 9; ERead [full]])
     = [Ok (mk_arr 0 (mk_nd [6] (Node (map Leaf [1; 2; 4; 5; 7; 8])))); Ok (mk_arr 0 (mk_nd [6] (Node (map Leaf [1; 2; 4; 5; 7; 8]))))]
  /\ fst (run_history false false hist_g hist_li hist_ds [ERead [full]; EScribble 9; ERead [full]])
     = [Ok (mk_arr 0 (mk_nd [6] (Node (map Leaf [1; 2; 4; 5; 7; 8])))); Ok (mk_arr 0 (mk_nd [6] (Node (map Leaf [9; 9; 9; 9; 9; 9]))))].
Proof. exact inplace_breaks_history. Qed.
Print Assumptions C05_history_example.

(* C05_requests_plain (full): whatever the plans, every dataset[...] request of the chunk loop (and of the all-scalar
   short cut) has one item per axis and contains NO index list - h5py allows at most one per request *)
Theorem C05_requests_plain : forall plans rq, In rq (requests plans) ->
  fancy_count rq = 0 /\ List.length rq = List.length plans.
Proof. exact requests_plain. Qed.
Print Assumptions C05_requests_plain.

(* C05_advanced_requests_inside (full): for masks and integer sequences every slice sent to the dataset has step 1, is
   non-empty (HDF5 has no zero-length selection: an empty selection reads slice(0, 1, 1) and drops it afterwards) and
   ends inside the axis *)
Theorem C05_advanced_requests_inside : forall n m p, 0 <= n ->
  (match m with MMask _ | MArr _ => True | _ => False end) ->
  axis_plan n m = Ok p -> exists segs, p = PSegs segs /\ Forall (seg_inside n) segs.
Proof. exact axis_plan_adv_inside. Qed.
Print Assumptions C05_advanced_requests_inside.

(* a slice is handed to the dataset with the step the user wrote, normalised by slice.indices *)
Theorem C05_slice_request : forall n a b c p, axis_plan n (MSlice a b c) = Ok p ->
  exists s e, p = PSegs [mk_seg s e (match c with Some st => st | None => 1 end) PAll 0
                                (range_len s e (match c with Some st => st | None => 1 end))]
              /\ slice_indices n a b c = Some (s, e, match c with Some st => st | None => 1 end).
Proof. exact slice_plan_step. Qed.
Print Assumptions C05_slice_request.

(* C05_h5_requests_accepted (full): for every constructible indexer, dataset content and second-stage index without a
   negative slice step, if the indexer answers then EVERY request it sent is one h5py accepts (integers in [-n, n),
   slice steps >= 1, no index list) *)
Theorem C05_h5_requests_accepted : forall garbage shape k1 ts dt li ds ixs out rqs,
  Forall (fun d => 0 <= d) shape -> (forall sh, shaped sh (garbage sh)) ->
  mk_lazy shape k1 ts dt = Ok li ->
  Forall ix_pos_step ixs ->
  getitem_nd garbage li ds ixs = Ok out ->
  lazy_requests li ixs = Ok rqs ->
  Forall (fun rq => h5_accepts (li_shape li) rq = true /\ fancy_count rq = 0) rqs.
Proof. exact lazy_requests_accepted. Qed.
Print Assumptions C05_h5_requests_accepted.

(* C05_h5_same_answers (full): an HDF5 dataset as source adds no rejection and changes no answer *)
Theorem C05_h5_same_answers : forall garbage shape k1 ts dt li ds ixs,
  Forall (fun d => 0 <= d) shape -> (forall sh, shaped sh (garbage sh)) ->
  mk_lazy shape k1 ts dt = Ok li ->
  Forall ix_pos_step ixs ->
  getitem_h5 garbage li ds ixs = getitem_nd garbage li ds ixs.
Proof. exact getitem_h5_same. Qed.
Print Assumptions C05_h5_same_answers.

(* the guard is needed (h5py side of the open finding F30): a negative step is a request h5py refuses - rejected,
   never answered - where an ndarray source answers *)
Theorem C05_h5_negative_step_refuted :
  getitem_h5 hist_g (mk_lazyidx [5] [None] [] 0) (arange [5] 0) [ASlice (Some 3) (Some 0) (Some (-1))] = Err
  /\ getitem_nd hist_g (mk_lazyidx [5] [None] [] 0) (arange [5] 0) [ASlice (Some 3) (Some 0) (Some (-1))]
     = Ok (mk_arr 0 (mk_nd [3] (Node (map Leaf [3; 2; 1]))))
  /\ lazy_requests (mk_lazyidx [5] [None] [] 0) [ASlice (Some 3) (Some 0) (Some (-1))] = Ok [[RSlice 3 0 (-1)]].
Proof. exact h5_negative_step_rejected. Qed.
Print Assumptions C05_h5_negative_step_refuted.

Theorem C05_requests_example :
  lazy_requests (mk_lazyidx [10; 20] [None; None] [] 0) [AList [1; 2; 4; 5]; AList [0; 1; 7]]
  = Ok [[RSlice 1 6 1; RSlice 0 2 1]; [RSlice 1 6 1; RSlice 7 8 1]]
  /\ lazy_requests (mk_lazyidx [10; 20] [None; None] [] 0) [AInt (-1); AList []] = Ok [[RInt (-1); RSlice 0 1 1]]
  /\ lazy_requests (mk_lazyidx [10; 20] [None; None] [] 0) [AInt 3; AInt (-2)] = Ok [[RInt 3; RInt (-2)]]
  /\ h5_accepts [10; 20] [RSlice 1 6 1; RSlice 7 8 1] = true
  /\ h5_accepts [10; 20] [RList [1; 2; 4; 5]; RList [0; 1; 7]] = false
  /\ h5_accepts [10; 20] [RList [1; 2; 4; 5]; RSlice 0 2 1] = true
  /\ h5_accepts [10; 20] [RList [2; 1]; RSlice 0 2 1] = false
  /\ h5_accepts [10; 20] [RInt 10; RSlice 0 2 1] = false.
Proof. exact requests_example. Qed.
Print Assumptions C05_requests_example.
