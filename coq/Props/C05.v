(* C05 — HDF5-era lazy and concatenated indexers equal composed outer indexing.  Only statements here. *)
From Coq Require Import ZArith List Bool.
From KV Require Import Base.Sx Base.PySlice Base.AxisIndex Base.NdArray Gen.Generated Model.LazyIdx Model.ConcatIdx Proofs.LazyIdxP.
Import ListNotations.
Open Scope Z_scope.

Theorem C05_slice_positions_on_axis : forall n a b c ps x, 0 <= n -> slice_positions n a b c = Some ps -> In x ps -> 0 <= x < n.
Proof. exact stub_pyslice. Qed.
Print Assumptions C05_slice_positions_on_axis.
