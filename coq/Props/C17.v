(* C17 — v4 time and frequency axes; preselection is equivalent to selection.  Statements only. *)
From Coq Require Import ZArith QArith List Bool String.
From KV Require Import Base.Sx Base.Str Gen.Generated Model.TimeFreq Proofs.TimeFreqP.
Import ListNotations.
Open Scope Q_scope.

(* The date rule in VisibilityDataV4.__init__ (re-translated from the source on every run) is the documented
   table "CMC2 4k fixed 2019-02-11, CMC2 1k fixed 2019-03-03, CMC1 fixed 2019-03-15" for EVERY first timestamp. *)
Theorem C17_fix_rule_table : forall (t : Q) (cmc2 cbf4k : bool),
  fix_rule (fun d => Qltb t (inject_Z d)) cmc2 cbf4k = Qltb t (inject_Z (doc_fix_date cmc2 cbf4k)).
Proof. exact fix_rule_table. Qed.
Print Assumptions C17_fix_rule_table.

Theorem C17_fix_constants : fix_dates = [1549843200; 1551571200; 1552608000]%Z
  /\ fix_cmc2_marker = "cbf_dev"%string /\ fix_cbf4k_marker = "c856M4k"%string.
Proof. exact fix_dates_documented. Qed.
Print Assumptions C17_fix_constants.

(* dump i of a data set opened without preselection: sync + first + i*int + offset, minus one CBF dump
   exactly for captures that start before the documented fix date of their correlator *)
Theorem C17_timestamp_formula : forall tm i,
  model_timestamp tm 0 i ==
  t_sync tm + t_first tm + inject_Z i * t_int tm + t_off tm
  - (if Qltb (t_sync tm + t_first tm + t_off tm) (inject_Z (doc_fix_date (t_cmc2 tm) (t_cbf4k tm)))
     then match t_cbf tm with Some c => c | None => 0 end else 0).
Proof. intros tm i. rewrite timestamp_formula. exact (timestamp_closed_form tm i). Qed.
Print Assumptions C17_timestamp_formula.

Theorem C17_start_end_bracket : forall tm n,
  model_start_time tm 0 == spec_timestamp tm 0 - (1#2) * t_int tm /\
  model_end_time tm 0 n == spec_timestamp tm (n - 1) + (1#2) * t_int tm.
Proof. exact start_end_bracket. Qed.
Print Assumptions C17_start_end_bracket.

Theorem C17_channel_formula : forall c bw n k, (0 < n)%Z ->
  chan_freq (mkSpw c bw n 1) k == c + inject_Z (k - n / 2) * bw / inject_Z n.
Proof. exact channel_formula. Qed.
Print Assumptions C17_channel_formula.

(* sub-ranges: channel j of spw.subrange(first, last) has the centre of channel first+j; same width;
   and exactly the non-empty sub-intervals are accepted *)
Theorem C17_subrange_aligned : forall w f l w' j, subrange w f l = Some w' ->
  chan_freq w' j == chan_freq w (f + j) /\ chan_width w' == chan_width w.
Proof. intros w f l w' j H. split; [exact (subrange_aligned w f l w' j H)|exact (subrange_width w f l w' H)]. Qed.
Print Assumptions C17_subrange_aligned.

Theorem C17_subrange_rejects : forall w f l,
  subrange w f l = None <-> ~ ((0 <= f)%Z /\ (f < l)%Z /\ (l <= s_n w)%Z).
Proof. exact subrange_none. Qed.
Print Assumptions C17_subrange_rejects.

(* re-channelisation keeps both band edges (for both sidebands, odd and even channel counts) *)
Theorem C17_rechannelise_edges : forall w m, (0 < s_n w)%Z -> (0 < m)%Z ->
  band_lo (rechannelise w m) == band_lo w /\ band_hi (rechannelise w m) == band_hi w.
Proof. exact rechannelise_edges. Qed.
Print Assumptions C17_rechannelise_edges.

Theorem C17_rechannelise_centre_odd : forall w m, (0 < s_n w)%Z -> (0 < m)%Z ->
  (s_n w mod 2 = 1)%Z -> (m mod 2 = 1)%Z -> s_centre (rechannelise w m) == s_centre w.
Proof. exact rechannelise_centre_odd. Qed.
Print Assumptions C17_rechannelise_centre_odd.

(* timestamps of a preselected data set = timestamps a..b of the whole data set, for every timing, every
   capture date and every range (after the repair of F21 the fix decision looks at the start of the capture) *)
Theorem C17_preselect_timestamps : forall tm n a b j, (a <= b <= n)%nat -> (j < b - a)%nat ->
  nth j (timestamps_pre tm a b) 0 == nth j (slice a b (timestamps_full tm n)) 0.
Proof. exact preselect_timestamps. Qed.
Print Assumptions C17_preselect_timestamps.

(* before the repair (decision taken on the first PRESELECTED dump) this was false for captures straddling a
   fix date: the witness on which the old and the new model differ *)
Theorem C17_preselect_timestamps_refuted_before_fix :
  exists tm a i, ~ (model_timestamp_pre tm a i == spec_timestamp tm (a + i))
                 /\ model_timestamp tm a i == spec_timestamp tm (a + i).
Proof. exact preselect_timestamps_refuted_before_fix. Qed.
Print Assumptions C17_preselect_timestamps_refuted_before_fix.

Theorem C17_preselect_freqs : forall w c d w' j,
  subrange w (Z.of_nat c) (Z.of_nat d) = Some w' -> (j < d - c)%nat ->
  nth j (freqs_full w') 0 == nth j (slice c d (freqs_full w)) 0.
Proof. exact preselect_freqs. Qed.
Print Assumptions C17_preselect_freqs.

(* any per-dump quantity computed pointwise from the timestamps (numeric sensors: interpolation onto the
   dump grid) commutes with the restriction to dumps a..b; later selections are relative to the subset *)
Theorem C17_pointwise_commutes : forall (A B : Type) (f : A -> B) a b l,
  map f (slice a b l) = slice a b (map f l).
Proof. intros A B f a b l. exact (map_slice f a b l). Qed.
Print Assumptions C17_pointwise_commutes.

Theorem C17_later_selection_relative : forall (A : Type) a b (l : list A) j d, (j < b - a)%nat ->
  nth j (slice a b l) d = nth (a + j) l d.
Proof. intros A a b l j d H. exact (nth_slice a b l j d H). Qed.
Print Assumptions C17_later_selection_relative.

Theorem C17_preselect_rejects : forall keys steps,
  preselect_ok keys steps = true <->
  (forall k, In k keys -> k = "channels"%string \/ k = "dumps"%string) /\
  (forall s, In s steps -> s = None \/ s = Some 1%Z).
Proof. exact preselect_rejects. Qed.
Print Assumptions C17_preselect_rejects.
