(* C17 — v4 time and frequency axes; preselection is equivalent to selection.  Statements only.
   Model side (model_timestamp etc., chan_freq, subrange, rechannelise, v4_spw, preselect_ok, fix_rule): the katdal code as
   re-translated from the source on every run (Gen/Generated.v).  Spec side (raw sums, doc_fix_date, spec_timestamp, spec_chan_freq): the
   documented formulas.  See design.d/C17.md for the clause-by-clause map. *)
From Coq Require Import ZArith QArith List Bool String.
From KV Require Import Base.Sx Base.Str Gen.Generated Model.Prune Model.LostMap Proofs.C06P
                       Model.TimeFreq Proofs.TimeFreqP Model.TimeFreqPre Proofs.TimeFreqPreP
                       Model.TimeFreqVfw Proofs.TimeFreqVfwP Model.TimeFreqX Proofs.TimeFreqXP
                       Model.TimeFreqCbf Proofs.TimeFreqCbfP Proofs.TimeFreqC07P
                       Model.Interp Model.SensorCache Model.TimeFreqY Proofs.TimeFreqYP.
From KV Require Model.Chunks.
Import ListNotations.
Open Scope Q_scope.

(* ---- clause 1: mid-point timestamps ---- *)
(* The date rule in VisibilityDataV4.__init__ is the documented table "CMC2 4k fixed 2019-02-11, CMC2 1k fixed
   2019-03-03, CMC1 fixed 2019-03-15" for EVERY first timestamp. *)
Theorem C17_fix_rule_table : forall (t : Q) (cmc2 cbf4k : bool),
  fix_rule (fun d => Qltb t (inject_Z d)) cmc2 cbf4k = Qltb t (inject_Z (doc_fix_date cmc2 cbf4k)).
Proof. exact fix_rule_table. Qed.
Print Assumptions C17_fix_rule_table.

Theorem C17_fix_constants : fix_dates = [1549843200; 1551571200; 1552608000]%Z
  /\ fix_cmc2_marker = "cbf_dev"%string /\ fix_cbf4k_marker = "c856M4k"%string
  /\ fix_cmc2_attr = "sub_pool_resources"%string /\ fix_cbf4k_attr = "sub_product"%string.
Proof. exact fix_dates_documented. Qed.
Print Assumptions C17_fix_constants.

(* the data source synthesises sync_time + first_timestamp + k * int_time and remembers the first timestamp of the
   CAPTURE whatever dumps are preselected *)
Theorem C17_datasource_timestamps : forall tm a k,
  synth tm k == t_sync tm + t_first tm + inject_Z k * t_int tm /\
  src_base tm a = a /\ d_src_cap (run_ds tm a) = Some (synth tm 0).
Proof. intros tm a k. split; [exact (synth_closed tm k)|split; reflexivity]. Qed.
Print Assumptions C17_datasource_timestamps.

(* dump i of a data set opened without preselection: sync + first + i*int + offset, minus one CBF dump
   exactly for captures that start before the documented fix date of their correlator *)
Theorem C17_timestamp_formula : forall tm i,
  model_timestamp tm 0 i ==
  t_sync tm + t_first tm + inject_Z i * t_int tm + t_off tm
  - (if Qltb (t_sync tm + t_first tm + t_off tm) (inject_Z (doc_fix_date (t_cmc2 tm) (t_cbf4k tm)))
     then match t_cbf tm with Some c => c | None => 0 end else 0).
Proof. intros tm i. rewrite timestamp_formula. exact (timestamp_closed_form tm i). Qed.
Print Assumptions C17_timestamp_formula.

(* the workaround is recorded in the time_offset attribute (also of a preselected data set) *)
Theorem C17_time_offset_records_fix : forall tm a,
  model_time_offset tm a == t_off tm - spec_fix_amount tm.
Proof. exact time_offset_records. Qed.
Print Assumptions C17_time_offset_records_fix.

(* ---- clause 2: start and end bracket the first and last dump by half a dump (any preselected range a:a+n) ---- *)
Theorem C17_start_end_bracket : forall tm a n,
  model_start_time tm a n == spec_timestamp tm a - (1#2) * t_int tm /\
  model_end_time tm a n == spec_timestamp tm (a + n - 1) + (1#2) * t_int tm.
Proof. exact start_end_bracket. Qed.
Print Assumptions C17_start_end_bracket.

Theorem C17_start_end_bracket_own_dumps : forall tm a n,
  model_start_time tm a n == model_timestamp tm a 0 - (1#2) * t_int tm /\
  model_end_time tm a n == model_timestamp tm a (n - 1) + (1#2) * t_int tm.
Proof. exact start_end_bracket_model. Qed.
Print Assumptions C17_start_end_bracket_own_dumps.

(* ---- clause 3: channel frequencies ---- *)
Theorem C17_channel_formula : forall c bw n k, (0 < n)%Z ->
  chan_freq (mkSpw c bw n 1) k == c + inject_Z (k - n / 2) * bw / inject_Z n.
Proof. exact channel_formula. Qed.
Print Assumptions C17_channel_formula.

(* both sidebands *)
Theorem C17_channel_formula_sideband : forall w k, (s_n w <> 0)%Z ->
  chan_freq w k == s_centre w + inject_Z (s_side w) * (inject_Z (k - s_n w / 2) * s_bw w / inject_Z (s_n w)).
Proof. exact chan_freq_closed. Qed.
Print Assumptions C17_channel_formula_sideband.

(* the window VisibilityDataV4 builds from the telstate attributes center_freq, bandwidth, n_chans *)
Theorem C17_v4_channel_formula : forall c bw n k, (0 < n)%Z ->
  chan_freq (v4_spw c bw n) k == c + inject_Z (k - n / 2) * bw / inject_Z n /\
  chan_width (v4_spw c bw n) == bw / inject_Z n.
Proof. exact v4_channel_formula. Qed.
Print Assumptions C17_v4_channel_formula.

Theorem C17_v4_freq_constants :
  gen_v4_freq_attrs = [("num_chans", "n_chans"); ("bandwidth", "bandwidth"); ("centre_freq", "center_freq")]%string
  /\ gen_v4_sideband = 1%Z.
Proof. exact v4_freq_attrs_documented. Qed.
Print Assumptions C17_v4_freq_constants.

(* the channel_width attribute is bandwidth / num_chans on both construction paths of SpectralWindow.__init__ *)
Theorem C17_spw_init_width : forall c cw n sd bw, (n <> 0)%Z ->
  init_width_attr (c, cw, n, sd, bw) == chan_width (spw_init (c, cw, n, sd, bw)).
Proof. exact init_width_consistent. Qed.
Print Assumptions C17_spw_init_width.

(* ---- clause 7: sub-ranges and re-channelisations stay aligned with the original ---- *)
(* channel j of spw.subrange(first, last) has the centre of channel first+j; same width;
   and exactly the non-empty sub-intervals are accepted *)
Theorem C17_subrange_aligned : forall w f l w' j, subrange w f l = Some w' ->
  chan_freq w' j == chan_freq w (f + j) /\ chan_width w' == chan_width w.
Proof. intros w f l w' j H. split; [exact (subrange_aligned w f l w' j H)|exact (subrange_width w f l w' H)]. Qed.
Print Assumptions C17_subrange_aligned.

Theorem C17_subrange_edges : forall w f l w', subrange w f l = Some w' ->
  (forall j, chan_lo w' j == chan_lo w (f + j)) /\
  band_lo w' == chan_lo w f /\
  band_hi w' == chan_freq w (l - 1) + inject_Z (s_side w) * (1#2) * chan_width w.
Proof. exact subrange_edges. Qed.
Print Assumptions C17_subrange_edges.

Theorem C17_subrange_rejects : forall w f l,
  subrange w f l = None <-> ~ ((0 <= f)%Z /\ (f < l)%Z /\ (l <= s_n w)%Z).
Proof. exact subrange_none. Qed.
Print Assumptions C17_subrange_rejects.

(* re-channelisation keeps both band edges (for both sidebands, odd and even channel counts), the bandwidth,
   the sideband and produces the requested number of channels *)
Theorem C17_rechannelise_edges : forall w m, (0 < s_n w)%Z -> (0 < m)%Z ->
  band_lo (rechannelise w m) == band_lo w /\ band_hi (rechannelise w m) == band_hi w.
Proof. exact rechannelise_edges. Qed.
Print Assumptions C17_rechannelise_edges.

Theorem C17_rechannelise_shape : forall w m, (0 < s_n w)%Z -> (0 < m)%Z ->
  s_bw (rechannelise w m) = s_bw w /\ s_n (rechannelise w m) = m /\ s_side (rechannelise w m) = s_side w.
Proof. intros w m Hn Hm. destruct (rechannelise_band_centre w m Hn Hm) as (_ & H). exact H. Qed.
Print Assumptions C17_rechannelise_shape.

(* the channel grids stay aligned: lower edge of new channel j = lower edge of original channel k whenever j/m = k/n *)
Theorem C17_rechannelise_grid : forall w m j k, (0 < s_n w)%Z -> (0 < m)%Z -> (j * s_n w = k * m)%Z ->
  chan_lo (rechannelise w m) j == chan_lo w k.
Proof. exact rechannelise_grid. Qed.
Print Assumptions C17_rechannelise_grid.

Theorem C17_rechannelise_centre_odd : forall w m, (0 < s_n w)%Z -> (0 < m)%Z ->
  (s_n w mod 2 = 1)%Z -> (m mod 2 = 1)%Z -> s_centre (rechannelise w m) == s_centre w.
Proof. exact rechannelise_centre_odd. Qed.
Print Assumptions C17_rechannelise_centre_odd.

(* ---- clause 4: preselection = selection ---- *)
(* dump i of a data set opened with preselect dumps = a:... has the documented timestamp of dump a+i of the capture *)
Theorem C17_preselect_timestamp : forall tm a i, model_timestamp tm a i == spec_timestamp tm (a + i).
Proof. exact preselect_timestamp. Qed.
Print Assumptions C17_preselect_timestamp.

(* timestamps of a preselected data set = timestamps a..b of the whole data set, for every timing, every
   capture date and every range (after the repair of F21 the fix decision looks at the start of the capture) *)
Theorem C17_preselect_timestamps : forall tm n a b j, (a <= b <= n)%nat -> (j < b - a)%nat ->
  nth j (timestamps_pre tm a b) 0 == nth j (slice a b (timestamps_full tm n)) 0.
Proof. exact preselect_timestamps. Qed.
Print Assumptions C17_preselect_timestamps.

(* before the repair (decision taken on the first PRESELECTED dump) this was false for captures straddling a
   fix date: the witness on which the old and the new model differ *)
Theorem C17_preselect_timestamps_refuted_before_fix :
  exists tm a i, ~ (model_timestamp_pre tm a i == spec_timestamp tm (a + i))
                 /\ model_timestamp tm a i == spec_timestamp tm (a + i).
Proof. exact preselect_timestamps_refuted_before_fix. Qed.
Print Assumptions C17_preselect_timestamps_refuted_before_fix.

Theorem C17_preselect_freqs : forall w c d w' j,
  subrange w (Z.of_nat c) (Z.of_nat d) = Some w' -> (j < d - c)%nat ->
  nth j (freqs_full w') 0 == nth j (slice c d (freqs_full w)) 0.
Proof. exact preselect_freqs. Qed.
Print Assumptions C17_preselect_freqs.

(* a v4 data set preselected to channels c:d: every valid range is accepted, has d-c channels, and channel j sits
   at the documented frequency of channel c+j of the whole data set *)
Theorem C17_v4_preselect_freqs : forall centre bw n c d, (0 <= c)%Z -> (c < d)%Z -> (d <= n)%Z ->
  exists w', subrange (v4_spw centre bw n) c d = Some w' /\ s_n w' = (d - c)%Z /\
  forall j, chan_freq w' j == centre + inject_Z (c + j - n / 2) * bw / inject_Z n.
Proof. exact v4_preselect_freqs. Qed.
Print Assumptions C17_v4_preselect_freqs.

(* any per-dump quantity computed pointwise from the timestamps (numeric sensors: interpolation onto the
   dump grid) commutes with the restriction to dumps a..b *)
Theorem C17_pointwise_commutes : forall (A B : Type) (f : A -> B) a b l,
  map f (slice a b l) = slice a b (map f l).
Proof. intros A B f a b l. exact (map_slice f a b l). Qed.
Print Assumptions C17_pointwise_commutes.

(* ---- clause 5: later selections are relative to the preselected subset ---- *)
Theorem C17_later_selection_relative : forall (A : Type) a b (l : list A) j d, (j < b - a)%nat ->
  nth j (slice a b l) d = nth (a + j) l d.
Proof. intros A a b l j d H. exact (nth_slice a b l j d H). Qed.
Print Assumptions C17_later_selection_relative.

(* dumps x0:x1 and channels y0:y1 of the (dumps a:b, channels c:d) subset of a time x frequency array are
   dumps a+x0:a+x1 and channels c+y0:c+y1 of the whole array *)
Theorem C17_later_selection_composes : forall (A : Type) a b c d x0 x1 y0 y1 (m : list (list A)),
  (x1 <= b - a)%nat -> (y1 <= d - c)%nat ->
  slice2 x0 x1 y0 y1 (slice2 a b c d m) = slice2 (a + x0) (a + x1) (c + y0) (c + y1) m.
Proof. intros A a b c d x0 x1 y0 y1 m Hx Hy. exact (slice2_slice2 a b c d x0 x1 y0 y1 m Hx Hy). Qed.
Print Assumptions C17_later_selection_composes.

(* ---- clause 6: unknown keys and non-unit steps are rejected ---- *)
Theorem C17_preselect_rejects : forall keys steps,
  preselect_ok keys steps = true <->
  (forall k, In k keys -> k = "channels"%string \/ k = "dumps"%string) /\
  (forall s, In s steps -> s = None \/ s = Some 1%Z).
Proof. exact preselect_rejects. Qed.
Print Assumptions C17_preselect_rejects.

(* ======================================================================================================== *)
(* Extension: the paths from the public API to the core, vis / flags / weights, fallback, names, laws        *)
(* ======================================================================================================== *)

(* ---- clause 6 on every open path ---- *)
(* TelstateDataSource (with or without a chunk store - the validation statements are the first of __init__, in this
   order): accepted iff every key is channels / dumps and every value is a slice with step None or 1 *)
Theorem C17_validation_accepts_iff : forall p,
  ds_validate p = 0%Z <-> spec_keys_ok ["channels"; "dumps"]%string (the_dict p) /\ spec_vals_ok (the_dict p).
Proof. exact ds_validate_accepts. Qed.
Print Assumptions C17_validation_accepts_iff.

(* which IndexError: unknown keys are reported first, whatever the values; nothing else can come out *)
Theorem C17_validation_errors : forall p,
  (ds_validate p = 1%Z <-> ~ spec_keys_ok ["channels"; "dumps"]%string (the_dict p)) /\
  (ds_validate p = 2%Z <-> spec_keys_ok ["channels"; "dumps"]%string (the_dict p) /\ ~ spec_vals_ok (the_dict p)) /\
  (ds_validate p = 0 \/ ds_validate p = 1 \/ ds_validate p = 2)%Z.
Proof. exact ds_validate_errors. Qed.
Print Assumptions C17_validation_errors.

(* katdal.open: one RDB file validates like the data source; a list of files allows `channels` only (IndexError 4
   for anything else, before any file is opened); other formats accept no preselect at all *)
Theorem C17_validation_open_paths : forall p,
  open_validate KRdb p = ds_validate p /\
  (open_validate KRdbList p = 0%Z <-> spec_keys_ok ["channels"]%string (the_dict p) /\ spec_vals_ok (the_dict p)) /\
  (open_validate KRdbList p = 4%Z <-> ~ spec_keys_ok ["channels"]%string (the_dict p)) /\
  (open_validate KOther p = 0%Z <-> p = None).
Proof. exact open_validate_paths. Qed.
Print Assumptions C17_validation_open_paths.

Theorem C17_validation_source_constants :
  gen_ds_index_axes = ["dumps"; "channels"]%string /\ open_concat_keys = ["channels"]%string
  /\ gen_ds_validate_prog = [0; 1; 2]%Z.
Proof. exact axis_order_documented. Qed.
Print Assumptions C17_validation_source_constants.

(* ---- open-ended, negative and overshooting bounds ---- *)
Theorem C17_slice_bounds : forall n v, (0 <= n)%Z ->
  (0 <= fst (py_indices n v) <= n)%Z /\ (0 <= snd (py_indices n v) <= n)%Z.
Proof. exact py_indices_bounds. Qed.
Print Assumptions C17_slice_bounds.

Theorem C17_slice_normalised_fixed : forall n a b st, (0 <= a)%Z -> (a <= b)%Z -> (b <= n)%Z ->
  py_indices n (PSlice (Some a) (Some b) st) = (a, b) /\ py_indices n (PSlice None None st) = (0%Z, n).
Proof. intros n a b st H0 H1 H2. split; [exact (py_indices_normalised n a b st H0 H1 H2)|reflexivity]. Qed.
Print Assumptions C17_slice_normalised_fixed.

(* the index handed to the chunk store: nothing without a preselection, otherwise (dumps, channels) with the whole axis
   for an absent key; with non-empty ranges every window is normalised and non-empty (what the C06 model asks for) *)
Theorem C17_chunk_store_index : forall T F p, (0 <= T)%Z -> (0 <= F)%Z ->
  pre_index [T; F] [] = [] /\
  (p <> [] -> pre_index [T; F] p =
     [match plookup "dumps" p with Some v => Some (py_indices T v) | None => None end;
      match plookup "channels" p with Some v => Some (py_indices F v) | None => None end]) /\
  ((fst (axis_range T p "dumps") < snd (axis_range T p "dumps"))%Z ->
   (fst (axis_range F p "channels") < snd (axis_range F p "channels"))%Z ->
   forall k w, nth_error (pre_index [T; F] p) k = Some (Some w) ->
     (0 <= fst w /\ fst w < snd w /\ snd w <= nth k [T; F] 0)%Z).
Proof.
  intros T F p HT HF. split; [reflexivity|]. split; [exact (pre_index_axes T F p)|].
  exact (pre_index_windows_ok T F p HT HF).
Qed.
Print Assumptions C17_chunk_store_index.

(* ---- clause 4: visibilities, flags, weights (over the chunk-store model of C06, imported unchanged) ---- *)
(* ANY store (chunkings of the four arrays, absent chunks, stored values, phantom dumps), ANY preselect_index w with
   non-empty windows, ANY element q of the preselected data set: vis / weights / flags are those of the data set
   opened whole at the position shifted by the starts of the preselected ranges *)
Theorem C17_preselect_vis_flags_weights : forall c w q, cfg_ok (with_win c w) q ->
  cfg_ok (whole c) (gpos (with_win c w) q) /\
  model_vis (with_win c w) q = model_vis (whole c) (gpos (with_win c w) q) /\
  model_weights (with_win c w) q = model_weights (whole c) (gpos (with_win c w) q) /\
  model_flags (with_win c w) q = model_flags (whole c) (gpos (with_win c w) q).
Proof. exact preselect_vfw. Qed.
Print Assumptions C17_preselect_vis_flags_weights.

(* the shifted position: (i, j, k) -> (a + i, c + j, k) *)
Theorem C17_preselect_position : forall c a b c0 d i j k,
  gpos (with_win c [Some (a, b); Some (c0, d)]) [i; j; k] = [a + i; c0 + j; k]%Z /\
  gpos (with_win c [Some (a, b); None]) [i; j; k] = [a + i; j; k]%Z /\
  gpos (with_win c [None; Some (c0, d)]) [i; j; k] = [i; c0 + j; k]%Z.
Proof. intros. repeat split; reflexivity. Qed.
Print Assumptions C17_preselect_position.

(* ---- the whole open: TelstateDataSource(preselect) + VisibilityDataV4(preselect) ---- *)
(* accepted exactly when the dictionary is valid, a dump is left and (if channels are preselected) a channel is left *)
Theorem C17_open_accepts_iff : forall s po, (0 <= x_N s)%Z ->
  ((exists d, open_v4 s po = ODs d) <->
   ds_validate po = 0%Z /\ (0 < take_len (axis_range (x_T s) (the_dict po) "dumps"))%Z /\
   chan_range_ok (x_N s) (the_dict po)).
Proof. exact open_v4_accepts. Qed.
Print Assumptions C17_open_accepts_iff.

Theorem C17_open_error_codes : forall s po c, open_v4 s po = OErr c ->
  (c = ds_validate po /\ (c = 1 \/ c = 2)%Z) \/ (ds_validate po = 0%Z /\ (c = 5 \/ c = 6)%Z).
Proof. exact open_v4_error_codes. Qed.
Print Assumptions C17_open_error_codes.

(* the three uses of one preselection agree: the timestamps keep dumps a.. (n of them), the chunk store gets the
   index of the same ranges, and - metadata and data agreeing on the channel count - the spectral window has as many
   channels as the data and the fallback does NOT fire *)
Theorem C17_open_consistent : forall s po d, (0 <= x_N s)%Z -> x_F s = Some (x_N s) -> open_v4 s po = ODs d ->
  o_a d = fst (axis_range (x_T s) (the_dict po) "dumps") /\
  o_n d = take_len (axis_range (x_T s) (the_dict po) "dumps") /\ (0 < o_n d)%Z /\
  o_index d = pre_index [x_T s; x_N s] (the_dict po) /\
  o_fallback d = false /\ s_n (o_spw d) = data_chans (x_N s) (the_dict po).
Proof.
  intros s po d HN HF H. destruct (open_v4_shape s po d H) as (A & B & C & D).
  destruct (open_v4_consistent s po d HN HF H) as (E & F & _). rewrite HF in D. repeat split; assumption.
Qed.
Print Assumptions C17_open_consistent.

(* ... and its timestamps / frequencies are those of dumps a+i / channels c+j of the capture *)
Theorem C17_open_preselect_equals_select : forall s po d, (0 < x_N s)%Z -> o_fallback d = false -> open_v4 s po = ODs d ->
  (forall i, model_timestamp (x_tm s) (o_a d) i == spec_timestamp (x_tm s) (fst (axis_range (x_T s) (the_dict po) "dumps") + i)) /\
  (forall j, chan_freq (o_spw d) j ==
             x_centre s + inject_Z (fst (axis_range (x_N s) (the_dict po) "channels") + j - x_N s / 2) * x_bw s / inject_Z (x_N s)) /\
  chan_width (o_spw d) == x_bw s / inject_Z (x_N s).
Proof.
  intros s po d HN FB H. destruct (open_v4_shape s po d H) as (A & _). split; [|split].
  - intros i. rewrite preselect_timestamp, A. reflexivity.
  - intros j. exact (proj1 (open_v4_freqs s po d HN FB H j)).
  - exact (proj2 (open_v4_freqs s po d HN FB H 0%Z)).
Qed.
Print Assumptions C17_open_preselect_equals_select.

(* the channel-count fallback: fires exactly when window and data disagree on the number of channels; then the window
   has the data's count, the SAME channel width and sideband +1, and its centre frequency is 0 Hz *)
Theorem C17_channel_count_fallback : forall s po d F, (0 < x_N s)%Z -> x_F s = Some F -> open_v4 s po = ODs d ->
  (o_fallback d = true <->
   data_chans F (the_dict po) <> take_len (axis_range (x_N s) (the_dict po) "channels")) /\
  (o_fallback d = true ->
   s_centre (o_spw d) == 0 /\ s_n (o_spw d) = data_chans F (the_dict po) /\ s_side (o_spw d) = 1%Z /\
   ((0 < data_chans F (the_dict po))%Z -> chan_width (o_spw d) == x_bw s / inject_Z (x_N s)) /\
   forall k, (0 < data_chans F (the_dict po))%Z ->
     chan_freq (o_spw d) k == inject_Z (k - data_chans F (the_dict po) / 2) * (x_bw s / inject_Z (x_N s))).
Proof. exact open_v4_fallback. Qed.
Print Assumptions C17_channel_count_fallback.

(* ---- clause 1 / 2 for timestamps handed to TelstateDataSource(timestamps=...) (any sequence g) ---- *)
Theorem C17_given_timestamps : forall tm g a n i,
  model_timestamp_g tm g a i == g (a + i)%Z + t_off tm - spec_fix_g tm g /\
  model_start_g tm g a n == g a + t_off tm - spec_fix_g tm g - (1#2) * t_int tm /\
  model_end_g tm g a n == g (a + n - 1)%Z + t_off tm - spec_fix_g tm g + (1#2) * t_int tm /\
  model_offset_g tm g a == t_off tm - spec_fix_g tm g.
Proof. exact given_timestamps. Qed.
Print Assumptions C17_given_timestamps.

(* the synthesised axis is the instance g = synth *)
Theorem C17_given_timestamps_generalises : forall tm a i,
  model_timestamp tm a i = model_timestamp_g tm (synth tm) a i /\ spec_fix_g tm (synth tm) == spec_fix_amount tm.
Proof. intros tm a i. split; [exact (model_timestamp_synth tm a i)|exact (spec_fix_g_synth tm)]. Qed.
Print Assumptions C17_given_timestamps_generalises.

(* laws of the time axis: uniform spacing, duration, adjacent preselections tile the capture, default offset 0 *)
Theorem C17_time_axis_laws : forall tm a n m i,
  model_timestamp tm a (i + 1) - model_timestamp tm a i == t_int tm /\
  model_end_time tm a n - model_start_time tm a n == inject_Z n * t_int tm /\
  model_end_time tm a n == model_start_time tm (a + n) m /\
  q_default_time_offset == 0 /\ q_open_default_time_offset == 0.
Proof.
  intros tm a n m i. split; [exact (timestamps_uniform tm a i)|]. split; [exact (duration tm a n)|].
  split; [exact (preselections_tile tm a n m)|exact default_time_offsets].
Qed.
Print Assumptions C17_time_axis_laws.

(* ---- SpectralWindow: constructor variants and names ---- *)
Theorem C17_spw_constructor : forall k,
  j_w (spw_new k) = spw_init (k_centre k, k_cw k, k_n k, match k_sideband k with Some s => s | None => (-1)%Z end, k_bandwidth k)
  /\ j_product (spw_new k) = match k_product k with Some s => s | None => ""%string end
  /\ j_band (spw_new k) = match k_band k with Some b => b | None => "L"%string end.
Proof. exact spw_new_spec. Qed.
Print Assumptions C17_spw_constructor.

Theorem C17_v4_window_names :
  gen_v4_product_attr = "sub_product"%string /\ gen_v4_product_default = ""%string /\ gen_v4_band_attr = "sub_band"%string
  /\ gen_v4_band_map = [("l", "L"); ("s", "S"); ("u", "UHF"); ("x", "X")]%string.
Proof. exact v4_names_documented. Qed.
Print Assumptions C17_v4_window_names.

(* whatever sequence of sub-ranges and re-channelisations is applied: product, band and sideband never change *)
Theorem C17_history_keeps_names : forall ops o r, In (Some r) (obj_run o ops) ->
  j_product r = j_product o /\ j_band r = j_band o /\ s_side (j_w r) = s_side (j_w o).
Proof. exact history_keeps_names. Qed.
Print Assumptions C17_history_keeps_names.

(* ---- laws of windows (equality = SpectralWindow.__eq__ over exact numbers) ---- *)
Theorem C17_subrange_compose : forall w f l w1 f2 l2 w2, subrange w f l = Some w1 -> subrange w1 f2 l2 = Some w2 ->
  exists w3, subrange w (f + f2) (f + l2) = Some w3 /\ spw_eq w2 w3.
Proof. exact subrange_compose. Qed.
Print Assumptions C17_subrange_compose.

Theorem C17_subrange_full_identity : forall w, (0 < s_n w)%Z -> exists w', subrange w 0 (s_n w) = Some w' /\ spw_eq w' w.
Proof. exact subrange_full. Qed.
Print Assumptions C17_subrange_full_identity.

Theorem C17_rechannelise_compose : forall w m k, (0 < s_n w)%Z -> (0 < m)%Z -> (0 < k)%Z ->
  spw_eq (rechannelise (rechannelise w m) k) (rechannelise w k) /\
  spw_eq (rechannelise (rechannelise w m) (s_n w)) w.
Proof. intros w m k Hn Hm Hk. split; [exact (rechannelise_compose w m k Hn Hm Hk)|exact (rechannelise_roundtrip w m Hn Hm)]. Qed.
Print Assumptions C17_rechannelise_compose.

Theorem C17_equal_windows_equal_channels : forall u w k, (s_n w <> 0)%Z -> spw_eq u w ->
  chan_freq u k == chan_freq w k /\ chan_width u == chan_width w.
Proof. exact spw_eq_freqs. Qed.
Print Assumptions C17_equal_windows_equal_channels.

(* ---- clause 1: where the correlator dump period comes from (visdatav4._cbf_attrs + the try / except of __init__) ---- *)
(* the interpreted lookups of the source ARE the documented chain src_streams[0] -> <corr>_int_time, <corr>_n_accs,
   <corr>_src_streams[0] -> <feng>_instrument_dev_name -> <instrument>_scale_factor_timestamp, for every attribute
   dictionary on which that chain is well typed: complete -> the period; any link missing / an empty stream list -> lite *)
Theorem C17_cbf_period_chain : forall a, spec_cbf a <> CRaises -> cbf_period a = spec_cbf a.
Proof. exact cbf_period_spec. Qed.
Print Assumptions C17_cbf_period_chain.

Theorem C17_cbf_period_complete : forall a cs l p na fs l' inst sf,
  aget "src_streams" a = Some (AList (cs :: l)) -> aget (cs ++ "_int_time") a = Some (ANum p) ->
  aget (cs ++ "_n_accs") a = Some na -> aget (cs ++ "_src_streams") a = Some (AList (fs :: l')) ->
  aget (fs ++ "_instrument_dev_name") a = Some (AStr inst) -> aget (inst ++ "_scale_factor_timestamp") a = Some sf ->
  cbf_period a = CPeriod p /\ t_cbf_of a = Some p.
Proof. exact cbf_full_chain. Qed.
Print Assumptions C17_cbf_period_complete.

(* a lite or partially stripped RDB: no period, so no correction whatever the capture date *)
Theorem C17_cbf_lite_no_fix : forall tm a, spec_cbf a = CLite ->
  t_cbf_of a = None /\ forall i, spec_timestamp (timing_with_attrs tm a) i == raw_stamp tm i.
Proof. exact cbf_lite_no_fix. Qed.
Print Assumptions C17_cbf_lite_no_fix.

Theorem C17_cbf_source_constants :
  gen_cbf_result = ["int_time"; "n_accs"; "f_engine_stream"; "scale_factor_timestamp"]%string /\
  gen_cbf_lite_exceptions = ["IndexError"; "KeyError"]%string /\
  gen_cbf_prog = [CbfStep "correlator_stream" None "src_streams" true;
                  CbfStep "int_time" (Some "correlator_stream") "_int_time" false;
                  CbfStep "n_accs" (Some "correlator_stream") "_n_accs" false;
                  CbfStep "f_engine_stream" (Some "correlator_stream") "_src_streams" true;
                  CbfStep "f_engine_instrument" (Some "f_engine_stream") "_instrument_dev_name" false;
                  CbfStep "scale_factor_timestamp" (Some "f_engine_instrument") "_scale_factor_timestamp" false]%string.
Proof. exact cbf_source_documented. Qed.
Print Assumptions C17_cbf_source_constants.

(* ---- clause 4: numeric sensor values ---- *)
(* any per-dump quantity that is a function of the dump timestamp (respecting == of rationals; interpolating any list of
   sensor samples onto the dump grid is one) has, on the preselected data set, the values it has on dumps a..b of the whole *)
Theorem C17_preselect_sensor_values : forall (B : Type) (f : Q -> B) (eqB : B -> B -> Prop),
  (forall x y, x == y -> eqB (f x) (f y)) ->
  forall tm n a b j d, (a <= b <= n)%nat -> (j < b - a)%nat ->
  eqB (nth j (map f (timestamps_pre tm a b)) d) (nth j (slice a b (map f (timestamps_full tm n))) d).
Proof. intros B f eqB. exact (preselect_sensor_values f eqB). Qed.
Print Assumptions C17_preselect_sensor_values.

(* ---- the slice normalisation used here IS the one of the chunk-store model of C07 (written independently) ---- *)
Theorem C17_slice_model_is_C07s : forall n a b st,
  Chunks.norm_slice n (a, b) =
    (fst (py_indices n (PSlice a b st)), Z.max (fst (py_indices n (PSlice a b st))) (snd (py_indices n (PSlice a b st)))) /\
  (snd (Chunks.norm_slice n (a, b)) - fst (Chunks.norm_slice n (a, b)))%Z = take_len (py_indices n (PSlice a b st)).
Proof. exact py_indices_is_c07_norm_slice. Qed.
Print Assumptions C17_slice_model_is_C07s.

(* ======================================================================================================================
   Third round: the dates of the rule read as UTC, the decision on the start of the capture for every time_offset, numeric
   sensors over C12's extraction model, a list of files with one preselection.  Proofs in Proofs/TimeFreqYP.v. *)

(* ---- clause 1: "before the documented fix dates" = before UTC midnight of the date, whatever the zone of the process ---- *)
(* the date texts of the source, read as calendar.timegm(time.strptime(text, '%Y-%m-%d')) reads them (the only reading the
   translator accepts), are the numbers the rule is evaluated with, and those are the documented UTC midnights *)
Theorem C17_fix_dates_utc :
  map utc_midnight fix_date_texts = map Some fix_dates /\ fix_date_format = "%Y-%m-%d"%string
  /\ map utc_midnight ["2019-02-11"; "2019-03-03"; "2019-03-15"]%string = [Some 1549843200; Some 1551571200; Some 1552608000]%Z.
Proof. exact fix_dates_utc. Qed.
Print Assumptions C17_fix_dates_utc.

(* the day count behind utc_midnight is the calendar's: 0 on 1970-01-01 and exactly one more from each day to the next,
   for every valid date from 1970-01-01 to 2099-12-31 (bound in the statement; leap years, month and year ends included) *)
Theorem C17_calendar_day_count : forall y m d, (1970 <= y < 2100)%Z -> valid_date y m d = true ->
  days_from_civil 1970 1 1 = 0%Z /\
  (let '(y', m', d') := next_day (y, m, d) in days_from_civil y' m' d' = days_from_civil y m d + 1)%Z.
Proof. exact calendar_steps. Qed.
Print Assumptions C17_calendar_day_count.

(* C17-F2 (repaired): read through katpoint.Timestamp(<text>) - mktime of the fields minus time.timezone - the dates are UTC
   only in a zone that has today the standard offset it had in 2019 ... *)
Theorem C17_fix_rule_zone_same_offset : forall w c cmc2 cbf4k,
  legacy_rule w w c cmc2 cbf4k = utc_rule c cmc2 cbf4k /\
  forall wn s, legacy_midnight w wn s = option_map (fun u => u + (w - wn))%Z (utc_midnight s).
Proof. intros. split; [apply legacy_rule_same_offset|intros; apply legacy_midnight_shift]. Qed.
Print Assumptions C17_fix_rule_zone_same_offset.

(* ... and wrong otherwise (Africa/Juba, a CMC1 capture started 2019-03-14 23:30 UTC), while the rule of the repaired code
   is the documented table *)
Theorem C17_fix_rule_zone_refuted_before_fix :
  exists wt wn c cmc2 cbf4k,
    legacy_rule wt wn c cmc2 cbf4k <> Qltb c (inject_Z (doc_fix_date cmc2 cbf4k))
    /\ utc_rule c cmc2 cbf4k = Qltb c (inject_Z (doc_fix_date cmc2 cbf4k)).
Proof. exact fix_rule_zone_refuted_before_fix. Qed.
Print Assumptions C17_fix_rule_zone_refuted_before_fix.

(* the correction (what every timestamp of the data set loses) is decided on sync_time + first_timestamp + time_offset:
   the START OF THE CAPTURE as shifted by the time_offset argument, for every time_offset, and for every preselected first
   dump a the same as for the whole data set; it is one CBF dump or nothing, never anything else *)
Theorem C17_fix_against_capture_start : forall tm a,
  let start := t_sync tm + t_first tm + t_off tm in
  let date := inject_Z (doc_fix_date (t_cmc2 tm) (t_cbf4k tm)) in
  (start < date -> model_correction tm a == match t_cbf tm with Some c => c | None => 0 end) /\
  (date <= start -> model_correction tm a == 0) /\
  model_correction tm a == model_correction tm 0 /\
  (forall i, model_timestamp tm a i == raw_stamp tm (a + i) - model_correction tm a).
Proof. exact correction_cases. Qed.
Print Assumptions C17_fix_against_capture_start.

(* ---- clause 4: numeric sensor values, over the extraction model of C12 (Model/SensorCache.extract_sensor, unchanged) ---- *)
(* the getter of a v4 sensor holds the WHOLE history (get_range from gen_sensor_range_start = 0), preselection or not;
   a getter cut to the preselected range would interpolate differently *)
Theorem C17_sensor_history_whole_capture :
  gen_sensor_range_start = 0%Z /\
  gen_v4_sensor_cache_args = ["source.metadata.sensors"; "source.timestamps"; "self.dump_period"; "self._time_keep"]%string /\
  (forall dt st h, (forall s, In s h -> 0 <= s_t s) -> v4_getter dt st h = mkG dt st h) /\
  v4_sensor demo_tm 1 2 (v4_getter_cut DFloat false (model_timestamp demo_tm 1 0) demo_hist) p_empty
    <> v4_sensor demo_tm 1 2 (v4_getter DFloat false demo_hist) p_empty.
Proof.
  split; [reflexivity|split; [reflexivity|split; [exact getter_whole_history|exact (proj2 sensor_history_cut_differs)]]].
Qed.
Print Assumptions C17_sensor_history_whole_capture.

(* ANY sensor (history, dtype, status flag, sensor properties: time offset, categorical, initial value) extracted onto the
   dumps of a data set opened with preselect dumps = a:a+n gives exactly what select(dumps = a:a+n) gives on the whole data
   set: numeric values cut to a..a+n, categorical / failing extractions unchanged *)
Theorem C17_preselect_sensor_interp : forall tm T a n g p, (a + n <= T)%nat ->
  v4_sensor tm (Z.of_nat a) (Z.of_nat n) g p = xres_cut a n (v4_sensor tm 0 (Z.of_nat T) g p).
Proof. exact preselect_sensor. Qed.
Print Assumptions C17_preselect_sensor_interp.

(* ... and value i of an interpolated sensor is the piecewise-linear interpolation of the whole cleaned history at the
   documented timestamp of dump a + i of the capture (time_offset and the CBF correction included) *)
Theorem C17_preselect_sensor_value : forall tm a n g p, usable g p <> [] -> decide_cat p (g_dtype g) = false ->
  (g_dtype g = DFloat \/ g_dtype g = DInt) ->
  exists vals, v4_sensor tm a (Z.of_nat n) g p = XVals vals /\ List.length vals = n /\
    forall i, (i < n)%nat ->
      nth i vals None = Some (interp_d (nodes_of (usable g p)) (model_timestamp tm a (Z.of_nat i)))
      /\ model_timestamp tm a (Z.of_nat i) == spec_timestamp tm (a + Z.of_nat i).
Proof. exact preselect_sensor_value. Qed.
Print Assumptions C17_preselect_sensor_value.

(* ---- clause 4 / 6: katdal.open([file, ...], preselect=...) ---- *)
(* accepted: only keys of open_concat_keys, and EVERY file opened with the same preselection, in file order, keeping all
   of its dumps; conversely files that each accept it make the list accepted *)
Theorem C17_open_list_every_file : forall srcs po ds,
  (open_list srcs po = LOk ds ->
     forallb (key_ok open_concat_keys) (the_dict po) = true /\
     Forall2 (fun s d => open_v4 s po = ODs d /\ o_a d = 0%Z /\ o_n d = x_T s /\ (0 < x_T s)%Z) srcs ds) /\
  (forallb (key_ok open_concat_keys) (the_dict po) = true ->
     Forall2 (fun s d => open_v4 s po = ODs d) srcs ds -> open_list srcs po = LOk ds).
Proof.
  intros srcs po ds. split; [apply open_list_every_file|].
  intros F A. unfold open_list. rewrite F. apply open_each_ok_conv. exact A.
Qed.
Print Assumptions C17_open_list_every_file.

(* refused: a key other than channels -> IndexError (4) before any file is opened, whatever the files; otherwise the code
   of the FIRST file that refuses, all files before it having opened; one file in a list = that file *)
Theorem C17_open_list_refusals : forall srcs po,
  (forallb (key_ok open_concat_keys) (the_dict po) = false -> open_list srcs po = LErr 4) /\
  (forallb (key_ok open_concat_keys) (the_dict po) = true -> forall c, open_list srcs po = LErr c ->
     exists pre s post ds, srcs = (pre ++ s :: post)%list /\ open_each pre po = LOk ds /\ open_v4 s po = OErr c) /\
  (forallb (key_ok open_concat_keys) (the_dict po) = true -> forall s,
     open_list [s] po = match open_v4 s po with OErr c => LErr c | ODs d => LOk [d] end).
Proof.
  intros srcs po. split; [apply open_list_refused_keys|split].
  - intros F c H. unfold open_list in H. rewrite F in H. apply open_each_err. exact H.
  - intros F s. apply open_list_single. exact F.
Qed.
Print Assumptions C17_open_list_refusals.

(* files that agree on n_chans / center_freq / bandwidth / stored channels get the SAME spectral window (and fallback
   verdict) from one preselection, whatever their timing and number of dumps *)
Theorem C17_open_list_same_window : forall s1 s2 po d1 d2,
  x_N s1 = x_N s2 -> x_centre s1 = x_centre s2 -> x_bw s1 = x_bw s2 -> x_F s1 = x_F s2 ->
  open_v4 s1 po = ODs d1 -> open_v4 s2 po = ODs d2 ->
  o_spw d1 = o_spw d2 /\ o_fallback d1 = o_fallback d2.
Proof. exact open_same_window. Qed.
Print Assumptions C17_open_list_same_window.

(* non-vacuity of the third round: a leap day and a year end step by one; an impossible date is refused; the Juba reading
   is an hour early; a preselected sensor with distinct values; a list of two files accepted with channels 1:3 and refused
   with dumps *)
Definition y_src (T : Z) : v4src := mkSrc demo_tm T 4 (inject_Z 1284) 16 (Some 4%Z).
Example nonvacuous_y :
  utc_midnight "2020-02-29" = Some 1582934400%Z /\ utc_midnight "2019-02-29" = None /\ utc_midnight "2019-3-15" = None /\
  next_day (2019, 12, 31)%Z = (2020, 1, 1)%Z /\ next_day (2020, 2, 28)%Z = (2020, 2, 29)%Z /\
  legacy_midnight (-10800) (-7200) "2019-03-15" = Some (1552608000 - 3600)%Z /\
  v4_sensor demo_tm 1 2 (v4_getter DFloat false demo_hist) p_empty = XVals [Some (4 # 4); Some (8 # 4)] /\
  (exists d1 d2, open_list [y_src 3; y_src 5] (Some [("channels", PSlice (Some 1%Z) (Some 3%Z) None)]) = LOk [d1; d2]
                 /\ o_n d1 = 3%Z /\ o_n d2 = 5%Z /\ s_n (o_spw d1) = 2%Z /\ o_spw d1 = o_spw d2) /\
  open_list [y_src 3; y_src 5] (Some [("dumps", PSlice (Some 1%Z) (Some 3%Z) None)]) = LErr 4 /\
  open_list [y_src 3; y_src 0] (Some [("channels", PSlice (Some 1%Z) (Some 3%Z) None)]) = LErr 5.
Proof.
  repeat (split; [vm_compute; reflexivity|]).
  split; [|split; vm_compute; reflexivity].
  eexists. eexists. split; [vm_compute; reflexivity|]. repeat split.
Qed.
