(* C17 — v4 time and frequency axes; preselection is equivalent to selection.  Statements only.
   Model side (model_timestamp etc., chan_freq, subrange, rechannelise, v4_spw, preselect_ok, fix_rule): the katdal code as
   re-translated from the source on every run (Gen/Generated.v).  Spec side (raw sums, doc_fix_date, spec_timestamp, spec_chan_freq): the
   documented formulas.  See design.d/C17.md for the clause-by-clause map. *)
From Coq Require Import ZArith QArith List Bool String.
From KV Require Import Base.Sx Base.Str Gen.Generated Model.TimeFreq Proofs.TimeFreqP.
Import ListNotations.
Open Scope Q_scope.

(* ---- clause 1: mid-point timestamps ---- *)
(* The date rule in VisibilityDataV4.__init__ is the documented table "CMC2 4k fixed 2019-02-11, CMC2 1k fixed
   2019-03-03, CMC1 fixed 2019-03-15" for EVERY first timestamp. *)
Theorem C17_fix_rule_table : forall (t : Q) (cmc2 cbf4k : bool),
  fix_rule (fun d => Qltb t (inject_Z d)) cmc2 cbf4k = Qltb t (inject_Z (doc_fix_date cmc2 cbf4k)).
Proof. exact fix_rule_table. Qed.
Print Assumptions C17_fix_rule_table.

Theorem C17_fix_constants : fix_dates = [1549843200; 1551571200; 1552608000]%Z
  /\ fix_cmc2_marker = "cbf_dev"%string /\ fix_cbf4k_marker = "c856M4k"%string
  /\ fix_cmc2_attr = "sub_pool_resources"%string /\ fix_cbf4k_attr = "sub_product"%string.
Proof. exact fix_dates_documented. Qed.
Print Assumptions C17_fix_constants.

(* the data source synthesises sync_time + first_timestamp + k * int_time and remembers the first timestamp of the
   CAPTURE whatever dumps are preselected *)
Theorem C17_datasource_timestamps : forall tm a k,
  synth tm k == t_sync tm + t_first tm + inject_Z k * t_int tm /\
  src_base tm a = a /\ d_src_cap (run_ds tm a) = Some (synth tm 0).
Proof. intros tm a k. split; [exact (synth_closed tm k)|split; reflexivity]. Qed.
Print Assumptions C17_datasource_timestamps.

(* dump i of a data set opened without preselection: sync + first + i*int + offset, minus one CBF dump
   exactly for captures that start before the documented fix date of their correlator *)
Theorem C17_timestamp_formula : forall tm i,
  model_timestamp tm 0 i ==
  t_sync tm + t_first tm + inject_Z i * t_int tm + t_off tm
  - (if Qltb (t_sync tm + t_first tm + t_off tm) (inject_Z (doc_fix_date (t_cmc2 tm) (t_cbf4k tm)))
     then match t_cbf tm with Some c => c | None => 0 end else 0).
Proof. intros tm i. rewrite timestamp_formula. exact (timestamp_closed_form tm i). Qed.
Print Assumptions C17_timestamp_formula.

(* the workaround is recorded in the time_offset attribute (also of a preselected data set) *)
Theorem C17_time_offset_records_fix : forall tm a,
  model_time_offset tm a == t_off tm - spec_fix_amount tm.
Proof. exact time_offset_records. Qed.
Print Assumptions C17_time_offset_records_fix.

(* ---- clause 2: start and end bracket the first and last dump by half a dump (any preselected range a:a+n) ---- *)
Theorem C17_start_end_bracket : forall tm a n,
  model_start_time tm a n == spec_timestamp tm a - (1#2) * t_int tm /\
  model_end_time tm a n == spec_timestamp tm (a + n - 1) + (1#2) * t_int tm.
Proof. exact start_end_bracket. Qed.
Print Assumptions C17_start_end_bracket.

Theorem C17_start_end_bracket_own_dumps : forall tm a n,
  model_start_time tm a n == model_timestamp tm a 0 - (1#2) * t_int tm /\
  model_end_time tm a n == model_timestamp tm a (n - 1) + (1#2) * t_int tm.
Proof. exact start_end_bracket_model. Qed.
Print Assumptions C17_start_end_bracket_own_dumps.

(* ---- clause 3: channel frequencies ---- *)
Theorem C17_channel_formula : forall c bw n k, (0 < n)%Z ->
  chan_freq (mkSpw c bw n 1) k == c + inject_Z (k - n / 2) * bw / inject_Z n.
Proof. exact channel_formula. Qed.
Print Assumptions C17_channel_formula.

(* both sidebands *)
Theorem C17_channel_formula_sideband : forall w k, (s_n w <> 0)%Z ->
  chan_freq w k == s_centre w + inject_Z (s_side w) * (inject_Z (k - s_n w / 2) * s_bw w / inject_Z (s_n w)).
Proof. exact chan_freq_closed. Qed.
Print Assumptions C17_channel_formula_sideband.

(* the window VisibilityDataV4 builds from the telstate attributes center_freq, bandwidth, n_chans *)
Theorem C17_v4_channel_formula : forall c bw n k, (0 < n)%Z ->
  chan_freq (v4_spw c bw n) k == c + inject_Z (k - n / 2) * bw / inject_Z n /\
  chan_width (v4_spw c bw n) == bw / inject_Z n.
Proof. exact v4_channel_formula. Qed.
Print Assumptions C17_v4_channel_formula.

Theorem C17_v4_freq_constants :
  gen_v4_freq_attrs = [("num_chans", "n_chans"); ("bandwidth", "bandwidth"); ("centre_freq", "center_freq")]%string
  /\ gen_v4_sideband = 1%Z.
Proof. exact v4_freq_attrs_documented. Qed.
Print Assumptions C17_v4_freq_constants.

(* the channel_width attribute is bandwidth / num_chans on both construction paths of SpectralWindow.__init__ *)
Theorem C17_spw_init_width : forall c cw n sd bw, (n <> 0)%Z ->
  init_width_attr (c, cw, n, sd, bw) == chan_width (spw_init (c, cw, n, sd, bw)).
Proof. exact init_width_consistent. Qed.
Print Assumptions C17_spw_init_width.

(* ---- clause 7: sub-ranges and re-channelisations stay aligned with the original ---- *)
(* channel j of spw.subrange(first, last) has the centre of channel first+j; same width;
   and exactly the non-empty sub-intervals are accepted *)
Theorem C17_subrange_aligned : forall w f l w' j, subrange w f l = Some w' ->
  chan_freq w' j == chan_freq w (f + j) /\ chan_width w' == chan_width w.
Proof. intros w f l w' j H. split; [exact (subrange_aligned w f l w' j H)|exact (subrange_width w f l w' H)]. Qed.
Print Assumptions C17_subrange_aligned.

Theorem C17_subrange_edges : forall w f l w', subrange w f l = Some w' ->
  (forall j, chan_lo w' j == chan_lo w (f + j)) /\
  band_lo w' == chan_lo w f /\
  band_hi w' == chan_freq w (l - 1) + inject_Z (s_side w) * (1#2) * chan_width w.
Proof. exact subrange_edges. Qed.
Print Assumptions C17_subrange_edges.

Theorem C17_subrange_rejects : forall w f l,
  subrange w f l = None <-> ~ ((0 <= f)%Z /\ (f < l)%Z /\ (l <= s_n w)%Z).
Proof. exact subrange_none. Qed.
Print Assumptions C17_subrange_rejects.

(* re-channelisation keeps both band edges (for both sidebands, odd and even channel counts), the bandwidth,
   the sideband and produces the requested number of channels *)
Theorem C17_rechannelise_edges : forall w m, (0 < s_n w)%Z -> (0 < m)%Z ->
  band_lo (rechannelise w m) == band_lo w /\ band_hi (rechannelise w m) == band_hi w.
Proof. exact rechannelise_edges. Qed.
Print Assumptions C17_rechannelise_edges.

Theorem C17_rechannelise_shape : forall w m, (0 < s_n w)%Z -> (0 < m)%Z ->
  s_bw (rechannelise w m) = s_bw w /\ s_n (rechannelise w m) = m /\ s_side (rechannelise w m) = s_side w.
Proof. intros w m Hn Hm. destruct (rechannelise_band_centre w m Hn Hm) as (_ & H). exact H. Qed.
Print Assumptions C17_rechannelise_shape.

(* the channel grids stay aligned: lower edge of new channel j = lower edge of original channel k whenever j/m = k/n *)
Theorem C17_rechannelise_grid : forall w m j k, (0 < s_n w)%Z -> (0 < m)%Z -> (j * s_n w = k * m)%Z ->
  chan_lo (rechannelise w m) j == chan_lo w k.
Proof. exact rechannelise_grid. Qed.
Print Assumptions C17_rechannelise_grid.

Theorem C17_rechannelise_centre_odd : forall w m, (0 < s_n w)%Z -> (0 < m)%Z ->
  (s_n w mod 2 = 1)%Z -> (m mod 2 = 1)%Z -> s_centre (rechannelise w m) == s_centre w.
Proof. exact rechannelise_centre_odd. Qed.
Print Assumptions C17_rechannelise_centre_odd.

(* ---- clause 4: preselection = selection ---- *)
(* dump i of a data set opened with preselect dumps = a:... has the documented timestamp of dump a+i of the capture *)
Theorem C17_preselect_timestamp : forall tm a i, model_timestamp tm a i == spec_timestamp tm (a + i).
Proof. exact preselect_timestamp. Qed.
Print Assumptions C17_preselect_timestamp.

(* timestamps of a preselected data set = timestamps a..b of the whole data set, for every timing, every
   capture date and every range (after the repair of F21 the fix decision looks at the start of the capture) *)
Theorem C17_preselect_timestamps : forall tm n a b j, (a <= b <= n)%nat -> (j < b - a)%nat ->
  nth j (timestamps_pre tm a b) 0 == nth j (slice a b (timestamps_full tm n)) 0.
Proof. exact preselect_timestamps. Qed.
Print Assumptions C17_preselect_timestamps.

(* before the repair (decision taken on the first PRESELECTED dump) this was false for captures straddling a
   fix date: the witness on which the old and the new model differ *)
Theorem C17_preselect_timestamps_refuted_before_fix :
  exists tm a i, ~ (model_timestamp_pre tm a i == spec_timestamp tm (a + i))
                 /\ model_timestamp tm a i == spec_timestamp tm (a + i).
Proof. exact preselect_timestamps_refuted_before_fix. Qed.
Print Assumptions C17_preselect_timestamps_refuted_before_fix.

Theorem C17_preselect_freqs : forall w c d w' j,
  subrange w (Z.of_nat c) (Z.of_nat d) = Some w' -> (j < d - c)%nat ->
  nth j (freqs_full w') 0 == nth j (slice c d (freqs_full w)) 0.
Proof. exact preselect_freqs. Qed.
Print Assumptions C17_preselect_freqs.

(* a v4 data set preselected to channels c:d: every valid range is accepted, has d-c channels, and channel j sits
   at the documented frequency of channel c+j of the whole data set *)
Theorem C17_v4_preselect_freqs : forall centre bw n c d, (0 <= c)%Z -> (c < d)%Z -> (d <= n)%Z ->
  exists w', subrange (v4_spw centre bw n) c d = Some w' /\ s_n w' = (d - c)%Z /\
  forall j, chan_freq w' j == centre + inject_Z (c + j - n / 2) * bw / inject_Z n.
Proof. exact v4_preselect_freqs. Qed.
Print Assumptions C17_v4_preselect_freqs.

(* any per-dump quantity computed pointwise from the timestamps (numeric sensors: interpolation onto the
   dump grid) commutes with the restriction to dumps a..b *)
Theorem C17_pointwise_commutes : forall (A B : Type) (f : A -> B) a b l,
  map f (slice a b l) = slice a b (map f l).
Proof. intros A B f a b l. exact (map_slice f a b l). Qed.
Print Assumptions C17_pointwise_commutes.

(* ---- clause 5: later selections are relative to the preselected subset ---- *)
Theorem C17_later_selection_relative : forall (A : Type) a b (l : list A) j d, (j < b - a)%nat ->
  nth j (slice a b l) d = nth (a + j) l d.
Proof. intros A a b l j d H. exact (nth_slice a b l j d H). Qed.
Print Assumptions C17_later_selection_relative.

(* dumps x0:x1 and channels y0:y1 of the (dumps a:b, channels c:d) subset of a time x frequency array are
   dumps a+x0:a+x1 and channels c+y0:c+y1 of the whole array *)
Theorem C17_later_selection_composes : forall (A : Type) a b c d x0 x1 y0 y1 (m : list (list A)),
  (x1 <= b - a)%nat -> (y1 <= d - c)%nat ->
  slice2 x0 x1 y0 y1 (slice2 a b c d m) = slice2 (a + x0) (a + x1) (c + y0) (c + y1) m.
Proof. intros A a b c d x0 x1 y0 y1 m Hx Hy. exact (slice2_slice2 a b c d x0 x1 y0 y1 m Hx Hy). Qed.
Print Assumptions C17_later_selection_composes.

(* ---- clause 6: unknown keys and non-unit steps are rejected ---- *)
Theorem C17_preselect_rejects : forall keys steps,
  preselect_ok keys steps = true <->
  (forall k, In k keys -> k = "channels"%string \/ k = "dumps"%string) /\
  (forall s, In s steps -> s = None \/ s = Some 1%Z).
Proof. exact preselect_rejects. Qed.
Print Assumptions C17_preselect_rejects.
