(* C09 — S3 transport.  Only statements here. *)
From Coq Require Import ZArith List Bool String.
From KV Require Import Base.Sx Base.Str Gen.Generated Model.S3Retry Model.Jwt Proofs.S3RetryP.
Import ListNotations.
Open Scope Z_scope.

Theorem C09_convert_table : forall e, request_convert e =
  match e with
  | SocketTimeout => U3ReadTimeout
  | ConnectionReset | IncompleteReadX | ChunkedEncoding => U3Protocol
  | ReqConnReadTimeout => U3ReadTimeout
  | ReqConnMaxRetry _ => U3MaxRetry
  | e => e
  end.
Proof. exact convert_table. Qed.
Print Assumptions C09_convert_table.
