(* C09 — S3 transport: transient faults retried, never partial data; permanent statuses classified; tokens rejected
   before any request; RDB downloads obey the same rules.  Only statements here (proofs in Proofs/S3RetryP.v, JwtP.v).
   Model: Model/S3Retry.v (request loop of S3ChunkStore.request over the urllib3 Retry counters, _request conversions,
   error_map, _raise_for_status, _DetectTruncation, get_chunk + bucket check, RDB fetch), Model/Jwt.v. *)
From Coq Require Import ZArith List Bool String.
From KV Require Import Base.Sx Base.Str Gen.Generated Model.S3Retry Model.S3Session Model.Jwt Model.JwtHist Model.S3Url
  Model.S3Budget Model.S3Unstreamed Proofs.S3RetryP Proofs.S3SessionP Proofs.JwtP Proofs.JwtHistP Proofs.S3UrlP
  Proofs.S3BudgetP Proofs.S3UnstreamedP.
Import ListNotations.
Open Scope Z_scope.

(* ---- the tables re-translated from the source still say what the theorems rely on ---- *)
Theorem C09_exception_tables :
  (forall e, request_convert e =
     match e with
     | SocketTimeout | ReqConnReadTimeout => U3ReadTimeout
     | ConnectionReset | IncompleteReadX | ChunkedEncoding => U3Protocol
     | ReqConnMaxRetry _ => U3MaxRetry
     | e => e
     end) /\
  standardise U3MaxRetry = Glitch /\ standardise ReqRetryError = Glitch.
Proof. exact exception_tables. Qed.
Print Assumptions C09_exception_tables.

Theorem C09_status_classes : forall c, 400 <= c < 600 ->
  raise_for_status c [] = Some (if (c =? 401) || (c =? 403) then Auth else if c =? 404 then NotFound else Unavail).
Proof. exact raise_for_status_spec. Qed.
Print Assumptions C09_status_classes.

Theorem C09_default_config : forall c r, 0 <= c -> 0 <= r ->
  wf_retry (c_retry (default_config c r)) = true /\
  c_forcelist (default_config c r) = [500; 502; 503; 504] /\
  wf_forcelist (c_forcelist (default_config c r)) = true /\
  r_status (c_retry (default_config c r)) = Some 5 /\ r_total (c_retry (default_config c r)) = Some 10.
Proof. exact default_config_ok. Qed.
Print Assumptions C09_default_config.

(* ---- urllib3's exhaustion test: exhausted iff some counter went below zero ---- *)
Theorem C09_is_exhausted : forall r, is_exhausted r = negb (wf_retry r).
Proof. exact is_exhausted_spec. Qed.
Print Assumptions C09_is_exhausted.

(* ---- every cut position is detected; a complete body is consumed exactly ---- *)
Theorem C09_truncation_detected : forall segs k,
  (k < total segs -> detect_truncation segs k = None)%nat /\
  (total segs <= k -> detect_truncation segs k = Some (total segs))%nat.
Proof. intros segs k. split; [apply detect_cut | apply detect_complete]. Qed.
Print Assumptions C09_truncation_detected.

(* ---- MAIN: for every retry configuration (any budgets incl. unlimited, any forcelist), every chunk geometry and
   every fault sequence of any length (followed by good responses), the retry loop returns exactly what the counting
   spec says, after exactly the number of requests it says: Ok iff the read faults, the status faults and their sum
   fit in the read / status / total budgets before a final answer arrives, else a server glitch. ---- *)
Theorem C09_retry : forall cfg segs fs,
  wf_retry (c_retry cfg) = true -> Forall (fun o => wf_outcome o = true) fs ->
  request cfg (PChunk segs) (total segs) [] fs = spec_request cfg (total segs) fs.
Proof. intros cfg segs fs Hb Hwf. exact (request_is_spec cfg (PChunk segs) (total segs) fs Hb eq_refl eq_refl Hwf). Qed.
Print Assumptions C09_retry.

(* the property in its own words: transient faults only, then the good response *)
Theorem C09_faults_then_good : forall cfg segs pre,
  wf_retry (c_retry cfg) = true -> wf_forcelist (c_forcelist cfg) = true ->
  forallb (transient (c_forcelist cfg) (total segs)) pre = true ->
  request cfg (PChunk segs) (total segs) [] pre =
  if fits (c_forcelist cfg) (total segs) (c_retry cfg) pre then (Ok (total segs), S (List.length pre))
  else (Err Glitch, first_unfit (c_forcelist cfg) (total segs) (c_retry cfg) [] pre).
Proof. intros cfg segs pre Hb Hfl Hp. exact (faults_then_good cfg (PChunk segs) (total segs) pre Hb Hfl eq_refl eq_refl Hp). Qed.
Print Assumptions C09_faults_then_good.

(* the hypotheses are satisfiable and the three outcomes occur (default store configuration, retries = 2) *)
Example C09_retry_examples :
  let cfg := default_config 2 2 in
  let segs := [8; 2; 118; 96]%nat in
  request cfg (PChunk segs) 224 [] [Status 503; Trunc 223; HFault HStall] = (Ok 224%nat, 4%nat) /\
  request cfg (PChunk segs) 224 [] [Trunc 0; Reset 9; Stall 130; Good] = (Err Glitch, 3%nat) /\
  request cfg (PChunk segs) 224 [] [Status 500; Status 403; Good] = (Err Auth, 2%nat) /\
  request cfg (PChunk segs) 224 [] [Trunc 224; Status 503] = (Ok 224%nat, 1%nat).
Proof. vm_compute. repeat split; reflexivity. Qed.
Print Assumptions C09_retry_examples.

(* ---- never partial: whatever the configuration, the ignored statuses and the fault sequence, an Ok result delivers
   the complete body (no well-formedness hypothesis at all) ---- *)
Theorem C09_never_partial : forall cfg segs ignored fs d n,
  request cfg (PChunk segs) (total segs) ignored fs = (Ok d, n) -> d = total segs.
Proof. intros cfg segs ignored fs d n. unfold request. apply loop_never_partial. Qed.
Print Assumptions C09_never_partial.

(* ---- 401 / 403 are authorisation failures after exactly one request ---- *)
Theorem C09_auth_not_retried : forall cfg segs c rest,
  (c = 401 \/ c = 403) -> memZ c (c_forcelist cfg) = false ->
  request cfg (PChunk segs) (total segs) [] (Status c :: rest) = (Err Auth, 1%nat).
Proof. intros cfg segs c rest. exact (auth_one_request cfg (PChunk segs) (total segs) c rest eq_refl). Qed.
Print Assumptions C09_auth_not_retried.

(* after transient faults that fit: a permanent status is classified at once (one more request) and nothing that
   the server would do afterwards matters *)
Theorem C09_permanent_after_faults : forall cfg segs pre c rest,
  wf_retry (c_retry cfg) = true -> wf_forcelist (c_forcelist cfg) = true ->
  forallb (transient (c_forcelist cfg) (total segs)) pre = true ->
  400 <= c < 500 -> Forall (fun o => wf_outcome o = true) rest ->
  request cfg (PChunk segs) (total segs) [] (pre ++ Status c :: rest) =
  if fits (c_forcelist cfg) (total segs) (c_retry cfg) pre
  then (Err (if (c =? 401) || (c =? 403) then Auth else if c =? 404 then NotFound else Unavail), S (List.length pre))
  else (Err Glitch, first_unfit (c_forcelist cfg) (total segs) (c_retry cfg) [] pre).
Proof. exact permanent_after_faults_4xx. Qed.
Print Assumptions C09_permanent_after_faults.

(* ---- the 404 rule: get_chunk = the object request by the counting spec; a 404 becomes a missing chunk only for a
   verified bucket or a listing that succeeds on a non-empty bucket; otherwise the store is unavailable (or the
   listing's own failure is reported); no listing is requested unless the object answer was 404 ---- *)
Theorem C09_rule_404 : forall cfg segs blen verified b fs fsb,
  wf_retry (c_retry cfg) = true -> Forall (fun o => wf_outcome o = true) fs ->
  let g := get_chunk cfg segs (total segs) blen verified b fs fsb in
  let listing := request cfg PListing blen [] (listing_script b fsb) in
  g_result g = spec_get_chunk cfg (total segs) blen verified b fs fsb /\
  g_obj_requests g = spec_requests (c_forcelist cfg) (total segs) (c_retry cfg) fs /\
  (g_bucket_requests g =
     if verified then O else
     match spec_result (c_forcelist cfg) (total segs) (c_retry cfg) fs with Err NotFound => snd listing | _ => O end) /\
  (g_verified g =
     match spec_result (c_forcelist cfg) (total segs) (c_retry cfg) fs with
     | Err NotFound => verified || match b, fst listing with BFull, Ok _ => true | _, _ => false end
     | _ => verified
     end).
Proof. intros cfg segs blen verified b fs fsb Hb Hwf. exact (get_chunk_is_spec cfg segs blen verified b fs fsb Hb Hwf eq_refl). Qed.
Print Assumptions C09_rule_404.

(* a listing that meets no fault: one request; Ok for an existing bucket, 404 for a missing one *)
Theorem C09_listing_plain : forall cfg blen b, memZ 404 (c_forcelist cfg) = false ->
  request cfg PListing blen [] (listing_script b []) = (match b with BMissing => Err NotFound | _ => Ok blen end, 1%nat).
Proof. exact listing_plain. Qed.
Print Assumptions C09_listing_plain.

Example C09_rule_404_examples :
  let cfg := default_config 2 2 in
  let segs := [8; 2; 118; 96]%nat in
  g_result (get_chunk cfg segs 224 100 false BFull [Status 404] []) = Err NotFound /\
  g_result (get_chunk cfg segs 224 100 false BEmpty [Status 404] []) = Err Unavail /\
  g_result (get_chunk cfg segs 224 100 false BMissing [Status 404] []) = Err Unavail /\
  g_result (get_chunk cfg segs 224 100 true BMissing [Status 503; Status 404] []) = Err NotFound /\
  g_bucket_requests (get_chunk cfg segs 224 100 false BFull [Status 404] [Status 503; Trunc 5]) = 3%nat.
Proof. vm_compute. repeat split; reflexivity. Qed.
Print Assumptions C09_rule_404_examples.

(* ---- tokens: every token the property lists (not three segments, undecodable header or payload, ES256 signature
   of the wrong length, expired or unusable expiry, no prefix claim, plain http to a host other than 127.0.0.1, no
   prefix covering the path) is rejected with InvalidToken / AuthorisationFailed and ZERO requests, whatever the
   retry configuration and the server would do; every other token leaves the request untouched ---- *)
Theorem C09_token_rejected_before_request : forall scheme host t now path cfg p len fs,
  bad_token scheme host t now path = true ->
  exists e, token_request scheme host t now path cfg p len fs = (Err e, O) /\ (e = InvalidTok \/ e = Auth).
Proof. exact token_request_bad. Qed.
Print Assumptions C09_token_rejected_before_request.

Theorem C09_token_accepted : forall scheme host t now path cfg p len fs,
  bad_token scheme host t now path = false ->
  token_request scheme host t now path cfg p len fs = request cfg p len [] fs.
Proof. exact token_request_good. Qed.
Print Assumptions C09_token_accepted.

(* a token string header.payload.signature cut at ANY position: fewer than three segments, or the same header and
   payload with a strictly shorter signature -- hence rejected when the algorithm is ES256 with its 86 characters *)
Theorem C09_truncated_token : forall h p s k,
  nodot h = true -> nodot p = true -> nodot s = true ->
  (k < List.length h + List.length p + List.length s + 2)%nat ->
  let segs := split_dots (firstn k (h ++ 46 :: p ++ 46 :: s)) in
  (List.length segs < 3)%nat \/ exists j, (j < List.length s)%nat /\ segs = [h; p; firstn j s].
Proof. exact cut_token_segments. Qed.
Print Assumptions C09_truncated_token.

Theorem C09_cut_token_is_bad : forall scheme host t now path,
  (t_nseg t < 3 \/ (t_alg t = "ES256"%string /\ t_siglen t < 86)) -> bad_token scheme host t now path = true.
Proof. exact cut_token_is_bad. Qed.
Print Assumptions C09_cut_token_is_bad.

(* ---- RDB files: the same loop, the same counting spec, the same number of requests; every failure becomes
   DataSourceNotFound; Ok only with the complete file ---- *)
Theorem C09_rdb_same_rules : forall cfg len fs,
  wf_retry (c_retry cfg) = true -> Forall (fun o => wf_outcome o = true) fs ->
  rdb_fetch cfg len fs =
  (match spec_result (c_forcelist cfg) len (c_retry cfg) fs with Ok d => RdbOk d | Err _ => RdbNotFound end,
   spec_requests (c_forcelist cfg) len (c_retry cfg) fs).
Proof. exact rdb_is_spec. Qed.
Print Assumptions C09_rdb_same_rules.

(* ---- a quirk the property does not forbid, recorded so that the model stays honest: the bucket listing is not
   streamed, so a fault in its body is retried with the Retry object from before the request and the retries used
   up inside the adapter are forgotten (read budget 1, reset before the header, cut body: still listed) ---- *)
Example C09_listing_budget_not_carried :
  let cfg := mkConfig (mkRetry (Some 10) (Some 1) (Some 1) (Some 1)) [500; 502; 503; 504] in
  request cfg PListing 100 [] [HFault HReset; Trunc 5] = (Ok 100%nat, 3%nat) /\
  spec_request cfg 100 [HFault HReset; Trunc 5] = (Err Glitch, 2%nat).
Proof. vm_compute. split; reflexivity. Qed.
Print Assumptions C09_listing_budget_not_carried.

(* =====================================================================================
   ONE STORE OBJECT, ANY HISTORY OF CALLS (Model/S3Session.v).  The store carries the verified-bucket cache, the Retry
   template and the session pool from one get_chunk call to the next; _verify_bucket is modelled by interpreting its
   statements in source order (Generated.s3_verify_steps), so WHEN the bucket enters the cache is part of the model.
   ===================================================================================== *)

(* ---- MAIN (histories): for every configuration and EVERY sequence of get_chunk calls on a fresh store object - any
   buckets, any bucket states (which may change between calls), any chunk geometries, any fault sequences on the object
   and listing requests - every call returns what the single-call spec says with the FULL retry budget of the
   configuration (nothing of the Retry state survives a call), where a 404 is passed on as a missing chunk only on the
   evidence `shown` of the history: an earlier (or this) 404 in the same bucket whose listing came back and showed a
   key; and every call sends exactly the object requests of the counting spec ---- *)
Theorem C09_session : forall cfg ops,
  wf_retry (c_retry cfg) = true -> Forall wf_op ops ->
  map g_result (fst (session cfg [] ops)) = spec_session cfg [] ops /\
  map g_obj_requests (fst (session cfg [] ops)) =
    map (fun o => spec_requests (c_forcelist cfg) (o_len o) (c_retry cfg) (o_fs o)) ops.
Proof. exact session_fresh_is_spec. Qed.
Print Assumptions C09_session.

(* the k-th call of any history, spelled out *)
Theorem C09_session_call : forall cfg pre o post,
  wf_retry (c_retry cfg) = true -> Forall wf_op (pre ++ o :: post) ->
  nth (List.length pre) (map g_result (fst (session cfg [] (pre ++ o :: post)))) (Err Raw) =
  spec_get_chunk cfg (o_len o) (o_blen o) (shown cfg pre (o_id o)) (o_state o) (o_fs o) (o_fsb o).
Proof. exact nth_call. Qed.
Print Assumptions C09_session_call.

(* ---- INVARIANT of the cache, for all request/fault histories: after any history the verified set is exactly the
   evidence; in particular a bucket is in it ONLY IF some call of the history got a 404 for a chunk in that bucket,
   the bucket existed and held a key at that moment and the listing request came back complete ---- *)
Theorem C09_cache_is_evidence : forall cfg ops id,
  wf_retry (c_retry cfg) = true -> Forall wf_op ops ->
  memN id (snd (session cfg [] ops)) = shown cfg ops id.
Proof. exact cache_is_evidence. Qed.
Print Assumptions C09_cache_is_evidence.

Theorem C09_verified_only_if_listed : forall cfg ops id,
  wf_retry (c_retry cfg) = true -> Forall wf_op ops ->
  memN id (snd (session cfg [] ops)) = true ->
  exists o, In o ops /\ o_id o = id /\ o_state o = BFull /\ obj404 cfg o = true /\
            exists d, fst (request cfg PListing (o_blen o) [] (o_fsb o)) = Ok d.
Proof. exact verified_only_if_listed. Qed.
Print Assumptions C09_verified_only_if_listed.

(* ---- the 404 rule over histories in the words of the property: without evidence a 404 is never reported as a
   missing chunk - however many 404s the same store has already seen in that bucket; with evidence it is; and a call
   that is not answered 404 is judged by the counting spec alone ---- *)
Theorem C09_404_needs_evidence : forall cfg hist o,
  obj404 cfg o = true -> shown cfg (hist ++ [o]) (o_id o) = false -> spec_op cfg hist o <> Err NotFound.
Proof. exact spec_404_needs_evidence. Qed.
Print Assumptions C09_404_needs_evidence.

Theorem C09_404_with_evidence : forall cfg hist o,
  obj404 cfg o = true -> shown cfg hist (o_id o) = true -> spec_op cfg hist o = Err NotFound.
Proof. exact spec_404_with_evidence. Qed.
Print Assumptions C09_404_with_evidence.

Theorem C09_budget_not_carried_between_calls : forall cfg hist o,
  obj404 cfg o = false -> spec_op cfg hist o = spec_result (c_forcelist cfg) (o_len o) (c_retry cfg) (o_fs o).
Proof. exact spec_op_no_404. Qed.
Print Assumptions C09_budget_not_carried_between_calls.

(* satisfiable, and the histories that matter: an empty / missing bucket stays unavailable however often it is asked
   (also after a listing that failed with a server glitch); a healthy bucket does not vouch for another one; the
   cache is trusted once filled; the read budget is whole again at every call *)
Example C09_session_examples :
  let cfg := mkConfig (mkRetry (Some 10) (Some 1) (Some 1) (Some 1)) [500; 502; 503; 504] in
  let segs := [8; 2; 118; 96]%nat in
  let nf b st := mkOp b st segs 100 [Status 404] [] in
  map g_result (fst (session cfg [] [nf 0 BEmpty; nf 0 BEmpty; nf 0 BEmpty]))%nat = [Err Unavail; Err Unavail; Err Unavail] /\
  map g_result (fst (session cfg [] [nf 0 BMissing; nf 0 BMissing]))%nat = [Err Unavail; Err Unavail] /\
  map g_result (fst (session cfg [] [mkOp 0 BEmpty segs 100 [Status 404] [Status 503; Status 503]; nf 0 BEmpty]))%nat
    = [Err Glitch; Err Unavail] /\
  map g_result (fst (session cfg [] [nf 0 BFull; nf 1 BEmpty; nf 0 BEmpty]))%nat = [Err NotFound; Err Unavail; Err NotFound] /\
  snd (session cfg [] [nf 0 BFull; nf 1 BEmpty; nf 0 BEmpty])%nat = [0%nat] /\
  map g_result (fst (session cfg [] [mkOp 0 BFull segs 100 [Trunc 9] []; mkOp 0 BFull segs 100 [HFault HReset] [];
                                      mkOp 0 BFull segs 100 [Stall 0; Reset 3] []]))%nat = [Ok 224%nat; Ok 224%nat; Err Glitch].
Proof. vm_compute. repeat split; reflexivity. Qed.
Print Assumptions C09_session_examples.

(* =====================================================================================
   TOKENS OVER TIME (Model/JwtHist.v).  One process uses token strings again and again while the clock moves on:
   decode_jwt(tok), S3ChunkStore(url, token=tok) + a request (a chunk, or the RDB file of TelstateDataSource.from_url),
   further requests on a store object constructed earlier.  The model threads through the history whatever a validating
   layer could remember (memo of decoded tokens per Generated.jwt_decode_memo, the store objects alive) and interprets
   decode_jwt / _BearerAuth.__init__ / __call__ statement by statement in source order; the spec has no state.
   ===================================================================================== *)

(* the statements of decode_jwt in source order, with the comparison operator and constants re-translated from the
   source, are the chain of checks of Model/Jwt.v *)
Theorem C09_decode_jwt_statements : forall t now,
  run_decode jwt_decode_steps t now d0 = match decode_jwt t now with None => DOk | Some r => DRej r end.
Proof. exact run_decode_std. Qed.
Print Assumptions C09_decode_jwt_statements.

(* ---- MAIN (token histories): for every configuration, every table of tokens and EVERY history of uses at ANY clock
   values (the clock may jump, stand still or run backwards), each use returns - and sends exactly the requests - that
   the stateless spec says for the token, the clock of that moment, the URL and the path: rejected with zero requests
   if the token is bad at that moment, the counting spec of the request otherwise.  A request on a store object
   constructed earlier is judged by the token the store was constructed with and the clock of the REQUEST. ---- *)
Theorem C09_token_history : forall cfg toks us,
  wf_retry (c_retry cfg) = true -> Forall wf_use us ->
  fst (run_hist cfg toks p0 us) = spec_hist cfg toks [] us.
Proof. exact hist_is_spec. Qed.
Print Assumptions C09_token_history.

(* ---- NO MEMORY of earlier decisions: whatever happened before (any past `pre`, which may have used the same token
   string while it was still valid), decode_jwt / store construction / the RDB download return what they return in a
   fresh process: a function of the token, the clock, the URL and the path only.  No hypotheses. ---- *)
Theorem C09_token_no_memory : forall cfg toks pre u post,
  is_call u = false ->
  nth (List.length pre) (fst (run_hist cfg toks p0 (pre ++ u :: post))) (Err Raw, O) =
  fst (fst (use_step jwt_decode_memo cfg toks p0 u)).
Proof. intros. apply no_memory. assumption. Qed.
Print Assumptions C09_token_no_memory.

Theorem C09_token_past_irrelevant : forall cfg toks pre pre' u post post',
  is_call u = false ->
  nth (List.length pre) (fst (run_hist cfg toks p0 (pre ++ u :: post))) (Err Raw, O) =
  nth (List.length pre') (fst (run_hist cfg toks p0 (pre' ++ u :: post'))) (Err Raw, O).
Proof. intros. rewrite !no_memory by assumption. reflexivity. Qed.
Print Assumptions C09_token_past_irrelevant.

(* ---- an expired token never reaches the wire: in ANY history, a use whose token (its own, or the one of the store
   object it calls) has an expiry time that the clock has passed is refused with InvalidToken / AuthorisationFailed and
   ZERO requests - also when the same token string was accepted earlier, and also on a store object that was
   constructed while the token was still valid.  No hypotheses on configuration, faults or the past. ---- *)
Theorem C09_expired_never_sent : forall cfg toks pre u post t,
  used_token toks (snd (run_hist cfg toks p0 pre)) u = Some t -> expired_at t (u_now u) = true ->
  exists e, nth (List.length pre) (fst (run_hist cfg toks p0 (pre ++ u :: post))) (Ok O, O) = (Err e, O) /\
            (e = InvalidTok \/ e = Auth).
Proof. intros. eapply expired_never_sent; eassumption. Qed.
Print Assumptions C09_expired_never_sent.

(* the store objects alive after any history are exactly those constructed with a token that was acceptable then *)
Theorem C09_stores_are_accepted_opens : forall cfg toks us,
  wf_retry (c_retry cfg) = true -> Forall wf_use us ->
  p_stores (snd (run_hist cfg toks p0 us)) =
  map u_tok (filter (fun u => match u_entry u with
                              | EOpen => negb (open_bad (u_scheme u) (u_host u) (tok toks (u_tok u)) (u_now u))
                              | _ => false end) us).
Proof. exact stores_are_accepted_opens. Qed.
Print Assumptions C09_stores_are_accepted_opens.

(* ---- laws of the clock: what decode_jwt refuses it refuses at every later moment (no resurrection); the clock enters
   through the expiry comparison only; a token is good up to and including its expiry second (time.time() > exp, the
   operator re-translated from the source) ---- *)
Theorem C09_token_no_resurrection : forall t now now', now <= now' ->
  decode_jwt t now <> None -> decode_jwt t now' <> None.
Proof. exact decode_no_resurrection. Qed.
Print Assumptions C09_token_no_resurrection.

Theorem C09_clock_only_via_expiry : forall t now now',
  expired_at t now = expired_at t now' -> decode_jwt t now = decode_jwt t now'.
Proof. exact decode_time_only_exp. Qed.
Print Assumptions C09_clock_only_via_expiry.

Theorem C09_expiry_boundary : forall t v now, t_exp t = ExpInt v ->
  (expired_at t now = true <-> v < now) /\ cmpZ jwt_exp_cmp now v = (now >? v).
Proof. intros t v now H. split; [exact (expiry_boundary t v now H)|reflexivity]. Qed.
Print Assumptions C09_expiry_boundary.

(* satisfiable, and the histories that matter: token "bkt*" expiring at 1000 used at 900, 1000, 1001: accepted, accepted
   (boundary), refused without a request; the store object constructed at 900 refuses at 1001 as well; decode_jwt refuses
   at 1001 and - the clock having been set back - accepts at 999 again.  Last line: what a memo of successful decodes
   (functools.lru_cache) would do with [open at 900; open at 1001] - the expired token would be sent. *)
Example C09_token_history_examples :
  let cfg := default_config 2 2 in
  let segs := [8; 2; 118; 96]%nat in
  let tA := mkToken 3 true "ES256" 86 true (ExpInt 1000) true [[98; 107; 116]] in
  let u e now := mkUse e 0%nat now "https" "archive" [98; 107; 116; 47; 97] (PChunk segs) 224%nat [] in
  let ok := (Ok 224%nat, 1%nat) in
  let refused := (Err InvalidTok, 0%nat) in
  fst (run_hist cfg [tA] p0 [u EOpen 900; u EOpen 1000; u EOpen 1001; u (ECall 0%nat) 1001; u EDecode 1001; u EDecode 999])
    = [ok; ok; refused; refused; refused; (Ok 0%nat, 0%nat)] /\
  fst (run_hist_p (Some 32) cfg [tA] p0 [u EOpen 900; u EOpen 1001]) = [ok; ok] /\
  fst (run_hist_p None cfg [tA] p0 [u EOpen 900; u EOpen 1001]) = [ok; refused].
Proof. vm_compute. repeat split; reflexivity. Qed.
Print Assumptions C09_token_history_examples.

(* =====================================================================================
   THE OTHER REQUEST SITES OF THE PUBLIC API: put_chunk, is_complete, mark_complete.  They go through the same retry
   loop with the default `process` and are not streamed; S3 answers a PUT - and the GET of the empty `complete` marker -
   without a body, so no answer can lose part of its body and the loop is the counting spec.
   ===================================================================================== *)

(* ---- put_chunk: for every configuration and every fault sequence the chunk is stored (Ok) iff the read faults (reset /
   close / stall before the answer), the status faults and their sum fit the budgets, else S3ServerGlitch; permanent
   statuses classified at once; exactly the requests of the counting spec ---- *)
Theorem C09_put_chunk : forall cfg fs,
  wf_retry (c_retry cfg) = true -> Forall (fun o => wf_outcome o = true) fs ->
  put_chunk cfg O fs = spec_request cfg O fs.
Proof. exact put_chunk_is_spec. Qed.
Print Assumptions C09_put_chunk.

(* answers WITH a body of len bytes to a request that is not streamed (bucket listing; hypothetically a PUT or marker
   answer with content): the counting spec under the guard that no answer loses part of its body.  What is missing:
   a body fault after retries inside the adapter is retried with the Retry object from before the request
   (Example C09_listing_budget_not_carried is the refutation of the unguarded statement). *)
Theorem C09_unstreamed_request_partial : forall cfg len fs,
  wf_retry (c_retry cfg) = true -> Forall (fun o => wf_outcome o = true) fs ->
  forallb (no_body_fault len) fs = true ->
  request cfg PListing len [] fs = spec_request cfg len fs.
Proof. exact request_nb_is_spec. Qed.
Print Assumptions C09_unstreamed_request_partial.

(* ---- is_complete: True on a 200 answer, False on a 404 AND when the transient faults do not fit the budget (both
   exceptions derive from ChunkNotFound: table re-translated from the source), every other failure is raised; the
   requests of the counting spec; no bucket listing is ever requested (a 404 is not checked against the bucket) ---- *)
Theorem C09_is_complete : forall cfg fs,
  wf_retry (c_retry cfg) = true -> Forall (fun o => wf_outcome o = true) fs ->
  is_complete cfg O fs = (spec_is_complete cfg O fs, spec_requests (c_forcelist cfg) O (c_retry cfg) fs).
Proof. exact is_complete_is_spec. Qed.
Print Assumptions C09_is_complete.

Theorem C09_is_complete_classes :
  caught_by_is_complete NotFound = true /\ caught_by_is_complete Glitch = true /\
  caught_by_is_complete Auth = false /\ caught_by_is_complete Unavail = false /\
  caught_by_is_complete InvalidTok = false /\ caught_by_is_complete Raw = false.
Proof. exact is_complete_table. Qed.
Print Assumptions C09_is_complete_classes.

(* ---- mark_complete: the marker object is written only after the bucket request succeeded or was answered 409 (the
   bucket exists already); a failed bucket request is reported as it is and nothing else is sent; the marker request is
   the counting spec with the full budget on what is left of the fault sequence ---- *)
Theorem C09_mark_complete_bucket_failed : forall cfg fs e,
  fst (request cfg PListing O s3_create_bucket_ignored fs) = Err e ->
  mark_complete cfg fs = (Err e, snd (request cfg PListing O s3_create_bucket_ignored fs), O).
Proof. exact mark_complete_bucket_failed. Qed.
Print Assumptions C09_mark_complete_bucket_failed.

Theorem C09_mark_complete_bucket_ok : forall cfg fs d,
  wf_retry (c_retry cfg) = true -> Forall (fun o => wf_outcome o = true) fs ->
  fst (request cfg PListing O s3_create_bucket_ignored fs) = Ok d ->
  let nb := snd (request cfg PListing O s3_create_bucket_ignored fs) in
  mark_complete cfg fs =
  (spec_result (c_forcelist cfg) O (c_retry cfg) (skipn nb fs), nb,
   spec_requests (c_forcelist cfg) O (c_retry cfg) (skipn nb fs)).
Proof. exact mark_complete_bucket_ok. Qed.
Print Assumptions C09_mark_complete_bucket_ok.

(* the only status the bucket step overlooks is 409 (list re-translated from the source) *)
Theorem C09_mark_complete : forall cfg fs, mark_complete cfg fs = spec_mark_complete cfg fs.
Proof. exact mark_complete_is_spec. Qed.
Print Assumptions C09_mark_complete.

Theorem C09_create_bucket_409 : forall cfg rest, memZ 409 (c_forcelist cfg) = false ->
  request cfg PListing O s3_create_bucket_ignored (Status 409 :: rest) = (Ok O, 1%nat).
Proof. exact create_bucket_409. Qed.
Print Assumptions C09_create_bucket_409.

Example C09_other_sites_examples :
  let cfg := default_config 2 2 in
  put_chunk cfg O [Status 503; HFault HReset] = (Ok O, 3%nat) /\
  put_chunk cfg O [HFault HReset; HFault HClose; HFault HStall] = (Err Glitch, 3%nat) /\
  put_chunk cfg O [Status 403; Status 503] = (Err Auth, 1%nat) /\
  is_complete cfg O [Status 404] = (CFalse, 1%nat) /\
  is_complete cfg O [Status 503; Status 500] = (CTrue, 3%nat) /\
  is_complete cfg O [HFault HReset; HFault HReset; HFault HReset] = (CFalse, 3%nat) /\
  is_complete cfg O [Status 401] = (CRaise Auth, 1%nat) /\
  mark_complete cfg [Status 409; Status 503] = (Ok O, 1%nat, 2%nat) /\
  mark_complete cfg [Status 503; Status 403; Status 503] = (Err Auth, 2%nat, 0%nat) /\
  mark_complete cfg [Status 400] = (Err Unavail, 1%nat, 0%nat).
Proof. vm_compute. repeat split; reflexivity. Qed.
Print Assumptions C09_other_sites_examples.

(* ---- the `retries` argument of S3ChunkStore: one number stands for connect AND read retries, the status budget is 5,
   urllib3's total is 10, the forcelist is _DEFAULT_SERVER_GLITCHES; the default store is retries = 2 ---- *)
Theorem C09_retries_argument : forall n, 0 <= n ->
  let cfg := store_config (RInt n) in
  r_read (c_retry cfg) = Some n /\ r_connect (c_retry cfg) = Some n /\ r_status (c_retry cfg) = Some 5 /\
  r_total (c_retry cfg) = Some 10 /\ c_forcelist cfg = [500; 502; 503; 504] /\ wf_retry (c_retry cfg) = true.
Proof. exact store_config_int. Qed.
Print Assumptions C09_retries_argument.

(* what a user of S3ChunkStore(url) can rely on: the chunk arrives after ANY run of transient faults with at most 2
   read faults (cut / reset / stalled bodies, lost answers) and at most 5 statuses out of 500/502/503/504 *)
Theorem C09_default_store_budget : forall segs pre,
  forallb (transient [500; 502; 503; 504] (total segs)) pre = true ->
  count (read_fault (total segs)) pre <= 2 -> count (status_fault [500; 502; 503; 504]) pre <= 5 ->
  request default_store (PChunk segs) (total segs) [] pre = (Ok (total segs), S (List.length pre)).
Proof. exact default_store_budget. Qed.
Print Assumptions C09_default_store_budget.

(* =====================================================================================
   WHICH OBJECT IS ASKED FOR (Model/S3Url.v): make_url / _normalise_bucket_name / _bucket_url on paths.
   ===================================================================================== *)

(* ---- never an ALTERED array by way of another object: for every bucket name and every key (array path and chunk
   index, which are full of underscores) only the bucket part changes - underscores to dashes - and the key reaches the
   server exactly as it is ---- *)
Theorem C09_object_key_untouched : forall b k c t, b = c :: t -> nosep b = true ->
  normalise (s3_path_sep :: b ++ s3_path_sep :: k) = s3_path_sep :: dash b ++ s3_path_sep :: k.
Proof. exact key_untouched. Qed.
Print Assumptions C09_object_key_untouched.

(* ---- the bucket that is listed (and cached) after a 404 is the bucket of the chunk, in the form the server knows it:
   no underscores; normalising twice changes nothing; a bucket without underscores is left alone ---- *)
Theorem C09_bucket_of_request : forall p,
  bucket_of (normalise p) = dash (bucket_of p) /\
  forallb (fun c => negb (c =? s3_bucket_from)) (bucket_of (normalise p)) = true /\
  normalise (normalise p) = normalise p /\
  snd (split1 (lstrip_sep (normalise p))) = snd (split1 (lstrip_sep p)).
Proof.
  intro p. split; [apply bucket_of_normalise|]. split; [apply bucket_no_underscore|].
  split; [apply normalise_idem|apply rest_of_normalise].
Qed.
Print Assumptions C09_bucket_of_request.

Example C09_url_examples :
  let s := codes_of_string in
  chunk_path (s "1557528200_sdp_l0/correlator_data/00012_00000_00512"%string) =
    s "/1557528200-sdp-l0/correlator_data/00012_00000_00512.npy"%string /\
  bucket_of (chunk_path (s "1557528200_sdp_l0/correlator_data/00012_00000_00512"%string)) = s "1557528200-sdp-l0"%string /\
  normalise (s "//b_1"%string) = s "/b-1"%string /\ normalise (s ""%string) = s "/"%string /\
  s3_path_sep = 47 /\ s3_bucket_from = 95 /\ s3_bucket_to = 45 /\ s3_chunk_extension = ".npy"%string.
Proof. vm_compute. repeat split; reflexivity. Qed.
Print Assumptions C09_url_examples.

(* =====================================================================================
   WHICH retry budget is in force at each request site (Model/S3Budget.v): a function of the store-level `retries`
   argument `user` (None = not given | one number | (connect, read) | a Retry object) and of the per-call `retries=`
   keyword of the call site, both combined as S3ChunkStore.__init__ / request / _retry_object combine them; the keyword
   of every call site and the completing keywords are re-translated from the source at every run.
   ===================================================================================== *)

(* ---- every request site (chunk GET, RDB GET, bucket listing, chunk PUT, bucket PUT, marker PUT, marker GET) runs with
   the store-level budget, whatever form the `retries` argument has ---- *)
Theorem C09_request_sites_use_store_budget : forall user s, site_config user s = store_retries user.
Proof. exact site_is_store. Qed.
Print Assumptions C09_request_sites_use_store_budget.

(* ---- "RDB files fetched over HTTP obey the same rules": the RDB request has the budget of a chunk request of the same
   store configuration ---- *)
Theorem C09_rdb_same_budget_as_chunk : forall user, site_config user SRdb = site_config user SChunk.
Proof. exact rdb_same_budget_as_chunk. Qed.
Print Assumptions C09_rdb_same_budget_as_chunk.

(* ... it IS the chunk-site request loop run on the file ... *)
Theorem C09_rdb_is_chunk_site_request : forall user len fs,
  user_rdb_fetch user len fs =
  (let '(res, n) := request (site_config user SChunk) PObject len [] fs in
   (match res with Ok d => RdbOk d | Err Raw => RdbRaw | Err _ => RdbNotFound end, n)).
Proof. exact rdb_is_chunk_site_request. Qed.
Print Assumptions C09_rdb_is_chunk_site_request.

(* ... and met by the same faults on an object of the same length it ends like the chunk request, after the same number
   of requests (every failure as DataSourceNotFound) ---- *)
Theorem C09_rdb_like_chunk : forall user segs fs,
  wf_user user = true -> Forall (fun o => wf_outcome o = true) fs ->
  let '(cres, cn) := request (site_config user SChunk) (PChunk segs) (total segs) [] fs in
  user_rdb_fetch user (total segs) fs = (match cres with Ok d => RdbOk d | Err _ => RdbNotFound end, cn).
Proof. exact rdb_like_chunk. Qed.
Print Assumptions C09_rdb_like_chunk.

(* ---- for EVERY form of the `retries` argument, every fault sequence: the data set opened from an http RDB URL and the
   chunk request obey the counting spec with the STORE-LEVEL budget ---- *)
Theorem C09_rdb_same_rules_for_user : forall user len fs,
  wf_user user = true -> Forall (fun o => wf_outcome o = true) fs ->
  user_rdb_fetch user len fs =
  (match spec_result (c_forcelist (store_retries user)) len (c_retry (store_retries user)) fs with
   | Ok d => RdbOk d | Err _ => RdbNotFound end,
   spec_requests (c_forcelist (store_retries user)) len (c_retry (store_retries user)) fs).
Proof. exact user_rdb_is_spec. Qed.
Print Assumptions C09_rdb_same_rules_for_user.

Theorem C09_chunk_request_for_user : forall user segs fs,
  wf_user user = true -> Forall (fun o => wf_outcome o = true) fs ->
  request (site_config user SChunk) (PChunk segs) (total segs) [] fs = spec_request (store_retries user) (total segs) fs.
Proof. exact user_chunk_request_is_spec. Qed.
Print Assumptions C09_chunk_request_for_user.

(* get_chunk incl. the listing request of the 404 rule, put_chunk, is_complete, mark_complete: as proved above for a
   configuration `cfg`, with cfg = the store-level budget *)
Theorem C09_other_sites_for_user :
  (forall user segs len blen verified b fs fsb,
     user_get_chunk user segs len blen verified b fs fsb = get_chunk (store_retries user) segs len blen verified b fs fsb) /\
  (forall user fs, wf_user user = true -> Forall (fun o => wf_outcome o = true) fs ->
     user_put_chunk user O fs = spec_request (store_retries user) O fs) /\
  (forall user fs, wf_user user = true -> Forall (fun o => wf_outcome o = true) fs ->
     user_is_complete user O fs =
     (spec_is_complete (store_retries user) O fs,
      spec_requests (c_forcelist (store_retries user)) O (c_retry (store_retries user)) fs)) /\
  (forall user fs, user_mark_complete user fs = spec_mark_complete (store_retries user) fs).
Proof. exact other_sites_for_user. Qed.
Print Assumptions C09_other_sites_for_user.

(* ---- the store-level budget by the form of the argument: one number = connect and read, a pair = (connect, read), both
   completed with 5 status retries on 500/502/503/504 and urllib3's total of 10; no argument = 2; a Retry object as it is ---- *)
Theorem C09_store_budget_forms : forall c r,
  store_retries (Some (RPair c r)) = mkConfig (mkRetry (Some 10) (Some c) (Some r) (Some 5)) [500; 502; 503; 504] /\
  store_retries (Some (RInt c)) = mkConfig (mkRetry (Some 10) (Some c) (Some c) (Some 5)) [500; 502; 503; 504] /\
  store_retries None = mkConfig (mkRetry (Some 10) (Some 2) (Some 2) (Some 5)) [500; 502; 503; 504] /\
  (forall rt fl, store_retries (Some (RObj rt fl)) = mkConfig rt fl).
Proof. exact store_retries_numbers. Qed.
Print Assumptions C09_store_budget_forms.

(* ---- recorded so that the model stays honest (and the reason why no call site may pass `retries=`): S3ChunkStore.request
   does NOT complete a number / pair given per call with the store defaults - no status budget, an EMPTY forcelist - so an
   RDB request with the override (2, 5) on a default store gives up on a single 503 although five status retries are
   configured, and accepts three cut bodies although two read retries are configured; a Retry object is used as it is ---- *)
Example C09_per_call_override_drops_store_defaults :
  let cfg := request_retries (store_retries None) (Some (RPair 2 5)) in
  cfg = mkConfig (mkRetry (Some 10) (Some 2) (Some 5) None) [] /\
  rdb_fetch cfg 100 [Status 503] = (RdbNotFound, 1%nat) /\
  spec_request (store_retries None) 100 [Status 503] = (Ok 100%nat, 2%nat) /\
  rdb_fetch cfg 100 [Trunc 7; Trunc 7; Trunc 7] = (RdbOk 100%nat, 4%nat) /\
  spec_request (store_retries None) 100 [Trunc 7; Trunc 7; Trunc 7] = (Err Glitch, 3%nat).
Proof. exact override_drops_store_defaults. Qed.
Print Assumptions C09_per_call_override_drops_store_defaults.

Theorem C09_per_call_retry_object_kept : forall store r fl, request_retries store (Some (RObj r fl)) = mkConfig r fl.
Proof. exact override_retry_object_kept. Qed.
Print Assumptions C09_per_call_retry_object_kept.

(* =====================================================================================
   REQUESTS THAT ARE NOT STREAMED, AT FULL STRENGTH (Model/S3Unstreamed.v): the bucket listing of the 404 rule and any
   other answer WITH a body to a request without stream=True.  `spec_unstreamed` counts: faults before the header and
   forcelist statuses against what is left of the budget SINCE the last answer that lost part of its body; such an answer
   costs one read retry (and one of the total) and starts a new count.  C09_unstreamed_request_partial above is the
   special case without such an answer; the unguarded counting spec stays refuted (C09_listing_budget_not_carried).
   ===================================================================================== *)

(* ---- MAIN: for every configuration, every length and EVERY fault sequence the loop of a request that is not streamed
   returns exactly the result and sends exactly the requests of the counting automaton (no guard) ---- *)
Theorem C09_unstreamed_request : forall cfg len fs,
  wf_retry (c_retry cfg) = true -> Forall (fun o => wf_outcome o = true) fs ->
  request cfg PListing len [] fs = spec_unstreamed cfg len fs.
Proof. exact unstreamed_is_spec. Qed.
Print Assumptions C09_unstreamed_request.

(* ---- never partial data, for requests that are not streamed too: Ok carries the declared length ---- *)
Theorem C09_unstreamed_never_partial : forall cfg len fs d n,
  wf_retry (c_retry cfg) = true -> Forall (fun o => wf_outcome o = true) fs ->
  request cfg PListing len [] fs = (Ok d, n) -> d = len.
Proof. exact unstreamed_never_partial. Qed.
Print Assumptions C09_unstreamed_never_partial.

(* ---- when no answer loses part of its body the automaton IS the counting spec of the property ---- *)
Theorem C09_unstreamed_without_lost_body : forall cfg len fs,
  wf_retry (c_retry cfg) = true -> forallb (fun o => negb (body_lost len o)) fs = true ->
  spec_unstreamed cfg len fs = spec_request cfg len fs.
Proof. exact unstreamed_without_lost_body. Qed.
Print Assumptions C09_unstreamed_without_lost_body.

(* ---- what the quirk can NOT do: the answers that lost part of their body and were retried never outnumber the read
   budget, whatever the adapter retried in between (n - 1 = the answers that were retried) ---- *)
Theorem C09_unstreamed_lost_bodies_bounded : forall cfg len fs r n rd,
  wf_retry (c_retry cfg) = true -> Forall (fun o => wf_outcome o = true) fs ->
  request cfg PListing len [] fs = (r, n) -> r_read (c_retry cfg) = Some rd ->
  bodies_lost len (pred n) fs <= rd.
Proof. exact unstreamed_lost_bodies_bounded. Qed.
Print Assumptions C09_unstreamed_lost_bodies_bounded.

(* ---- the EVIDENCE of the 404 rule over histories (`shown` of C09_session is built from listing_shows_keys) said by
   counting alone: the bucket holds a key and the listing request comes back by the automaton ---- *)
Theorem C09_evidence_by_counting : forall cfg o,
  wf_retry (c_retry cfg) = true -> Forall (fun x => wf_outcome x = true) (o_fsb o) ->
  listing_shows_keys cfg o =
  match o_state o, fst (spec_unstreamed cfg (o_blen o) (listing_script (o_state o) (o_fsb o))) with
  | BFull, Ok _ => true
  | _, _ => false
  end.
Proof. exact evidence_by_counting. Qed.
Print Assumptions C09_evidence_by_counting.

(* satisfiable, and the quirk in numbers: read budget 1 - reset before the header then a cut body is still answered
   (the counting spec says glitch after 2); two cut bodies are not; a cut body uses the budget up for good: a reset
   before the header AFTER it is a glitch; status budget 1: 503, cut body, 503 is answered; the exact fit *)
Example C09_unstreamed_examples :
  let cfg := mkConfig (mkRetry (Some 10) (Some 1) (Some 1) (Some 1)) [500; 502; 503; 504] in
  spec_unstreamed cfg 100 [HFault HReset; Trunc 5] = (Ok 100%nat, 3%nat) /\
  spec_request cfg 100 [HFault HReset; Trunc 5] = (Err Glitch, 2%nat) /\
  spec_unstreamed cfg 100 [Trunc 5; Trunc 5] = (Err Glitch, 2%nat) /\
  spec_unstreamed cfg 100 [Trunc 5; HFault HReset] = (Err Glitch, 2%nat) /\
  spec_unstreamed cfg 100 [Status 503; Trunc 5; Status 503] = (Ok 100%nat, 4%nat) /\
  spec_unstreamed cfg 100 [Status 503; Status 503] = (Err Glitch, 2%nat) /\
  spec_unstreamed cfg 100 [Trunc 100; Status 403] = (Ok 100%nat, 1%nat) /\
  spec_unstreamed cfg 100 [Status 503; Status 404] = (Err NotFound, 2%nat) /\
  bodies_lost 100 3 [Status 503; Trunc 5; Status 503] = 1.
Proof. vm_compute. repeat split; reflexivity. Qed.
Print Assumptions C09_unstreamed_examples.

(* =====================================================================================
   SEVERAL STORE OBJECTS IN ONE HISTORY: the evidence of the 404 rule is per bucket AND per store object
   ===================================================================================== *)

(* ---- MAIN: any interleaved history of get_chunk calls over any number of store objects (each constructed with a
   configuration of its own): the calls on object k return the single-store spec on the sub-history of k, and the
   verified set of k is the evidence of that sub-history - a listing seen through another object neither counts nor
   is lost ---- *)
Theorem C09_stores : forall cf k ops,
  wf_retry (c_retry (cf k)) = true -> Forall (fun o => wf_op (s_op o)) ops ->
  map g_result (runs_of k ops (fst (stores cf fresh ops))) = spec_session (cf k) [] (on_store k ops) /\
  (forall id, memN id (snd (stores cf fresh ops) k) = shown (cf k) (on_store k ops) id).
Proof. exact stores_is_spec. Qed.
Print Assumptions C09_stores.

(* ---- no hypotheses: from ANY state of the caches, what object k returns and keeps is what it would return and keep
   if the calls on the other objects had never been made ---- *)
Theorem C09_store_objects_independent : forall cf k ops st,
  runs_of k ops (fst (stores cf st ops)) = fst (session (cf k) (st k) (on_store k ops)) /\
  snd (stores cf st ops) k = snd (session (cf k) (st k) (on_store k ops)).
Proof. exact stores_projection. Qed.
Print Assumptions C09_store_objects_independent.

Theorem C09_other_stores_untouched : forall cf st o j, j <> s_store o -> snd (stores cf st [o]) j = st j.
Proof. exact stores_other_untouched. Qed.
Print Assumptions C09_other_stores_untouched.

(* object 0 sees a 404 in bucket 0 while it holds a key (missing chunk, bucket verified); the bucket is emptied; object 1
   gets a 404 in it: StoreUnavailable, not a missing chunk; object 0 again: still a missing chunk (its evidence does
   not expire); a second BUCKET on object 0 is not vouched for *)
Example C09_stores_examples :
  let cfg := mkConfig (mkRetry (Some 10) (Some 1) (Some 1) (Some 1)) [500; 502; 503; 504] in
  let call k id st := mkSop k (mkOp id st [8; 2; 10; 20]%nat 60 [Status 404] []) in
  map g_result (fst (stores (fun _ => cfg) fresh [call 0 0 BFull; call 1 0 BEmpty; call 0 0 BEmpty; call 0 1 BEmpty]%nat))
  = [Err NotFound; Err Unavail; Err NotFound; Err Unavail] /\
  snd (stores (fun _ => cfg) fresh [call 0 0 BFull; call 1 0 BEmpty]%nat) 1%nat = [].
Proof. vm_compute. split; reflexivity. Qed.
Print Assumptions C09_stores_examples.
