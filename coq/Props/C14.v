(* C14 — Calibration solutions become corrections by the documented interpolation rules.  Statements only. *)
From Coq Require Import ZArith QArith Qround Qabs List Bool String.
From KV Require Import Base.Sx Base.Str Gen.Generated Model.Interp Model.CalInterp Proofs.InterpP Proofs.CalInterpP.
Import ListNotations.
Open Scope Q_scope.

Theorem C14_delay_missing_is_zero : forall freqs,
  Forall (fun v => fst v == 1 /\ snd v == 0) (delay_corr_seg freqs None).
Proof. exact delay_missing_is_zero. Qed.
Print Assumptions C14_delay_missing_is_zero.
