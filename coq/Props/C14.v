(* C14 — Calibration solutions become corrections by the documented interpolation rules.  Statements only.
   Model: Model/CalInterp.v (katdal/applycal.py, visdatav4._normalise_cal_products) in POLAR form over Q: a complex
   value is (magnitude, phase in TURNS), `None` is INVALID_GAIN (NaN).  `congr1 a b` = a and b differ by a whole number of
   turns, i.e. are the same phase.  cos/sin/abs/angle are not modelled: see C14_gain_reproduces_valid_cartesian for what
   that means for the Cartesian value.  cal_product_types / default_cal_products are regenerated from the source. *)
From Coq Require Import ZArith QArith Qround Qabs List Bool String Sorting.Sorted.
From KV Require Import Model.CalPlace Proofs.CalPlaceP.
From KV Require Import Base.Sx Base.Str Gen.Generated Model.Interp Model.CalInterp Model.CalSelect Model.CalDispatch
  Model.CalDeliver Proofs.InterpP Proofs.CalInterpP Proofs.CalStitchP Proofs.CalSelectP Proofs.CalDispatchP
  Proofs.CalDeliverP.
Import ListNotations.
Open Scope Q_scope.

(* numpy.unwrap: every phase is moved by whole turns only, the first not at all, and consecutive unwrapped phases are at
   most half a turn apart — for every phase sequence. *)
Theorem C14_unwrap_congruent : forall l,
  Forall2 congr1 (unwrap l) l /\ steps_le_half (unwrap l) /\ hd 0 (unwrap l) = hd 0 l.
Proof. exact unwrap_congruent. Qed.
Print Assumptions C14_unwrap_congruent.

(* complex_interp evaluated AT a node returns the node: same magnitude, same phase (mod whole turns), whatever
   left / right are. *)
Theorem C14_cinterp_exact_at_nodes : forall l r ns x xi m p,
  cn_inc ns -> In (xi, (m, p)) ns -> x == xi ->
  exists m' p', cinterp l r ns x = Some (m', p') /\ m' == m /\ congr1 p' p.
Proof. exact cinterp_exact_at_nodes. Qed.
Print Assumptions C14_cinterp_exact_at_nodes.

(* Between the first and last node it is np.interp of the magnitudes and of the unwrapped phases (so C12_interp_between
   gives the convex combination on each), and with left = right = None it is that everywhere. *)
Theorem C14_cinterp_is_mag_phase_interp : forall l r x0 v0 t x,
  x0 <= x -> x <= fst (last ((x0, v0) :: t) (x0, (0, 0))) ->
  cinterp l r ((x0, v0) :: t) x =
  Some (interp_d (mag_nodes ((x0, v0) :: t)) x, interp_d (phase_nodes ((x0, v0) :: t)) x).
Proof. exact cinterp_inner. Qed.
Print Assumptions C14_cinterp_is_mag_phase_interp.

(* GAINS.  rs = the solutions of one input that are not the INVALID_GAIN placeholder, by increasing dump. *)
(* Every valid solution is reproduced (inverted) at its own dump, for every history, target sequence and channel. *)
Theorem C14_gain_reproduces_valid : forall rs tgs e g c m p,
  StronglySorted lt (map fst rs) -> In (e, g) rs -> nth c g None = Some (m, p) -> ~ m == 0 ->
  exists m' p', gain_value rs tgs e c = Some (m', p') /\ m' == / m /\ congr1 p' (- p).
Proof. exact gain_reproduces_valid. Qed.
Print Assumptions C14_gain_reproduces_valid.

(* The same in Cartesian terms for ANY polar->Cartesian conversion that is periodic in whole turns. *)
Theorem C14_gain_reproduces_valid_cartesian : forall (C : Type) (from_polar : Q -> Q -> C),
  (forall m m' p p', m == m' -> congr1 p p' -> from_polar m p = from_polar m' p') ->
  forall rs tgs e g c m p,
  StronglySorted lt (map fst rs) -> In (e, g) rs -> nth c g None = Some (m, p) -> ~ m == 0 ->
  exists m' p', gain_value rs tgs e c = Some (m', p') /\ from_polar m' p' = from_polar (/ m) (- p).
Proof. exact gain_reproduces_valid_cartesian. Qed.
Print Assumptions C14_gain_reproduces_valid_cartesian.

(* Before the first valid same-target solution, that solution is held. *)
Theorem C14_gain_holds_first : forall rs tgs d c x0 m0 p0 t,
  StronglySorted lt (map fst rs) ->
  gain_nodes rs tgs (target_at tgs d) c = (x0, (m0, p0)) :: t -> qn d <= x0 -> ~ m0 == 0 ->
  exists m' p', gain_value rs tgs d c = Some (m', p') /\ m' == / m0 /\ congr1 p' (- p0).
Proof. exact gain_holds_first. Qed.
Print Assumptions C14_gain_holds_first.

(* After the last valid same-target solution, that solution is held. *)
Theorem C14_gain_holds_last : forall rs tgs d c h xn mn pn,
  StronglySorted lt (map fst rs) ->
  gain_nodes rs tgs (target_at tgs d) c = h ++ [(xn, (mn, pn))] -> xn <= qn d -> ~ mn == 0 ->
  exists m' p', gain_value rs tgs d c = Some (m', p') /\ m' == / mn /\ congr1 p' (- pn).
Proof. exact gain_holds_last. Qed.
Print Assumptions C14_gain_holds_last.

(* Invalid (NaN) solutions are ignored: removing one changes no correction; the placeholder is dropped up front. *)
Theorem C14_gain_ignores_invalid :
  (forall l1 l2 (s : rsol) tgs d c,
     nth c (snd s) None = None -> gain_value (l1 ++ s :: l2) tgs d c = gain_value (l1 ++ l2) tgs d c) /\
  (forall l1 l2 e, real_sols (l1 ++ (e, None) :: l2) = real_sols (l1 ++ l2)).
Proof. exact (conj gain_ignores_invalid placeholder_ignored). Qed.
Print Assumptions C14_gain_ignores_invalid.

(* Self-calibration products: the correction at dump d only depends on the solutions derived on the target of dump d. *)
Theorem C14_selfcal_target_isolation : forall rs rs' tgs d c,
  filter (on_target_of tgs d) rs = filter (on_target_of tgs d) rs' ->
  gain_value rs tgs d c = gain_value rs' tgs d c.
Proof. exact selfcal_target_isolation. Qed.
Print Assumptions C14_selfcal_target_isolation.

(* The array calc_gain_correction returns consists of these values. *)
Theorem C14_gain_corr_entry : forall N sols targets d c,
  real_sols sols <> [] -> (d < N)%nat -> (c < n_chans (real_sols sols))%nat ->
  nth c (nth d (gain_corr N sols targets) []) None =
  gain_value (real_sols sols) (match targets with Some t => t | None => repeat 0%Z N end) d c.
Proof. exact gain_corr_entry. Qed.
Print Assumptions C14_gain_corr_entry.

(* BANDPASS.  No extrapolation beyond the outermost valid channels; nothing valid -> everything INVALID. *)
Theorem C14_bandpass_no_extrapolation :
  (forall cf df bp x0 v0 t i,
     valid_nodes cf bp = (x0, v0) :: t -> (i < List.length df)%nat ->
     (nth i df 0 < x0 \/ fst (last ((x0, v0) :: t) (x0, (0, 0))) < nth i df 0) ->
     nth i (bandpass_corr_seg cf df bp) None = None) /\
  (forall cf df bp, valid_nodes cf bp = [] -> bandpass_corr_seg cf df bp = map (fun _ => None) df).
Proof. exact (conj bandpass_no_extrapolation bandpass_all_invalid). Qed.
Print Assumptions C14_bandpass_no_extrapolation.

(* A data channel on a valid cal channel gets the reciprocal of that channel's solution. *)
Theorem C14_bandpass_exact_at_valid : forall cf df bp i fc m p,
  StronglySorted Qlt cf -> In (fc, Some (m, p)) (combine cf bp) -> (i < List.length df)%nat ->
  nth i df 0 == fc -> ~ m == 0 ->
  exists m' p', nth i (bandpass_corr_seg cf df bp) None = Some (m', p') /\ m' == / m /\ congr1 p' (- p).
Proof. exact bandpass_exact_at_valid. Qed.
Print Assumptions C14_bandpass_exact_at_valid.

(* DELAYS: magnitude 1, phase -delay*frequency turns; a missing (NaN) delay is a zero delay. *)
Theorem C14_delay_formula : forall freqs d i, (i < List.length freqs)%nat ->
  nth i (delay_corr_seg freqs d) (0, 0) = (1, - ((match d with Some q => q | None => 0 end) * nth i freqs 0)).
Proof. exact delay_formula. Qed.
Print Assumptions C14_delay_formula.

Theorem C14_delay_missing_is_zero : forall freqs,
  Forall (fun v => fst v == 1 /\ snd v == 0) (delay_corr_seg freqs None).
Proof. exact delay_missing_is_zero. Qed.
Print Assumptions C14_delay_missing_is_zero.

(* FLUX: every non-placeholder solution is scaled by rsqrt(flux) of the first name / alias of the target at the solution
   time that has a positive flux, else left alone; events are kept; rsqrt is uninterpreted. *)
Theorem C14_flux_scaling : forall (rsqrt : Q -> Q) sols names_at tbl,
  calibrate_flux rsqrt sols names_at tbl = map (flux_one rsqrt names_at tbl) sols.
Proof. exact calibrate_flux_map. Qed.
Print Assumptions C14_flux_scaling.

(* a user-supplied flux overrides the measured one; gaincal_flux=None disables flux calibration *)
Theorem C14_flux_override :
  (forall measured ov n, lookup_flux (merge_flux measured (Some ov)) n =
     match lookup_flux ov n with Some f => Some f | None => lookup_flux measured n end) /\
  (forall (rsqrt : Q -> Q) measured sols names_at, calibrate_flux rsqrt sols names_at (merge_flux measured None) = sols).
Proof. split; [exact merge_flux_override | reflexivity]. Qed.
Print Assumptions C14_flux_override.

(* MULTI-PART PRODUCTS (full strength; was _partial until completeness was proved in Proofs/CalStitchP.v).
   The stitched product is the timestamp-sorted union of the parts: output timestamps strictly increase, each comes from
   a part, EVERY timestamp of EVERY part appears, and every output value is `assemble` of one piece per part in part
   (= channel) order where the piece of part i is that part's value at this timestamp when it has one and INVALID
   (None) exactly when it has none (piece_ok). *)
Theorem C14_stitch_sorted_union : forall ps out,
  Forall (fun p => StronglySorted Qlt (map fst p)) ps -> stitch ps = Some out ->
  StronglySorted Qlt (map fst out) /\
  (forall s, In s out -> exists p s', In p ps /\ In s' p /\ fst s' = fst s) /\
  (forall i s', In s' (nth i ps []) -> exists s, In s out /\ fst s == fst s') /\
  (forall s, In s out -> exists pcs, snd s = assemble pcs /\ List.length pcs = List.length ps /\
                                     forall i, piece_ok (nth i ps []) (fst s) (nth i pcs None)).
Proof. exact stitch_sorted_union. Qed.
Print Assumptions C14_stitch_sorted_union.

(* KeyError (no product at all) exactly when no part has any sample *)
Theorem C14_stitch_none_iff : forall ps, Forall (fun p => StronglySorted Qlt (map fst p)) ps ->
  (stitch ps = None <-> forall p, In p ps -> p = []).
Proof. exact stitch_none_iff. Qed.
Print Assumptions C14_stitch_none_iff.

(* several substreams (self-cal: one per target): a part that some substream lacks is absent altogether, a part all
   substreams have is their time-ordered concatenation (a single substream: the sensor itself), then stitched *)
Theorem C14_stitch_substreams :
  (forall parts, stitch_substreams parts = stitch (map part_of_substreams parts)) /\
  (forall subs, In None subs -> part_of_substreams subs = []) /\
  (forall ps, part_of_substreams (map Some ps) = match ps with [p] => p | _ => merge_substreams ps end).
Proof. exact stitch_substreams_spec. Qed.
Print Assumptions C14_stitch_substreams.

Theorem C14_stitch_parts_in_channel_order : forall pcs,
  assemble pcs = flat_map (fun pc => match pc with Some v => v | None => map (fun _ => None) (last_present pcs []) end) pcs
  /\ (forall ps, (forall p, In p ps -> p = []) -> stitch ps = None).
Proof. exact stitch_channel_order. Qed.
Print Assumptions C14_stitch_parts_in_channel_order.

(* PRODUCT NAMES (cal_product_types and default_cal_products come from the source). *)
Open Scope string_scope.
Theorem C14_normalise_tables :
  cal_product_types = ["K"; "B"; "G"; "GPHASE"; "GAMP_PHASE"] /\ default_cal_products = ["l1.K"; "l1.B"; "l1.G"; "l2.GPHASE"].
Proof. split; reflexivity. Qed.
Print Assumptions C14_normalise_tables.

Theorem C14_normalise_all : forall streams, (forall s, In s streams -> has_dot s = false) ->
  normalise (RStr "all") streams = Some (flat_map (fun s => map (join_dot s) cal_product_types) streams, true).
Proof. exact normalise_all. Qed.
Print Assumptions C14_normalise_all.

Theorem C14_normalise_default : forall streams, normalise (RStr "default") streams = Some (default_cal_products, true).
Proof. exact normalise_default. Qed.
Print Assumptions C14_normalise_default.

Theorem C14_normalise_stream : forall streams s, In s streams -> has_dot s = false ->
  normalise (RList [s]) streams = Some (map (join_dot s) cal_product_types, true).
Proof. exact normalise_stream. Qed.
Print Assumptions C14_normalise_stream.

Theorem C14_normalise_type : forall streams t, In t cal_product_types -> mem_string t streams = false ->
  normalise (RList [t]) streams = Some (map (fun s => join_dot s t) streams, true).
Proof. exact normalise_type. Qed.
Print Assumptions C14_normalise_type.

(* stream.type names are taken verbatim and are then required (skip_missing = false) *)
Theorem C14_normalise_dotted : forall streams l, forallb has_dot l = true -> normalise (RList l) streams = Some (l, false).
Proof. exact normalise_dotted. Qed.
Print Assumptions C14_normalise_dotted.

(* a requested name that is neither dotted, nor a stream, nor a product type is an error, wherever it stands *)
Theorem C14_normalise_unknown : forall streams l p r, In p (selection_to_list r streams) ->
  l = selection_to_list r streams ->
  has_dot p = false -> mem_string p streams = false -> mem_string p cal_product_types = false ->
  normalise r streams = None.
Proof. exact normalise_unknown. Qed.
Print Assumptions C14_normalise_unknown.

(* lists expand element by element, and the skip flag is exactly "group keyword or some name not fully qualified" *)
Theorem C14_normalise_compositional :
  (forall streams l1 l2, expand streams (l1 ++ l2) =
     match expand streams l1, expand streams l2 with Some a, Some b => Some (a ++ b)%list | _, _ => None end) /\
  (forall r streams l skip, normalise r streams = Some (l, skip) ->
     skip = (is_group r || existsb (fun p => negb (has_dot p)) (selection_to_list r streams))%bool).
Proof. exact (conj expand_app normalise_skip_flag). Qed.
Print Assumptions C14_normalise_compositional.

(* WHICH PRODUCTS GET APPLIED (Model/CalSelect.v: calc_correction's product loop, the existence of the correction
   sensors, stream discovery).  `avail p inp` = the correction sensor of product p for data input inp exists;
   product_ok = it exists for EVERY data input.  None = KeyError. *)
(* "skipping ... missing ones": with skip_missing_products the products applied are exactly the requested products
   that are in the data set, each once, in request order — for every request list and every availability. *)
Theorem C14_select_skips_missing : forall avail inputs ps,
  select avail inputs true ps = Some (dedup_first (filter (product_ok avail inputs) ps)).
Proof. exact select_skips_missing. Qed.
Print Assumptions C14_select_skips_missing.

(* the same as membership: every present requested product is applied wherever the missing ones stand, nothing else,
   nothing twice *)
Theorem C14_select_skip_complete_sound : forall avail inputs ps,
  exists out, select avail inputs true ps = Some out /\
    (forall p, In p out <-> In p ps /\ product_ok avail inputs p = true) /\ NoDup out.
Proof. exact select_skip_complete_sound. Qed.
Print Assumptions C14_select_skip_complete_sound.

(* a missing product does not affect the products before or after it; applied products of a prefix are a prefix *)
Theorem C14_select_missing_irrelevant :
  (forall avail inputs a m b, product_ok avail inputs m = false ->
     select avail inputs true (a ++ m :: b) = select avail inputs true (a ++ b)) /\
  (forall avail inputs a b out, select avail inputs true (a ++ b) = Some out ->
     exists rest, select avail inputs true a = Some (dedup_first (filter (product_ok avail inputs) a)) /\
                  out = (dedup_first (filter (product_ok avail inputs) a) ++ rest)%list).
Proof. exact (conj select_missing_irrelevant select_prefix). Qed.
Print Assumptions C14_select_missing_irrelevant.

(* "... or rejecting missing ones": without the flag it is all requested products or KeyError *)
Theorem C14_select_rejects_missing : forall avail inputs ps,
  select avail inputs false ps =
  if forallb (product_ok avail inputs) ps then Some (dedup_first ps) else None.
Proof. exact select_rejects_missing. Qed.
Print Assumptions C14_select_rejects_missing.

(* a product is applied as a whole or not at all: one data input without a solution makes it missing *)
Theorem C14_product_needs_every_input : forall avail inputs p inp,
  In inp inputs -> avail p inp = false -> product_ok avail inputs p = false.
Proof. exact product_needs_every_input. Qed.
Print Assumptions C14_product_needs_every_input.

(* the correction sensor of <stream>.<type> for an input exists iff the stream is registered, all its substreams
   carry that product and the input is one of the stream's antenna x polarisation inputs *)
Theorem C14_sensor_available : forall streams s t inp, In t cal_product_types ->
  sensor_available streams (join_dot s t) inp =
  match find_stream s streams with
  | Some c => has_type c t && mem_string inp (cs_inputs c)
  | None => false
  end.
Proof. exact sensor_available_spec. Qed.
Print Assumptions C14_sensor_available.

(* request -> applied products, end to end (None of normalise = ValueError): the loop of the code equals the
   documented rule, and what that gives for 'all', 'default' and fully qualified requests *)
Theorem C14_applycal_products : forall r streams inputs,
  applycal_products r streams inputs = spec_applycal r streams inputs.
Proof. exact applycal_is_spec. Qed.
Print Assumptions C14_applycal_products.

Theorem C14_applycal_all_default_dotted :
  (forall streams inputs, (forall s, In s (map cs_name streams) -> has_dot s = false) ->
     applycal_products (RStr "all") streams inputs =
     Applied (dedup_first (filter (product_ok (sensor_available streams) inputs)
                (flat_map (fun s => map (join_dot s) cal_product_types) (map cs_name streams))))) /\
  (forall streams inputs, applycal_products (RStr "default") streams inputs =
     Applied (dedup_first (filter (product_ok (sensor_available streams) inputs) default_cal_products))) /\
  (forall streams inputs l, forallb has_dot l = true ->
     applycal_products (RList l) streams inputs =
     if forallb (product_ok (sensor_available streams) inputs) l then Applied (dedup_first l) else KeyErr).
Proof. exact (conj applycal_all (conj applycal_default applycal_dotted)). Qed.
Print Assumptions C14_applycal_all_default_dotted.

(* STREAM DISCOVERY over the WHOLE LIST sdp_archived_streams (Model/CalSelect.v `discover`: the walk of
   _register_standard_cal_streams, whose guards / stream types / default / suffix are regenerated from the source on
   every run).  An archived stream is (name, stream_type, targets) with targets = None when the attribute is absent,
   Some l = the values of the dict.  Names are non-empty.
   For EVERY list - several sdp.cal streams, several imagers, imagers whose `targets` is empty or absent, streams of
   other types, in any order - the walk returns the documented choice `spec_discover` (written without anything from
   the source): L1 = the first sdp.cal stream ('cal' if none), L2 = the <imager>_<target>_selfcal substreams, one per
   target in order, of the first sdp.continuum_image stream THAT HAS self-cal targets. *)
Theorem C14_discover_is_spec :
  forall l, (forall a, In a l -> as_name a <> "") -> discover l = spec_discover l.
Proof. exact discover_is_spec. Qed.
Print Assumptions C14_discover_is_spec.

(* the same in "first ... wherever the others stand" form: an imager WITHOUT targets before the productive one is
   passed over (seeded C14-11 takes it and loses L2); no productive imager anywhere = no L2; L2 exists iff SOME
   archived imager has targets *)
Theorem C14_discover_streams :
  (forall pre a post, (forall b, In b (pre ++ a :: post) -> as_name b <> "") ->
     (forall b, In b pre -> as_type b <> "sdp.cal") -> as_type a = "sdp.cal" ->
     fst (discover (pre ++ a :: post)) = as_name a) /\
  (forall l, (forall b, In b l -> as_name b <> "") ->
     (forall b, In b l -> as_type b <> "sdp.cal") -> fst (discover l) = "cal") /\
  (forall pre a post x tl, (forall b, In b (pre ++ a :: post) -> as_name b <> "") ->
     (forall b, In b pre -> as_type b <> "sdp.continuum_image" \/ as_targets b = None \/ as_targets b = Some []) ->
     as_type a = "sdp.continuum_image" -> as_targets a = Some (x :: tl) ->
     snd (discover (pre ++ a :: post)) = map (fun t => as_name a ++ "_" ++ t ++ "_selfcal") (x :: tl)) /\
  (forall l, (forall b, In b l -> as_name b <> "") ->
     (forall b, In b l -> as_type b <> "sdp.continuum_image" \/ as_targets b = None \/ as_targets b = Some []) ->
     snd (discover l) = []) /\
  (forall l, (forall b, In b l -> as_name b <> "") ->
     (snd (discover l) <> [] <-> exists a, In a l /\ productive_imager a = true)).
Proof.
  exact (conj discover_l1_first (conj discover_l1_default (conj discover_l2_first (conj discover_l2_none
         discover_l2_exists_iff)))).
Qed.
Print Assumptions C14_discover_streams.

(* only the sdp.cal streams and the imagers with targets matter, and only their relative order: any other entry
   (imagers without targets, other stream types, unknown names) may be inserted into or dropped from
   sdp_archived_streams anywhere without changing L1 / L2 *)
Theorem C14_discover_irrelevant_streams :
  forall l, (forall b, In b l -> as_name b <> "") -> discover l = discover (filter relevant_stream l).
Proof. exact discover_irrelevant_streams. Qed.
Print Assumptions C14_discover_irrelevant_streams.

(* which aliases a data set offers ('l1' / 'l2' in cal_freqs): the registration = the documented rule over the
   documented L1 / L2 streams (attributes of the L1 stream / of the FIRST self-cal substream complete) *)
Theorem C14_registered_aliases :
  forall tel archived, (forall n, In n archived -> n <> "") ->
  map cs_name (registered tel archived) = spec_aliases tel archived.
Proof. exact registered_aliases. Qed.
Print Assumptions C14_registered_aliases.

(* hence: a product of the default list whose correction sensors exist for every data input IS applied by 'default'
   (l2.GPHASE as soon as SOME imager's self-cal substreams are registered and carry GPHASE for the data inputs) *)
Theorem C14_default_applies_available :
  forall streams inputs p, In p default_cal_products -> product_ok (sensor_available streams) inputs p = true ->
  exists l, applycal_products (RStr "default") streams inputs = Applied l /\ In p l.
Proof. exact default_applies_available. Qed.
Print Assumptions C14_default_applies_available.

(* the regenerated decisions of the walk are the documented ones *)
Theorem C14_discover_decisions :
  (disc_cal_type, disc_image_type, disc_l1_default, disc_selfcal_suffix) =
  ("sdp.cal", "sdp.continuum_image", "cal", "_selfcal") /\ disc_l1_guarded = true /\ disc_l2_guarded = true.
Proof. exact discover_decisions. Qed.
Print Assumptions C14_discover_decisions.

(* DISPATCH BY PRODUCT TYPE (Model/CalDispatch.v; `cal_dispatch` is regenerated from the if/elif chain of
   calc_correction_per_input on every run): K -> delays, B -> bandpass, G -> flux calibration then interpolation over
   all dumps, GPHASE / GAMP_PHASE -> interpolation per target without flux scaling; exactly the known types have a
   calculator (anything else: KeyError). *)
Theorem C14_dispatch_by_type :
  (kind_of_type "K" = Some KDelay /\ kind_of_type "B" = Some KBandpass /\
   kind_of_type "G" = Some (KGain true false) /\
   kind_of_type "GPHASE" = Some (KGain false true) /\ kind_of_type "GAMP_PHASE" = Some (KGain false true)) /\
  (forall t, kind_of_type t <> None <-> In t cal_product_types).
Proof. exact (conj dispatch_table dispatch_domain). Qed.
Print Assumptions C14_dispatch_by_type.

(* so: "scaled by the inverse square root of the flux when known" is what happens to G and only G, and "only uses
   solutions derived on the same target" (C14_selfcal_target_isolation) is what happens to the self-cal products *)
Theorem C14_dispatch_gain_like :
  (forall rsqrt N sols names_at tbl targets,
     gain_like_correction rsqrt "G" N sols names_at tbl targets =
     Some (gain_corr N (calibrate_flux rsqrt sols names_at tbl) None)) /\
  (forall rsqrt t N sols names_at tbl targets, t = "GPHASE" \/ t = "GAMP_PHASE" ->
     gain_like_correction rsqrt t N sols names_at tbl targets = Some (gain_corr N sols (Some targets))).
Proof. exact (conj dispatch_G dispatch_selfcal). Qed.
Print Assumptions C14_dispatch_gain_like.

(* the decisions the model takes over from the source as regenerated constants are the documented ones: bandpasses are
   INVALID beyond the outermost valid channel, gains hold the nearest solution, a gain solution is valid when finite
   AND on the target, 'all' / 'default' always skip missing products, and the product loop of calc_correction has the
   shape Model/CalSelect.v `select` follows *)
Theorem C14_source_decisions :
  (bandpass_left_invalid, bandpass_right_invalid) = (true, true) /\
  (gain_left_invalid, gain_right_invalid) = (false, false) /\
  gain_valid_needs_on_target = true /\ skip_group_names = ["all"; "default"] /\ product_loop_shape_checked = true.
Proof. exact interp_edges. Qed.
Print Assumptions C14_source_decisions.

(* MODEL = SPEC for the parts of the model that follow constants regenerated from the source: as long as the source
   takes the documented decisions, the model of bandpass / gain corrections and of the dispatch IS the documented rule
   (spec_* are written without any constant from the source).  All gain / bandpass theorems above are about the model. *)
Theorem C14_model_is_spec :
  (forall cf df segs, bandpass_corr cf df segs = spec_bandpass_corr cf df segs) /\
  (forall N sols targets, gain_corr N sols targets = spec_gain_corr N sols targets) /\
  (forall rsqrt t N sols names_at tbl targets,
     gain_like_correction rsqrt t N sols names_at tbl targets =
     spec_gain_like_correction rsqrt t N sols names_at tbl targets).
Proof. exact (conj bandpass_is_spec (conj gain_is_spec dispatch_is_spec)). Qed.
Print Assumptions C14_model_is_spec.

(* WHAT THE DATA CHANNELS RECEIVE (Model/CalDeliver.v: the channel-map choice of calc_correction — Model/Applycal.v
   choose_map, whose K/B clause is regenerated from the source — and g[i1] * conj(g[i2])).  `data` = the data channel
   frequencies, `cal` = the cal stream's channel frequencies: ANY two lists (same or different lengths, equal, offset,
   narrower, coarser).  i1, i2 = the two inputs of a correlation product. *)
(* "Delay solutions become exp(-2 pi i delay frequency)" AT THE DATA CHANNEL'S OWN FREQUENCY: magnitude 1, phase
   -(d1 - d2) * data[c] turns, a NaN delay = 0, for every cal channelisation. *)
Theorem C14_delivered_delay :
  (forall data cal delays i1 i2, (i1 < List.length delays)%nat -> (i2 < List.length delays)%nat ->
     delivered_delay data cal delays i1 i2 = spec_delivered_delay data delays i1 i2) /\
  (forall data cal delays i1 i2 c,
     (i1 < List.length delays)%nat -> (i2 < List.length delays)%nat -> (c < List.length data)%nat ->
     exists m p, nth c (delivered_delay data cal delays i1 i2) None = Some (m, p) /\ m == 1 /\
       p == - (((match nth i1 delays None with Some q => q | None => 0 end) -
                (match nth i2 delays None with Some q => q | None => 0 end)) * nth c data 0)).
Proof. exact (conj delivered_delay_is_spec delivered_delay_formula). Qed.
Print Assumptions C14_delivered_delay.

(* Bandpass: data channel c receives recip(interpolated solution of input 1 at data[c]) * conj(same for input 2), and
   INVALID when data[c] lies beyond the outermost valid cal channel of input 1 — for every cal channelisation. *)
Theorem C14_delivered_bandpass :
  (forall data cal bps i1 i2, (i1 < List.length bps)%nat -> (i2 < List.length bps)%nat ->
     delivered_bandpass data cal bps i1 i2 = spec_delivered_bandpass data cal bps i1 i2) /\
  (forall data cal bps i1 i2 c x0 v0 t,
     (i1 < List.length bps)%nat -> (i2 < List.length bps)%nat -> (c < List.length data)%nat ->
     valid_nodes cal (nth i1 bps []) = (x0, v0) :: t ->
     (nth c data 0 < x0 \/ fst (last ((x0, v0) :: t) (x0, (0, 0))) < nth c data 0) ->
     nth c (delivered_bandpass data cal bps i1 i2) None = None).
Proof. exact (conj delivered_bandpass_is_spec delivered_bandpass_invalid_outside). Qed.
Print Assumptions C14_delivered_bandpass.

(* the general fact behind both: a K or B correction vector that is already on the data channels is handed over
   channel by channel (never re-mapped through the cal stream's channelisation) *)
Theorem C14_delivered_direct : forall data cal gs i1 i2 c,
  gs <> [] -> (forall g, In g gs -> List.length g = List.length data) -> (c < List.length data)%nat ->
  delivered true data cal gs i1 i2 c = cmul (nth c (nth i1 gs []) None) (cconj (nth c (nth i2 gs []) None)).
Proof. exact delivered_direct. Qed.
Print Assumptions C14_delivered_direct.


(* ====================================================================================================================
   Fourth round: WHICH solutions reach the calculators and at which dump (Model/CalPlace.v), one-part split products,
   the flux table merge and <stream>.<type> parsing as decisions regenerated from the source. *)

(* PLACEMENT.  For every time-sorted solution history, every list of (kept) dump end times - i.e. also under a `dumps`
   preselection, where solutions older than the first KEPT dump exist - and every product type, the bookkeeping of
   sensor_to_categorical (extra prior dump, final prior event moved to dump 0, earlier ones sliced away, late ones
   dropped, INVALID placeholder for gain types, last event per dump) is the documented placement: a solution counts for
   the dump during which it was timestamped, one timestamped before the first dump counts for the first dump, the last
   solution of a dump wins, solutions after the last dump are dropped. *)
Theorem C14_place_is_documented :
  (forall A init ends P (samples : list (prod Q A)), StronglySorted Qle (map fst samples) ->
     place init ends P samples = spec_place init ends P samples) /\
  (forall t ends P samples, StronglySorted Qle (map fst samples) ->
     place_product t ends P samples = spec_place_product (mem_string t ["G"; "GPHASE"; "GAMP_PHASE"]%string) ends P samples) /\
  (forall t ends P samples targets, StronglySorted Qle (map fst samples) ->
     mem_string t ["G"; "GPHASE"; "GAMP_PHASE"]%string = true ->
     gain_from_samples t ends P samples targets = spec_gain_from_samples ends P samples targets).
Proof. exact (conj place_is_spec (conj place_product_is_spec gain_from_samples_is_spec)). Qed.
Print Assumptions C14_place_is_documented.

(* "holds the nearest valid solution before the first": of all solutions timestamped at or before the END of the first
   kept dump (long before it, just before it, inside it) only the LAST reaches the calculator (as the solution of dump 0);
   the earlier ones change nothing - whatever follows. *)
Theorem C14_place_first_dump_only_last : forall A init ends P (pre : list (prod Q A)) s post,
  ends <> [] -> Forall (fun x => dump_clamped ends P (fst x) = 0%Z) pre -> dump_clamped ends P (fst s) = 0%Z ->
  spec_place init ends P (pre ++ s :: post) = spec_place init ends P (s :: post).
Proof. exact spec_first_dump_only_last. Qed.
Print Assumptions C14_place_first_dump_only_last.

(* solutions timestamped after the last dump never reach a calculator *)
Theorem C14_place_late_dropped : forall A init ends P (l late : list (prod Q A)),
  forallb (fun s => negb (in_range ends P s)) late = true -> spec_place init ends P (l ++ late) = spec_place init ends P l.
Proof. exact spec_late_dropped. Qed.
Print Assumptions C14_place_late_dropped.

(* solutions in range and in distinct dumps: EVERY one is a node at its own dump (nothing is moved, merged or dropped),
   preceded by the INVALID placeholder exactly when nothing counts for the first dump *)
Theorem C14_place_own_dump : forall A (i : A) ends P (samples : list (prod Q A)),
  forallb (in_range ends P) samples = true ->
  StronglySorted (fun a b => (fst a < fst b)%Z) (map (fun s => (dump_clamped ends P (fst s), snd s)) samples) ->
  spec_place (Some i) ends P samples =
  Some (with_initial (Some i) (map (fun s => (dump_clamped ends P (fst s), snd s)) samples)).
Proof. exact spec_own_dump. Qed.
Print Assumptions C14_place_own_dump.

(* every placement is a well-formed solution history: starts at dump 0, dumps strictly increase and stay inside the data
   set - the hypothesis StronglySorted of the gain theorems above is therefore always met *)
Theorem C14_place_wellformed : forall A init ends P (samples : list (prod Q A)) l,
  StronglySorted Qle (map fst samples) -> spec_place init ends P samples = Some l ->
  StronglySorted (fun a b => (fst a < fst b)%Z) l /\ (exists v t, l = (0%Z, v) :: t) /\ Forall (fun p => (0 <= fst p < Z.max 1 (Z.of_nat (List.length ends)))%Z) l.
Proof. exact spec_place_wellformed. Qed.
Print Assumptions C14_place_wellformed.

(* dumps 0..3 end at 1,3,5,7 (period 2): solutions at -10 and -1 (before the first dump), 1/2 (inside it), 4 (dump 2),
   4.5 (dump 2 again), 9 (late): dump 0 gets the solution of 1/2, dump 2 the one of 4.5 *)
Example place_example :
  place_product "G" [1; 3; 5; 7] 2 [(-10, [Some (1, 0)]); (-1, [Some (2, 0)]); (1 # 2, [Some (3, 0)]);
                                    (4, [Some (4, 0)]); (9 # 2, [Some (5, 0)]); (9, [Some (6, 0)])]
  = Some [(0%nat, Some [Some (3, 0)]); (2%nat, Some [Some (5, 0)])]
  /\ (* preselection dumps=slice(2, 4): the kept dumps end at 5, 7; all four older solutions are "before the first" *)
  place_product "G" (preselect_dumps 2 4 [1; 3; 5; 7]) 2 [(-10, [Some (1, 0)]); (-1, [Some (2, 0)]); (1 # 2, [Some (3, 0)]);
                                                          (6, [Some (4, 0)])]
  = Some [(0%nat, Some [Some (3, 0)]); (1%nat, Some [Some (4, 0)])]
  /\ (* nothing at or before the end of the first dump: the gain types start from the placeholder, K / B pull the first
        solution back to dump 0 *)
  place_product "G" [1; 3; 5] 2 [(4, [Some (4, 0)])] = Some [(0%nat, None); (2%nat, Some [Some (4, 0)])]
  /\ place_product "B" [1; 3; 5] 2 [(4, [Some (4, 0)])] = Some [(0%nat, Some [Some (4, 0)])].
Proof. vm_compute. repeat split; reflexivity. Qed.

(* the regenerated sensor properties (visdatav4.SENSOR_PROPS) are the documented ones: exactly the gain types start
   from the INVALID_GAIN placeholder and keep repeated solutions *)
Theorem C14_cal_sensor_props :
  cal_initial_invalid = ["G"; "GPHASE"; "GAMP_PHASE"]%string /\ cal_allow_repeats = ["G"; "GPHASE"; "GAMP_PHASE"]%string.
Proof. exact cal_sensor_props_documented. Qed.
Print Assumptions C14_cal_sensor_props.

(* ONE-PART SPLIT PRODUCTS.  With the attribute product_<type>_parts = n the product is stitched from the sensors
   <type>0 .. <type>(n-1); for n = 1 it IS the sensor <type>0 (KeyError when that one is missing or empty) whatever the
   unsuffixed sensor <type> holds; without the attribute only the unsuffixed sensor is read; n = 0 -> KeyError. *)
Theorem C14_parts_attribute :
  (forall lookup, indirect_product lookup (Some 1%nat) =
     match lookup (Some 0%nat) with Some (s :: r) => Some (s :: r) | _ => None end) /\
  (forall lookup, indirect_product lookup None = lookup None) /\
  (forall lookup, indirect_product lookup (Some 0%nat) = None) /\
  (forall lookup n, indirect_product lookup (Some n) =
     stitch (map (fun i => match lookup (Some i) with Some p => p | None => [] end) (seq 0 n))) /\
  (forall p : part, stitch [p] = match p with [] => None | _ => Some p end).
Proof. exact (conj indirect_one_part (conj indirect_no_parts_attr (conj indirect_zero_parts (conj indirect_is_stitch stitch_single)))). Qed.
Print Assumptions C14_parts_attribute.
Example one_part_example :
  let lookup := fun k => match k with None => Some [(0, [Some (9, 0)])] | Some O => Some [(1, [Some (2, 0)])] | _ => None end in
  indirect_product lookup (Some 1%nat) = Some [(1, [Some (2, 0)])] /\ indirect_product lookup None = Some [(0, [Some (9, 0)])].
Proof. vm_compute. split; reflexivity. Qed.

(* <stream>.<type> NAMES, for every string: split at the LAST dot (the stream may contain dots, the type never does);
   no dot -> ValueError; the halves put together give the name back *)
Theorem C14_parse_cal_product :
  (forall s, parse_cal_product s = rsplit_dot s) /\
  (forall s t, has_dot t = false -> rsplit_dot (s ++ "." ++ t)%string = Some (s, t)) /\
  (forall s, rsplit_dot s = None <-> has_dot s = false) /\
  (forall s a b, rsplit_dot s = Some (a, b) -> s = (a ++ "." ++ b)%string /\ has_dot b = false).
Proof. exact (conj parse_is_rsplit (conj rsplit_last_dot (conj rsplit_none_iff rsplit_sound))). Qed.
Print Assumptions C14_parse_cal_product.
Example parse_example :
  parse_cal_product "a.b.G" = Some ("a.b", "G")%string /\ parse_cal_product "l1G" = None /\ parse_cal_product "l1." = Some ("l1", "")%string /\ parse_cal_product ".G" = Some ("", "G")%string.
Proof. vm_compute. repeat split; reflexivity. Qed.

(* the decisions read off add_applycal_sensors / indirect_cal_product / _parse_cal_product are the documented ones:
   gaincal_flux=None disables flux calibration, a user table UPDATES the pipeline's (C14_flux_override is about
   merge_flux, which is that update), parts are numbered from 0, names split at the last dot *)
Theorem C14_source_decisions_round4 : flux_none_disables = true /\ flux_override_wins = true /\ parts_first_index = 0%nat /\ parse_splits_at_last_dot = true /\ parts_shape_checked = true /\ request_parsing_shape_checked = true.
Proof. exact flux_merge_decisions. Qed.
Print Assumptions C14_source_decisions_round4.
