(* C07 — Chunk store round trip and chunk addressing.  Only statements here. *)
From Coq Require Import ZArith List Bool.
From KV Require Import Base.Sx Gen.Generated Model.Chunks Proofs.ChunksP Proofs.ChunksRtP Proofs.ChunksPruneP Proofs.ChunksPrunedReadP Proofs.ChunksTopP Proofs.ChunksGenP.
Import ListNotations.
Open Scope Z_scope.

(* ---- chunk names ---- *)

(* Chunk names are an injective function of (array name, chunk start indices): for ANY array names (they may contain
   the separator), any number of dimensions (incl. 0) and any integer starts (negative, wider than the pad width).
   The separators and the width are the ones translated from the source at this run. *)
Theorem C07_chunk_name_injective : forall (a1 a2 : str) (s1 s2 : list Z),
  chunk_name a1 s1 = chunk_name a2 s2 <-> (a1 = a2 /\ s1 = s2).
Proof. exact chunk_name_inj. Qed.
Print Assumptions C07_chunk_name_injective.

(* The documented form: every index is printed in decimal, zero-padded to at least NAME_INDEX_WIDTH characters,
   and reads back to the same integer. *)
Theorem C07_chunk_id_documented_form : forall z,
  cs_name_index_width <= Z.of_nat (List.length (fmt_index cs_name_index_width z))
  /\ parse_index (fmt_index cs_name_index_width z) = z.
Proof. exact chunk_id_documented. Qed.
Print Assumptions C07_chunk_id_documented_form.

(* the docstring example '00012_01024_00000', a 0-d chunk, a negative and an over-wide start *)
Example C07_chunk_name_examples :
  chunk_id_str [12; 1024; 0] = [48;48;48;49;50; 95; 48;49;48;50;52; 95; 48;48;48;48;48]
  /\ chunk_name [120] [] = [120; 47]
  /\ chunk_id_str [-3; 123456] = [45;48;48;48;51; 95; 49;50;51;52;53;54].
Proof. vm_compute. auto. Qed.

(* ---- tiling ---- *)

(* The blocks of any chunk specification (non-negative sizes) partition the index space: every in-range index lies
   in exactly one block. *)
Theorem C07_blocks_tile : forall chunks p,
  Forall (Forall (fun c => 0 <= c)) chunks -> In p (enumerate (chunks_shape chunks)) ->
  exists b, (In b (blocks chunks) /\ contains b p = true)
            /\ forall b', In b' (blocks chunks) /\ contains b' p = true -> b' = b.
Proof. exact blocks_tile_lemma. Qed.
Print Assumptions C07_blocks_tile.

(* ---- completion markers ---- *)

Theorem C07_mark_complete_idempotent : forall (A : Type) (st : store A) arr,
  mark_complete (mark_complete st arr) arr = mark_complete st arr
  /\ is_complete (mark_complete st arr) arr = true.
Proof. intros. split; [apply mark_complete_idem|apply is_complete_after_mark]. Qed.
Print Assumptions C07_mark_complete_idempotent.

(* marking one array complete changes neither any chunk nor the completion state of another array *)
Theorem C07_mark_complete_frame : forall (A : Type) (st : store A) a,
  (forall arr sl dt ho, get_chunk (mark_complete st a) arr sl dt ho = get_chunk st arr sl dt ho)
  /\ (forall b, a <> b -> is_complete (mark_complete st a) b = is_complete st b).
Proof. intros. split; intros; [apply mark_complete_keeps_chunks|apply is_complete_other; assumption]. Qed.
Print Assumptions C07_mark_complete_frame.

(* ---- S3 bucket-name normalisation (path component of the URL) ---- *)

Theorem C07_bucket_normalise_idempotent : forall p, normalise_path (normalise_path p) = normalise_path p.
Proof. exact normalise_idem. Qed.
Print Assumptions C07_bucket_normalise_idempotent.

(* the object key (everything after the bucket, incl. the '_' of the chunk id) is untouched; the bucket has its
   underscores replaced and contains none afterwards *)
Theorem C07_bucket_normalise_keeps_key : forall p,
  path_key (normalise_path p) = path_key p
  /\ path_bucket (normalise_path p) = replace_c cs_bucket_from cs_bucket_to (path_bucket p)
  /\ ~ In cs_bucket_from (path_bucket (normalise_path p)).
Proof. intro p. split; [apply normalise_keeps_key|apply normalise_bucket]. Qed.
Print Assumptions C07_bucket_normalise_keeps_key.

(* ---- round trip ---- *)

(* put_dask_array followed by get_dask_array is the identity, element for element, for EVERY element type, shape
   (incl. 0-d: chunks = []), chunking (positive chunk sizes, or the single (0,) chunk dask uses for an empty axis),
   offset (absent or one per dimension, any integers) and prior store content; every block put succeeds.
   The result is the C-order buffer of the whole array. *)
Theorem C07_round_trip : forall (A : Type) (d : A) (miss : option A) (st : store A) (arr : str) (dt : Z)
    (f : list Z -> A) (chunks : list (list Z)) (off : list Z),
  Forall (fun cs => Forall (fun c => 0 < c) cs \/ cs = [0]) chunks ->
  (off = [] \/ List.length off = List.length chunks) ->
  Forall (fun r => r = None) (snd (put_array st arr dt f chunks off)) /\
  get_array d miss (fst (put_array st arr dt f chunks off)) arr dt chunks off
    = Ok (map f (enumerate (chunks_shape chunks))).
Proof. exact round_trip_top. Qed.
Print Assumptions C07_round_trip.

(* non-vacuity: a 2-d array with uneven chunks and an offset beyond the pad width, and a 0-d array *)
Example C07_round_trip_examples :
  get_array (-1) None (fst (put_array [] [120] 7 (fun p => 10 * nth 0 p 0 + nth 1 p 0) [[2;1];[1;2]] [3;100000]))
            [120] 7 [[2;1];[1;2]] [3;100000] = Ok [0;1;2;10;11;12;20;21;22]
  /\ map fst (fst (put_array [] [120] 7 (fun _ : list Z => 5) [] [])) = [[120; 47; 46; 110; 112; 121]]
  /\ get_array (-1) None (fst (put_array [] [120] 7 (fun _ : list Z => 5) [] [])) [120] 7 [] [] = Ok [5].
Proof. vm_compute. auto. Qed.

(* outside the stated domain: a zero-size chunk in the middle of an axis shares its name with the next chunk *)
Example C07_round_trip_interior_zero_chunk_refuted :
  get_array (-1) None (fst (put_array [] [120] 7 (fun p => nth 0 p 0) [[2;0;3]] [])) [120] 7 [[2;0;3]] [] = Err EBadChunk.
Proof. vm_compute. reflexivity. Qed.

(* the names of the blocks of one array are pairwise distinct *)
Theorem C07_block_names_distinct : forall arr chunks,
  Forall (fun cs => Forall (fun c => 0 < c) cs \/ cs = [0]) chunks ->
  NoDup (map (fun b => chunk_name arr (map fst b)) (blocks chunks)).
Proof. exact block_names_distinct. Qed.
Print Assumptions C07_block_names_distinct.

(* ---- pruned read: get_dask_array(..., index = unit-step slices) ---- *)

(* FULL statement wanted: for every index, requested chunks = stored chunks overlapping the selection.
   It fails for EMPTY selections (see C07_pruned_read_empty_refuted, findings C07-F2/F3), so the guard
   "every normalised slice is non-empty" is spelled out: then the chunks requested (after pruning, dask culling and
   offset shifting) are exactly the blocks of the ORIGINAL chunking that overlap the selection, in order, with
   unchanged boundaries. *)
Theorem C07_pruned_requests_partial : forall chunks index,
  Forall (fun cs => Forall (fun c => 0 < c) cs) chunks ->
  Forall (fun se => fst se < snd se) (norm_index (chunks_shape chunks) index) ->
  let pr := prune chunks (norm_index (chunks_shape chunks) index) in
  map (get_slices (map snd pr)) (cart (map (fun x => needed_axis (fst (fst x)) (snd (fst x))) pr))
    = spec_requested chunks index.
Proof. exact pruned_requests. Qed.
Print Assumptions C07_pruned_requests_partial.

(* The pruned read as a whole, for every element type, store content, chunking (positive sizes) and index with
   non-empty normalised slices (None / negative bounds allowed, fewer slices than dimensions allowed):
   the requested chunks are exactly the overlapping blocks of the stored chunking, and the data returned are
   the selected elements array[index] in C order. *)
Theorem C07_pruned_read_partial : forall (A : Type) (d : A) (miss : option A) (st : store A) (arr : str) (dt : Z)
    (f : list Z -> A) (chunks : list (list Z)) (index : list (option Z * option Z)),
  Forall (fun cs => Forall (fun c => 0 < c) cs) chunks ->
  Forall (fun se => fst se < snd se) (norm_index (chunks_shape chunks) index) ->
  get_array_index d miss (fst (put_array st arr dt f chunks [])) arr dt chunks index
    = (spec_requested chunks index, Ok (map f (spec_index_points chunks index))).
Proof. exact pruned_read_top. Qed.
Print Assumptions C07_pruned_read_partial.

Example C07_pruned_read_example :
  let st := fst (put_array [] [120] 7 (fun p => 10 * nth 0 p 0 + nth 1 p 0) [[2;2;2];[1;1]] []) in
  get_array_index (-1) None st [120] 7 [[2;2;2];[1;1]] [(Some 1, Some (-1)); (Some 1, None)]
  = ([[(0,2);(1,2)]; [(2,4);(1,2)]; [(4,6);(1,2)]], Ok [11; 21; 31; 41]).
Proof. vm_compute. reflexivity. Qed.

(* one axis: pruning only drops whole chunks and shifts the slice by the dropped amount *)
Theorem C07_prune_axis_keeps_boundaries : forall cs s e,
  Forall (fun c => 0 < c) cs -> 0 <= s -> s < e -> e <= sumZ cs ->
  let '(cs', ix', off') := prune_axis cs (s, e) in
  ix' = (s - off', e - off') /\
  map (fun se => (fst se + off', snd se + off')) (needed_axis cs' ix')
    = filter (overlaps (s, e)) (intervals 0 cs).
Proof. exact prune_axis_requests. Qed.
Print Assumptions C07_prune_axis_keeps_boundaries.

(* the empty selection 2:2 on chunks (2,2,2): a zero-size chunk (2,2) that is no block of the chunking is requested,
   its name collides with the stored chunk (2,4) and the read fails with BadChunk instead of returning [] *)
Example C07_pruned_read_empty_refuted :
  let st := fst (put_array [] [120] 7 (fun p => nth 0 p 0) [[2;2;2]] []) in
  get_array_index (-1) None st [120] 7 [[2;2;2]] [(Some 2, Some 2)] = ([[(2, 2)]], Err EBadChunk)
  /\ spec_requested [[2;2;2]] [(Some 2, Some 2)] = []
  /\ spec_index_points [[2;2;2]] [(Some 2, Some 2)] = [].
Proof. vm_compute. auto. Qed.

(* ---- generate_chunks ---- *)
(* Domain (gc_domain): every shape entry > 0, max_chunk_size / itemsize = mn / md > 0, dims_to_split in range
   (any order, repetitions allowed), max_dim_elements values > 0.  All five clauses hold for ALL such inputs. *)

(* the per-axis chunk sizes are positive and sum to the shape: the scheme tiles the array exactly *)
Theorem C07_generate_chunks_tiles : forall shape mn md dims pow2 mde,
  gc_domain shape mn md dims mde = true ->
  tiles_ok shape (generate_chunks shape mn md dims pow2 mde) = true.
Proof. exact gc_tiles. Qed.
Print Assumptions C07_generate_chunks_tiles.

(* every chunk along a splittable dimension i with max_dim_elements[i] = m has at most m elements *)
Theorem C07_generate_chunks_dim_caps : forall shape mn md dims pow2 mde,
  gc_domain shape mn md dims mde = true ->
  caps_ok dims mde (generate_chunks shape mn md dims pow2 mde) = true.
Proof. exact gc_caps. Qed.
Print Assumptions C07_generate_chunks_dim_caps.

(* power_of_two: all but the last chunk on every axis are powers of two *)
Theorem C07_generate_chunks_pow2 : forall shape mn md dims pow2 mde,
  gc_domain shape mn md dims mde = true ->
  pow2_ok pow2 (generate_chunks shape mn md dims pow2 mde) = true.
Proof. exact gc_pow2. Qed.
Print Assumptions C07_generate_chunks_pow2.

(* size budget: the largest block has at most max_chunk_size / itemsize elements, OR every splittable dimension
   already has chunk size 1.  (The breach the source comment near chunkstore.py:135 warns about does not exist:
   ceil in `pieces` followed by floor in `trg_elements` never exceeds the target.) *)
Theorem C07_generate_chunks_budget : forall shape mn md dims pow2 mde,
  gc_domain shape mn md dims mde = true ->
  budget_ok mn md dims (generate_chunks shape mn md dims pow2 mde) = true.
Proof. exact gc_budget. Qed.
Print Assumptions C07_generate_chunks_budget.

(* dimensions not in dims_to_split are never split *)
Theorem C07_generate_chunks_unsplit : forall shape mn md dims pow2 mde,
  gc_domain shape mn md dims mde = true ->
  unsplit_ok dims (generate_chunks shape mn md dims pow2 mde) = true.
Proof. exact gc_unsplit. Qed.
Print Assumptions C07_generate_chunks_unsplit.

(* non-vacuity: the cases of katdal's own test suite (shape (10, 8192, 144), complex64, 3e6 and 1e6 bytes,
   and power_of_two with max_dim_elements) are in the domain and give the documented results *)
Example C07_generate_chunks_examples :
  gc_domain [10; 8192; 144] 3000000 8 [0%nat; 1%nat; 2%nat] [] = true
  /\ generate_chunks [10; 8192; 144] 3000000 8 [0%nat; 1%nat; 2%nat] false []
     = [repeat 1 10; repeat 2048 4; [144]]
  /\ generate_chunks [10; 8192; 144] 1000000 8 [0%nat; 1%nat; 2%nat] false []
     = [repeat 1 10; repeat 819 10 ++ [2]; [144]]
  /\ generate_chunks [10; 7] 13 2 [0%nat; 1%nat] true [(0%nat, 5)] = [repeat 1 10; [4; 3]].
Proof. vm_compute. auto. Qed.
