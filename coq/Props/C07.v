(* C07 — Chunk store round trip and chunk addressing.  Only statements here. *)
From Coq Require Import ZArith List Bool.
From KV Require Import Base.Sx Gen.Generated Model.Chunks Proofs.ChunksP.
Import ListNotations.
Open Scope Z_scope.

(* ---- chunk names ---- *)

(* Chunk names are an injective function of (array name, chunk start indices): for ANY array names (they may contain
   the separator), any number of dimensions (incl. 0) and any integer starts (negative, wider than the pad width).
   The separators and the width are the ones translated from the source at this run. *)
Theorem C07_chunk_name_injective : forall (a1 a2 : str) (s1 s2 : list Z),
  chunk_name a1 s1 = chunk_name a2 s2 <-> (a1 = a2 /\ s1 = s2).
Proof. exact chunk_name_inj. Qed.
Print Assumptions C07_chunk_name_injective.

(* The documented form: every index is printed in decimal, zero-padded to at least NAME_INDEX_WIDTH characters,
   and reads back to the same integer. *)
Theorem C07_chunk_id_documented_form : forall z,
  cs_name_index_width <= Z.of_nat (List.length (fmt_index cs_name_index_width z))
  /\ parse_index (fmt_index cs_name_index_width z) = z.
Proof. exact chunk_id_documented. Qed.
Print Assumptions C07_chunk_id_documented_form.

(* the docstring example '00012_01024_00000', a 0-d chunk, a negative and an over-wide start *)
Example C07_chunk_name_examples :
  chunk_id_str [12; 1024; 0] = [48;48;48;49;50; 95; 48;49;48;50;52; 95; 48;48;48;48;48]
  /\ chunk_name [120] [] = [120; 47]
  /\ chunk_id_str [-3; 123456] = [45;48;48;48;51; 95; 49;50;51;52;53;54].
Proof. vm_compute. auto. Qed.

(* ---- tiling ---- *)

(* The blocks of any chunk specification (non-negative sizes) partition the index space: every in-range index lies
   in exactly one block. *)
Theorem C07_blocks_tile : forall chunks p,
  Forall (Forall (fun c => 0 <= c)) chunks -> In p (enumerate (chunks_shape chunks)) ->
  exists b, (In b (blocks chunks) /\ contains b p = true)
            /\ forall b', In b' (blocks chunks) /\ contains b' p = true -> b' = b.
Proof. exact blocks_tile_lemma. Qed.
Print Assumptions C07_blocks_tile.

(* ---- completion markers ---- *)

Theorem C07_mark_complete_idempotent : forall (A : Type) (st : store A) arr,
  mark_complete (mark_complete st arr) arr = mark_complete st arr
  /\ is_complete (mark_complete st arr) arr = true.
Proof. intros. split; [apply mark_complete_idem|apply is_complete_after_mark]. Qed.
Print Assumptions C07_mark_complete_idempotent.

(* marking one array complete changes neither any chunk nor the completion state of another array *)
Theorem C07_mark_complete_frame : forall (A : Type) (st : store A) a,
  (forall arr sl dt ho, get_chunk (mark_complete st a) arr sl dt ho = get_chunk st arr sl dt ho)
  /\ (forall b, a <> b -> is_complete (mark_complete st a) b = is_complete st b).
Proof. intros. split; intros; [apply mark_complete_keeps_chunks|apply is_complete_other; assumption]. Qed.
Print Assumptions C07_mark_complete_frame.

(* ---- S3 bucket-name normalisation (path component of the URL) ---- *)

Theorem C07_bucket_normalise_idempotent : forall p, normalise_path (normalise_path p) = normalise_path p.
Proof. exact normalise_idem. Qed.
Print Assumptions C07_bucket_normalise_idempotent.

(* the object key (everything after the bucket, incl. the '_' of the chunk id) is untouched; the bucket has its
   underscores replaced and contains none afterwards *)
Theorem C07_bucket_normalise_keeps_key : forall p,
  path_key (normalise_path p) = path_key p
  /\ path_bucket (normalise_path p) = replace_c cs_bucket_from cs_bucket_to (path_bucket p)
  /\ ~ In cs_bucket_from (path_bucket (normalise_path p)).
Proof. intro p. split; [apply normalise_keeps_key|apply normalise_bucket]. Qed.
Print Assumptions C07_bucket_normalise_keeps_key.
