(* C07 — Chunk store round trip and chunk addressing.  Only statements here. *)
From Coq Require Import ZArith List Bool.
From KV Require Import Base.Sx Gen.Generated Model.Chunks Proofs.ChunksP.
Import ListNotations.
Open Scope Z_scope.

Theorem C07_mark_complete_idempotent : forall (A : Type) (st : store A) arr,
  mark_complete (mark_complete st arr) arr = mark_complete st arr.
Proof. exact (@mark_complete_idem). Qed.
Print Assumptions C07_mark_complete_idempotent.
