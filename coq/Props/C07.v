(* C07 — Chunk store round trip and chunk addressing.  Only statements here. *)
From Coq Require Import ZArith List Bool.
From KV Require Import Base.Sx Gen.Generated Model.Chunks Model.ChunksMulti Proofs.ChunksP Proofs.ChunksRtP Proofs.ChunksPruneP Proofs.ChunksPrunedReadP Proofs.ChunksTopP Proofs.ChunksGenP Proofs.ChunksMultiP Model.ChunksGenPy Proofs.ChunksGenPyP Proofs.ChunksLinkP Proofs.ChunksHistP Model.ChunksUrl Proofs.ChunksUrlP.
Import ListNotations.
Open Scope Z_scope.

(* ---- chunk names ---- *)

(* Chunk names are an injective function of (array name, chunk start indices): for ANY array names (they may contain
   the separator), any number of dimensions (incl. 0) and any integer starts (negative, wider than the pad width).
   The separators and the width are the ones translated from the source at this run. *)
Theorem C07_chunk_name_injective : forall (a1 a2 : str) (s1 s2 : list Z),
  chunk_name a1 s1 = chunk_name a2 s2 <-> (a1 = a2 /\ s1 = s2).
Proof. exact chunk_name_inj. Qed.
Print Assumptions C07_chunk_name_injective.

(* The documented form: every index is printed in decimal, zero-padded to at least NAME_INDEX_WIDTH characters,
   and reads back to the same integer. *)
Theorem C07_chunk_id_documented_form : forall z,
  cs_name_index_width <= Z.of_nat (List.length (fmt_index cs_name_index_width z))
  /\ parse_index (fmt_index cs_name_index_width z) = z.
Proof. exact chunk_id_documented. Qed.
Print Assumptions C07_chunk_id_documented_form.

(* the docstring example '00012_01024_00000', a 0-d chunk, a negative and an over-wide start *)
Example C07_chunk_name_examples :
  chunk_id_str [12; 1024; 0] = [48;48;48;49;50; 95; 48;49;48;50;52; 95; 48;48;48;48;48]
  /\ chunk_name [120] [] = [120; 47]
  /\ chunk_id_str [-3; 123456] = [45;48;48;48;51; 95; 49;50;51;52;53;54].
Proof. vm_compute. auto. Qed.

(* ---- tiling ---- *)

(* The blocks of any chunk specification (non-negative sizes) partition the index space: every in-range index lies
   in exactly one block. *)
Theorem C07_blocks_tile : forall chunks p,
  Forall (Forall (fun c => 0 <= c)) chunks -> In p (enumerate (chunks_shape chunks)) ->
  exists b, (In b (blocks chunks) /\ contains b p = true)
            /\ forall b', In b' (blocks chunks) /\ contains b' p = true -> b' = b.
Proof. exact blocks_tile_lemma. Qed.
Print Assumptions C07_blocks_tile.

(* ---- completion markers ---- *)

Theorem C07_mark_complete_idempotent : forall (A : Type) (st : store A) arr,
  mark_complete (mark_complete st arr) arr = mark_complete st arr
  /\ is_complete (mark_complete st arr) arr = true.
Proof. intros. split; [apply mark_complete_idem|apply is_complete_after_mark]. Qed.
Print Assumptions C07_mark_complete_idempotent.

(* marking one array complete changes neither any chunk nor the completion state of another array *)
Theorem C07_mark_complete_frame : forall (A : Type) (st : store A) a,
  (forall arr sl dt ho, get_chunk (mark_complete st a) arr sl dt ho = get_chunk st arr sl dt ho)
  /\ (forall b, a <> b -> is_complete (mark_complete st a) b = is_complete st b).
Proof. intros. split; intros; [apply mark_complete_keeps_chunks|apply is_complete_other; assumption]. Qed.
Print Assumptions C07_mark_complete_frame.

(* ---- S3 bucket-name normalisation (path component of the URL) ---- *)

Theorem C07_bucket_normalise_idempotent : forall p, normalise_path (normalise_path p) = normalise_path p.
Proof. exact normalise_idem. Qed.
Print Assumptions C07_bucket_normalise_idempotent.

(* the object key (everything after the bucket, incl. the '_' of the chunk id) is untouched; the bucket has its
   underscores replaced and contains none afterwards *)
Theorem C07_bucket_normalise_keeps_key : forall p,
  path_key (normalise_path p) = path_key p
  /\ path_bucket (normalise_path p) = replace_c cs_bucket_from cs_bucket_to (path_bucket p)
  /\ ~ In cs_bucket_from (path_bucket (normalise_path p)).
Proof. intro p. split; [apply normalise_keeps_key|apply normalise_bucket]. Qed.
Print Assumptions C07_bucket_normalise_keeps_key.

(* ---- round trip ---- *)

(* put_dask_array followed by get_dask_array is the identity, element for element, for EVERY element type, shape
   (incl. 0-d: chunks = []), chunking (positive chunk sizes, or the single (0,) chunk dask uses for an empty axis),
   offset (absent or one per dimension, any integers) and prior store content; every block put succeeds.
   The result is the C-order buffer of the whole array. *)
Theorem C07_round_trip : forall (A : Type) (d : A) (miss : option A) (st : store A) (arr : str) (dt : Z)
    (f : list Z -> A) (chunks : list (list Z)) (off : list Z),
  Forall (fun cs => Forall (fun c => 0 < c) cs \/ cs = [0]) chunks ->
  (off = [] \/ List.length off = List.length chunks) ->
  Forall (fun r => r = None) (snd (put_array st arr dt f chunks off)) /\
  get_array d miss (fst (put_array st arr dt f chunks off)) arr dt chunks off
    = Ok (map f (enumerate (chunks_shape chunks))).
Proof. exact round_trip_top. Qed.
Print Assumptions C07_round_trip.

(* non-vacuity: a 2-d array with uneven chunks and an offset beyond the pad width, and a 0-d array *)
Example C07_round_trip_examples :
  get_array (-1) None (fst (put_array [] [120] 7 (fun p => 10 * nth 0 p 0 + nth 1 p 0) [[2;1];[1;2]] [3;100000]))
            [120] 7 [[2;1];[1;2]] [3;100000] = Ok [0;1;2;10;11;12;20;21;22]
  /\ map fst (fst (put_array [] [120] 7 (fun _ : list Z => 5) [] [])) = [[120; 47; 46; 110; 112; 121]]
  /\ get_array (-1) None (fst (put_array [] [120] 7 (fun _ : list Z => 5) [] [])) [120] 7 [] [] = Ok [5].
Proof. vm_compute. auto. Qed.

(* outside the stated domain: a zero-size chunk in the middle of an axis shares its name with the next chunk *)
Example C07_round_trip_interior_zero_chunk_refuted :
  get_array (-1) None (fst (put_array [] [120] 7 (fun p => nth 0 p 0) [[2;0;3]] [])) [120] 7 [[2;0;3]] [] = Err EBadChunk.
Proof. vm_compute. reflexivity. Qed.

(* the names of the blocks of one array are pairwise distinct *)
Theorem C07_block_names_distinct : forall arr chunks,
  Forall (fun cs => Forall (fun c => 0 < c) cs \/ cs = [0]) chunks ->
  NoDup (map (fun b => chunk_name arr (map fst b)) (blocks chunks)).
Proof. exact block_names_distinct. Qed.
Print Assumptions C07_block_names_distinct.

(* ---- memory layout of the chunk handed to put_chunk, and the .npy object ---- *)

(* Whatever the memory layout of the ndarray handed to put_chunk (C-contiguous, Fortran-contiguous such as a
   transposed view, or arbitrarily strided), the object written has fortran_order = False and lists the LOGICAL
   elements in C order (npy_header_and_body brings the chunk to C order: re-translated from the source at every run),
   and decoding it (np.load / read_array) gives every element back. *)
Theorem C07_npy_layout_round_trip : forall (A : Type) (d : A) (elem : list Z -> A) (shape : list Z) (lay : layout),
  npy_encode elem shape lay = NpyObj false shape (map elem (enumerate shape))
  /\ forall q, In q (enumerate shape) -> npy_decode d (npy_encode elem shape lay) q = elem q.
Proof. exact npy_layout_top. Qed.
Print Assumptions C07_npy_layout_round_trip.

(* the reader honours the fortran_order field of objects written by other .npy writers: header and body order agree *)
Theorem C07_npy_foreign_order : forall (A : Type) (d : A) (elem : list Z -> A) (shape : list Z) (fortran : bool) q,
  In q (enumerate shape) -> npy_decode d (npy_foreign elem shape fortran) q = elem q.
Proof. exact npy_foreign_top. Qed.
Print Assumptions C07_npy_foreign_order.

(* why the order matters: a header saying Fortran order over a C-ordered body (what "pass Fortran-contiguous chunks on
   as they are" produces, the body being chunk.reshape(-1)) scrambles a 2 x 3 chunk, shape and dtype staying right *)
Example C07_npy_order_mismatch_refuted :
  map (npy_decode (-1) (NpyObj true [2; 3] (map (ravel [2; 3]) (enumerate [2; 3])))) (enumerate [2; 3])
    = [0; 2; 4; 1; 3; 5]
  /\ map (ravel [2; 3]) (enumerate [2; 3]) = [0; 1; 2; 3; 4; 5].
Proof. vm_compute. auto. Qed.

(* ---- arrays written in several parts / to several stores by ONE dask compute call ---- *)

(* reading needs nothing but the blocks: ANY store holding every block of a chunking under its chunk name (however
   and in however many parts it was written) returns the array *)
Theorem C07_read_of_stored_blocks : forall (A : Type) (d : A) (miss : option A) (st : store A) (arr : str) (dt : Z)
    (f : list Z -> A) (chunks : list (list Z)) (off : list Z),
  Forall (fun cs => Forall (fun c => 0 < c) cs \/ cs = [0]) chunks ->
  (off = [] \/ List.length off = List.length chunks) ->
  (forall b, In b (blocks chunks) ->
     lookup (block_key arr off b) st = Some (OChunk dt (slice_shape b) (extract f b))) ->
  get_array d miss st arr dt chunks off = Ok (map f (enumerate (chunks_shape chunks))).
Proof. exact read_of_stored_top. Qed.
Print Assumptions C07_read_of_stored_blocks.

(* frame: put_dask_array changes no object other than those named after its own blocks *)
Theorem C07_put_array_frame : forall (A : Type) (st : store A) (arr : str) (dt : Z) (f : list Z -> A)
    (chunks : list (list Z)) (off : list Z) k,
  Forall (fun cs => Forall (fun c => 0 < c) cs \/ cs = [0]) chunks ->
  (off = [] \/ List.length off = List.length chunks) ->
  ~ In k (map (block_key arr off) (blocks chunks)) ->
  lookup k (fst (put_array st arr dt f chunks off)) = lookup k st.
Proof. exact put_frame_top. Qed.
Print Assumptions C07_put_array_frame.

(* Any number of put_dask_array graphs -- parts of one array at different offsets, the same array into several
   stores, several arrays -- evaluated by ONE dask compute call (dask merges the graphs by task name; which request
   attributes the name contains is re-translated from the source at every run), provided the requests differ in
   (store, array name, offset) and write disjoint sets of objects: afterwards every part reads back identical, also
   when all the reads are again evaluated by one compute call.  Any element type, stores, prior contents. *)
Theorem C07_multi_part_round_trip : forall (A : Type) (d : A) (miss : option A) (w : world A) (reqs : list (preq A)),
  Forall (fun r => Forall (fun cs => Forall (fun c => 0 < c) cs \/ cs = [0]) (q_chunks r)
                   /\ (q_off r = [] \/ List.length (q_off r) = List.length (q_chunks r))) reqs ->
  pairwise (fun a b => (q_store a, q_arr a, q_off a) <> (q_store b, q_arr b, q_off b)) reqs ->
  pairwise (fun a b => disjoint (targets a) (targets b)) reqs ->
  compute_gets d miss (compute_puts w reqs) (map greq_of reqs)
    = map (fun r => Ok (map (q_f r) (enumerate (chunks_shape (q_chunks r))))) reqs.
Proof. exact multi_part_top. Qed.
Print Assumptions C07_multi_part_round_trip.

(* several get_dask_array graphs (any stores, names, chunkings, offsets, index slices) evaluated by one compute call
   give what each of them gives on its own: graphs sharing a task name compute the same thing *)
Theorem C07_compute_gets_independent : forall (A : Type) (d : A) (miss : option A) (w : world A) (reqs : list greq),
  compute_gets d miss w reqs = map (get_one d miss w) reqs.
Proof. exact compute_gets_top. Qed.
Print Assumptions C07_compute_gets_independent.

(* non-vacuity: two halves with identical chunk layout put at offsets 0 and 4 into store 0 and the first half mirrored
   into store 1 under the same name and offset; the whole array is read with the full chunking, the mirror on its own *)
Example C07_multi_part_example :
  let mk s src base off : preq Z :=
    {| q_store := s; q_arr := [120]; q_dt := 7; q_src := src; q_f := (fun p => base + nth 0 p 0);
       q_chunks := [[2; 2]]; q_off := [off] |} in
  let w := compute_puts [[]; []] [mk 0%nat 1 0 0; mk 0%nat 2 4 4; mk 1%nat 1 0 0] in
  compute_gets (-1) None w
    [ {| g_store := 0%nat; g_arr := [120]; g_dt := 7; g_chunks := [[2; 2; 2; 2]]; g_off := []; g_index := [] |};
      {| g_store := 1%nat; g_arr := [120]; g_dt := 7; g_chunks := [[2; 2]]; g_off := [0]; g_index := [] |};
      {| g_store := 0%nat; g_arr := [120]; g_dt := 7; g_chunks := [[2; 2; 2; 2]]; g_off := [];
         g_index := [(Some 3, Some 6)] |} ]
  = [Ok [0; 1; 2; 3; 4; 5; 6; 7]; Ok [0; 1; 2; 3]; Ok [3; 4; 5]].
Proof. vm_compute. reflexivity. Qed.

(* ---- pruned read: get_dask_array(..., index = unit-step slices) ---- *)

(* FULL statement wanted: for every index, requested chunks = stored chunks overlapping the selection.
   The equality of the request SET fails for EMPTY selections (see C07_pruned_requests_empty_refuted, finding C07-F3;
   data and boundaries hold for every selection: C07_pruned_read_data), so the guard
   "every normalised slice is non-empty" is spelled out: then the chunks requested (after pruning, dask culling and
   offset shifting) are exactly the blocks of the ORIGINAL chunking that overlap the selection, in order, with
   unchanged boundaries. *)
Theorem C07_pruned_requests_partial : forall chunks index,
  Forall (fun cs => Forall (fun c => 0 < c) cs) chunks ->
  Forall (fun se => fst se < snd se) (norm_index (chunks_shape chunks) index) ->
  let pr := prune chunks (norm_index (chunks_shape chunks) index) in
  map (get_slices (map snd pr)) (cart (map (fun x => needed_axis (fst (fst x)) (snd (fst x))) pr))
    = spec_requested chunks index.
Proof. exact pruned_requests. Qed.
Print Assumptions C07_pruned_requests_partial.

(* The pruned read as a whole, for every element type, store content, chunking (positive sizes) and index with
   non-empty normalised slices (None / negative bounds allowed, fewer slices than dimensions allowed):
   the requested chunks are exactly the overlapping blocks of the stored chunking, and the data returned are
   the selected elements array[index] in C order. *)
Theorem C07_pruned_read_partial : forall (A : Type) (d : A) (miss : option A) (st : store A) (arr : str) (dt : Z)
    (f : list Z -> A) (chunks : list (list Z)) (index : list (option Z * option Z)),
  Forall (fun cs => Forall (fun c => 0 < c) cs) chunks ->
  Forall (fun se => fst se < snd se) (norm_index (chunks_shape chunks) index) ->
  get_array_index d miss (fst (put_array st arr dt f chunks [])) arr dt chunks index
    = (spec_requested chunks index, Ok (map f (spec_index_points chunks index))).
Proof. exact pruned_read_top. Qed.
Print Assumptions C07_pruned_read_partial.

Example C07_pruned_read_example :
  let st := fst (put_array [] [120] 7 (fun p => 10 * nth 0 p 0 + nth 1 p 0) [[2;2;2];[1;1]] []) in
  get_array_index (-1) None st [120] 7 [[2;2;2];[1;1]] [(Some 1, Some (-1)); (Some 1, None)]
  = ([[(0,2);(1,2)]; [(2,4);(1,2)]; [(4,6);(1,2)]], Ok [11; 21; 31; 41]).
Proof. vm_compute. reflexivity. Qed.

(* one axis: pruning only drops whole chunks and shifts the slice by the dropped amount *)
Theorem C07_prune_axis_keeps_boundaries : forall cs s e,
  Forall (fun c => 0 < c) cs -> 0 <= s -> s < e -> e <= sumZ cs ->
  let '(cs', ix', off') := prune_axis cs (s, e) in
  ix' = (s - off', e - off') /\
  map (fun se => (fst se + off', snd se + off')) (needed_axis cs' ix')
    = filter (overlaps (s, e)) (intervals 0 cs).
Proof. exact prune_axis_requests. Qed.
Print Assumptions C07_prune_axis_keeps_boundaries.

(* FULL strength for the DATA and the BOUNDARIES, for EVERY unit-step index -- empty selections included (possible since
   _prune_chunks always retains a chunk: katdal fix d72167c of finding C07-F2, which the model now follows):
   the read returns exactly array[index], and every chunk requested is a block of the stored chunking (no chunk
   boundary is altered), for every element type, prior store content, chunking with non-empty positive axes. *)
Theorem C07_pruned_read_data : forall (A : Type) (d : A) (miss : option A) (st : store A) (arr : str) (dt : Z)
    (f : list Z -> A) (chunks : list (list Z)) (index : list (option Z * option Z)),
  Forall (fun cs => cs <> [] /\ Forall (fun c => 0 < c) cs) chunks ->
  let r := get_array_index d miss (fst (put_array st arr dt f chunks [])) arr dt chunks index in
  snd r = Ok (map f (spec_index_points chunks index))
  /\ forall b, In b (fst r) -> In b (blocks chunks).
Proof. exact pruned_read_all_top. Qed.
Print Assumptions C07_pruned_read_data.

(* ANY selection on one axis: the pruned chunking is a non-empty run of consecutive chunks of the original one and the
   slice is shifted by exactly the total size of the chunks dropped in front *)
Theorem C07_prune_axis_structure : forall cs s e, cs <> [] ->
  exists pre cs' post,
    cs = pre ++ cs' ++ post /\ cs' <> [] /\
    prune_axis cs (s, e) = (cs', (s - sumZ pre, e - sumZ pre), sumZ pre).
Proof. exact prune_axis_struct. Qed.
Print Assumptions C07_prune_axis_structure.

(* what remains `_partial` (finding C07-F3): the empty selection 2:2 on chunks (2,2,2) returns [] as it must, but the
   real chunk (2,4) is still requested although no chunk overlaps the selection (dask takes block 0 of the pruned
   chunking).  Before d72167c the request was the phantom zero-size chunk (2,2) and the read failed with BadChunk. *)
Example C07_pruned_requests_empty_refuted :
  let st := fst (put_array [] [120] 7 (fun p => nth 0 p 0) [[2;2;2]] []) in
  get_array_index (-1) None st [120] 7 [[2;2;2]] [(Some 2, Some 2)] = ([[(2, 4)]], Ok [])
  /\ spec_requested [[2;2;2]] [(Some 2, Some 2)] = []
  /\ spec_index_points [[2;2;2]] [(Some 2, Some 2)] = [].
Proof. vm_compute. auto. Qed.

(* ---- generate_chunks ---- *)
(* Domain (gc_domain): every shape entry > 0, max_chunk_size / itemsize = mn / md > 0, dims_to_split in range
   (any order, repetitions allowed), max_dim_elements values > 0.  All five clauses hold for ALL such inputs. *)

(* the per-axis chunk sizes are positive and sum to the shape: the scheme tiles the array exactly *)
Theorem C07_generate_chunks_tiles : forall shape mn md dims pow2 mde,
  gc_domain shape mn md dims mde = true ->
  tiles_ok shape (generate_chunks shape mn md dims pow2 mde) = true.
Proof. exact gc_tiles. Qed.
Print Assumptions C07_generate_chunks_tiles.

(* every chunk along a splittable dimension i with max_dim_elements[i] = m has at most m elements *)
Theorem C07_generate_chunks_dim_caps : forall shape mn md dims pow2 mde,
  gc_domain shape mn md dims mde = true ->
  caps_ok dims mde (generate_chunks shape mn md dims pow2 mde) = true.
Proof. exact gc_caps. Qed.
Print Assumptions C07_generate_chunks_dim_caps.

(* power_of_two: all but the last chunk on every axis are powers of two *)
Theorem C07_generate_chunks_pow2 : forall shape mn md dims pow2 mde,
  gc_domain shape mn md dims mde = true ->
  pow2_ok pow2 (generate_chunks shape mn md dims pow2 mde) = true.
Proof. exact gc_pow2. Qed.
Print Assumptions C07_generate_chunks_pow2.

(* size budget: the largest block has at most max_chunk_size / itemsize elements, OR every splittable dimension
   already has chunk size 1.  (The breach the source comment near chunkstore.py:135 warns about does not exist:
   ceil in `pieces` followed by floor in `trg_elements` never exceeds the target.) *)
Theorem C07_generate_chunks_budget : forall shape mn md dims pow2 mde,
  gc_domain shape mn md dims mde = true ->
  budget_ok mn md dims (generate_chunks shape mn md dims pow2 mde) = true.
Proof. exact gc_budget. Qed.
Print Assumptions C07_generate_chunks_budget.

(* dimensions not in dims_to_split are never split *)
Theorem C07_generate_chunks_unsplit : forall shape mn md dims pow2 mde,
  gc_domain shape mn md dims mde = true ->
  unsplit_ok dims (generate_chunks shape mn md dims pow2 mde) = true.
Proof. exact gc_unsplit. Qed.
Print Assumptions C07_generate_chunks_unsplit.

(* non-vacuity: the cases of katdal's own test suite (shape (10, 8192, 144), complex64, 3e6 and 1e6 bytes,
   and power_of_two with max_dim_elements) are in the domain and give the documented results *)
Example C07_generate_chunks_examples :
  gc_domain [10; 8192; 144] 3000000 8 [0%nat; 1%nat; 2%nat] [] = true
  /\ generate_chunks [10; 8192; 144] 3000000 8 [0%nat; 1%nat; 2%nat] false []
     = [repeat 1 10; repeat 2048 4; [144]]
  /\ generate_chunks [10; 8192; 144] 1000000 8 [0%nat; 1%nat; 2%nat] false []
     = [repeat 1 10; repeat 819 10 ++ [2]; [144]]
  /\ generate_chunks [10; 7] 13 2 [0%nat; 1%nat] true [(0%nat, 5)] = [repeat 1 10; [4; 3]].
Proof. vm_compute. auto. Qed.

(* ---- generate_chunks at the level of its PUBLIC arguments ---- *)
(* gen_chunks_py (Model/ChunksGenPy.v) follows the source statement by statement: defaults of dims_to_split and
   max_dim_elements, normalisation of negative (NumPy-style) axis numbers in dims_to_split and in the keys of
   max_dim_elements (strictest limit wins), IndexError where an entry that names no axis is actually used, the break
   of the split loop.  The axis normalisation, the merge of limits, the three comparison operators and the two
   rounding directions are the definitions cs_gc_* re-translated from the source at every run.
   Domain of the theorems (gc_domain_py): shape entries > 0, max_chunk_size / itemsize = mn / md > 0, limits > 0;
   dims_to_split and the keys of max_dim_elements are ARBITRARY integers (any order, repetitions, several spellings). *)

(* Whenever generate_chunks returns, the result is the greedy split on the axes nominated by dims_to_split read the
   NumPy way (entries that name no axis nominate nothing) with the limits merged per axis. *)
Theorem C07_generate_chunks_py_refines : forall shape mn md dims pow2 mde out,
  gen_chunks_py shape mn md dims pow2 mde = Ok out ->
  out = generate_chunks shape mn md (effective_dims (List.length shape) dims) pow2 (limits_of shape mde).
Proof. exact gen_py_refines. Qed.
Print Assumptions C07_generate_chunks_py_refines.

(* ... and satisfies every clause of the property: exact tiling; every limit whose key names a nominated axis is
   respected, however the axis is spelled in either argument; all but the last chunk per axis are powers of two if
   requested; the size budget is met or every nominated axis has chunk size 1; no other axis is split. *)
Theorem C07_generate_chunks_py_ok : forall shape mn md dims pow2 mde out,
  gc_domain_py shape mn md mde = true ->
  gen_chunks_py shape mn md dims pow2 mde = Ok out ->
  chunks_ok_py shape mn md dims pow2 mde out = true.
Proof. exact py_chunks_ok. Qed.
Print Assumptions C07_generate_chunks_py_ok.

(* the limits clause on its own, spelled out: key and nominated entry may spell the axis differently *)
Theorem C07_generate_chunks_py_dim_caps : forall shape mn md dims pow2 mde out,
  gc_domain_py shape mn md mde = true ->
  gen_chunks_py shape mn md dims pow2 mde = Ok out ->
  caps_ok_py (List.length shape) (effective_dims (List.length shape) dims) (mde0_of mde) out = true.
Proof. exact py_caps. Qed.
Print Assumptions C07_generate_chunks_py_dim_caps.

(* totality: if every entry of dims_to_split names an axis (-ndim .. ndim-1) the function returns; the only failure
   there is, is the IndexError of an entry that names no axis *)
Theorem C07_generate_chunks_py_total : forall shape mn md dims pow2 mde,
  all_axes_valid (List.length shape) dims = true ->
  exists out, gen_chunks_py shape mn md dims pow2 mde = Ok out.
Proof. exact gen_py_total. Qed.
Print Assumptions C07_generate_chunks_py_total.

Theorem C07_generate_chunks_py_only_index_error : forall shape mn md dims pow2 mde e,
  gen_chunks_py shape mn md dims pow2 mde = Err e ->
  e = EIndex /\ all_axes_valid (List.length shape) dims = false.
Proof. exact gen_py_err. Qed.
Print Assumptions C07_generate_chunks_py_only_index_error.

(* the result is a function of WHICH axes are nominated / limited, not of how they are spelled: normalising the
   spelling of every entry and key changes nothing (not even whether an IndexError is raised), and two calls that
   nominate the same axes in the same order agree *)
Theorem C07_generate_chunks_py_spelling : forall shape mn md dims pow2 mde,
  let n := List.length shape in
  gen_chunks_py shape mn md (Some (norm_dims n dims)) pow2
                (Some (map (fun kv => (cs_gc_norm_axis (Z.of_nat n) (fst kv), snd kv)) mde))
  = gen_chunks_py shape mn md (Some dims) pow2 (Some mde).
Proof. exact gen_py_spelling. Qed.
Print Assumptions C07_generate_chunks_py_spelling.

Theorem C07_generate_chunks_py_same_axes : forall shape mn md d1 d2 pow2 mde o1 o2,
  effective_dims (List.length shape) d1 = effective_dims (List.length shape) d2 ->
  gen_chunks_py shape mn md d1 pow2 mde = Ok o1 -> gen_chunks_py shape mn md d2 pow2 mde = Ok o2 -> o1 = o2.
Proof. exact gen_py_same_axes. Qed.
Print Assumptions C07_generate_chunks_py_same_axes.

(* the defaults: None = all dimensions in order, no limits *)
Theorem C07_generate_chunks_py_defaults : forall shape mn md pow2,
  gen_chunks_py shape mn md None pow2 None
  = gen_chunks_py shape mn md (Some (default_dims (List.length shape))) pow2 (Some []).
Proof. exact gen_py_defaults. Qed.
Print Assumptions C07_generate_chunks_py_defaults.

(* non-vacuity.  (1) the input of seeded change C07-6: axis -3 nominated and limited to 3;  (2) axis 2 nominated as -1,
   limited under key 2 (finding C07-F5: the unrepaired code ignored the limit);  (3) two spellings of one axis with
   different limits: the strictest wins;  (4) an entry that names no axis: harmless while the budget is met before it
   is reached (katdal's test_max_dim_elements_ignore), IndexError otherwise;  (5) the spec rejects the scheme the
   unrepaired code returned for (2). *)
Example C07_generate_chunks_py_examples :
  gen_chunks_py [10; 8192; 144] 94371840 8 (Some [-3]) false (Some [(-3, 3)]) = Ok [[3; 3; 3; 1]; [8192]; [144]]
  /\ gen_chunks_py [4; 6; 50] 60000 4 (Some [-1]) false (Some [(2, 16)]) = Ok [[4]; [6]; [16; 16; 16; 2]]
  /\ gen_chunks_py [4; 6; 50] 6000 4 (Some [-1; 2]) false (Some [(-1, 4); (2, 8)])
     = Ok [[4]; [6]; [4; 4; 4; 4; 4; 4; 4; 4; 4; 4; 4; 4; 2]]
  /\ gen_chunks_py [10; 7] 13 2 (Some [0; 17]) true (Some [(0, 5)]) = Err EIndex
  /\ gen_chunks_py [10; 7] 100 2 (Some [0; 17]) true (Some [(0, 5)]) = Ok [[4; 4; 2]; [7]]
  /\ gen_chunks_py [10; 7] 13 2 None true (Some [(0, 5)]) = Ok [repeat 1 10; [4; 3]]
  /\ chunks_ok_py [4; 6; 50] 60000 4 (Some [-1]) false (Some [(2, 16)]) [[4]; [6]; [50]] = false
  /\ chunks_ok_py [4; 6; 50] 60000 4 (Some [-1]) false (Some [(2, 16)]) [[4]; [6]; [16; 16; 16; 2]] = true.
Proof. vm_compute. repeat split; reflexivity. Qed.

(* outside the domain (finding C07-F6): a NEGATIVE limit is not rejected; the scheme returned has no chunk at all on
   that axis and does not tile the array *)
Example C07_generate_chunks_negative_limit_refuted :
  gen_chunks_py [4; 6; 50] 600000 4 (Some [0]) false (Some [(0, -1)]) = Ok [[]; [6]; [50]]
  /\ tiles_ok [4; 6; 50] [[]; [6]; [50]] = false.
Proof. vm_compute. split; reflexivity. Qed.

(* ---- links between the clauses ---- *)

(* a chunking scheme produced by the chunk generator round-trips: whatever generate_chunks returns (any public
   arguments in the domain) used as the chunking of put_dask_array / get_dask_array writes every block successfully
   and reads the array back element for element, for any offset, element type and prior store content *)
Theorem C07_generated_chunks_round_trip : forall (A : Type) (d : A) (miss : option A) (st : store A) (arr : str) (dt : Z)
    (f : list Z -> A) shape mn md dims pow2 mde out (off : list Z),
  gc_domain_py shape mn md mde = true ->
  gen_chunks_py shape mn md dims pow2 mde = Ok out ->
  (off = [] \/ List.length off = List.length shape) ->
  Forall (fun r => r = None) (snd (put_array st arr dt f out off)) /\
  get_array d miss (fst (put_array st arr dt f out off)) arr dt out off = Ok (map f (enumerate shape)).
Proof. exact generated_chunks_round_trip. Qed.
Print Assumptions C07_generated_chunks_round_trip.

(* put_dask_array's mapping of dask blocks to chunk names, for ANY (irregular) chunking: block (k1, .., kn) is stored
   under the name printed from the start tuple (total size of the first k_i chunks of axis i), its slice on axis i
   ends at the total size of the first k_i + 1 chunks *)
Theorem C07_block_locations : forall chunks b, In b (blocks chunks) ->
  Forall2 (fun cs se => exists k, (k < List.length cs)%nat /\ se = (sumZ (firstn k cs), sumZ (firstn (S k) cs))) chunks b.
Proof. exact blocks_locations. Qed.
Print Assumptions C07_block_locations.

(* ... and that is where put_dask_array stores it: after the put EVERY dask block is held under the object key printed
   from its location (shifted by the offset), with its own shape and elements -- any chunking in the domain, any offset,
   any prior store content (together with C07_put_array_frame: and nothing else changes) *)
Theorem C07_put_array_stores_blocks : forall (A : Type) (st : store A) (arr : str) (dt : Z) (f : list Z -> A)
    (chunks : list (list Z)) (off : list Z) b,
  Forall (fun cs => Forall (fun c => 0 < c) cs \/ cs = [0]) chunks ->
  (off = [] \/ List.length off = List.length chunks) ->
  In b (blocks chunks) ->
  lookup (block_key arr off b) (fst (put_array st arr dt f chunks off)) = Some (OChunk dt (slice_shape b) (extract f b)).
Proof. exact put_stores_top. Qed.
Print Assumptions C07_put_array_stores_blocks.

Example C07_block_locations_example :
  blocks [[3; 1; 2]; [2; 5]]
  = [[(0,3);(0,2)]; [(0,3);(2,7)]; [(3,4);(0,2)]; [(3,4);(2,7)]; [(4,6);(0,2)]; [(4,6);(2,7)]]
  /\ map fst (fst (put_array [] [120] 7 (fun _ : list Z => 0) [[3; 1; 2]] [10]))
     = map (fun s => chunk_key (chunk_name [120] [s])) [14; 13; 10].
Proof. vm_compute. auto. Qed.

(* ---- chunk by chunk, over arbitrary histories ---- *)

(* Reading a chunk after ANY history of put_chunk (accepted or rejected) and mark_complete calls on a name-addressed
   store returns the data of the LAST accepted put addressed to that chunk name (shape and dtype of the request checked
   against it), and what the store held before if there was none: later puts to other chunk names, rejected puts and
   completion markers never disturb a stored chunk. *)
Theorem C07_chunk_history_read : forall (A : Type) (ops : list (@hop A)) (st : store A) arr sl dt,
  get_chunk (run_hist st ops) arr sl dt false
  = hist_answer dt sl (last_put arr (map fst sl) ops) (get_chunk st arr sl dt false).
Proof. exact @hist_get. Qed.
Print Assumptions C07_chunk_history_read.

(* completion markers over histories: set by mark_complete of that very array, never by a put, never cleared *)
Theorem C07_complete_history : forall (A : Type) (ops : list (@hop A)) (st : store A) arr,
  is_complete (run_hist st ops) arr = marked arr ops || is_complete st arr.
Proof. exact @hist_complete. Qed.
Print Assumptions C07_complete_history.

(* one chunk: a chunk whose shape matches its slices is accepted and reads back identical; a put changes the answer
   for no other (array name, start tuple) *)
Theorem C07_put_get_chunk : forall (A : Type) (st : store A) arr sl dt data,
  exists st', put_chunk st arr sl dt false (slice_shape sl) data = Ok st'
              /\ get_chunk st' arr sl dt false = Ok (slice_shape sl, data).
Proof. exact @put_get_chunk. Qed.
Print Assumptions C07_put_get_chunk.

Theorem C07_put_chunk_frame : forall (A : Type) (st st' : store A) arr sl dt cshape data arr' sl' dt',
  put_chunk st arr sl dt false cshape data = Ok st' ->
  (arr', map fst sl') <> (arr, map fst sl) ->
  get_chunk st' arr' sl' dt' false = get_chunk st arr' sl' dt' false.
Proof. exact @put_chunk_frame. Qed.
Print Assumptions C07_put_chunk_frame.

(* non-vacuity: overwrite (last wins), a rejected put (shape (3) for slice 0:2) leaves the chunk alone, a marker in
   between, another array, and a request with the same start but another stop (same name, wrong shape: BadChunk) *)
Example C07_chunk_history_example :
  let ops := [HPut [120] [(0, 2)] 7 [2] [1; 2]; HMark [120]; HPut [121] [(0, 2)] 7 [2] [8; 9];
              HPut [120] [(0, 2)] 7 [3] [0; 0; 0]; HPut [120] [(0, 2)] 7 [2] [3; 4]; HPut [120] [(2, 4)] 7 [2] [5; 6]] in
  let st := run_hist ([] : store Z) ops in
  get_chunk st [120] [(0, 2)] 7 false = Ok ([2], [3; 4])
  /\ get_chunk st [121] [(0, 2)] 7 false = Ok ([2], [8; 9])
  /\ get_chunk st [120] [(0, 3)] 7 false = Err EBadChunk
  /\ get_chunk st [120] [(4, 6)] 7 false = Err ENotFound
  /\ is_complete st [120] = true /\ is_complete st [121] = false.
Proof. vm_compute. repeat split; reflexivity. Qed.

(* ---- WHERE a chunk ends up on the S3 back-end (Model/ChunksUrl.v): store URL x array name x chunk index -> object ----
   make_url_path bp rel = path of S3ChunkStore.make_url(rel) for a store whose URL has the path bp (quote, urljoin,
   _normalise_bucket_name); object_path = what the endpoint sees (percent-decoded); chunk_rel arr starts = chunk name +
   ".npy".  Two URL modes: store_prefix bp = [] (bare endpoint, bucket = first component of the array name) and
   store_prefix bp <> [] (the store URL contains the bucket, names are relative to it).
   Guard of every statement (hence `_partial`): wf_name = every '/'-separated component of the ARRAY name is non-empty
   and neither "." nor ".." (ASCII text); wf_store = store path empty or absolute, no dot segments, no characters that
   need quoting.  Outside the guard the statement is false: C07_s3_url_injective_refuted (finding C07-F7). *)

(* the object is the documented one: directory prefix of the store URL + the name VERBATIM ("<path>/<idx>.npy"),
   underscores -> dashes in the first component (the bucket) and nowhere else *)
Theorem C07_s3_object_documented_partial : forall bp arr starts, wf_store bp = true -> wf_name arr = true ->
  object_path bp (chunk_rel arr starts) = spec_object_path bp (chunk_rel arr starts).
Proof. exact chunk_object_documented. Qed.
Print Assumptions C07_s3_object_documented_partial.

Theorem C07_s3_any_object_documented_partial : forall bp rel, wf_store bp = true -> wf_name rel = true ->
  object_path bp rel = spec_object_path bp rel.
Proof. exact object_documented. Qed.
Print Assumptions C07_s3_any_object_documented_partial.

(* bucket in the store URL: the object URL is injective in (array name, chunk start tuple) *)
Theorem C07_s3_url_injective_bucket_in_url_partial : forall bp a1 s1 a2 s2,
  wf_store bp = true -> store_prefix bp <> [] -> wf_name a1 = true -> wf_name a2 = true ->
  make_url_path bp (chunk_rel a1 s1) = make_url_path bp (chunk_rel a2 s2) -> a1 = a2 /\ s1 = s2.
Proof. exact chunk_url_injective_url_bucket. Qed.
Print Assumptions C07_s3_url_injective_bucket_in_url_partial.

(* bucket as first component of the array name: equal URLs name the same bucket up to '_' / '-' (the documented
   normalisation), and the same (array name, start tuple) when the buckets are spelled alike or contain no underscore *)
Theorem C07_s3_url_injective_bucket_in_name_partial : forall bp a1 s1 a2 s2,
  wf_store bp = true -> store_prefix bp = [] -> wf_name a1 = true -> wf_name a2 = true ->
  make_url_path bp (chunk_rel a1 s1) = make_url_path bp (chunk_rel a2 s2) ->
  dash (name_bucket a1) = dash (name_bucket a2)
  /\ (name_bucket a1 = name_bucket a2 -> a1 = a2 /\ s1 = s2)
  /\ (~ In cs_bucket_from (name_bucket a1) -> ~ In cs_bucket_from (name_bucket a2) -> a1 = a2 /\ s1 = s2).
Proof. exact chunk_url_injective_name_bucket. Qed.
Print Assumptions C07_s3_url_injective_bucket_in_name_partial.

(* ... for ANY relative names (chunks, completion markers, ...) *)
Theorem C07_s3_object_injective_bucket_in_url_partial : forall bp r1 r2, wf_store bp = true -> store_prefix bp <> [] ->
  wf_name r1 = true -> wf_name r2 = true -> object_path bp r1 = object_path bp r2 -> r1 = r2.
Proof. exact object_inj_url_bucket. Qed.
Print Assumptions C07_s3_object_injective_bucket_in_url_partial.

Theorem C07_s3_object_injective_bucket_in_name_partial : forall bp r1 r2, wf_store bp = true -> store_prefix bp = [] ->
  wf_name r1 = true -> wf_name r2 = true -> object_path bp r1 = object_path bp r2 ->
  dash (name_bucket r1) = dash (name_bucket r2) /\ snd (split1 47 r1) = snd (split1 47 r2).
Proof. exact object_inj_name_bucket. Qed.
Print Assumptions C07_s3_object_injective_bucket_in_name_partial.

(* percent-encoding is undone by the endpoint (ASCII names) *)
Theorem C07_s3_unquote_quote : forall s, ascii s = true -> unquote (quote s) = s.
Proof. exact unquote_quote. Qed.
Print Assumptions C07_s3_unquote_quote.

(* several arrays in ONE store, any history of put_chunk / get_chunk / mark_complete / is_complete over any array
   names: every get returns the LAST put addressed to the same (array name, start tuple) - no array overwrites another -
   and is_complete tells whether THAT array was marked.  S3 with the bucket in the store URL: *)
Theorem C07_s3_history_bucket_in_url_partial : forall bp ops, wf_store bp = true -> store_prefix bp <> [] ->
  (forall o, In o ops -> wf_name (op_arr o) = true) ->
  uanswers (object_path bp) ops [] = spec_answers ops [].
Proof. exact s3_history_url_bucket. Qed.
Print Assumptions C07_s3_history_bucket_in_url_partial.

(* S3 with the bucket in the names: arrays of one bucket, or of buckets without underscores *)
Theorem C07_s3_history_bucket_in_name_partial : forall bp ops b, wf_store bp = true -> store_prefix bp = [] ->
  (forall o, In o ops -> wf_name (op_arr o) = true /\ name_bucket (op_arr o) = b) ->
  uanswers (object_path bp) ops [] = spec_answers ops [].
Proof. exact s3_history_name_bucket. Qed.
Print Assumptions C07_s3_history_bucket_in_name_partial.

Theorem C07_s3_history_dash_buckets_partial : forall bp ops, wf_store bp = true -> store_prefix bp = [] ->
  (forall o, In o ops -> wf_name (op_arr o) = true /\ ~ In cs_bucket_from (name_bucket (op_arr o))) ->
  uanswers (object_path bp) ops [] = spec_answers ops [].
Proof. exact s3_history_dash_buckets. Qed.
Print Assumptions C07_s3_history_dash_buckets_partial.

(* keys used verbatim (NPY file paths relative to the store directory): any names *)
Theorem C07_verbatim_history : forall ops, uanswers (fun r => r) ops [] = spec_answers ops [].
Proof. exact verbatim_history. Qed.
Print Assumptions C07_verbatim_history.

(* generic: ANY key function that is injective on the names in use *)
Theorem C07_keyed_history : forall (kf : str -> str) (P : str -> Prop),
  (forall r1 r2, P r1 -> P r2 -> kf r1 = kf r2 -> r1 = r2) ->
  forall ops, (forall o, In o ops -> P (op_rel o)) -> uanswers kf ops [] = spec_answers ops [].
Proof. exact keyed_history. Qed.
Print Assumptions C07_keyed_history.

(* finding C07-F7: an empty, "." or ".." component in an array name aliases another array on S3 (urljoin collapses
   them): "a//b", "a/./b", "c/../a/b" all land on the objects of "a/b"; the later put silently wins *)
Theorem C07_s3_url_injective_refuted :
  let bp := [47; 98; 107; 47] in
  let a1 := [97; 47; 47; 98] in let a2 := [97; 47; 98] in let a3 := [97; 47; 46; 47; 98] in
  let a4 := [99; 47; 46; 46; 47; 97; 47; 98] in
  wf_store bp = true /\ wf_name a2 = true /\ a1 <> a2 /\
  object_path bp (chunk_rel a1 [0]) = object_path bp (chunk_rel a2 [0]) /\
  object_path bp (chunk_rel a3 [0]) = object_path bp (chunk_rel a2 [0]) /\
  object_path bp (chunk_rel a4 [0]) = object_path bp (chunk_rel a2 [0]) /\
  uanswers (object_path bp) [UPut a1 [0] 1; UPut a2 [0] 2; UGet a1 [0]] [] = [0; 0; 2] /\
  spec_answers [UPut a1 [0] 1; UPut a2 [0] 2; UGet a1 [0]] [] = [0; 0; 1].
Proof. exact illformed_names_alias. Qed.
Print Assumptions C07_s3_url_injective_refuted.

(* the documented aliasing of bucket spellings exists only when the bucket is part of the name *)
Example C07_s3_bucket_underscore_alias :
  let x1 := [98; 95; 107; 47; 120] in let x2 := [98; 45; 107; 47; 120] in
  make_url_path [] (chunk_rel x1 [0]) = make_url_path [] (chunk_rel x2 [0])
  /\ make_url_path [47; 98; 47] (chunk_rel x1 [0]) <> make_url_path [47; 98; 47] (chunk_rel x2 [0]).
Proof. exact bucket_underscore_alias. Qed.

(* array "w_c" relative to bucket "b": object "/b/w_c/00000.npy" (underscore in the key untouched) *)
Example C07_s3_url_bucket_key_verbatim_example :
  object_path [47; 98; 47] (chunk_rel [119; 95; 99] [0])
  = [47; 98; 47; 119; 95; 99; 47; 48; 48; 48; 48; 48; 46; 110; 112; 121].
Proof. exact url_bucket_key_verbatim_example. Qed.

(* ---- the BYTES of the .npy object of a chunk (Model/ChunksNpy.v over C08's container model Model/Npy.v) ----
   An element is the list of its itemsize bytes; a dtype is its .npy descriptor (`dtype_ok descr isz`: printable
   characters other than quote and backslash, byte order + kind + decimal item size isz, kind one of b i u f c S V, in
   either byte order; str 'U' (4 bytes per character), datetimes and structured dtypes: correspondence only); the header text is numpy's canonical dict literal.  The format version katdal writes
   (cs_npy_write_major) and the versions katdal's own reader accepts (cs_npy_read_versions) are re-translated from the
   source at every run; the statements break if the reader stops accepting what the writer writes.
   Domain in the statements: shape entries >= 0 (any rank incl. 0-d), every element has itemsize bytes, and
   `hdr_small`: the unpadded header text is at most 10000 - 64 bytes (numpy's readers refuse longer headers). *)
From KV Require Import Model.Npy Model.ChunksNpy Proofs.NpyHdrP Proofs.ChunksNpyP.

(* put_chunk then get_chunk at the level of the stored bytes: whatever the memory layout of the chunk handed in, the
   file NpyFileChunkStore writes / the object body S3ChunkStore sends is read back by np.load AND by katdal's
   read_array as the same dtype descriptor, fortran_order = False, the same shape and the C-order listing of the
   logical elements, byte for byte; decoding it gives every element back *)
Theorem C07_npy_file_round_trip : forall descr isz (elem : list Z -> item) shape lay,
  dtype_ok descr isz ->
  Forall (fun s => 0 <= s) shape -> (forall q, List.length (elem q) = isz) ->
  hdr_small descr (NpyObj false shape []) ->
  let file := npy_file descr elem shape lay in
  let o := NpyObj false shape (map elem (enumerate shape)) in
  npy_read_file file = Ok (descr, o) /\ s3_read_file file = Ok (descr, o)
  /\ forall (d : item) q, In q (enumerate shape) -> npy_decode d o q = elem q.
Proof. intros descr isz elem shape lay [Hd [Hi _]]. exact (npy_file_round_trip_top descr isz elem shape lay Hd Hi). Qed.
Print Assumptions C07_npy_file_round_trip.

(* objects of OTHER .npy writers (format 1.0 / 2.0 / 3.0, any padding, C or Fortran order) of the same logical chunk
   decode element for element; katdal's own reader takes exactly the versions cs_npy_read_versions *)
Theorem C07_npy_file_foreign_writer : forall major nb pad descr isz (elem : list Z -> item) shape fortran,
  dtype_ok descr isz -> hlen_bytes major = Some nb ->
  Forall (fun s => 0 <= s) shape -> (forall q, List.length (elem q) = isz) ->
  Z.of_nat (List.length (print_hdr_c pad (mkhdr descr fortran (shape_nat shape)))) <= max_header_size ->
  let o := npy_foreign elem shape fortran in
  let file := obj_bytes_v major nb pad descr o in
  npy_read_file file = Ok (descr, o)
  /\ (existsb (Z.eqb major) cs_npy_read_versions = true -> s3_read_file file = Ok (descr, o))
  /\ forall (d : item) q, In q (enumerate shape) -> npy_decode d o q = elem q.
Proof.
  intros major nb pad descr isz elem shape fortran [Hd [Hi _]].
  exact (npy_foreign_file_top major nb pad descr isz elem shape fortran Hd Hi).
Qed.
Print Assumptions C07_npy_file_foreign_writer.

(* header padding: the object katdal writes is header ++ body with the magic string and version up front and the
   body starting on a multiple of 64 bytes; the padding is between 1 and 64 spaces *)
Theorem C07_npy_body_offset_aligned : forall descr o,
  (exists h, obj_bytes descr o = h ++ obj_body o /\ Z.of_nat (List.length h) mod 64 = 0
             /\ firstn 8 h = magic_prefix ++ [cs_npy_write_major; 0])
  /\ (1 <= npy_pad katdal_nb (obj_hdr descr o) <= 64)%nat.
Proof. intros descr o. split; [exact (body_offset_aligned descr o)|exact (pad_range katdal_nb (obj_hdr descr o))]. Qed.
Print Assumptions C07_npy_body_offset_aligned.

(* what must NOT happen: two chunks that differ in dtype descriptor, shape or any byte of any element never give the
   same stored bytes *)
Theorem C07_npy_file_injective : forall d1 d2 i1 i2 o1 o2,
  dtype_ok d1 i1 -> dtype_ok d2 i2 ->
  hdr_small d1 o1 -> hdr_small d2 o2 -> wf_obj i1 o1 -> wf_obj i2 o2 ->
  obj_bytes d1 o1 = obj_bytes d2 o2 -> d1 = d2 /\ o1 = o2.
Proof.
  intros d1 d2 i1 i2 o1 o2 [D1 [I1 _]] [D2 [I2 _]]. exact (obj_bytes_injective d1 d2 i1 i2 o1 o2 D1 D2 I1 I2).
Qed.
Print Assumptions C07_npy_file_injective.

(* get_chunk on stored bytes: asked for the dtype and shape the chunk was written with it returns the chunk, asked for
   any other dtype descriptor or shape it raises BadChunk (2) -- and whatever the bytes are, data come back only under
   the dtype and shape asked for *)
Theorem C07_npy_get_chunk_checks_dtype_and_shape : forall s3 descr isz (elem : list Z -> item) shape lay,
  dtype_ok descr isz ->
  Forall (fun s => 0 <= s) shape -> (forall q, List.length (elem q) = isz) ->
  hdr_small descr (NpyObj false shape []) ->
  get_chunk_file s3 descr shape (npy_file descr elem shape lay)
  = (0, Some (NpyObj false shape (map elem (enumerate shape))))
  /\ (forall wd ws, wd <> descr \/ ws <> shape ->
      get_chunk_file s3 wd ws (npy_file descr elem shape lay) = (2, None)).
Proof. intros s3 descr isz elem shape lay [Hd [Hi _]]. exact (get_chunk_file_ok s3 descr isz elem shape lay Hd Hi). Qed.
Print Assumptions C07_npy_get_chunk_checks_dtype_and_shape.

Theorem C07_npy_get_chunk_any_bytes : forall s3 wd ws bs o,
  get_chunk_file s3 wd ws bs = (0, Some o) ->
  (if s3 then s3_read_file bs else npy_read_file bs) = Ok (wd, o) /\ exists fo body, o = NpyObj fo ws body.
Proof. exact get_chunk_file_checked. Qed.
Print Assumptions C07_npy_get_chunk_any_bytes.

(* non-vacuity: a (2, 3) '<i2' chunk handed in Fortran layout is the 140-byte file numpy writes (10 + 118 bytes of
   header ending in "\n", 12 bytes of body in C order); a 0-d and an empty chunk; a format 2.0 Fortran-ordered object
   of an old numpy (first index fastest in the body), format 3.0 refused by katdal's reader *)
Example C07_npy_file_examples :
  (let file := npy_file ex_descr ex_elem [2; 3] LayF in
   List.length file = 140%nat
   /\ firstn 10 file = [147; 78; 85; 77; 80; 89; 1; 0; 118; 0]
   /\ skipn 128 file = [0; 0; 1; 0; 2; 0; 3; 0; 4; 0; 5; 0]
   /\ nth 127 file 0 = 10
   /\ npy_read_file file = Ok (ex_descr, NpyObj false [2; 3] (map ex_elem (enumerate [2; 3])))
   /\ s3_read_file file = npy_read_file file)
  /\ (npy_read_file (npy_file ex_descr ex_elem [] LayC) = Ok (ex_descr, NpyObj false [] [[0; 0]])
      /\ s3_read_file (npy_file ex_descr ex_elem [0; 2] LayOther) = Ok (ex_descr, NpyObj false [0; 2] []))
  /\ (let o := npy_foreign ex_elem [2; 3] true in
      obj_body o = [0; 0; 3; 0; 1; 0; 4; 0; 2; 0; 5; 0]
      /\ s3_read_file (obj_bytes_v 2 4 5 ex_descr o) = Ok (ex_descr, o)
      /\ map (npy_decode [] o) (enumerate [2; 3]) = map ex_elem (enumerate [2; 3])
      /\ s3_read_file (obj_bytes_v 3 4 5 ex_descr o) = Err EValue).
Proof. split; [exact ex_file|]. split; [exact ex_file_0d|exact ex_foreign]. Qed.
Example C07_npy_dtype_ok_examples :
  dtype_ok ex_descr 2 /\ dtype_ok [62; 99; 49; 54] 16 /\ dtype_ok [124; 98; 49] 1 /\ dtype_ok [124; 83; 51] 3
  /\ kind_modelled [60; 85; 50] = false /\ itemsize [124; 79] = None.
Proof. repeat split; try reflexivity; repeat constructor. Qed.
