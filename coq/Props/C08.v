(* C08 -- Damaged/mismatched chunks and unreachable stores never masquerade as data.  Only statements here. *)
From Coq Require Import ZArith List Bool String.
From KV Require Import Base.Sx Base.Str Gen.Generated Model.Npy Model.StoreErr Proofs.NpyP Proofs.StoreErrP.
From KV Require Import Model.Prune Model.LostMap Model.VfwDamage Proofs.VfwDamageP Proofs.NpyHdrP.
From KV Require Proofs.C06P.
From KV Require Import Proofs.PutHistoryP.
From KV Require Import Model.S3Wire Proofs.S3WireP.
Import ListNotations.
Open Scope Z_scope.

(* ---- framing: for every header, body and size, no proper prefix of a well-formed .npy file decodes ----
   The header text parser is any function that reads back what the writer prints. *)
Theorem C08_truncation_never_data :
  forall (parse_hdr : bytes -> option hdr) (print_hdr : hdr -> bytes),
  (forall m, parse_hdr (print_hdr m) = Some m) ->
  forall major nb m body k,
  wf_file print_hdr major nb m body ->
  (k < List.length (encode print_hdr major nb m body))%nat ->
  np_load parse_hdr (firstn k (encode print_hdr major nb m body)) = Err (if Nat.eqb k 0 then EEOF else EValue)
  /\ (existsb (Z.eqb major) [1; 2] = true ->
      s3_read_array parse_hdr (firstn k (encode print_hdr major nb m body)) = Err EIncomplete).
Proof.
  intros p q H major nb m body k Hwf Hk. split.
  - exact (truncation_never_data p q H major nb m body k Hwf Hk).
  - intro Hv. exact (s3_truncation_never_data p q H major nb m body k Hwf Hv Hk).
Qed.
Print Assumptions C08_truncation_never_data.

(* non-vacuity: the complete file does decode, to exactly what was written *)
Theorem C08_complete_file_decodes :
  forall (parse_hdr : bytes -> option hdr) (print_hdr : hdr -> bytes),
  (forall m, parse_hdr (print_hdr m) = Some m) ->
  forall major nb m body, wf_file print_hdr major nb m body ->
  np_load parse_hdr (encode print_hdr major nb m body) = Ok (m, body).
Proof. exact decode_encode. Qed.
Print Assumptions C08_complete_file_decodes.

(* through the stores: every truncation offset is a missing chunk (NPY: ChunkNotFound, S3: S3ServerGlitch, a
   ChunkNotFound), a missing file is a missing chunk, and data only ever comes from a file that decodes with
   the requested dtype and shape.  Uses the error maps translated from the source (incl. the EOFError entry). *)
Theorem C08_truncated_chunk_is_reported_missing :
  forall (parse_hdr : bytes -> option hdr) (print_hdr : hdr -> bytes),
  (forall m, parse_hdr (print_hdr m) = Some m) ->
  forall major nb m body k want,
  wf_file print_hdr major nb m body ->
  (k < List.length (encode print_hdr major nb m body))%nat ->
  npy_get_chunk parse_hdr (Some (firstn k (encode print_hdr major nb m body))) want = Raise K_ChunkNotFound
  /\ (existsb (Z.eqb major) [1; 2] = true ->
      s3_get_chunk parse_hdr (firstn k (encode print_hdr major nb m body)) want = Raise K_S3ServerGlitch)
  /\ isinst K_S3ServerGlitch K_ChunkNotFound = true
  /\ npy_get_chunk parse_hdr None want = Raise K_ChunkNotFound.
Proof.
  intros p q H major nb m body k want Hwf Hk. split; [|split; [|split]].
  - exact (npy_truncated_is_notfound p q H major nb m body k want Hwf Hk).
  - intro Hv. exact (s3_truncated_is_glitch p q H major nb m body k want Hwf Hv Hk).
  - exact (proj2 (proj2 (proj2 (proj2 npy_map_on_decode_errors)))).
  - exact (npy_missing_is_notfound p want).
Qed.
Print Assumptions C08_truncated_chunk_is_reported_missing.

Theorem C08_data_only_if_decodes :
  forall (parse_hdr : bytes -> option hdr) file want body,
  npy_get_chunk parse_hdr file want = Ret body ->
  exists bs m, file = Some bs /\ np_load parse_hdr bs = Ok (m, body)
               /\ h_shape m = h_shape want /\ h_descr m = h_descr want.
Proof. exact npy_data_only_if_decodes. Qed.
Print Assumptions C08_data_only_if_decodes.

(* ---- classification: for each of the four error maps and EVERY class of the 103-element enum, what leaves a
   guarded block is one of the three standard errors taken from the map, or the exception itself ---- *)
Theorem C08_standard_errors_classifies : forall s e,
  (map_catches s e = true /\ is_std (standard_errors (error_map s) e) = true /\
   In (standard_errors (error_map s) e) (map snd (error_map s)))
  \/ (map_catches s e = false /\ standard_errors (error_map s) e = e).
Proof. exact standard_errors_classifies. Qed.
Print Assumptions C08_standard_errors_classifies.

(* the three standard classes are disjoint, the translated tables resolve and the class statements of the
   source have the bases of the model *)
Theorem C08_tables_tied :
  (forall e, (isinst e K_ChunkNotFound && (isinst e K_BadChunk || isinst e K_StoreUnavailable)) = false /\
             (isinst e K_BadChunk && isinst e K_StoreUnavailable) = false)
  /\ absorbed_default = [K_ChunkNotFound] /\ absorbed_placeholder = [K_ChunkNotFound]
  /\ noraise_returned = [K_ChunkStoreError]
  /\ forallb (fun p => match exn_of_name (fst p), resolve_names (snd p) with
                       | Some e, Some l => exns_eqb (bases e) l | _, _ => false end) c08_class_bases = true.
Proof.
  split; [exact std_disjoint|].
  destruct absorbed_is_notfound as [A [B C]].
  split; [exact A|]. split; [exact B|]. split; [exact C|]. exact (proj1 class_bases_tied).
Qed.
Print Assumptions C08_tables_tied.

(* ---- only ChunkNotFound is absorbed: every store, every low-level result (array with right/wrong dtype and
   shape, or any exception of the enum) ---- *)
Theorem C08_only_notfound_is_absorbed : forall s lo,
  match get_chunk s lo with
  | Ret v => get_chunk_or_default s lo = Ret v /\ get_chunk_or_placeholder s lo = Ret v /\ v = Stored
  | Raise e =>
      if isinst e K_ChunkNotFound
      then get_chunk_or_default s lo = Ret DefaultFill /\ get_chunk_or_placeholder s lo = Ret Placeholder
      else get_chunk_or_default s lo = Raise e /\ get_chunk_or_placeholder s lo = Raise e
  end.
Proof. exact or_default_spec. Qed.
Print Assumptions C08_only_notfound_is_absorbed.

Theorem C08_bad_or_unavailable_never_filled : forall s lo e,
  get_chunk s lo = Raise e ->
  (isinst e K_BadChunk = true \/ isinst e K_StoreUnavailable = true \/ is_std e = false) ->
  get_chunk_or_default s lo = Raise e /\ get_chunk_or_placeholder s lo = Raise e.
Proof. exact bad_or_unavailable_never_filled. Qed.
Print Assumptions C08_bad_or_unavailable_never_filled.

Theorem C08_mismatch_is_badchunk : forall s shape_ok dtype_ok,
  shape_ok && dtype_ok = false ->
  get_chunk s (LArray shape_ok dtype_ok) = Raise K_BadChunk
  /\ get_chunk_or_default s (LArray shape_ok dtype_ok) = Raise K_BadChunk
  /\ get_chunk_or_placeholder s (LArray shape_ok dtype_ok) = Raise K_BadChunk.
Proof.
  intros s so dk H.
  assert (G : get_chunk s (LArray so dk) = Raise K_BadChunk) by (rewrite get_chunk_array; destruct so, dk; try discriminate; reflexivity).
  split; [exact G|]. apply (bad_or_unavailable_never_filled s _ K_BadChunk G). left. reflexivity.
Qed.
Print Assumptions C08_mismatch_is_badchunk.

(* loading a cell through ChunkStoreVisFlagsWeights: a successful load flags data_lost exactly on the arrays
   whose chunk was a ChunkNotFound; any other failure of any array makes the load fail *)
Theorem C08_load_flags_lost_or_fails : forall s arrays,
  (forall flags, vfw_load s arrays = Ret flags ->
     Forall2 (fun a lost =>
                (lost = false /\ snd a = LArray true true) \/
                (lost = true /\ exists e, get_chunk s (snd a) = Raise e /\ isinst e K_ChunkNotFound = true))
             arrays flags)
  /\ (forall k lo e, In (k, lo) arrays -> get_chunk s lo = Raise e -> isinst e K_ChunkNotFound = false ->
        exists e', vfw_load s arrays = Raise e').
Proof. intros s arrays. split; [exact (vfw_load_spec s arrays)|exact (vfw_load_fails s arrays)]. Qed.
Print Assumptions C08_load_flags_lost_or_fails.

(* ---- put_chunk is atomic.  A put is a run of the state machine [exec] over the system calls
   [creat tmp; write tmp ...; (ftruncate tmp); rename tmp final]; the environment answers EVERY call with
   ok / the process dies here (a write: after any number of bytes) / the call fails with any exception /
   SHORT WRITE: write(2) stores only the first n bytes and returns n without raising (file-size limit, quota or
   full disk reached strictly inside the header or the body, interrupted write, 2 GiB cap).  The writer's reaction
   to a short count (buffered file object: re-issue the remainder; direct branch: compare with the chunk size and
   raise) is translated from _write_chunk.  For ALL lists of answers -- hence for every crash point, every failing
   call, every short-write point (k, n), any number of them and every continuation (the retry succeeds, is short
   again, fails, the process dies) -- whatever the chunk is split into and whatever the file system held:
   the final name holds the previous content or the complete new chunk; success is reported only when the new
   chunk is in place. ---- *)
Theorem C08_put_atomic : forall base writes trunc meta_ok evs f,
  let r := put_chunk base writes trunc meta_ok evs f in
  (lookup (final_name base) (snd r) = lookup (final_name base) f
   \/ lookup (final_name base) (snd r) = Some (new_content writes trunc))
  /\ (fst r = Some (Ret tt) -> lookup (final_name base) (snd r) = Some (new_content writes trunc)).
Proof. exact put_atomic. Qed.
Print Assumptions C08_put_atomic.

(* the same through put_chunk_noraise, spelled out for a short write at any point: calls 0..k-1 succeed, call k
   stores n bytes and returns n, anything afterwards.  A failed put never replaces a good chunk by a damaged one
   and is never reported as success. *)
Theorem C08_short_write_never_published : forall base writes trunc f k n rest,
  let r := put_chunk_noraise base writes trunc true (repeat EOk k ++ EShort n :: rest) f in
  (lookup (final_name base) (snd r) = lookup (final_name base) f
   \/ lookup (final_name base) (snd r) = Some (new_content writes trunc))
  /\ (lookup (final_name base) (snd r) <> Some (new_content writes trunc) -> fst r <> Some (Ret None)).
Proof. intros. apply put_noraise_atomic. Qed.
Print Assumptions C08_short_write_never_published.

Example C08_put_atomic_nonvacuous :
  let old := [(final_name [97], [9])] in
  let final r := lookup (final_name [97]) (snd r) in
  (* healthy *)
  final (put_chunk [97] [[1; 2]; [3]] None true [] old) = Some [1; 2; 3]
  (* killed inside the second write *)
  /\ final (put_chunk [97] [[1; 2]; [3]] None true [EOk; EOk; EDie 1] old) = Some [9]
  /\ lookup (tmp_name [97]) (snd (put_chunk [97] [[1; 2]; [3]] None true [EOk; EOk; EDie 1] old)) = Some [1; 2; 3]
  (* short write inside the first buffer, the retry of the remainder fails (file-size limit): reported, old kept *)
  /\ put_chunk_noraise [97] [[1; 2]; [3]] None true [EOk; EShort 1; EErr B_OSError] old
     = (Some (Ret (Some K_StoreUnavailable)), [(tmp_name [97], [1]); (final_name [97], [9])])
  (* short write, the retry succeeds: complete chunk *)
  /\ final (put_chunk [97] [[1; 2]; [3]] None true [EOk; EShort 1] old) = Some [1; 2; 3]
  (* direct branch, 3-byte chunk padded to 4: 2 bytes stored -> error; 3 bytes stored -> complete after the cut *)
  /\ fst (put_chunk [97] [[1; 2; 3; 0]] (Some 3%nat) true [EOk; EShort 2] old) = Some (Raise K_StoreUnavailable)
  /\ final (put_chunk [97] [[1; 2; 3; 0]] (Some 3%nat) true [EOk; EShort 2] old) = Some [9]
  /\ final (put_chunk [97] [[1; 2; 3; 0]] (Some 3%nat) true [EOk; EShort 3] old) = Some [1; 2; 3].
Proof. vm_compute. repeat split. Qed.

(* the statement depends on the translated writer: with the count of a short write thrown away (raw file object,
   unchecked f.write / os.write) a damaged chunk replaces a good one and success is reported *)
Theorem C08_ignored_short_write_refutes :
  let c := {| short_policy := PIgnore; swallow_last_write_error := false |} in
  let r := put_chunk_cfg c [97] [[1; 2]; [3; 4; 5]] None true [EOk; EOk; EShort 1] [(final_name [97], [9])] in
  fst r = Some (Ret tt) /\ lookup (final_name [97]) (snd r) = Some [1; 2; 3].
Proof. exact ignore_policy_publishes_damage. Qed.

Theorem C08_temp_name_never_read : forall b1 b2, reader_base b2 -> tmp_name b1 <> read_name b2.
Proof. exact tmp_never_read. Qed.
Print Assumptions C08_temp_name_never_read.

(* a failed put is reported: the caller of put_chunk hears nothing only if the process died, and an exception is
   the mapped error of a call that failed (or the OSError of the short-write check); the first failing system call
   k raises its mapped error out of put_chunk; put_chunk_noraise hands every ChunkStoreError back as an object (and
   lets anything else propagate), and every OS-level error is such a ChunkStoreError *)
Theorem C08_put_noraise_reports : forall base writes trunc f k e rest,
  (k < List.length (put_ops base writes trunc))%nat ->
  let evs := repeat EOk k ++ EErr e :: rest in
  fst (put_chunk base writes trunc true evs f) = Some (Raise (standard_errors (error_map SNpy) e))
  /\ fst (put_chunk_noraise base writes trunc true evs f) =
     Some (if isinst (standard_errors (error_map SNpy) e) K_ChunkStoreError
           then Ret (Some (standard_errors (error_map SNpy) e)) else Raise (standard_errors (error_map SNpy) e))
  /\ (isinst e B_OSError = true -> isinst (standard_errors (error_map SNpy) e) K_ChunkStoreError = true).
Proof.
  intros base writes trunc f k e rest Hk evs. subst evs.
  pose proof (put_failure_reported base writes trunc f k e rest Hk) as H1.
  pose proof (noraise_spec base writes trunc true (repeat EOk k ++ EErr e :: rest) f) as [H2 _]. rewrite H1 in H2.
  split; [exact H1|]. split; [exact H2|]. exact (oserror_is_returned e).
Qed.
Print Assumptions C08_put_noraise_reports.

Theorem C08_put_outcome_classified : forall base writes trunc evs f,
  match fst (put_chunk base writes trunc true evs f) with
  | None => exists n, In (EDie n) evs
  | Some (Ret _) => True
  | Some (Raise e') => exists e, (In (EErr e) evs \/ e = B_OSError) /\ e' = standard_errors (error_map SNpy) e
  end.
Proof. exact put_outcome. Qed.
Print Assumptions C08_put_outcome_classified.

(* ==== damaged chunks loaded through ChunkStoreVisFlagsWeights / a v4 data set (Model/VfwDamage.v) ====
   "... is reported as a missing chunk (and therefore flagged data_lost when loaded through a data set)".
   ds is an NPY chunk store holding the four arrays of a data set, each with ITS OWN chunking (C06P.cfg_ok: positive
   chunks, the arrays agree on the length of every axis they have, a non-empty normalised preselection, p an element
   of the window); [files a id] are the bytes under the name of chunk (array a, start coordinates id), [cover ds a p]
   is the stored chunk of array a that covers element p.  file_damaged = absent, or the first k bytes (ANY k, 0
   included) of a well-formed chunk file; file_healthy = a complete well-formed file of the promised dtype/shape.
   Whatever the four chunkings are (same block counts with shifted boundaries included):
   - an element covered by a damaged vis chunk is zero AND carries data_lost;
   - an element covered by a damaged weights or weights_channel chunk has weight zero AND carries data_lost;
   - an element covered by a damaged flags chunk carries data_lost and no other flag;
   - an element all of whose four covering chunks are healthy comes back as stored, flags unchanged (no spurious
     data_lost: the flagged elements are EXACTLY those of the damaged chunks). *)
Theorem C08_damaged_chunk_zero_filled_and_flagged :
  forall (parse_hdr : bytes -> option hdr) (print_hdr : hdr -> bytes) (ok : hdr -> Prop),
  (forall m, ok m -> parse_hdr (print_hdr m) = Some m) ->
  forall ds files wants p,
  npy_backed parse_hdr ds files wants -> C06P.cfg_ok (cfg_of_dstore ds) p ->
  (file_damaged print_hdr ok (files A_VIS (cover ds A_VIS p)) ->
     dmg_vis ds p = 0 /\ Z.testbit (dmg_flags ds p) 3 = true) /\
  (file_damaged print_hdr ok (files A_W (cover ds A_W p)) \/ file_damaged print_hdr ok (files A_WC (cover ds A_WC p)) ->
     dmg_weights ds p = 0 /\ Z.testbit (dmg_flags ds p) 3 = true) /\
  (file_damaged print_hdr ok (files A_FLAGS (cover ds A_FLAGS p)) ->
     Z.testbit (dmg_flags ds p) 3 = true /\ forall i, 0 <= i -> i <> 3 -> Z.testbit (dmg_flags ds p) i = false) /\
  ((forall a, In a arrays4 -> file_healthy print_hdr ok (files a (cover ds a p)) (wants a (cover ds a p))) ->
     dmg_vis ds p = stored_at ds A_VIS p /\ dmg_weights ds p = stored_at ds A_W p * stored_at ds A_WC p /\
     dmg_flags ds p = stored_at ds A_FLAGS p).
Proof. exact damaged_chunk_zero_filled_and_flagged. Qed.
Print Assumptions C08_damaged_chunk_zero_filled_and_flagged.

(* the same for ANY back-end and ANY low-level behaviour, in terms of what the getter selected by vis_flags_weights
   answers for the chunk: zero / data_lost exactly where that getter returned filler *)
Theorem C08_loaded_values_follow_the_getters : forall ds p, C06P.cfg_ok (cfg_of_dstore ds) p ->
  dmg_vis ds p = (if chunk_missing ds A_VIS (cover ds A_VIS p) then 0 else stored_at ds A_VIS p) /\
  dmg_weights ds p = (if chunk_missing ds A_W (cover ds A_W p) || chunk_missing ds A_WC (cover ds A_WC p) then 0
                      else stored_at ds A_W p * stored_at ds A_WC p) /\
  dmg_flags ds p =
    Z.lor (if chunk_missing ds A_FLAGS (cover ds A_FLAGS p) then DATA_LOST else stored_at ds A_FLAGS p)
          (if chunk_missing ds A_VIS (cover ds A_VIS p) || chunk_missing ds A_W (cover ds A_W p)
              || chunk_missing ds A_WC (cover ds A_WC p) then DATA_LOST else 0).
Proof. exact dmg_values. Qed.
Print Assumptions C08_loaded_values_follow_the_getters.

(* filler is answered only for a low-level raise that the store's error map turns into a ChunkNotFound: a chunk that
   decodes is never zero-filled, whatever its dtype/shape *)
Theorem C08_filler_only_for_notfound : forall k s lo v, vfw_getter k s lo = Ret v -> is_filler v = true ->
  exists e, lo = LRaise e /\ isinst (standard_errors (error_map s) e) K_ChunkNotFound = true.
Proof. exact getter_filler_only_if_raised. Qed.
Print Assumptions C08_filler_only_for_notfound.

(* S3: an object cut at any offset (whole-object Content-Length) or a 404 is filler for both getters *)
Theorem C08_s3_damaged_object_is_filler :
  forall (parse_hdr : bytes -> option hdr) (print_hdr : hdr -> bytes) (ok : hdr -> Prop),
  (forall m, ok m -> parse_hdr (print_hdr m) = Some m) ->
  forall k major nb m body n want, ok m -> wf_file print_hdr major nb m body ->
  existsb (Z.eqb major) [1; 2] = true -> (n < List.length (encode print_hdr major nb m body))%nat ->
  (exists v, vfw_getter k SS3 (low_of_object parse_hdr (Some (firstn n (encode print_hdr major nb m body))) want) = Ret v
             /\ is_filler v = true) /\
  (exists v, vfw_getter k SS3 (low_of_object parse_hdr None want) = Ret v /\ is_filler v = true).
Proof. exact s3_damaged_is_filler. Qed.
Print Assumptions C08_s3_damaged_object_is_filler.

(* the load as a whole: damage alone never fails it; a decodable chunk of the wrong dtype/shape covering ANY element
   of the preselected window fails it with BadChunk (never zero-filled); an exception out of a load is never a
   ChunkNotFound; the chunk covering an element of the window is always among the chunks the load asks for *)
Theorem C08_damaged_store_loads :
  forall (parse_hdr : bytes -> option hdr) (print_hdr : hdr -> bytes) (ok : hdr -> Prop),
  (forall m, ok m -> parse_hdr (print_hdr m) = Some m) ->
  forall ds files wants, npy_backed parse_hdr ds files wants ->
  (forall a id, In (a, id) (needed ds) ->
     file_damaged print_hdr ok (files a id) \/ file_healthy print_hdr ok (files a id) (wants a id)) ->
  load_errors ds = [].
Proof. exact damaged_store_loads. Qed.
Print Assumptions C08_damaged_store_loads.

Theorem C08_mismatched_chunk_fails_load :
  forall (parse_hdr : bytes -> option hdr) (print_hdr : hdr -> bytes) (ok : hdr -> Prop),
  (forall m, ok m -> parse_hdr (print_hdr m) = Some m) ->
  forall ds files wants p a, npy_backed parse_hdr ds files wants ->
  C06P.cfg_ok (cfg_of_dstore ds) p -> In a arrays4 ->
  file_mismatched print_hdr ok (files a (cover ds a p)) (wants a (cover ds a p)) ->
  In K_BadChunk (load_errors ds) /\ load_errors ds <> [].
Proof. exact mismatched_chunk_fails_load. Qed.
Print Assumptions C08_mismatched_chunk_fails_load.

Theorem C08_load_errors_classified : forall ds,
  (forall e, In e (load_errors ds) <-> exists a id, In (a, id) (needed ds) /\ chunk_outcome ds a id = Raise e) /\
  (forall e, In e (load_errors ds) -> isinst e K_ChunkNotFound = false) /\
  (forall p a, C06P.cfg_ok (cfg_of_dstore ds) p -> In a arrays4 -> In (a, cover ds a p) (needed ds)).
Proof.
  intro ds. split; [exact (load_error_iff ds)|]. split; [exact (load_error_not_notfound ds)|].
  intros p a. exact (covering_chunk_is_needed ds p a).
Qed.
Print Assumptions C08_load_errors_classified.

(* the lost-map section, the zero-fill loop, _apply_data_lost and _default_zero of the CURRENT vis_flags_weights.py
   are, statement by statement, the code the model was written against (translated source lines) *)
Theorem C08_vfw_source_is_modelled : lostmap_is_modelled = true /\ fill_is_modelled = true.
Proof. exact src_is_modelled. Qed.
Print Assumptions C08_vfw_source_is_modelled.

(* non-vacuity / teeth: vis time chunks (3,1) against flags time chunks (2,2) (same block counts, shifted boundary),
   vis chunk 0 cut to 3 bytes: dumps 0..2 are zero and flagged -- dump 2 lies in the OTHER flags chunk -- dump 3 is not *)
Theorem C08_shifted_boundaries_example :
  (forall t f, In t [0; 1; 2; 3] -> In f [0; 1] -> C06P.cfg_ok (cfg_of_dstore ex_ds) [t; f; 0]) /\
  load_errors ex_ds = [] /\
  map (dmg_vis ex_ds) [[0; 0; 0]; [1; 0; 0]; [2; 0; 0]; [3; 0; 0]] = [0; 0; 0; 17] /\
  map (dmg_flags ex_ds) [[0; 0; 0]; [1; 0; 0]; [2; 0; 0]; [3; 0; 0]] = [9; 11; 13; 7] /\
  map (dmg_weights ex_ds) [[0; 0; 0]; [1; 0; 0]; [2; 0; 0]; [3; 0; 0]] = [2; 2; 2; 2].
Proof. exact (conj ex_ds_ok ex_ds_values). Qed.
Print Assumptions C08_shifted_boundaries_example.

(* ChunkStore.get_dask_array(errors=...): which getter (and with which keyword arguments) reads the chunks, for EVERY
   value of `errors`, from the translated if/elif chain: a number -> get_chunk_or_default(default_value=errors);
   'placeholder' -> get_chunk_or_placeholder(dryrun=False); 'dryrun' -> placeholders without reading; 'raise' ->
   get_chunk; any other string -> ValueError.  vis_flags_weights asks for DATA_LOST (a number) for flags and for
   'placeholder' for every other array.  The dtype/shape test after decoding of each concrete store compares both
   attributes and raises BadChunk (translated per store). *)
Theorem C08_getter_selection :
  get_dask_array_getter ErrNum = GDefault /\
  get_dask_array_getter (ErrStr "placeholder") = GPlaceholder false /\
  get_dask_array_getter (ErrStr "dryrun") = GPlaceholder true /\
  get_dask_array_getter (ErrStr "raise") = GGet /\
  (forall s, String.eqb s "placeholder" = false -> String.eqb s "dryrun" = false -> String.eqb s "raise" = false ->
     get_dask_array_getter (ErrStr s) = GValueError) /\
  vfw_errors_arg AFlags = ErrNum /\ vfw_errors_arg AOther = ErrStr "placeholder".
Proof. exact getter_selection_total. Qed.
Print Assumptions C08_getter_selection.

Theorem C08_decoded_check_per_store : forall s, decoded_check s = (true, true, K_BadChunk).
Proof. exact decoded_check_all. Qed.
Print Assumptions C08_decoded_check_per_store.

(* ==== the concrete header text: the hypothesis "the parser reads back what the printer writes" is a THEOREM for the
   parser the executable model runs with (numpy's canonical header of a simple dtype), for every descriptor made of
   printable characters other than quote and backslash, every shape of any rank, any padding ==== *)
Theorem C08_header_parser_reads_back_printer : forall pad m,
  descr_ok (h_descr m) -> parse_hdr_c (print_hdr_c pad m) = Some m.
Proof. exact parse_print_c. Qed.
Print Assumptions C08_header_parser_reads_back_printer.

(* ... so the framing theorem holds for real header text with no assumption on the parser left: *)
Theorem C08_truncation_never_data_concrete : forall pad major nb m body k,
  descr_ok (h_descr m) -> wf_file (print_hdr_c pad) major nb m body ->
  (k < List.length (encode (print_hdr_c pad) major nb m body))%nat ->
  np_load parse_hdr_c (firstn k (encode (print_hdr_c pad) major nb m body)) = Err (if Nat.eqb k 0 then EEOF else EValue)
  /\ (existsb (Z.eqb major) [1; 2] = true ->
      s3_read_array parse_hdr_c (firstn k (encode (print_hdr_c pad) major nb m body)) = Err EIncomplete).
Proof. exact truncation_never_data_c. Qed.
Print Assumptions C08_truncation_never_data_concrete.

Theorem C08_complete_file_decodes_concrete : forall pad major nb m body,
  descr_ok (h_descr m) -> wf_file (print_hdr_c pad) major nb m body ->
  np_load parse_hdr_c (encode (print_hdr_c pad) major nb m body) = Ok (m, body).
Proof. exact decode_encode_c. Qed.
Print Assumptions C08_complete_file_decodes_concrete.

(* ... every proper prefix of a real chunk file is filler for the getter of flags and of the other arrays, the whole
   file is data; and the data-set level statement without any hypothesis on the parser *)
Theorem C08_chunk_file_prefixes_concrete : forall pad k major nb m body n want,
  hdr_ok m -> wf_file (print_hdr_c pad) major nb m body ->
  (n < List.length (encode (print_hdr_c pad) major nb m body))%nat ->
  (exists v, vfw_getter k SNpy (low_of_file parse_hdr_c (Some (firstn n (encode (print_hdr_c pad) major nb m body))) want) = Ret v
             /\ is_filler v = true) /\
  vfw_getter k SNpy (low_of_file parse_hdr_c (Some (encode (print_hdr_c pad) major nb m body)) m) = Ret Stored.
Proof. exact npy_prefixes_c. Qed.
Print Assumptions C08_chunk_file_prefixes_concrete.

Theorem C08_damaged_chunk_zero_filled_and_flagged_concrete : forall pad ds files wants p,
  npy_backed parse_hdr_c ds files wants -> C06P.cfg_ok (cfg_of_dstore ds) p ->
  (file_damaged (print_hdr_c pad) hdr_ok (files A_VIS (cover ds A_VIS p)) ->
     dmg_vis ds p = 0 /\ Z.testbit (dmg_flags ds p) 3 = true) /\
  (file_damaged (print_hdr_c pad) hdr_ok (files A_W (cover ds A_W p)) \/
   file_damaged (print_hdr_c pad) hdr_ok (files A_WC (cover ds A_WC p)) ->
     dmg_weights ds p = 0 /\ Z.testbit (dmg_flags ds p) 3 = true) /\
  (file_damaged (print_hdr_c pad) hdr_ok (files A_FLAGS (cover ds A_FLAGS p)) ->
     Z.testbit (dmg_flags ds p) 3 = true /\ forall i, 0 <= i -> i <> 3 -> Z.testbit (dmg_flags ds p) i = false) /\
  ((forall a, In a arrays4 -> file_healthy (print_hdr_c pad) hdr_ok (files a (cover ds a p)) (wants a (cover ds a p))) ->
     dmg_vis ds p = stored_at ds A_VIS p /\ dmg_weights ds p = stored_at ds A_W p * stored_at ds A_WC p /\
     dmg_flags ds p = stored_at ds A_FLAGS p).
Proof. exact damaged_chunk_zero_filled_and_flagged_c. Qed.
Print Assumptions C08_damaged_chunk_zero_filled_and_flagged_concrete.

(* non-vacuity of the concrete statements: the 128-byte (10 + 118) header numpy writes for a (2, 3, 2) complex64 chunk *)
Theorem C08_concrete_header_example :
  let m := mkhdr [60; 99; 56] false [2%nat; 3%nat; 2%nat] in
  descr_ok (h_descr m) /\ List.length (print_hdr_c 55 m) = 118%nat /\ parse_hdr_c (print_hdr_c 55 m) = Some m /\
  wf_file (print_hdr_c 55) 1 2 m (repeat 7 96).
Proof. exact ex_hdr_roundtrip. Qed.
Print Assumptions C08_concrete_header_example.

(* ==== unreachable / unauthorised stores under a data set ====
   a low-level failure on ANY chunk inside the window that the store's (translated) error map turns into a
   StoreUnavailable fails the load with it: not zero-filled, not flagged.  For the S3 store these are exactly the
   listed classes (connection, timeout, TLS, proxy, HTTP-status errors, 401/403 = AuthorisationFailed, InvalidToken). *)
Theorem C08_unavailable_store_fails_load : forall ds a id e,
  In (a, id) (needed ds) -> d_low ds a id = LRaise e ->
  isinst (standard_errors (error_map (d_store ds)) e) K_StoreUnavailable = true ->
  In (standard_errors (error_map (d_store ds)) e) (load_errors ds) /\ load_errors ds <> [] /\
  chunk_missing ds a id = false.
Proof. exact unavailable_fails_load. Qed.
Print Assumptions C08_unavailable_store_fails_load.

Theorem C08_s3_error_classes :
  classes_mapped_to SS3 K_StoreUnavailable =
    [K_StoreUnavailable; K_AuthorisationFailed; K_InvalidToken; R_RequestException; R_ChunkedEncodingError;
     R_ConnectionError; R_Timeout; R_ConnectTimeout; R_ContentDecodingError; R_HTTPError; R_InvalidHeader;
     R_InvalidJSONError; R_InvalidURL; R_InvalidProxyURL; R_InvalidSchema; R_JSONDecodeError; R_MissingSchema;
     R_ProxyError; R_SSLError; R_StreamConsumedError; R_TooManyRedirects; R_URLRequired; R_UnrewindableBodyError] /\
  classes_mapped_to SS3 K_ChunkNotFound =
    [K_ChunkNotFound; K_S3ObjectNotFound; K_S3ServerGlitch; R_ReadTimeout; R_RetryError; U_MaxRetryError] /\
  classes_mapped_to SDict K_ChunkNotFound = [B_KeyError; B_IndexError; K_ChunkNotFound; K_S3ObjectNotFound; K_S3ServerGlitch].
Proof. exact s3_classes. Qed.
Print Assumptions C08_s3_error_classes.

(* finding C08-F5c (REPAIRED): the NPY store reports every OS error of a read other than "no such file" (EACCES, ENOTDIR,
   EISDIR, EIO, connection / timeout errors of a network file system: every OSError subclass of the enum) as
   StoreUnavailable; neither getter of vis_flags_weights turns it into filler; on any needed chunk of a data set it fails
   the load (not zero-filled, not flagged).  Full strength over the enum / all data sets. *)
Theorem C08_npy_oserrors_are_unavailable : forall e k,
  isinst e B_OSError = true -> isinst e B_FileNotFoundError = false ->
  isinst (standard_errors (error_map SNpy) e) K_StoreUnavailable = true /\
  vfw_getter k SNpy (LRaise e) = Raise (standard_errors (error_map SNpy) e).
Proof. intros e k H1 H2. split; [exact (npy_oserror_is_unavailable e H1 H2)|exact (npy_oserror_not_filled k e H1 H2)]. Qed.
Print Assumptions C08_npy_oserrors_are_unavailable.

Theorem C08_npy_unreadable_store_fails_load : forall ds a id e,
  d_store ds = SNpy -> In (a, id) (needed ds) -> d_low ds a id = LRaise e ->
  isinst e B_OSError = true -> isinst e B_FileNotFoundError = false ->
  exists u, isinst u K_StoreUnavailable = true /\ In u (load_errors ds) /\ load_errors ds <> [] /\
            chunk_missing ds a id = false.
Proof. exact npy_unreadable_store_fails_load. Qed.
Print Assumptions C08_npy_unreadable_store_fails_load.

(* teeth: with the error map of the unrepaired source nothing was a StoreUnavailable and PermissionError was filler *)
Theorem C08_npy_read_unavailable_refuted_before_fix :
  filter (fun e => isinst (standard_errors npy_map_before_f5b e) K_StoreUnavailable) all_exn = [] /\
  standard_errors npy_map_before_f5b B_PermissionError = K_ChunkNotFound /\
  isinst B_PermissionError B_OSError = true /\ isinst B_PermissionError B_FileNotFoundError = false.
Proof. exact npy_read_unavailable_refuted_before_fix. Qed.
Print Assumptions C08_npy_read_unavailable_refuted_before_fix.

(* ==== undecodable chunks that are NOT a prefix of a valid one (findings C08-F5b / C08-F5d, REPAIRED) ====
   S3ChunkStore.get_chunk on an object with ANY content (all byte strings, any header parser): the stored body, or a
   ChunkStoreError -- never a raw exception, never other data (C08_data_only_if_decodes).  Full strength.
   NpyFileChunkStore.get_chunk on a file with ANY content, or no file: the same -- GUARD (hence _partial): the file does
   not start with a zip signature.  With one, np.load takes its NpzFile branch: an archive that is not well formed
   raises zipfile.BadZipFile, which the repaired map reports as ChunkNotFound (C08_undecodable_classes_are_mapped; the
   model reads EVERY zip-signature file this way), but a WELL-FORMED zip archive under a chunk name comes back as an
   NpzFile object and get_chunk raises AttributeError outside the guarded block: open finding C08-F5h. *)
Theorem C08_s3_any_object_is_reported : forall (parse_hdr : bytes -> option hdr) bs want e,
  s3_get_chunk parse_hdr bs want = Raise e -> isinst e K_ChunkStoreError = true.
Proof. exact s3_any_object_is_reported. Qed.
Print Assumptions C08_s3_any_object_is_reported.

Theorem C08_npy_any_file_is_reported_partial : forall (parse_hdr : bytes -> option hdr) file want e,
  (forall bs, file = Some bs -> np_load parse_hdr bs <> Err EZip) ->
  npy_get_chunk parse_hdr file want = Raise e -> isinst e K_ChunkStoreError = true.
Proof. intros p file want e _. exact (npy_any_file_is_reported p file want e). Qed.
Print Assumptions C08_npy_any_file_is_reported_partial.

(* the classes a decoder raises on such bytes, through the translated maps: NPY -> ChunkNotFound (EOFError, ValueError,
   BadZipFile, TokenError), S3 -> BadChunk (ValueError, TokenError) / S3ServerGlitch (truncation) *)
Theorem C08_undecodable_classes_are_mapped :
  forallb (fun e => exn_eqb (standard_errors (error_map SNpy) e) K_ChunkNotFound)
          [B_EOFError; B_ValueError; Z_BadZipFile; T_TokenError; B_UnicodeDecodeError] = true /\
  forallb (fun e => exn_eqb (standard_errors (error_map SS3) e) K_BadChunk)
          [B_ValueError; T_TokenError; B_UnicodeDecodeError] = true /\
  standard_errors (error_map SS3) U_MaxRetryError = K_S3ServerGlitch /\
  isinst K_ChunkNotFound K_ChunkStoreError = true /\ isinst K_BadChunk K_ChunkStoreError = true /\
  isinst K_S3ServerGlitch K_ChunkStoreError = true.
Proof. exact undecodable_classes_are_mapped. Qed.
Print Assumptions C08_undecodable_classes_are_mapped.

(* teeth: with the maps of the unrepaired source these classes escaped as raw exceptions *)
Theorem C08_undecodable_raw_before_fix :
  standard_errors npy_map_before_f5b Z_BadZipFile = Z_BadZipFile /\
  standard_errors npy_map_before_f5b T_TokenError = T_TokenError /\
  standard_errors s3_map_before_f5d B_ValueError = B_ValueError /\
  standard_errors s3_map_before_f5d T_TokenError = T_TokenError /\
  isinst Z_BadZipFile K_ChunkStoreError = false /\ isinst T_TokenError K_ChunkStoreError = false /\
  isinst B_ValueError K_ChunkStoreError = false.
Proof. exact undecodable_raw_before_fix. Qed.
Print Assumptions C08_undecodable_raw_before_fix.

(* ==== histories of puts to one chunk name (any number of puts, each with its own list of environment answers: crashes,
   errors, short writes, leftovers of a dead writer's temp file) ====
   - the chunk name always holds what it held before the history or the COMPLETE content of one of the puts;
   - once a put has reported success the name holds that put's content or the complete content of a LATER put: nothing
     older and nothing partial comes back, whatever fails afterwards;
   - re-putting the same content over a complete copy is stable. *)
Theorem C08_put_history_atomic : forall base ps f,
  lookup (final_name base) (snd (run_puts base ps f)) = lookup (final_name base) f \/
  exists p, In p ps /\ lookup (final_name base) (snd (run_puts base ps f)) = Some (pr_new p).
Proof. exact puts_final_is_some_put. Qed.
Print Assumptions C08_put_history_atomic.

Theorem C08_put_history_last_success_or_later : forall base pre p post f,
  nth (List.length pre) (fst (run_puts base (pre ++ p :: post) f)) None = Some (Ret tt) ->
  lookup (final_name base) (snd (run_puts base (pre ++ p :: post) f)) = Some (pr_new p) \/
  exists q, In q post /\ lookup (final_name base) (snd (run_puts base (pre ++ p :: post) f)) = Some (pr_new q).
Proof. exact puts_history. Qed.
Print Assumptions C08_put_history_last_success_or_later.

Theorem C08_put_same_content_stable : forall base writes trunc meta_ok evs f,
  lookup (final_name base) f = Some (new_content writes trunc) ->
  lookup (final_name base) (snd (put_chunk base writes trunc meta_ok evs f)) = Some (new_content writes trunc).
Proof. exact put_same_content_stable. Qed.
Print Assumptions C08_put_same_content_stable.

Theorem C08_put_history_example :
  let A := {| pr_writes := [[1; 2]; [3]]; pr_trunc := None; pr_meta := true; pr_evs := [] |} in
  let B := {| pr_writes := [[7; 7]; [8; 8]]; pr_trunc := None; pr_meta := true; pr_evs := [EOk; EOk; EShort 1; EErr B_OSError] |} in
  let C := {| pr_writes := [[9; 9; 9]]; pr_trunc := None; pr_meta := true; pr_evs := [EOk; EDie 2] |} in
  let r := run_puts [97] [A; B; C] [] in
  nth 0 (fst r) None = Some (Ret tt) /\ nth 1 (fst r) None <> Some (Ret tt) /\ nth 2 (fst r) None = None /\
  lookup (final_name [97]) (snd r) = Some [1; 2; 3].
Proof. exact puts_history_example. Qed.
Print Assumptions C08_put_history_example.

(* ==== the S3 store at the level of one HTTP exchange (Model/S3Wire.v) ====
   READ.  A response is (what the server HOLDS under the key: the first [held] bytes of a well-formed object, i.e. an
   object truncated in the store at any byte; the Content-Length it ANNOUNCES: any number or none; what it DELIVERS:
   the first [delivered] bytes of what it holds).  For every combination the read path returns data only when the
   complete chunk arrived and the response is exactly the chunk; otherwise IncompleteRead.  The detector guards are
   the ones translated from _DetectTruncation. *)
Theorem C08_s3_response_never_data_unless_complete :
  forall (parse_hdr : bytes -> option hdr) (print_hdr : hdr -> bytes),
  (forall m, parse_hdr (print_hdr m) = Some m) ->
  forall major nb m body held delivered cl,
  wf_file print_hdr major nb m body -> existsb (Z.eqb major) s3_versions = true ->
  s3_fetch parse_hdr detect_of_source s3_versions cl (response_stream (encode print_hdr major nb m body) held delivered cl) =
  if complete (List.length (encode print_hdr major nb m body)) held delivered cl then Ok (m, body) else Err EIncomplete.
Proof. exact s3_response_never_data_unless_complete. Qed.
Print Assumptions C08_s3_response_never_data_unless_complete.

Theorem C08_s3_response_never_data_unless_complete_concrete : forall pad major nb m body held delivered cl,
  descr_ok (h_descr m) -> wf_file (print_hdr_c pad) major nb m body -> existsb (Z.eqb major) s3_versions = true ->
  s3_fetch parse_hdr_c detect_of_source s3_versions cl
           (response_stream (encode (print_hdr_c pad) major nb m body) held delivered cl) =
  if complete (List.length (encode (print_hdr_c pad) major nb m body)) held delivered cl then Ok (m, body) else Err EIncomplete.
Proof. exact s3_response_never_data_unless_complete_c. Qed.
Print Assumptions C08_s3_response_never_data_unless_complete_concrete.

(* through S3ChunkStore.get_chunk and the two absorbing getters: an incomplete response is S3ServerGlitch (a
   ChunkNotFound) / default fill / placeholder -- never data; a complete one is the stored body *)
Theorem C08_s3_incomplete_response_is_missing :
  forall (parse_hdr : bytes -> option hdr) (print_hdr : hdr -> bytes),
  (forall m, parse_hdr (print_hdr m) = Some m) ->
  forall major nb m body held delivered cl want,
  wf_file print_hdr major nb m body -> existsb (Z.eqb major) s3_versions = true ->
  complete (List.length (encode print_hdr major nb m body)) held delivered cl = false ->
  s3_get_response parse_hdr detect_of_source cl
                  (response_stream (encode print_hdr major nb m body) held delivered cl) want = Raise K_S3ServerGlitch
  /\ get_chunk_or_default SS3 (lowres_of_response parse_hdr detect_of_source cl
                  (response_stream (encode print_hdr major nb m body) held delivered cl) want) = Ret DefaultFill
  /\ get_chunk_or_placeholder SS3 (lowres_of_response parse_hdr detect_of_source cl
                  (response_stream (encode print_hdr major nb m body) held delivered cl) want) = Ret Placeholder.
Proof. exact s3_incomplete_response_is_glitch. Qed.
Print Assumptions C08_s3_incomplete_response_is_missing.

Theorem C08_s3_complete_response_is_data :
  forall (parse_hdr : bytes -> option hdr) (print_hdr : hdr -> bytes),
  (forall m, parse_hdr (print_hdr m) = Some m) ->
  forall major nb m body held delivered cl,
  wf_file print_hdr major nb m body -> existsb (Z.eqb major) s3_versions = true ->
  complete (List.length (encode print_hdr major nb m body)) held delivered cl = true ->
  s3_get_response parse_hdr detect_of_source cl
                  (response_stream (encode print_hdr major nb m body) held delivered cl) m = Ret body.
Proof. exact s3_complete_response_is_data. Qed.
Print Assumptions C08_s3_complete_response_is_data.

(* an object cut in the store at byte k (honest Content-Length k), the same object cut in flight at byte k (whole
   Content-Length) and the older bytes-only model of the S3 read agree: IncompleteRead *)
Theorem C08_s3_store_truncation_same_as_in_flight :
  forall (parse_hdr : bytes -> option hdr) (print_hdr : hdr -> bytes),
  (forall m, parse_hdr (print_hdr m) = Some m) ->
  forall major nb m body k,
  wf_file print_hdr major nb m body -> existsb (Z.eqb major) s3_versions = true ->
  (k < List.length (encode print_hdr major nb m body))%nat ->
  let full := encode print_hdr major nb m body in
  s3_fetch parse_hdr detect_of_source s3_versions (Some k) (response_stream full k k (Some k)) = Err EIncomplete
  /\ s3_fetch parse_hdr detect_of_source s3_versions (Some (List.length full))
              (response_stream full (List.length full) k (Some (List.length full))) = Err EIncomplete
  /\ s3_read_array parse_hdr (firstn k full) = Err EIncomplete.
Proof. exact s3_store_truncation_same_as_in_flight. Qed.
Print Assumptions C08_s3_store_truncation_same_as_in_flight.

(* teeth: with the guard "the response still owes us something" (seeded change 7) an object that lost its last byte
   in the store is returned as data; the statements of read_array / _read_chunk / _request / request / put_chunk /
   mark_complete / create_array / _put_map_blocks are the modelled ones and the translated guards are the good ones *)
Theorem C08_s3_owed_rule_refutes :
  let n := List.length tiny_file in
  exists body, s3_fetch parse_hdr_c (mkdetect RdEmpty RiOwed) s3_versions (Some (n - 1)%nat)
                        (response_stream tiny_file (n - 1) (n - 1) (Some (n - 1)%nat)) = Ok (tiny_hdr, body)
               /\ body <> [7; 9]
  /\ s3_fetch parse_hdr_c good_detect s3_versions (Some (n - 1)%nat)
              (response_stream tiny_file (n - 1) (n - 1) (Some (n - 1)%nat)) = Err EIncomplete
  /\ s3_fetch parse_hdr_c (mkdetect RdEmpty RiOwed) s3_versions (Some n)
              (response_stream tiny_file n (n - 1) (Some n)) = Err EIncomplete.
Proof. exact owed_rule_refutes. Qed.
Print Assumptions C08_s3_owed_rule_refutes.

Theorem C08_s3_source_is_modelled :
  detect_of_source = good_detect /\ s3_read_is_modelled = true /\ request_is_modelled = true /\ s3_put_is_modelled = true
  /\ ignored_of "put_chunk" = Some [] /\ ignored_of "mark_complete" = Some [] /\ ignored_of "_create_bucket" = Some [409].
Proof.
  exact (conj detect_of_source_good (conj s3_read_src_is_modelled (conj request_src_is_modelled
         (conj s3_put_src_is_modelled put_chunk_ignores_nothing)))).
Qed.
Print Assumptions C08_s3_source_is_modelled.

(* WRITE.  _raise_for_status (translated range, chain and classes) raises for EVERY status in 300..599 that is not
   ignored -- client and server errors alike -- and for nothing else; what it raises is a chunk-store error that the S3
   error map passes unchanged *)
Theorem C08_s3_every_error_status_raises : forall ign s,
  (300 <= s < 600 -> memZ s ign = false ->
   exists e, raise_for_status ign s = Some e /\ standard_errors (error_map SS3) e = e /\ isinst e K_ChunkStoreError = true)
  /\ (forall e, raise_for_status ign s = Some e -> 300 <= s < 600 /\ memZ s ign = false).
Proof. exact every_error_status_raises. Qed.
Print Assumptions C08_s3_every_error_status_raises.

(* request(): for every force list, every number of status retries, every ignored list and every sequence of server
   answers all of which are refusals (a 3xx / 4xx / 5xx status that is not ignored, or an attempt failing inside requests) the
   request raises a chunk-store error; it returns only a status the server gave to an attempt actually made *)
Theorem C08_s3_refused_request_raises : forall fl ign answers n,
  Forall (refusal ign) answers ->
  exists e, request_run fl n ign answers = Raise e /\ isinst e K_ChunkStoreError = true.
Proof. exact refused_request_raises. Qed.
Print Assumptions C08_s3_refused_request_raises.

Theorem C08_s3_request_returns_only_accepted : forall fl ign answers n s,
  request_run fl n ign answers = Ret s ->
  In (AStatus s) (firstn (request_attempts fl n answers) answers) /\ ~ (300 <= s < 600 /\ memZ s ign = false).
Proof. exact request_returns_only_accepted. Qed.
Print Assumptions C08_s3_request_returns_only_accepted.

(* "a failed put is reported rather than swallowed" on the S3 store, FULL strength (finding C08-F5g repaired: the guard
   "every answer is a 4xx / 5xx status" is gone).  For every Retry configuration and EVERY list of server answers --
   final HTTP responses (status 200..599; 1xx are interim responses that never reach requests as the result) or attempts
   failing inside requests -- : if no attempt that was made got a 2xx answer (nothing was stored), put_chunk raises a
   chunk-store error and put_chunk_noraise returns that error object; and success is reported only when the object
   was stored. *)
Theorem C08_s3_failed_put_is_reported : forall rc answers,
  Forall final_answer answers ->
  stored_after (forcelist rc) (status_retries rc) answers = false ->
  exists e, s3_put_chunk rc true answers = Raise e /\ isinst e K_ChunkStoreError = true
            /\ s3_put_chunk_noraise rc true answers = Ret (Some e).
Proof. exact s3_failed_put_is_reported. Qed.
Print Assumptions C08_s3_failed_put_is_reported.

Theorem C08_s3_put_success_means_stored : forall rc answers,
  Forall final_answer answers ->
  (s3_put_chunk rc true answers = Ret tt \/ s3_put_chunk_noraise rc true answers = Ret None) ->
  stored_after (forcelist rc) (status_retries rc) answers = true.
Proof. exact s3_put_success_means_stored. Qed.
Print Assumptions C08_s3_put_success_means_stored.

(* the instance for refusals (3xx / 4xx / 5xx not ignored, failing attempts), with "nothing is stored" as a conclusion *)
Theorem C08_s3_refused_put_is_reported : forall rc answers,
  Forall (refusal []) answers ->
  (exists e, s3_put_chunk rc true answers = Raise e /\ isinst e K_ChunkStoreError = true
             /\ s3_put_chunk_noraise rc true answers = Ret (Some e))
  /\ stored_after (forcelist rc) (status_retries rc) answers = false.
Proof. exact s3_refused_put_is_reported. Qed.
Print Assumptions C08_s3_refused_put_is_reported.

(* teeth: finding C08-F5g before the repair -- with the status test `400 <= status < 600` a PUT answered 301 without a
   Location header (nothing for requests to follow) raised nothing; the translated test reports it *)
Theorem C08_s3_failed_put_is_reported_refuted_before_fix :
  raise_for_status_errors_only [] 301 = None /\ accepted 301 = false
  /\ raise_for_status [] 301 = Some K_StoreUnavailable
  /\ s3_put_chunk (default_retry 0) true [AStatus 301] = Raise K_StoreUnavailable
  /\ s3_put_chunk_noraise (default_retry 0) true [AStatus 301] = Ret (Some K_StoreUnavailable)
  /\ stored_after (forcelist (default_retry 0)) (status_retries (default_retry 0)) [AStatus 301] = false.
Proof. exact failed_put_is_reported_refuted_before_fix. Qed.
Print Assumptions C08_s3_failed_put_is_reported_refuted_before_fix.

Theorem C08_s3_put_success_means_accepted : forall rc answers,
  s3_put_chunk_noraise rc true answers = Ret None ->
  exists s, In (AStatus s) (firstn (request_attempts (forcelist rc) (status_retries rc) answers) answers)
            /\ ~ (300 <= s < 600).
Proof. exact s3_put_success_means_accepted. Qed.
Print Assumptions C08_s3_put_success_means_accepted.

Theorem C08_s3_put_dask_array_reports : forall rc blocks res,
  s3_put_dask_array rc blocks = Ret res ->
  List.length res = List.length blocks /\
  forall i a, nth_error blocks i = Some a -> Forall (refusal []) a ->
    exists e, nth_error res i = Some (Some e) /\ isinst e K_ChunkStoreError = true.
Proof. exact s3_put_dask_array_reports. Qed.
Print Assumptions C08_s3_put_dask_array_reports.

Theorem C08_s3_put_dask_array_completes : forall rc blocks,
  Forall (fun a => Forall (refusal []) a \/ exists s, a = [AStatus s] /\ accepted s = true /\ memZ s (forcelist rc) = false) blocks ->
  exists res, s3_put_dask_array rc blocks = Ret res.
Proof. exact s3_put_dask_array_never_fails_on_refusals. Qed.
Print Assumptions C08_s3_put_dask_array_completes.

Theorem C08_s3_mark_complete_reports : forall rc bucket marker,
  (Forall (refusal [409]) bucket ->
   exists e, s3_mark_complete rc bucket marker = Raise e /\ isinst e K_ChunkStoreError = true)
  /\ (forall s, request_run (forcelist rc) (status_retries rc) [409] bucket = Ret s -> Forall (refusal []) marker ->
      exists e, s3_mark_complete rc bucket marker = Raise e /\ isinst e K_ChunkStoreError = true)
  /\ (s3_mark_complete rc bucket marker = Ret tt ->
      exists s, In (AStatus s) (firstn (request_attempts (forcelist rc) (status_retries rc) marker) marker)
                /\ ~ (300 <= s < 600)).
Proof. exact s3_mark_complete_reports. Qed.
Print Assumptions C08_s3_mark_complete_reports.

(* full strength for put_dask_array and mark_complete: a block of which nothing was stored has its error object in its
   slot; mark_complete reports success only when the marker object was stored *)
Theorem C08_s3_put_dask_array_reports_unstored : forall rc blocks res,
  s3_put_dask_array rc blocks = Ret res ->
  forall i a, nth_error blocks i = Some a -> Forall final_answer a ->
    stored_after (forcelist rc) (status_retries rc) a = false ->
    exists e, nth_error res i = Some (Some e) /\ isinst e K_ChunkStoreError = true.
Proof. exact s3_put_dask_array_reports_unstored. Qed.
Print Assumptions C08_s3_put_dask_array_reports_unstored.

Theorem C08_s3_mark_complete_success_means_stored : forall rc bucket marker,
  Forall final_answer marker -> s3_mark_complete rc bucket marker = Ret tt ->
  stored_after (forcelist rc) (status_retries rc) marker = true.
Proof. exact s3_mark_complete_success_means_stored. Qed.
Print Assumptions C08_s3_mark_complete_success_means_stored.

(* teeth / examples: a status test that only covers 4xx (seeded change 8) lets 507 through; the translated one does not *)
Theorem C08_s3_client_errors_only_refutes :
  raise_for_status_4xx_only [] 507 = None /\ raise_for_status [] 507 = Some K_StoreUnavailable
  /\ s3_put_chunk_noraise (default_retry 0) true [AStatus 507] = Ret (Some K_StoreUnavailable)
  /\ s3_put_chunk_noraise (default_retry 0) true [AStatus 503] = Ret (Some K_S3ServerGlitch)
  /\ s3_put_chunk_noraise (default_retry 1) true [AStatus 503; AStatus 200] = Ret None
  /\ s3_put_chunk_noraise (default_retry 1) true [AStatus 503; AStatus 507] = Ret (Some K_StoreUnavailable).
Proof. exact client_errors_only_refutes. Qed.
Print Assumptions C08_s3_client_errors_only_refutes.
