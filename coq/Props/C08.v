(* C08 -- Damaged/mismatched chunks and unreachable stores never masquerade as data.  Only statements here. *)
From Coq Require Import ZArith List Bool String.
From KV Require Import Base.Sx Base.Str Gen.Generated Model.Npy Model.StoreErr Proofs.StoreErrP.
Import ListNotations.
Open Scope Z_scope.

Theorem C08_only_notfound_is_absorbed : forall s lo,
  match get_chunk s lo with
  | Ret v => get_chunk_or_default s lo = Ret v /\ get_chunk_or_placeholder s lo = Ret v /\ v = Stored
  | Raise e =>
      if isinst e K_ChunkNotFound
      then get_chunk_or_default s lo = Ret DefaultFill /\ get_chunk_or_placeholder s lo = Ret Placeholder
      else get_chunk_or_default s lo = Raise e /\ get_chunk_or_placeholder s lo = Raise e
  end.
Proof. exact or_default_spec. Qed.
Print Assumptions C08_only_notfound_is_absorbed.
