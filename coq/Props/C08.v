(* C08 -- Damaged/mismatched chunks and unreachable stores never masquerade as data.  Only statements here. *)
From Coq Require Import ZArith List Bool String.
From KV Require Import Base.Sx Base.Str Gen.Generated Model.Npy Model.StoreErr Proofs.NpyP Proofs.StoreErrP.
Import ListNotations.
Open Scope Z_scope.

(* ---- framing: for every header, body and size, no proper prefix of a well-formed .npy file decodes ----
   The header text parser is any function that reads back what the writer prints. *)
Theorem C08_truncation_never_data :
  forall (parse_hdr : bytes -> option hdr) (print_hdr : hdr -> bytes),
  (forall m, parse_hdr (print_hdr m) = Some m) ->
  forall major nb m body k,
  wf_file print_hdr major nb m body ->
  (k < List.length (encode print_hdr major nb m body))%nat ->
  np_load parse_hdr (firstn k (encode print_hdr major nb m body)) = Err (if Nat.eqb k 0 then EEOF else EValue)
  /\ (existsb (Z.eqb major) [1; 2] = true ->
      s3_read_array parse_hdr (firstn k (encode print_hdr major nb m body)) = Err EIncomplete).
Proof.
  intros p q H major nb m body k Hwf Hk. split.
  - exact (truncation_never_data p q H major nb m body k Hwf Hk).
  - intro Hv. exact (s3_truncation_never_data p q H major nb m body k Hwf Hv Hk).
Qed.
Print Assumptions C08_truncation_never_data.

(* non-vacuity: the complete file does decode, to exactly what was written *)
Theorem C08_complete_file_decodes :
  forall (parse_hdr : bytes -> option hdr) (print_hdr : hdr -> bytes),
  (forall m, parse_hdr (print_hdr m) = Some m) ->
  forall major nb m body, wf_file print_hdr major nb m body ->
  np_load parse_hdr (encode print_hdr major nb m body) = Ok (m, body).
Proof. exact decode_encode. Qed.
Print Assumptions C08_complete_file_decodes.

(* through the stores: every truncation offset is a missing chunk (NPY: ChunkNotFound, S3: S3ServerGlitch, a
   ChunkNotFound), a missing file is a missing chunk, and data only ever comes from a file that decodes with
   the requested dtype and shape.  Uses the error maps translated from the source (incl. the EOFError entry). *)
Theorem C08_truncated_chunk_is_reported_missing :
  forall (parse_hdr : bytes -> option hdr) (print_hdr : hdr -> bytes),
  (forall m, parse_hdr (print_hdr m) = Some m) ->
  forall major nb m body k want,
  wf_file print_hdr major nb m body ->
  (k < List.length (encode print_hdr major nb m body))%nat ->
  npy_get_chunk parse_hdr (Some (firstn k (encode print_hdr major nb m body))) want = Raise K_ChunkNotFound
  /\ (existsb (Z.eqb major) [1; 2] = true ->
      s3_get_chunk parse_hdr (firstn k (encode print_hdr major nb m body)) want = Raise K_S3ServerGlitch)
  /\ isinst K_S3ServerGlitch K_ChunkNotFound = true
  /\ npy_get_chunk parse_hdr None want = Raise K_ChunkNotFound.
Proof.
  intros p q H major nb m body k want Hwf Hk. split; [|split; [|split]].
  - exact (npy_truncated_is_notfound p q H major nb m body k want Hwf Hk).
  - intro Hv. exact (s3_truncated_is_glitch p q H major nb m body k want Hwf Hv Hk).
  - exact (proj2 (proj2 (proj2 (proj2 npy_map_on_decode_errors)))).
  - exact (npy_missing_is_notfound p want).
Qed.
Print Assumptions C08_truncated_chunk_is_reported_missing.

Theorem C08_data_only_if_decodes :
  forall (parse_hdr : bytes -> option hdr) file want body,
  npy_get_chunk parse_hdr file want = Ret body ->
  exists bs m, file = Some bs /\ np_load parse_hdr bs = Ok (m, body)
               /\ h_shape m = h_shape want /\ h_descr m = h_descr want.
Proof. exact npy_data_only_if_decodes. Qed.
Print Assumptions C08_data_only_if_decodes.

(* ---- classification: for each of the four error maps and EVERY class of the 103-element enum, what leaves a
   guarded block is one of the three standard errors taken from the map, or the exception itself ---- *)
Theorem C08_standard_errors_classifies : forall s e,
  (map_catches s e = true /\ is_std (standard_errors (error_map s) e) = true /\
   In (standard_errors (error_map s) e) (map snd (error_map s)))
  \/ (map_catches s e = false /\ standard_errors (error_map s) e = e).
Proof. exact standard_errors_classifies. Qed.
Print Assumptions C08_standard_errors_classifies.

(* the three standard classes are disjoint, the translated tables resolve and the class statements of the
   source have the bases of the model *)
Theorem C08_tables_tied :
  (forall e, (isinst e K_ChunkNotFound && (isinst e K_BadChunk || isinst e K_StoreUnavailable)) = false /\
             (isinst e K_BadChunk && isinst e K_StoreUnavailable) = false)
  /\ absorbed_default = [K_ChunkNotFound] /\ absorbed_placeholder = [K_ChunkNotFound]
  /\ noraise_returned = [K_ChunkStoreError]
  /\ forallb (fun p => match exn_of_name (fst p), resolve_names (snd p) with
                       | Some e, Some l => exns_eqb (bases e) l | _, _ => false end) c08_class_bases = true.
Proof.
  split; [exact std_disjoint|].
  destruct absorbed_is_notfound as [A [B C]].
  split; [exact A|]. split; [exact B|]. split; [exact C|]. exact (proj1 class_bases_tied).
Qed.
Print Assumptions C08_tables_tied.

(* ---- only ChunkNotFound is absorbed: every store, every low-level result (array with right/wrong dtype and
   shape, or any exception of the enum) ---- *)
Theorem C08_only_notfound_is_absorbed : forall s lo,
  match get_chunk s lo with
  | Ret v => get_chunk_or_default s lo = Ret v /\ get_chunk_or_placeholder s lo = Ret v /\ v = Stored
  | Raise e =>
      if isinst e K_ChunkNotFound
      then get_chunk_or_default s lo = Ret DefaultFill /\ get_chunk_or_placeholder s lo = Ret Placeholder
      else get_chunk_or_default s lo = Raise e /\ get_chunk_or_placeholder s lo = Raise e
  end.
Proof. exact or_default_spec. Qed.
Print Assumptions C08_only_notfound_is_absorbed.

Theorem C08_bad_or_unavailable_never_filled : forall s lo e,
  get_chunk s lo = Raise e ->
  (isinst e K_BadChunk = true \/ isinst e K_StoreUnavailable = true \/ is_std e = false) ->
  get_chunk_or_default s lo = Raise e /\ get_chunk_or_placeholder s lo = Raise e.
Proof. exact bad_or_unavailable_never_filled. Qed.
Print Assumptions C08_bad_or_unavailable_never_filled.

Theorem C08_mismatch_is_badchunk : forall s shape_ok dtype_ok,
  shape_ok && dtype_ok = false ->
  get_chunk s (LArray shape_ok dtype_ok) = Raise K_BadChunk
  /\ get_chunk_or_default s (LArray shape_ok dtype_ok) = Raise K_BadChunk
  /\ get_chunk_or_placeholder s (LArray shape_ok dtype_ok) = Raise K_BadChunk.
Proof.
  intros s so dk H.
  assert (G : get_chunk s (LArray so dk) = Raise K_BadChunk) by (destruct so, dk; try discriminate; reflexivity).
  split; [exact G|]. apply (bad_or_unavailable_never_filled s _ K_BadChunk G). left. reflexivity.
Qed.
Print Assumptions C08_mismatch_is_badchunk.

(* loading a cell through ChunkStoreVisFlagsWeights: a successful load flags data_lost exactly on the arrays
   whose chunk was a ChunkNotFound; any other failure of any array makes the load fail *)
Theorem C08_load_flags_lost_or_fails : forall s arrays,
  (forall flags, vfw_load s arrays = Ret flags ->
     Forall2 (fun a lost =>
                (lost = false /\ snd a = LArray true true) \/
                (lost = true /\ exists e, get_chunk s (snd a) = Raise e /\ isinst e K_ChunkNotFound = true))
             arrays flags)
  /\ (forall k lo e, In (k, lo) arrays -> get_chunk s lo = Raise e -> isinst e K_ChunkNotFound = false ->
        exists e', vfw_load s arrays = Raise e').
Proof. intros s arrays. split; [exact (vfw_load_spec s arrays)|exact (vfw_load_fails s arrays)]. Qed.
Print Assumptions C08_load_flags_lost_or_fails.

(* ---- put_chunk is atomic: whatever the writes are, for every crash point, every failing system call and
   every harmful short write, the final name holds the previous content or the complete new chunk; success is
   reported only when the new chunk is in place; the temp name is not the final name ---- *)
Theorem C08_put_atomic : forall base writes trunc meta_ok flt f,
  fault_in_scope flt trunc ->
  let r := put_chunk base writes trunc meta_ok flt f in
  (lookup (final_name base) (snd r) = lookup (final_name base) f
   \/ lookup (final_name base) (snd r) = Some (new_content writes trunc))
  /\ (fst r = Some (Ret tt) -> lookup (final_name base) (snd r) = Some (new_content writes trunc)).
Proof. exact put_atomic. Qed.
Print Assumptions C08_put_atomic.

Example C08_put_atomic_nonvacuous :
  lookup (final_name [97]) (snd (put_chunk [97] [[1; 2]; [3]] None true NoFault [(final_name [97], [9])])) = Some [1; 2; 3]
  /\ lookup (final_name [97]) (snd (put_chunk [97] [[1; 2]; [3]] None true (Crash 2 [3]) [(final_name [97], [9])])) = Some [9]
  /\ lookup (tmp_name [97]) (snd (put_chunk [97] [[1; 2]; [3]] None true (Crash 2 [3]) [(final_name [97], [9])])) = Some [1; 2; 3].
Proof. vm_compute. auto. Qed.

Theorem C08_temp_name_never_read : forall b1 b2, reader_base b2 -> tmp_name b1 <> read_name b2.
Proof. exact tmp_never_read. Qed.
Print Assumptions C08_temp_name_never_read.

(* a failed put is reported: the failing system call k of the put raises the mapped error out of put_chunk,
   put_chunk_noraise hands every ChunkStoreError back as an object (and lets anything else propagate), and
   every OS-level error is such a ChunkStoreError *)
Theorem C08_put_noraise_reports : forall base writes trunc f k part e,
  (k < List.length (put_ops base writes trunc))%nat ->
  fst (put_chunk base writes trunc true (Fail k part e) f) = Some (Raise (standard_errors (error_map SNpy) e))
  /\ fst (put_chunk_noraise base writes trunc true (Fail k part e) f) =
     Some (if isinst (standard_errors (error_map SNpy) e) K_ChunkStoreError
           then Ret (Some (standard_errors (error_map SNpy) e)) else Raise (standard_errors (error_map SNpy) e))
  /\ (isinst e B_OSError = true -> isinst (standard_errors (error_map SNpy) e) K_ChunkStoreError = true).
Proof.
  intros base writes trunc f k part e Hk.
  pose proof (put_failure_reported base writes trunc _ f k part e eq_refl Hk) as H1.
  pose proof (noraise_spec base writes trunc true (Fail k part e) f) as [H2 _]. rewrite H1 in H2.
  split; [exact H1|]. split; [exact H2|]. exact (oserror_is_returned e).
Qed.
Print Assumptions C08_put_noraise_reports.
