(* C13 — Applying calibration: composition, invalid-gain handling and invertibility.  Only statements here. *)
From Coq Require Import ZArith QArith Qcanon List Bool String.
From KV Require Import Base.Sx Gen.Generated Model.Applycal Proofs.ApplycalP.
Import ListNotations.

(* The flag raised by apply_flags_correction (name regenerated from applycal.py, value from flags.py) is bit 7. *)
Theorem C13_postproc_bit : POSTPROC = 128%Z.
Proof. exact postproc_is_128. Qed.
Print Assumptions C13_postproc_bit.
