(* C13 — Applying calibration: composition, invalid-gain handling and invertibility.  Only statements here.
   Model: Model/Applycal.v (katdal/applycal.py calc_correction, calc_correction_per_corrprod, the three kernels,
   block-wise evaluation).  C := CNaN | CFin re im over canonical rationals; no IEEE arithmetic.
   gp t c i p = the correction of product p for input i that data channel c receives at dump t
   (through p's channel map);  factor = what calc_correction_per_corrprod computes for one corrprod. *)
From Coq Require Import ZArith QArith Qabs Qcanon List Bool String Permutation.
From KV Require Import Base.Sx Gen.Generated Model.Applycal Proofs.ApplycalP Model.ApplycalSol Proofs.ApplycalSolP Proofs.ApplycalElemP Proofs.ApplycalHoldP Model.ApplycalName Proofs.ApplycalNameP Model.ApplycalRound Proofs.ApplycalRoundP.
Import ListNotations.

(* The flag raised by apply_flags_correction (constant name regenerated from applycal.py, value from flags.py). *)
Theorem C13_postproc_bit : POSTPROC = 128%Z.
Proof. exact postproc_is_128. Qed.
Print Assumptions C13_postproc_bit.

(* The code multiplies per input over the products and then forms g(i1) * conj(g(i2)); for ALL values (NaN
   included) this is the product over the cal products of correction(i1) * conj(correction(i2)). *)
Theorem C13_factor_is_product : forall prods t c cp,
  factor prods t c cp =
  Cprod (map (fun p => Cmul (gp t c (fst cp) p) (Cconj (gp t c (snd cp) p))) prods).
Proof. exact factor_product. Qed.
Print Assumptions C13_factor_is_product.

(* Composition: where that product is a number a+bi, vis' = vis * it, weight' = weight / |it|^2 (it <> 0),
   flags unchanged. *)
Theorem C13_composition : forall prods t c cp d w fl a b,
  Cprod (map (fun p => Cmul (gp t c (fst cp) p) (Cconj (gp t c (snd cp) p))) prods) = CFin a b ->
  apply_vis d (factor prods t c cp) = Cmul d (CFin a b) /\
  (norm2 a b <> 0%Qc -> apply_weights w (factor prods t c cp) = (w / norm2 a b)%Qc) /\
  apply_flags fl (factor prods t c cp) = fl.
Proof. exact composition. Qed.
Print Assumptions C13_composition.

(* factor = 0 (an "infinite gain") is outside the property; the code then zeroes the weight. *)
Theorem C13_zero_factor_weight : forall w a b, norm2 a b = 0%Qc -> apply_weights w (CFin a b) = 0%Qc.
Proof. exact apply_weights_zero. Qed.
Print Assumptions C13_zero_factor_weight.

Theorem product_order_irrelevant : forall prods prods' t c cp,
  Permutation prods prods' -> factor prods t c cp = factor prods' t c cp.
Proof. exact factor_perm. Qed.
Print Assumptions product_order_irrelevant.

(* Invalid gains: the factor is NaN exactly when some contributing correction is NaN ... *)
Theorem C13_invalid_iff : forall prods t c cp,
  factor prods t c cp = CNaN <->
  exists p, In p prods /\ (gp t c (fst cp) p = CNaN \/ gp t c (snd cp) p = CNaN).
Proof. exact factor_nan_iff. Qed.
Print Assumptions C13_invalid_iff.

(* ... and then the visibility is left as stored, the weight is zero and postproc is raised. *)
Theorem C13_invalid : forall prods t c cp d w fl,
  (exists p, In p prods /\ (gp t c (fst cp) p = CNaN \/ gp t c (snd cp) p = CNaN)) ->
  apply_vis d (factor prods t c cp) = d /\
  apply_weights w (factor prods t c cp) = 0%Qc /\
  apply_flags fl (factor prods t c cp) = Z.lor fl 128.
Proof. exact invalid. Qed.
Print Assumptions C13_invalid.

(* A finite stored visibility never becomes NaN, whatever the factor (NaN included). *)
Theorem finite_stays_finite : forall d f, d <> CNaN -> apply_vis d f <> CNaN.
Proof. exact ApplycalP.finite_stays_finite. Qed.
Print Assumptions finite_stays_finite.

(* Any chunking of the time and channel axes (block-wise evaluation as in _correction_block, blocks assembled
   as dask does) yields the pointwise factor at every coordinate, hence so does any loaded subset. *)
Theorem chunk_independent : forall prods ninputs cps tch cch t c b,
  cps_ok ninputs cps -> (t < total tch)%nat -> (c < total cch)%nat -> (b < List.length cps)%nat ->
  nth b (nth c (nth t (assemble (corr_block prods ninputs cps) tch cch) []) []) CNaN
  = factor prods t c (nth b cps (0%nat, 0%nat)).
Proof. exact chunk_independent_corr. Qed.
Print Assumptions chunk_independent.

(* The nearest-channel map picks a cal channel minimising |f_cal - f_data|, the first among equals. *)
Theorem nearest_channel_minimises : forall cal fd, cal <> [] ->
  (nearest cal fd < List.length cal)%nat /\
  (forall j, (j < List.length cal)%nat ->
     (Qabs (fd - nth (nearest cal fd) cal 0) <= Qabs (fd - nth j cal 0))%Q) /\
  (forall j, (j < nearest cal fd)%nat ->
     (Qabs (fd - nth (nearest cal fd) cal 0) < Qabs (fd - nth j cal 0))%Q).
Proof. exact nearest_minimises. Qed.
Print Assumptions nearest_channel_minimises.

(* Each product is mapped by its OWN channelisation: whatever map calc_correction chooses (broadcast, direct
   slice, nearest cal-stream channel) data channel c receives the entry of the correction vector whose own
   frequency is nearest to the frequency of c, when the vector is (a) channel-independent, (b) a K/B correction
   given on the data channels, or (c) a gain-type correction given on the cal stream's channels (if that stream
   has as many channels as the data and lies within atol of them, the channels must be further apart than atol).
   Uses the regenerated decision expression: breaks if the K/B clause or the bound `expand` disappears. *)
Theorem C13_own_channelisation : forall data r own g c,
  product_ok data r own -> (c < List.length data)%nat ->
  map_chan (raw_map data r) g c = nth (nearest own (nth c data 0%Q)) g CNaN.
Proof. exact own_channelisation. Qed.
Print Assumptions C13_own_channelisation.

Theorem C13_maps_bound_per_product : forall ms, bind_maps ms = ms.
Proof. exact bind_maps_id. Qed.
Print Assumptions C13_maps_bound_per_product.

(* Invertibility (exact field identity): stored data multiplied by G(i1) * conj(G(i2)), G the product over the
   cal products of finite non-zero gains, and corrections 1/G_p -> the stored value is restored. *)
Theorem C13_inverts : forall (prods : list product) (G : product -> nat -> C) t c cp stored,
  (forall p i, In p prods -> fin_nz (G p i)) ->
  (forall p i, In p prods -> gp t c i p = Cinv (G p i)) ->
  stored <> CNaN ->
  apply_vis (Cmul stored (Cmul (Cprod (map (fun p => G p (fst cp)) prods))
                               (Cconj (Cprod (map (fun p => G p (snd cp)) prods)))))
            (factor prods t c cp) = stored.
Proof. exact inverts. Qed.
Print Assumptions C13_inverts.

(* Which subset is LOADED (katdal.open(..., preselect={'dumps': slice(t0, t0+T'), 'channels': slice(a, a+n)})):
   the factor computed by a data set holding only that part of the stream, at its dump t and channel c, is the
   factor the fully opened data set computes at dump t0 + t and channel a + c.
   _partial: the guard is built into the statement — the correction vectors of the loaded data set are
   `loaded_raw` of those of the whole one: the same vectors from dump t0 on, cut to the loaded channels for
   products given on the data channels (K, B; data channels distinct), unchanged for products on their own
   channelisation (product_ok for both channel lists).  calc_correction is handed the LOADED data frequencies
   (sub a n data): with the stream's frequencies instead (seeded change C13-4) the statement is false.
   The guard holds for K/B (solution in force, evaluated pointwise in frequency) but NOT for time-interpolated
   gains whose solutions fall outside the loaded dumps: C13_subset_loaded_refuted (finding C13-F3). *)
Theorem C13_subset_loaded_partial : forall data (rs : list (rawproduct * bool)) t0 a n t c cp,
  Forall (loaded_ok data t0 a n) rs -> (c < List.length (sub a n data))%nat ->
  factor (make_products (sub a n data) (map (fun rb => loaded_raw (snd rb) t0 a n (fst rb)) rs)) t c cp
  = factor (make_products data (map fst rs)) (t0 + t)%nat (a + c)%nat cp.
Proof. exact subset_loaded. Qed.
Print Assumptions C13_subset_loaded_partial.

(* A gain solution that is valid for an input and lies before (or after) the loaded dumps is not seen by the
   preselected data set: the input's correction is a number in the fully opened data set and NaN in the loaded one. *)
Theorem C13_subset_loaded_refuted : exists (evs : list (Z * bool)) (T a b : Z),
  (0 <= a < b)%Z /\ (b <= T)%Z /\ gain_has_valid 0 T evs = true /\ gain_has_valid a b evs = false.
Proof. exact subset_loaded_refuted. Qed.
Print Assumptions C13_subset_loaded_refuted.

(* ================================================================== from the SOLUTIONS to vis / weights / flags
   Model/ApplycalSol.v: a solution is NaN, infinite or a number (zero included); gain_corr_at / bandpass_corr_at /
   delay_corr_at are calc_gain_correction / calc_bandpass_correction / calc_delay_correction for one input (and
   channel); `mix` and `cis` evaluate what is not rational (see the model file), the theorems hold for every such
   pair (mix_ok / cis_ok where stated).  np.reciprocal is regenerated from the source (applycal_recip_plain). *)

(* reciprocal(z) is NaN exactly for NaN and for zero *)
Theorem C13_reciprocal_nan_iff : forall z,
  Cinv z = CNaN <-> z = CNaN \/ exists a b, z = CFin a b /\ norm2 a b = 0%Qc.
Proof. exact Cinv_nan_iff. Qed.
Print Assumptions C13_reciprocal_nan_iff.

(* no finite solution (missing, NaN, inf): the gain correction is INVALID at every dump *)
Theorem C13_gain_no_valid_solution : forall mix cis evs d,
  (forall e, In e evs -> sol_finite (snd e) = false) -> gain_corr_at mix cis evs d = CNaN.
Proof. exact gain_no_valid. Qed.
Print Assumptions C13_gain_no_valid_solution.

(* NaN / infinite solutions take no part in the interpolation *)
Theorem C13_gain_ignores_invalid : forall mix cis evs d,
  gain_corr_at mix cis evs d = gain_corr_at mix cis (filter (fun e => sol_finite (snd e)) evs) d.
Proof. exact gain_ignores_invalid. Qed.
Print Assumptions C13_gain_ignores_invalid.

(* all finite solutions of the input equal a+bi: the correction is reciprocal(a+bi) at every dump (NaN for zero) *)
Theorem C13_gain_constant_inverted : forall mix cis evs d a b,
  (exists x, In (x, SFin a b) evs) ->
  (forall e, In e evs -> sol_finite (snd e) = true -> snd e = SFin a b) ->
  gain_corr_at mix cis evs d = Cinv (CFin a b).
Proof. exact gain_constant. Qed.
Print Assumptions C13_gain_constant_inverted.

(* a solution AT dump d is inverted exactly, whatever the other solutions are; a zero one gives INVALID *)
Theorem C13_gain_at_solution : forall mix cis evs lo d a b,
  incr_evs lo evs -> In (d, SFin a b) evs -> gain_corr_at mix cis evs d = Cinv (CFin a b).
Proof. exact gain_at_solution. Qed.
Print Assumptions C13_gain_at_solution.

Theorem C13_gain_zero_at_dump : forall mix cis evs lo d,
  incr_evs lo evs -> In (d, SFin 0 0) evs -> gain_corr_at mix cis evs d = CNaN.
Proof. exact gain_zero_at_dump. Qed.
Print Assumptions C13_gain_zero_at_dump.

(* one finite solution and no zero one: the correction is a non-zero number at EVERY dump (never invalidates) *)
Theorem C13_gain_valid_everywhere : forall mix cis evs d,
  mix_ok mix ->
  (exists e, In e evs /\ sol_finite (snd e) = true) ->
  (forall x a b, In (x, SFin a b) evs -> norm2 a b <> 0%Qc) ->
  fin_nz (gain_corr_at mix cis evs d).
Proof. exact gain_valid_everywhere. Qed.
Print Assumptions C13_gain_valid_everywhere.

(* the invalid-gain clause, from the solutions: a dead input (every finite gain solution exactly zero, or none
   finite) leaves every visibility it takes part in as stored, zeroes the weight and raises postproc *)
Theorem C13_dead_input_flagged : forall mix cis prods t c cp evs d w fl,
  contributes prods t c cp (gain_corr_at mix cis evs (qz t)) ->
  (forall e, In e evs -> sol_finite (snd e) = true -> snd e = SFin 0 0) ->
  apply_vis d (factor prods t c cp) = d /\
  apply_weights w (factor prods t c cp) = 0%Qc /\
  apply_flags fl (factor prods t c cp) = Z.lor fl 128.
Proof. exact dead_input_flagged. Qed.
Print Assumptions C13_dead_input_flagged.

(* bandpass: a data channel lining up with cal channel k gets reciprocal(solution[k]) ... *)
Theorem C13_bandpass_at_channel : forall mix cis cal bp lo k f a b,
  incr_q lo cal -> nth_error cal k = Some f -> nth_error bp k = Some (SFin a b) ->
  bandpass_corr_at mix cis cal bp f = Cinv (CFin a b).
Proof. exact bandpass_at_channel. Qed.
Print Assumptions C13_bandpass_at_channel.

(* ... so a zero channel is left as stored, weight zero, postproc *)
Theorem C13_zero_bandpass_channel_flagged : forall mix cis prods t c cp cal bp lo k f d w fl,
  contributes prods t c cp (bandpass_corr_at mix cis cal bp f) ->
  incr_q lo cal -> nth_error cal k = Some f -> nth_error bp k = Some (SFin 0 0) ->
  apply_vis d (factor prods t c cp) = d /\
  apply_weights w (factor prods t c cp) = 0%Qc /\
  apply_flags fl (factor prods t c cp) = Z.lor fl 128.
Proof. exact zero_bandpass_channel_flagged. Qed.
Print Assumptions C13_zero_bandpass_channel_flagged.

(* no extrapolation beyond the valid cal channels, nothing from an all-invalid bandpass *)
Theorem C13_bandpass_no_extrapolation : forall mix cis cal bp f,
  (forall k c s, nth_error cal k = Some c -> nth_error bp k = Some s -> sol_finite s = true -> (f < c)%Q) \/
  (forall k c s, nth_error cal k = Some c -> nth_error bp k = Some s -> sol_finite s = true -> (c < f)%Q) ->
  bandpass_corr_at mix cis cal bp f = CNaN.
Proof. exact bandpass_no_extrapolation. Qed.
Print Assumptions C13_bandpass_no_extrapolation.

Theorem C13_bandpass_all_invalid : forall mix cis cal bp f,
  (forall s, In s bp -> sol_finite s = false) -> bandpass_corr_at mix cis cal bp f = CNaN.
Proof. exact bandpass_all_invalid. Qed.
Print Assumptions C13_bandpass_all_invalid.

(* delays: a missing (NaN) or zero delay is the unit correction; a finite delay never changes a weight *)
Theorem C13_delay_missing_is_unity : forall mix cis f, delay_corr_at mix cis SNaN f = Cone.
Proof. exact delay_missing_is_unity. Qed.
Print Assumptions C13_delay_missing_is_unity.

Theorem C13_delay_keeps_weight : forall mix cis a b f w,
  cis_ok cis -> apply_weights w (delay_corr_at mix cis (SFin a b) f) = w.
Proof. exact delay_finite_keeps_weight. Qed.
Print Assumptions C13_delay_keeps_weight.

(* ================================================================== which of the requested products are applied
   select_products skip reqs = the loop of calc_correction over the requested products (None = KeyError); a request
   is usable when every input has a correction sensor.  Uses the regenerated applycal_missing_skips_product. *)

(* lenient request ('all', 'default', a stream, bare types): exactly the usable requested products, each once, in
   the order of first mention *)
Theorem C13_selected_products : forall reqs,
  consistent reqs -> select_products true reqs = Some (spec_selected reqs []).
Proof. exact select_skip_spec. Qed.
Print Assumptions C13_selected_products.

Theorem C13_selected_has_every_usable : forall reqs q,
  In q reqs -> usable q = true -> In (q_name q) (keys (spec_selected reqs [])).
Proof. exact selected_has_usable. Qed.
Print Assumptions C13_selected_has_every_usable.

Theorem C13_selected_once : forall reqs, NoDup (keys (spec_selected reqs [])).
Proof. exact selected_nodup. Qed.
Print Assumptions C13_selected_once.

(* a product without solutions does not affect the others, WHEREVER it stands in the request *)
Theorem C13_missing_product_transparent : forall a m b,
  usable m = false -> select_products true (a ++ m :: b) = select_products true (a ++ b).
Proof. exact missing_product_transparent. Qed.
Print Assumptions C13_missing_product_transparent.

(* strict request (fully qualified names): all of them or KeyError *)
Theorem C13_selected_strict : forall reqs,
  consistent reqs -> forallb usable reqs = true -> select_products false reqs = Some (spec_selected reqs []).
Proof. exact select_strict_spec. Qed.
Print Assumptions C13_selected_strict.

Theorem C13_strict_missing_raises : forall reqs,
  forallb usable reqs = false -> select_products false reqs = None.
Proof. exact select_strict_missing. Qed.
Print Assumptions C13_strict_missing_raises.

(* composition over the products actually applied = the product formula over the usable requested ones *)
Theorem C13_applied_factor : forall reqs data sel t c cp,
  consistent reqs -> select_products true reqs = Some sel ->
  factor (make_products data (map snd sel)) t c cp =
  Cprod (map (fun p => Cmul (gp t c (fst cp) p) (Cconj (gp t c (snd cp) p)))
             (make_products data (map snd (spec_selected reqs [])))).
Proof. exact applied_factor. Qed.
Print Assumptions C13_applied_factor.

(* ================================================================== the corrected arrays themselves
   VisibilityDataV4._make_corrected: da.core.elemwise(kernel, stored, corrections) runs the kernel on matching
   blocks.  For ANY chunking of time x channel and a stored array of the matching shape, every element of the
   assembled result is kernel(stored element, factor): with C13_factor_is_product / C13_composition / C13_invalid
   this is the first sentence of the property for vis (kernel = apply_vis), weights and flags. *)
Theorem C13_corrected_pointwise : forall (A : Type) (kernel : A -> C -> A) (dflt : A) data prods ninputs cps tch cch,
  shape_ok data (total tch) (total cch) (List.length cps) -> cps_ok ninputs cps ->
  forall t c b, (t < total tch)%nat -> (c < total cch)%nat -> (b < List.length cps)%nat ->
  nth b (nth c (nth t (assemble (corrected_block kernel data prods ninputs cps) tch cch) []) []) dflt
  = kernel (nth b (nth c (nth t data []) []) dflt) (factor prods t c (nth b cps (0%nat, 0%nat))).
Proof. exact @corrected_pointwise. Qed.
Print Assumptions C13_corrected_pointwise.

(* flags: nothing but the postproc bit can change, and no bit is ever cleared *)
Theorem C13_flags_only_postproc : forall fl f n, n <> 7%Z -> Z.testbit (apply_flags fl f) n = Z.testbit fl n.
Proof. exact apply_flags_other_bits. Qed.
Print Assumptions C13_flags_only_postproc.

Theorem C13_flags_never_cleared : forall fl f n, Z.testbit fl n = true -> Z.testbit (apply_flags fl f) n = true.
Proof. exact apply_flags_monotone. Qed.
Print Assumptions C13_flags_never_cleared.

(* a unit factor changes neither visibility nor weight *)
Theorem C13_unit_factor : forall d w, apply_vis d Cone = d /\ apply_weights w Cone = w.
Proof. intros; split; [apply apply_vis_one | apply apply_weights_one]. Qed.
Print Assumptions C13_unit_factor.

(* correcting with f1 and then with f2 (numbers, non-zero) = correcting once with f1 * f2: vis, weights, flags *)
Theorem C13_two_stage : forall d w fl a b c e,
  norm2 a b <> 0%Qc -> norm2 c e <> 0%Qc ->
  apply_vis (apply_vis d (CFin a b)) (CFin c e) = apply_vis d (Cmul (CFin a b) (CFin c e)) /\
  apply_weights (apply_weights w (CFin a b)) (CFin c e) = apply_weights w (Cmul (CFin a b) (CFin c e)) /\
  apply_flags (apply_flags fl (CFin a b)) (CFin c e) = apply_flags fl (Cmul (CFin a b) (CFin c e)).
Proof. exact two_stage. Qed.
Print Assumptions C13_two_stage.

(* postproc raised by an invalid stage survives any later stage *)
Theorem C13_invalid_stage_sticks : forall fl f1 f2, f1 = CNaN ->
  Z.testbit (apply_flags (apply_flags fl f1) f2) 7 = true.
Proof. exact invalid_stage_sticks. Qed.
Print Assumptions C13_invalid_stage_sticks.

(* ================================================================== hold-type products and the loaded dumps
   K and B corrections are CategoricalData over the events the data set sees (Applycal.seen): dump t gets the
   solution in force (ApplycalSol.in_force: the last one at or before t, the first one before that).  For a data
   set holding dumps [a, b) of a stream with T dumps the solution in force at its dump t is the one in force at dump
   a + t of the fully opened data set - for events in time order, provided it sees a solution at all (some solution
   before dump b; otherwise katdal has no sensor value and raises).  Discharges the time axis of the guard of
   C13_subset_loaded_partial for K / B; gain types do not have it (C13_subset_loaded_refuted). *)
Theorem C13_hold_independent_of_loaded_dumps : forall (A : Type) (a b T t : Z),
  (0 <= a)%Z -> (0 <= t)%Z -> (a + t < b)%Z -> (b <= T)%Z ->
  forall (evs : list (Z * A)) lo, nondecr lo evs -> (exists x, In x evs /\ (fst x < b)%Z) ->
  in_force (seen a b evs) t = in_force (seen 0 T evs) (a + t)%Z.
Proof. exact @hold_independent_of_loaded_dumps. Qed.
Print Assumptions C13_hold_independent_of_loaded_dumps.

(* ================================================================== the dask name of the corrections array
   dask identifies a task by (array name, block index); arrays with one name computed in one graph are one array.
   corr_name tok final = the name calc_correction gives the corrections array of one call (format string, separator,
   `sorted` and the per-call token regenerated from the source); tok = uuid4().hex of the call (32 characters). *)

(* Equal names (tokens of one length) => the same call token and the same set of applied products: two views with
   different applycal, or two data sets, never share a corrections name.  Names are free of the separator. *)
Theorem C13_name_identifies_call_and_products : forall t1 t2 a b,
  List.length t1 = List.length t2 -> a <> [] -> b <> [] -> sep_free a -> sep_free b ->
  corr_name t1 a = corr_name t2 b -> t1 = t2 /\ Permutation a b.
Proof. exact corr_name_inj. Qed.
Print Assumptions C13_name_identifies_call_and_products.

(* Over a history of calc_correction calls (one per data set opened with applycal; pairwise different tokens of one
   length, some product applied): all corrections arrays have different names - whatever products, data sets,
   preselections they belong to.  False for the unrepaired code (name = products only: finding C13-F5). *)
Theorem C13_names_unique_per_call : forall calls n,
  NoDup (map fst calls) -> Forall (fun c => List.length (fst c) = n /\ snd c <> []) calls ->
  NoDup (names_of calls).
Proof. exact names_unique. Qed.
Print Assumptions C13_names_unique_per_call.

(* what must NOT matter: the order in which the products were requested *)
Theorem C13_name_order_irrelevant : forall t a b, Permutation a b -> corr_name t a = corr_name t b.
Proof. exact corr_name_perm. Qed.
Print Assumptions C13_name_order_irrelevant.

(* no product selected <=> no corrections array (the data set serves the stored arrays) *)
Theorem C13_no_products_no_corrections : forall t final, calc_name t final = None <-> final = [].
Proof. exact calc_name_none. Qed.
Print Assumptions C13_no_products_no_corrections.

(* chunks of the corrections array: time and channel chunks of the data; ONE chunk spanning the baseline axis
   whenever the data has more than one (regenerated limit), same extent *)
Theorem C13_corrections_chunks : forall tch cch bch,
  fst (fst (corr_chunks tch cch bch)) = tch /\ snd (fst (corr_chunks tch cch bch)) = cch /\
  sum_nat (snd (corr_chunks tch cch bch)) = sum_nat bch /\
  (List.length (snd (corr_chunks tch cch bch)) <= 1)%nat.
Proof. exact corr_chunks_all. Qed.
Print Assumptions C13_corrections_chunks.

(* ================================================================== restored to within rounding
   "data corrupted by known per-input gains, delays and bandpasses are restored to within single-precision rounding":
   the exact part is C13_inverts; the rounding is a STATED bound in the standard model of floating-point error
   analysis (every rounded operation returns exact * (1 + e), |e| <= eps; katdal only multiplies, conjugates and
   takes reciprocals between the solutions and the corrected visibility, so the errors multiply through). *)

(* n rounding steps of relative error at most eps:  prod (1 + e_k) = 1 + E  with  |E|^2 <= ((1 + eps)^n - 1)^2 *)
Theorem C13_rounding_accumulates : forall eps es, (0 <= eps)%Qc -> Forall (small eps) es ->
  exists a b, perturb es = CFin (1 + a) b /\
              (norm2 a b <= rbound eps (List.length es) * rbound eps (List.length es))%Qc.
Proof. exact perturb_bound. Qed.
Print Assumptions C13_rounding_accumulates.

(* clean = x + iy stored as clean * G(i1) * conj G(i2) (finite non-zero gains), corrections 1/G_p, rounding steps
   e1 on the stored value, e2 on the correction factor, e3 on the final product, each of magnitude <= eps:
   the corrected visibility is clean + d with |d|^2 <= ((1 + eps)^n - 1)^2 * |clean|^2 (n = number of steps);
   for n = 0 this is exact restoration. *)
Theorem C13_restored_within_rounding :
  forall (prods : list product) (G : product -> nat -> C) t c cp x y e1 e2 e3 eps,
  (forall p i, In p prods -> fin_nz (G p i)) ->
  (forall p i, In p prods -> gp t c i p = Cinv (G p i)) ->
  (0 <= eps)%Qc -> Forall (small eps) (e1 ++ e2 ++ e3) ->
  let A := Cmul (Cprod (map (fun p => G p (fst cp)) prods)) (Cconj (Cprod (map (fun p => G p (snd cp)) prods))) in
  let n := List.length (e1 ++ e2 ++ e3) in
  exists a b,
    Cmul (apply_vis (Cmul (Cmul (CFin x y) A) (perturb e1)) (Cmul (factor prods t c cp) (perturb e2))) (perturb e3)
    = CFin (x + a) (y + b)
    /\ (norm2 a b <= (rbound eps n * rbound eps n) * norm2 x y)%Qc.
Proof. exact restored_within_rounding. Qed.
Print Assumptions C13_restored_within_rounding.

(* Chunking on the baseline axis of the stored arrays: the corrections have ONE baseline chunk (C13_corrections_chunks)
   and dask's elemwise cuts them at the data's chunk boundaries; for ANY decomposition bch of the baseline axis the
   kernel applied piece by piece to one (dump, channel) row and concatenated is the kernel applied to the whole row -
   together with C13_corrected_pointwise (any decomposition of time x channel): independence of the chunking on all
   three axes. *)
Theorem C13_baseline_chunking_irrelevant : forall (A : Type) (kernel : A -> C -> A) bch d f,
  List.length d = sum_nat bch -> List.length f = sum_nat bch ->
  row_by_chunks kernel bch d f = map2 kernel d f.
Proof. exact @row_by_chunks_whole. Qed.
Print Assumptions C13_baseline_chunking_irrelevant.
