(* C11 — Categorical container operations preserve the per-dump sequence as documented.
   Only statements here.  cd = {uv; idx; ev} is the model of katdal.categorical.CategoricalData,
   expand dflt c : list V is the explicit per-dump list of values (the abstraction function),
   WF c is the invariant (events strictly increasing, |ev| = |idx| + 1, indices in range, unique values distinct),
   ndumps c = last event = number of dumps, start0 c = the first event is dump 0.
   Every theorem is for ALL series, ALL arguments, any value type V with a decidable equality veqb. *)
From Coq Require Import ZArith List Bool Arith Lia.
From KV Require Import Base.Sx Model.Categorical Model.CategoricalX Proofs.CategoricalP Proofs.CategoricalAddP
  Proofs.CategoricalPartP Proofs.CategoricalConcatP Proofs.CategoricalRemoveP Proofs.CategoricalAlignP
  Proofs.CategoricalSeqP Proofs.CategoricalXP Proofs.CategoricalXPartP Proofs.CategoricalLawsP
  Gen.Generated Proofs.CategoricalTieP Proofs.CategoricalExP Model.CategoricalH Proofs.CategoricalHP
  Proofs.CategoricalTieHP.
Import ListNotations.
Open Scope nat_scope.

Definition eq_dec_spec {V} (veqb : V -> V -> bool) := forall a b : V, veqb a b = true <-> a = b.

(* constructor CategoricalData(values, events): invariant established, per-dump list = the given events/values *)
Theorem C11_constructor : forall V (veqb : V -> V -> bool) (dflt : V), eq_dec_spec veqb ->
  forall values events, incr events -> length events = S (length values) ->
  WF (make veqb values events) /\ expand dflt (make veqb values events) = expand_evs events values.
Proof. intros V veqb dflt H values events I L. split. exact (make_WF veqb dflt H values events I L).
  exact (make_expand veqb dflt H values events). Qed.
Print Assumptions C11_constructor.

(* the length of the per-dump list and _lookup: dump p holds the value of the last event at or before p *)
Theorem C11_lookup : forall V (dflt : V) (c : cd) p, WF c -> hd 0 (ev c) <= p -> p < ndumps c ->
  length (expand dflt c) = ndumps c - hd 0 (ev c) /\
  exists i, lookup c p = Some i /\ i < length (uv c) /\ nth i (uv c) dflt = nth (p - hd 0 (ev c)) (expand dflt c) dflt.
Proof. intros. split. apply expand_length; auto. apply lookup_value; auto. Qed.
Print Assumptions C11_lookup.

(* getitem_expand: indexing by int / slice (any bounds, any step) / mask (one bool per dump) / int list gives the
   same answer (value, list of values, or IndexError) as the same indexing of the explicit per-dump list *)
Theorem C11_getitem_expand : forall V (dflt : V) (c : cd) (k : key), WF c -> start0 c ->
  (forall m, k = KMask m -> length m = ndumps c) ->
  getitem dflt c k = spec_getitem (expand dflt c) k.
Proof. exact @getitem_expand. Qed.
Print Assumptions C11_getitem_expand.

(* eq_expand: ==, !=, <, >, <=, >= with a value (any per-value predicate f) = the per-dump booleans *)
Theorem C11_eq_expand : forall V (dflt : V) (c : cd) (f : V -> bool), WF c ->
  cmp c f = map f (expand dflt c).
Proof. exact @cmp_expand. Qed.
Print Assumptions C11_eq_expand.

(* add_expand (with a value): defined for every dump e < N, keeps WF, still ends at N, starts at min(e, old start),
   only adds the boundary e, and overrides the per-dump list from e until the next existing event *)
Theorem C11_add_expand : forall V (veqb : V -> V -> bool) (dflt : V), eq_dec_spec veqb ->
  forall (c : cd) e v, WF c -> e < ndumps c ->
  exists c', add veqb c e (Some v) = Some c' /\ WF c' /\ ndumps c' = ndumps c /\
    hd 0 (ev c') = Nat.min e (hd 0 (ev c)) /\
    (forall y, In y (ev c') <-> y = e \/ In y (ev c)) /\
    expand dflt c' = spec_add (expand dflt c) (ev c) e (Some v).
Proof. exact @add_value_spec. Qed.
Print Assumptions C11_add_expand.

(* add without a value: only a boundary is added *)
Theorem C11_add_duplicate_expand : forall V (veqb : V -> V -> bool) (dflt : V) (c c' : cd) e,
  WF c -> add veqb c e None = Some c' ->
  WF c' /\ ndumps c' = ndumps c /\ hd 0 (ev c') = hd 0 (ev c) /\ uv c' = uv c /\
  (forall y, In y (ev c') <-> y = e \/ In y (ev c)) /\ expand dflt c' = expand dflt c.
Proof. exact @add_novalue_spec. Qed.
Print Assumptions C11_add_duplicate_expand.

(* add_unmatched_expand: identity on the per-dump list, only boundaries taken from segs are added *)
Theorem C11_add_unmatched_expand : forall V (veqb : V -> V -> bool) (dflt : V) (c : cd) segs dist, WF c ->
  let c' := add_unmatched veqb c segs dist in
  WF c' /\ ndumps c' = ndumps c /\ hd 0 (ev c') = hd 0 (ev c) /\ uv c' = uv c /\
  (forall y, In y (ev c) -> In y (ev c')) /\ (forall y, In y (ev c') -> In y (ev c) \/ In y segs) /\
  expand dflt c' = expand dflt c.
Proof. exact @add_unmatched_spec. Qed.
Print Assumptions C11_add_unmatched_expand.

(* remove_expand: WF kept, still ends at N; leading dumps of the removed value disappear, every other dump of
   the removed value takes the preceding kept value (ffill) *)
Theorem C11_remove_expand : forall V (veqb : V -> V -> bool) (dflt : V), eq_dec_spec veqb ->
  forall (c : cd) v, WF c ->
  WF (remove veqb c v) /\ ndumps (remove veqb c v) = ndumps c /\
  expand dflt (remove veqb c v) = ffill veqb v None (expand dflt c).
Proof. intros V veqb dflt H c v W. destruct (remove_WF veqb c v W). split; auto. split; auto.
  exact (remove_expand veqb dflt H c v W). Qed.
Print Assumptions C11_remove_expand.

(* remove_repeats_expand: identity on the per-dump list; afterwards adjacent events have different values *)
Theorem C11_remove_repeats_expand : forall V (dflt : V) (c c' : cd), WF c -> remove_repeats c = Some c' ->
  WF c' /\ ndumps c' = ndumps c /\ hd 0 (ev c') = hd 0 (ev c) /\ uv c' = uv c /\
  expand dflt c' = expand dflt c /\
  (forall k, S k < length (idx c') -> nth k (vals dflt c') dflt <> nth (S k) (vals dflt c') dflt).
Proof. intros V dflt c c' W H. destruct (remove_repeats_WF c c' W H) as (A & B & C & D).
  repeat (split; [assumption|]). split. exact (remove_repeats_expand dflt c c' W H).
  exact (remove_repeats_values_differ dflt c c' W H). Qed.
Print Assumptions C11_remove_repeats_expand.

(* nearest segment start: first minimum of |segs - e| = a closest start, ties to the smaller start; monotone *)
Theorem C11_nearest : forall segs e, incr segs -> segs <> [] ->
  In (nearest segs e) segs /\
  (forall s, In s segs -> absd e (nearest segs e) <= absd e s) /\
  (forall s, In s segs -> absd e s = absd e (nearest segs e) -> nearest segs e <= s) /\
  (forall e', e <= e' -> nearest segs e <= nearest segs e').
Proof. intros segs e I NE. split. apply nearest_In; auto. split. intros; apply nearest_min; auto.
  split. intros; apply nearest_tie; auto. intros; apply nearest_monotone; auto. Qed.
Print Assumptions C11_nearest.

(* align_expand: WF kept; every new event is one of the given segment starts; not more events than before; the
   series ends at nearest(N) (= N when N is a segment boundary); and the per-dump list is the ORIGINAL sequence
   of per-event values with every boundary moved onto its nearest segment start (spec_align) *)
Theorem C11_align_expand : forall V (dflt : V) (c : cd) segs c', WF c -> incr segs -> align dflt c segs = Some c' ->
  WF c' /\ Forall (fun e => In e segs) (ev c') /\ ndumps c' = nearest segs (ndumps c) /\
  (In (ndumps c) segs -> ndumps c' = ndumps c) /\ length (idx c') <= length (idx c) /\
  expand dflt c' = expand_evs (map (nearest segs) (ev c)) (vals dflt c).
Proof. intros V dflt c segs c' W I H. destruct (align_WF dflt c segs c' W I H) as (A & B & C & D).
  repeat (split; [assumption|]). split. intros; eapply align_ends; eauto. split; auto.
  exact (align_expand dflt c segs c' W I H). Qed.
Print Assumptions C11_align_expand.

(* partition: every part is WF, starts at 0, shares the unique values, and its per-dump list is the cut
   [start, end) of the per-dump list *)
Theorem C11_partition_parts : forall V (dflt : V) (c : cd) segs, WF c -> start0 c -> incr segs ->
  last segs 0 <= ndumps c ->
  map (expand dflt) (partition c segs) = spec_partition (expand dflt c) segs /\
  (forall p, In p (partition c segs) -> WF p /\ start0 p /\ idx p <> [] /\ uv p = uv c) /\
  list_sum (map ndumps (partition c segs)) = last segs 0 - hd 0 segs.
Proof. exact @partition_spec. Qed.
Print Assumptions C11_partition_parts.

(* concatenate_categorical of ANY well-formed parts starting at dump 0 (allow_repeats on or off) *)
Theorem C11_concatenate_expand : forall V (veqb : V -> V -> bool) (dflt : V), eq_dec_spec veqb ->
  forall (parts : list cd) ar cc,
  (forall p, In p parts -> WF p /\ start0 p /\ idx p <> []) ->
  concatenate veqb dflt parts ar = Some cc ->
  WF cc /\ start0 cc /\ ndumps cc = list_sum (map ndumps parts) /\
  expand dflt cc = concat (map (expand dflt) parts).
Proof. exact @concatenate_expand. Qed.
Print Assumptions C11_concatenate_expand.

(* partition_concat_id: for segment boundaries running from 0 to N, gluing the parts' per-dump lists gives the
   per-dump list back, and so does concatenate_categorical(partition) with or without repeats *)
Theorem C11_partition_concat_id : forall V (veqb : V -> V -> bool) (dflt : V), eq_dec_spec veqb ->
  forall (c : cd) segs ar, WF c -> start0 c -> incr segs -> hd 0 segs = 0 -> last segs 0 = ndumps c ->
  concat (map (expand dflt) (partition c segs)) = expand dflt c /\
  forall cc, concatenate veqb dflt (partition c segs) ar = Some cc ->
    expand dflt cc = expand dflt c /\ WF cc /\ start0 cc /\ ndumps cc = ndumps c.
Proof. exact @partition_concat_id. Qed.
Print Assumptions C11_partition_concat_id.

(* histories: any sequence of add / remove / add_unmatched / align (N among the boundaries) / remove_repeats
   with in-domain arguments keeps the invariant and the number of dumps *)
Theorem C11_histories : forall V (veqb : V -> V -> bool) (dflt : V), eq_dec_spec veqb ->
  forall ops (c c' : cd) N, WF c -> ndumps c = N -> Forall (op_ok N) ops ->
  run_ops veqb dflt c ops = Some c' -> WF c' /\ ndumps c' = N.
Proof. exact @run_ops_WF. Qed.
Print Assumptions C11_histories.

(* tie: the constants of katdal/categorical.py re-read from the source on every run are the ones the model uses *)
Theorem C11_source_constants :
  cat_lookup_side_right = true /\ cat_add_side_left = true /\ cat_partition_side_right = true /\
  cat_match_dist_default = 1%Z /\ cat_unmatched_is_gt = true /\ cat_align_keeps_increasing = true /\
  cat_allow_repeats_default = false /\ cat_repeats_removed_unless_allowed = true.
Proof. exact cat_constants_ok. Qed.
Print Assumptions C11_source_constants.

(* non-vacuity: the hypotheses are satisfiable and the operations do something on a concrete series *)
Example C11_example :
  WF ex_c /\ start0 ex_c /\ expand 0 ex_c = [7;7;8;8;8;7;9;9;9;9] /\
  option_map (expand 0) (add Nat.eqb ex_c 3 (Some 5)) = Some [7;7;8;5;5;7;9;9;9;9] /\
  expand 0 (remove Nat.eqb ex_c 7) = [8;8;8;8;9;9;9;9] /\
  option_map (expand 0) (align 0 ex_c [0; 4; 10]) = Some [8;8;8;8;9;9;9;9;9;9] /\
  map (expand 0) (partition ex_c [0; 3; 10]) = [[7;7;8]; [8;8;7;9;9;9;9]] /\
  option_map (expand 0) (concatenate Nat.eqb 0 (partition ex_c [0; 3; 10]) false) = Some (expand 0 ex_c) /\
  getitem 0 ex_c (KSlice (Some (-3)%Z) None (Some (-2)%Z)) = GList [9; 7; 8; 7].
Proof. exact ex_c_facts. Qed.
Print Assumptions C11_example.

(* ====================================================================================================== *)
(* Round 2.  expand_full dflt c : list (option V) is the per-dump list over ALL dumps 0 .. N-1 (None = the dump
   has no value: before the first event, which is legal after remove() and for a constructor whose first event
   is not dump 0).  The theorems below drop the `start0` hypotheses of the ones above, cover the error branches
   and the arguments outside the documented domain, add the laws and histories users rely on, and tie the
   operators and constants of the source (catg_*, regenerated on every run) to the model. *)

(* the per-dump list has exactly one entry per dump, for every well-formed series *)
Theorem C11_per_dump_full : forall V (dflt : V) (c : cd), WF c ->
  length (expand_full dflt c) = ndumps c /\ (start0 c -> expand_full dflt c = map Some (expand dflt c)).
Proof. intros V dflt c W. split. exact (expand_full_length dflt c W). exact (expand_full_start0 dflt c). Qed.
Print Assumptions C11_per_dump_full.

(* getitem_full: indexing by int / slice / mask / list on ANY well-formed series = the same indexing of the list of
   option values; selecting a dump without value is an IndexError (never a wrong value) *)
Theorem C11_getitem_full : forall V (dflt : V) (c : cd) (k : key), WF c ->
  (forall m, k = KMask m -> length m = ndumps c) ->
  getitem dflt c k = spec_getitem_full (expand_full dflt c) k.
Proof. exact @getitem_full. Qed.
Print Assumptions C11_getitem_full.

(* a bool key whose length is not N is NOT a mask for the code: the booleans are used as dump indices 0 / 1 *)
Theorem C11_getitem_wrong_mask : forall V (dflt : V) (c : cd) m, length m <> ndumps c ->
  getitem dflt c (KMask m) = getitem dflt c (KList (map (fun b : bool => if b then 1%Z else 0%Z) m)).
Proof. exact @getitem_wrong_mask. Qed.
Print Assumptions C11_getitem_wrong_mask.

(* cmp_full: _bool_per_dump modelled literally (an array of N entries initialised with the value the SOURCE uses,
   catg_bpd_init = np.zeros, then overwritten slice by slice) gives, for all six comparisons (any predicate f),
   one boolean per dump: f on the dumps that have a value and False on the dumps before the first event *)
Theorem C11_cmp_full : forall V (dflt : V) (c : cd) (f : V -> bool), WF c ->
  bool_per_dump catg_bpd_init c f = spec_cmp_full (expand_full dflt c) f /\
  length (bool_per_dump catg_bpd_init c f) = ndumps c /\
  bool_per_dump catg_bpd_init c f = repeat false (hd 0 (ev c)) ++ cmp c f.
Proof. exact @cmp_full_g. Qed.
Print Assumptions C11_cmp_full.

(* != is the negation of == (and >= of <, <= of >) on the dumps that have a value -- and only there *)
Theorem C11_cmp_negation : forall V (dflt : V) (c : cd) (f : V -> bool), WF c ->
  cmp c (fun x => negb (f x)) = map negb (cmp c f).
Proof. exact @cmp_negb. Qed.
Print Assumptions C11_cmp_negation.

(* len() and segments(): as many segments as events, contiguous from the first event to N, each non-empty, and
   glued together they are the per-dump list *)
Theorem C11_segments : forall V (dflt : V) (c : cd), WF c ->
  length (segments dflt c) = cat_len c /\
  glue_segments (segments dflt c) = expand dflt c /\
  map (fun t => fst (fst t)) (segments dflt c) = removelast (ev c) /\
  map (fun t => snd (fst t)) (segments dflt c) = tl (ev c) /\
  map snd (segments dflt c) = vals dflt c /\
  Forall (fun t => fst (fst t) < snd (fst t)) (segments dflt c).
Proof. intros V dflt c W. split. exact (segments_length dflt c W). exact (segments_spec dflt c W). Qed.
Print Assumptions C11_segments.

(* add for EVERY event argument outside the documented domain: beyond N it raises (IndexError), without a value it
   raises everywhere outside [first event, N), and exactly AT N with a value it silently appends an index without
   an event: the per-dump list is unchanged but the container is no longer well-formed (C11_add_expand is
   therefore stated for e < N; observation recorded in design.d/C11.md) *)
Theorem C11_add_outside : forall V (veqb : V -> V -> bool) (dflt : V) (c : cd), WF c ->
  (forall e v, ndumps c < e -> add veqb c e v = None) /\
  (forall e, e < hd 0 (ev c) \/ ndumps c <= e -> add veqb c e None = None) /\
  (forall v, exists c' vi, add veqb c (ndumps c) (Some v) = Some c' /\ ev c' = ev c /\ idx c' = idx c ++ [vi] /\
                           expand dflt c' = expand dflt c /\ ~ WF c').
Proof. intros V veqb dflt c W. split. intros; apply add_beyond; auto. split. intros; apply add_novalue_outside; auto.
  intros v. exact (add_at_end veqb dflt c v W). Qed.
Print Assumptions C11_add_outside.

(* read-after-add: the value added at dump e is what indexing at e returns *)
Theorem C11_add_then_get : forall V (veqb : V -> V -> bool) (dflt : V), eq_dec_spec veqb ->
  forall (c c' : cd) e v, WF c -> e < ndumps c -> add veqb c e (Some v) = Some c' ->
  getitem dflt c' (KInt (Z.of_nat e)) = GVal v.
Proof. exact @add_then_get. Qed.
Print Assumptions C11_add_then_get.

(* partition_any: partition on ANY well-formed series with at least one event and ANY strictly increasing
   segments (also starting before the first event and running past N): every part is well-formed, starts at
   dump 0, shares the unique values, and the parts are the cuts of the per-dump list with the first value
   extended back to dump 0 and the last value extended forward (padded); a series without events raises *)
Theorem C11_partition_any : forall V (dflt : V) (c : cd) segs, WF c -> incr segs ->
  (idx c <> [] ->
     partition_x c segs = Some (partition c segs) /\
     map (expand dflt) (partition c segs) = spec_partition (padded dflt c (last segs 0)) segs /\
     (forall p, In p (partition c segs) -> WF p /\ start0 p /\ idx p <> [] /\ uv p = uv c) /\
     list_sum (map ndumps (partition c segs)) = last segs 0 - hd 0 segs) /\
  (idx c = [] -> 2 <= length segs -> partition_x c segs = None) /\
  (start0 c -> last segs 0 <= ndumps c -> padded dflt c (last segs 0) = expand dflt c).
Proof.
  intros V dflt c segs W I. split; [|split].
  - intros NI. split. unfold partition_x. destruct (idx c); [congruence|reflexivity].
    exact (partition_gen dflt c segs W NI I).
  - intros E L. unfold partition_x. rewrite E. destruct segs as [|a [|b t]]; simpl in L; try lia. reflexivity.
  - intros S0 L. unfold padded. unfold start0 in S0. rewrite S0. replace (last segs 0 - ndumps c) with 0 by lia.
    simpl. apply app_nil_r.
Qed.
Print Assumptions C11_partition_any.

(* partition followed by concatenation on ANY series: the window [first, last boundary) of the padded per-dump
   list; with boundaries from 0 to N it is the per-dump list itself with the first value extended back to dump 0
   (= the identity when the series starts at dump 0: C11_partition_concat_id) *)
Theorem C11_partition_concat_any : forall V (veqb : V -> V -> bool) (dflt : V), eq_dec_spec veqb ->
  forall (c : cd) segs ar cc, WF c -> idx c <> [] -> incr segs ->
  concatenate veqb dflt (partition c segs) ar = Some cc ->
  WF cc /\ start0 cc /\ ndumps cc = last segs 0 - hd 0 segs /\
  expand dflt cc = firstn (last segs 0 - hd 0 segs) (skipn (hd 0 segs) (padded dflt c (last segs 0))) /\
  (hd 0 segs = 0 -> last segs 0 = ndumps c ->
     expand dflt cc = repeat (hd dflt (vals dflt c)) (hd 0 (ev c)) ++ expand dflt c).
Proof.
  intros V veqb dflt H c segs ar cc W NI I HC.
  destruct (partconcat_gen veqb dflt H c segs ar cc W NI I HC) as (A & B & C & D).
  repeat (split; [assumption|]). intros H0 HN.
  destruct (partconcat_full veqb dflt H c segs ar cc W NI I H0 HN HC) as (_ & _ & _ & E). exact E.
Qed.
Print Assumptions C11_partition_concat_any.

(* histories_full: ANY sequence of add / remove / add_unmatched / align / remove_repeats / partition+concatenate with
   in-domain arguments (op_okx: add at a dump, align with N among the boundaries, partition boundaries from 0 to
   N) keeps the invariant and the number of dumps -- no start0 hypothesis, so remove may come before anything *)
Theorem C11_histories_full : forall V (veqb : V -> V -> bool) (dflt : V), eq_dec_spec veqb ->
  forall ops (c c' : cd) N, WF c -> ndumps c = N -> Forall (op_okx N) ops ->
  run_opsx veqb dflt c ops = Some c' -> WF c' /\ ndumps c' = N.
Proof. exact @run_opsx_WF. Qed.
Print Assumptions C11_histories_full.

(* remove laws: the value is gone from the unique values and from every dump, every other unique value stays,
   removing an absent value changes nothing at all, removing twice = removing once *)
Theorem C11_remove_laws : forall V (veqb : V -> V -> bool) (dflt : V), eq_dec_spec veqb ->
  forall (c : cd) v, WF c ->
  ~ In v (uv (remove veqb c v)) /\ ~ In v (expand dflt (remove veqb c v)) /\
  (forall w, w <> v -> In w (uv c) -> In w (uv (remove veqb c v))) /\
  (~ In v (uv c) -> remove veqb c v = c) /\
  remove veqb (remove veqb c v) v = remove veqb c v.
Proof.
  intros V veqb dflt H c v W. destruct (remove_gone veqb dflt H c v W) as (A & B & C).
  repeat (split; [assumption|]). split.
  - intros NI. apply remove_absent. apply (index_of_absent veqb dflt H). exact NI.
  - exact (remove_idempotent veqb dflt H c v W).
Qed.
Print Assumptions C11_remove_laws.

Theorem C11_remove_repeats_idempotent : forall V (c c' : @cd V), WF c -> remove_repeats c = Some c' ->
  remove_repeats c' = Some c'.
Proof. exact @remove_repeats_idempotent. Qed.
Print Assumptions C11_remove_repeats_idempotent.

(* align moves nothing when every event already is a segment start: same events, same value per event, same
   per-dump list, and afterwards every unique value is in use (katdal drops an unused initial target with
   target.align(target.events)); hence align is idempotent *)
Theorem C11_align_fixed : forall V (dflt : V) (c : cd) segs c', WF c -> incr segs ->
  Forall (fun e => In e segs) (ev c) -> align dflt c segs = Some c' ->
  ev c' = ev c /\ vals dflt c' = vals dflt c /\ expand dflt c' = expand dflt c /\
  (forall x, In x (uv c') -> In x (vals dflt c')).
Proof. exact @align_fixed. Qed.
Print Assumptions C11_align_fixed.

Theorem C11_align_idempotent : forall V (dflt : V) (c : cd) segs c1 c2, WF c -> incr segs ->
  align dflt c segs = Some c1 -> align dflt c1 segs = Some c2 ->
  ev c2 = ev c1 /\ vals dflt c2 = vals dflt c1 /\ expand dflt c2 = expand dflt c1.
Proof. exact @align_idempotent. Qed.
Print Assumptions C11_align_idempotent.

(* the label pipeline of the katdal data set classes: remove(v); align(scan events); add(0, v) if the first event
   is after dump 0 -- for scan events containing 0 and N it is always defined and gives a well-formed series
   that starts at dump 0, still has N dumps and whose events are all scan boundaries *)
Theorem C11_label_pipeline : forall V (veqb : V -> V -> bool) (dflt : V), eq_dec_spec veqb ->
  forall (c : cd) v segs, WF c -> 0 < ndumps c -> incr segs -> In 0 segs -> In (ndumps c) segs ->
  exists c', label_pipeline veqb dflt c v segs = Some c' /\ WF c' /\ start0 c' /\ ndumps c' = ndumps c /\
             Forall (fun e => In e segs) (ev c').
Proof. exact @label_pipeline_spec. Qed.
Print Assumptions C11_label_pipeline.

(* add_unmatched does what it is for: afterwards every segment start inside the event range has a sensor event
   within match_dist dumps; an unmatched start (all events further away than match_dist) has an event exactly there *)
Theorem C11_add_unmatched_post : forall V (veqb : V -> V -> bool) (dflt : V) (c : cd) segs d s,
  WF c -> In s segs -> hd 0 (ev c) <= s -> s < ndumps c ->
  exists e, In e (ev (add_unmatched veqb c segs d)) /\ absd s e <= d /\
            (d < list_min (map (absd s) (ev c)) -> e = s).
Proof. exact @add_unmatched_post. Qed.
Print Assumptions C11_add_unmatched_post.

(* align: "there cannot be more sensor events than segments" *)
Theorem C11_align_count : forall V (dflt : V) (c : cd) segs c', WF c -> incr segs -> align dflt c segs = Some c' ->
  length (ev c') <= length segs /\ S (cat_len c') <= length segs.
Proof. exact @align_count. Qed.
Print Assumptions C11_align_count.

(* unique_in_order, the fallback loop for unhashable elements (dict of tokens -> index, unique_elements.append,
   inverse.append) computes first occurrences in original order and their inverse, exactly like the dict path,
   whenever equal tokens mean equal values *)
Theorem C11_unique_in_order_fallback : forall V K (veqb : V -> V -> bool) (keqb : K -> K -> bool) (tok : V -> K),
  eq_dec_spec veqb -> eq_dec_spec keqb -> (forall a b, tok a = tok b -> a = b) ->
  forall l, uio_tok keqb tok l = (unique_in_order veqb l, inverse_of veqb (unique_in_order veqb l) l).
Proof. exact @uio_tok_spec. Qed.
Print Assumptions C11_unique_in_order_fallback.

(* tie, functions: the decision expressions of _lookup / add / remove / partition / remove_repeats written with the
   operators, constants and searchsorted sides re-read from the source ARE the model functions, for all arguments *)
Theorem C11_source_functions : forall V (veqb : V -> V -> bool),
  (forall (c : @cd V) p, lookup_g c p = lookup c p) /\
  (forall (c : @cd V) e val, add_g veqb c e val = add veqb c e val) /\
  (forall (c : @cd V) v, remove_g veqb c v = remove veqb c v) /\
  (forall (c : @cd V) segs, partition_g c segs = partition c segs) /\
  (forall (c : @cd V), length (idx c) <= length (ev c) -> rr_g c = remove_repeats c).
Proof. intros V veqb. split. exact lookup_g_ok. split. exact (add_g_ok veqb). split. exact (remove_g_ok veqb).
  split. exact partition_g_ok. exact rr_g_ok. Qed.
Print Assumptions C11_source_functions.

(* tie, remaining pieces: mask test, unmatched test and match_dist default, diff > 0, single-part test, reduction
   names and axes, np.zeros, allow_repeats / return_inverse / value defaults, and which operator each of the six
   comparison methods of CategoricalData and ComparableArrayWrapper applies *)
Theorem C11_source_pieces :
  (forall a b : nat, catg_mask_len_cmp (Z.of_nat a) (Z.of_nat b) = (a =? b)) /\
  (forall m d : nat, catg_unmatched_cmp (Z.of_nat m) (Z.of_nat d) = (d <? m)) /\
  (forall a b : nat, catg_align_keep_cmp (Z.of_nat b - Z.of_nat a) catg_align_zero = (a <? b)) /\
  (forall n : nat, catg_cc_single_cmp (Z.of_nat n) catg_cc_single = (n =? 1)) /\
  (forall n : Z, catg_cc_next_op n catg_cc_next = (n + 1)%Z) /\
  catg_match_dist = 1%Z /\ catg_um_axis = 1%Z /\ catg_um_reduce_is_min = true /\
  catg_align_axis = 0%Z /\ catg_align_reduce_is_argmin = true /\
  catg_bpd_init = false /\ catg_allow_repeats_default = false /\ catg_uio_inverse_default = false /\
  catg_add_value_default_is_none = true /\
  catg_cmp_methods = [0; 1; 2; 3; 4; 5]%Z /\ catg_wrapper_cmp_methods = [0; 1; 2; 3; 4; 5]%Z.
Proof. exact catg_pointwise. Qed.
Print Assumptions C11_source_pieces.

Theorem C11_source_uses : forall V (veqb : V -> V -> bool) (dflt : V),
  (forall (c : @cd V) m, getitem dflt c (KMask m) =
     if catg_mask_len_cmp (Z.of_nat (length m)) (Z.of_nat (ndumps c))
     then glist dflt c (map Z.of_nat (true_positions m 0))
     else glist dflt c (map (fun b : bool => if b then 1%Z else 0%Z) m)) /\
  (forall (c : @cd V) segs, add_unmatched veqb c segs (Z.to_nat catg_match_dist) =
     fold_left (fun c s => match add veqb c s None with Some c' => c' | None => c end)
       (filter (fun s => catg_unmatched_cmp (Z.of_nat (list_min (map (absd s) (ev c)))) catg_match_dist) segs) c) /\
  (forall (parts : list (@cd V)),
     concatenate veqb dflt parts catg_allow_repeats_default =
     match parts with
     | [] => None
     | p :: _ => if catg_cc_single_cmp (Z.of_nat (length parts)) catg_cc_single then Some p
                 else concatenate veqb dflt parts false
     end).
Proof. exact @catg_model_uses. Qed.
Print Assumptions C11_source_uses.

(* non-vacuity of the round-2 theorems: a series that starts at dump 3 *)
Example C11_example_full :
  (WF ex_d /\ ~ start0 ex_d /\ idx ex_d <> []) /\
  expand_full 0 ex_d = [None; None; None; Some 7; Some 7; Some 7; Some 8; Some 8; Some 8; Some 8] /\
  getitem 0 ex_d (KInt 1) = GErr /\ getitem 0 ex_d (KInt 4) = GVal 7 /\
  getitem 0 ex_d (KSlice (Some 2%Z) None (Some 3%Z)) = GErr /\
  getitem 0 ex_d (KSlice (Some 3%Z) None (Some 3%Z)) = GList [7; 8; 8] /\
  getitem 0 ex_d (KMask [false; false; false; true; false; false; true; false; false; true]) = GList [7; 8; 8] /\
  bool_per_dump catg_bpd_init ex_d (Nat.eqb 7) = [false; false; false; true; true; true; false; false; false; false] /\
  bool_per_dump catg_bpd_init ex_d (fun x => negb (Nat.eqb 7 x)) =
    [false; false; false; false; false; false; true; true; true; true].
Proof. split. exact ex_d_WF. exact ex_full_facts. Qed.
Print Assumptions C11_example_full.

Example C11_example_segments :
  cat_len ex_c = 4 /\ segments 0 ex_c = [(0, 2, 7); (2, 5, 8); (5, 6, 7); (6, 10, 9)] /\
  glue_segments (segments 0 ex_c) = expand 0 ex_c.
Proof. exact ex_len_segments. Qed.
Print Assumptions C11_example_segments.

Example C11_example_add :
  add Nat.eqb ex_c 11 (Some 5) = None /\ add Nat.eqb ex_c 10 None = None /\ add Nat.eqb ex_d 1 None = None /\
  option_map (fun c => (idx c, ev c)) (add Nat.eqb ex_c 10 (Some 5)) = Some ([0; 1; 0; 2; 3], [0; 2; 5; 6; 10]) /\
  option_map (fun c => getitem 0 c (KInt 3)) (add Nat.eqb ex_c 3 (Some 5)) = Some (GVal 5).
Proof. exact ex_add_total. Qed.
Print Assumptions C11_example_add.

Example C11_example_partition_any :
  map (expand 0) (partition ex_d [0; 2; 5; 12]) = [[7; 7]; [7; 7; 7]; [7; 8; 8; 8; 8; 8; 8]] /\
  padded 0 ex_d 12 = [7; 7; 7; 7; 7; 7; 8; 8; 8; 8; 8; 8] /\
  option_map (expand 0) (concatenate Nat.eqb 0 (partition ex_d [0; 5; 10]) false) = Some [7; 7; 7; 7; 7; 7; 8; 8; 8; 8] /\
  partition_x (remove Nat.eqb (remove Nat.eqb ex_d 7) 8) [0; 5; 10] = None /\
  option_map (expand 0) (run_opsx Nat.eqb 0 ex_c
     [ORemove 7; OPartConcat [0; 4; 10] false; OAdd 1 (Some 7); OAlign [0; 5; 10]; ORemoveRepeats])
    = Some [7; 7; 7; 7; 7; 9; 9; 9; 9; 9].
Proof. exact ex_partition_any. Qed.
Print Assumptions C11_example_partition_any.

Example C11_example_laws :
  expand 0 (remove Nat.eqb ex_c 7) = [8; 8; 8; 8; 9; 9; 9; 9] /\
  remove Nat.eqb (remove Nat.eqb ex_c 7) 7 = remove Nat.eqb ex_c 7 /\
  option_map (fun c => (idx c, ev c)) (remove_repeats (mk [7; 8] [0; 0; 1; 1; 0] [0; 1; 2; 3; 4; 5])) = Some ([0; 1; 0], [0; 2; 4; 5]) /\
  option_map (fun c => (uv c, idx c, ev c)) (align 0 (mk [7; 8; 9] [1; 2] [0; 4; 10]) [0; 4; 10]) = Some ([8; 9], [0; 1], [0; 4; 10]) /\
  option_map (fun c => (uv c, ev c, expand 0 c)) (label_pipeline Nat.eqb 0 ex_c 7 [0; 3; 6; 10])
    = Some ([8; 9; 7], [0; 3; 6; 10], [7; 7; 7; 8; 8; 8; 9; 9; 9; 9]).
Proof. exact ex_laws. Qed.
Print Assumptions C11_example_laws.

Example C11_example_mirrors :
  lookup_g ex_c 5 = Some 0 /\ lookup_g ex_c 10 = None /\
  option_map (expand 0) (add_g Nat.eqb ex_c 3 (Some 5)) = Some [7; 7; 8; 5; 5; 7; 9; 9; 9; 9] /\
  expand 0 (remove_g Nat.eqb ex_c 7) = [8; 8; 8; 8; 9; 9; 9; 9] /\
  map (expand 0) (partition_g ex_c [0; 3; 10]) = [[7; 7; 8]; [8; 8; 7; 9; 9; 9; 9]] /\
  option_map ev (rr_g (mk [7; 8] [0; 0; 1; 1; 0] [0; 1; 2; 3; 4; 5])) = Some [0; 2; 4; 5].
Proof. exact ex_mirrors. Qed.
Print Assumptions C11_example_mirrors.

Example C11_example_more :
  ev (add_unmatched Nat.eqb ex_c [0; 4; 8; 10] 1) = [0; 2; 5; 6; 8; 10] /\
  option_map (fun c => length (ev c)) (align 0 ex_c [0; 4; 10]) = Some 3 /\
  uio_tok Nat.eqb (fun x : nat => x) [7; 8; 7; 9; 8] = ([7; 8; 9], [0; 1; 0; 2; 1]).
Proof. exact ex_more. Qed.
Print Assumptions C11_example_more.

(* ===================== round 3: add() with its bounds check; several containers with shared storage ===================== *)

(* add_total (katdal d362220): add(event, value) for EVERY Python integer event and every value / no value.
   It raises exactly when the event is not a dump (event < 0 or event >= N) or, without a value, lies before the
   first event; otherwise the invariant and N are kept, the only new boundary is the event, and the per-dump list is
   overridden from the event until the next existing event (no value: unchanged).  In particular add(N, v) can no
   longer append an index without an event (C11_add_outside describes the unchecked body) *)
Theorem C11_add_total : forall V (veqb : V -> V -> bool) (dflt : V), eq_dec_spec veqb ->
  forall (c : cd) (e : Z) (val : option V), WF c ->
  (add_chk veqb c e val = None <->
     ((e < 0)%Z \/ (Z.of_nat (ndumps c) <= e)%Z \/ (val = None /\ (e < Z.of_nat (hd 0%nat (ev c)))%Z))) /\
  (forall c', add_chk veqb c e val = Some c' ->
     WF c' /\ ndumps c' = ndumps c /\ (0 <= e < Z.of_nat (ndumps c))%Z /\
     expand dflt c' = spec_add (expand dflt c) (ev c) (Z.to_nat e) val /\
     (forall y, In y (ev c') <-> y = Z.to_nat e \/ In y (ev c))).
Proof. intros V veqb dflt H c e val W. split. exact (add_chk_none_iff veqb dflt H c e val W).
  intros c'. exact (add_chk_some veqb dflt H c c' e val W). Qed.
Print Assumptions C11_add_total.

(* add_unmatched goes through the checked add and is the add_unmatched of C11_add_unmatched_expand / _post *)
Theorem C11_add_unmatched_checked : forall V (veqb : V -> V -> bool) (dflt : V) (c : cd) segs d, WF c ->
  add_unmatched_chk veqb c segs d = add_unmatched veqb c segs d.
Proof. intros V veqb dflt. exact (add_unmatched_chk_eq veqb dflt). Qed.
Print Assumptions C11_add_unmatched_checked.

(* containers_frame: ONE operation on a heap of several container objects whose storage is modelled explicitly
   (list objects for unique_values, numpy buffers for indices / events, references and views).  If different
   container objects own different list objects (heap_ok; established by the constructor, partition and concatenate,
   kept by every operation), then after the operation
     - the container it is addressed to has the value the single-container model gives (pure_op),
     - EVERY other container object (the parent of a part, the sibling parts, the inputs of a concatenation, ...)
       has exactly the value it had: add() / remove() write unique_values in place but only their own list object,
     - every array reference that was allocated - also a view held by somebody else, e.g. the caller's array that
       the constructor adopts without copying - still reads the same: no operation writes into an existing buffer *)
Theorem C11_containers_frame : forall V (veqb : V -> V -> bool) (dflt : V) (h : heap) (o : hop), heap_ok h ->
  let h' := fst (h_step veqb dflt false h o) in
  heap_ok h' /\ n_objs h <= n_objs h' /\
  (forall r, r_buf r < n_arrs h -> rd_arr h' r = rd_arr h r) /\
  (forall j, j < n_objs h -> rd h' j = if targets j o then pure_op veqb dflt (rd h j) o else rd h j).
Proof. intros V veqb dflt h o OK. destruct (h_step_framed veqb dflt h o OK) as (A & B & C & D & F).
  split; [exact A|]. split; [exact B|]. split; [exact D|]. exact F. Qed.
Print Assumptions C11_containers_frame.

(* an operation that raises (IndexError / ValueError) has changed nothing at all - also with shared storage *)
Theorem C11_containers_raise_nothing : forall V (veqb : V -> V -> bool) (dflt : V) (share : bool) (h : heap) (o : hop),
  snd (h_step veqb dflt share h o) = None -> fst (h_step veqb dflt share h o) = h.
Proof. intros V veqb dflt. exact (h_step_raise veqb dflt). Qed.
Print Assumptions C11_containers_raise_nothing.

(* the container objects an operation creates: the parts of partition() are new objects with the values of the
   single-container model and the parent keeps its value; concatenate of several parts is a new object; concatenate
   of ONE part returns that very object (no copy: later changes through either name are changes of the same
   container); the constructor adopts the caller's event array as it is *)
Theorem C11_containers_new_objects : forall V (veqb : V -> V -> bool) (dflt : V) (h : heap), heap_ok h ->
  (forall i segs ps, i < n_objs h -> partition_x (rd h i) segs = Some ps ->
     let h' := fst (h_step veqb dflt false h (HPartition i segs)) in
     snd (h_step veqb dflt false h (HPartition i segs)) = Some (seq (n_objs h) (length ps)) /\
     n_objs h' = n_objs h + length ps /\
     (forall k, k < length ps -> rd h' (n_objs h + k) = nth k ps (mk [] [] [])) /\ rd h' i = rd h i) /\
  (forall parts ar cc, Forall (fun i => i < n_objs h) parts -> length parts <> 1 ->
     concatenate veqb dflt (map (rd h) parts) ar = Some cc ->
     let h' := fst (h_step veqb dflt false h (HConcat parts ar)) in
     snd (h_step veqb dflt false h (HConcat parts ar)) = Some [n_objs h] /\ rd h' (n_objs h) = cc /\
     (forall j, j < n_objs h -> rd h' j = rd h j)) /\
  (forall i ar, i < n_objs h -> h_step veqb dflt false h (HConcat [i] ar) = (h, Some [i])) /\
  (forall values r, r_buf r < n_arrs h ->
     let h' := fst (h_step veqb dflt false h (HMake values r)) in
     rd h' (n_objs h) = make veqb values (rd_arr h r) /\ o_ev (h_objs h' (n_objs h)) = r).
Proof.
  intros V veqb dflt h OK. split; [|split; [|split]].
  - intros i segs ps Hi E. exact (h_step_partition_new veqb dflt h i segs ps OK Hi E).
  - intros parts ar cc F L E. exact (h_step_concat_new veqb dflt h parts ar cc OK F L E).
  - intros i ar Hi. exact (h_step_concat_single veqb dflt false h i ar Hi).
  - intros values r Hr. exact (h_step_make_new veqb dflt h values r OK Hr).
Qed.
Print Assumptions C11_containers_new_objects.

(* containers_histories: ANY history of operations on ANY number of containers (constructor, add, remove,
   add_unmatched, align, remove_repeats, partition, concatenate; raising operations included - they change nothing).
   The value of every container at the end is the result of applying to it exactly the operations addressed to
   it, in order - no operation on another container shows through; the storage invariant holds at the end; arrays
   that existed at the start still read the same; and a well-formed container stays well-formed with its N *)
Theorem C11_containers_histories : forall V (veqb : V -> V -> bool) (dflt : V), eq_dec_spec veqb ->
  forall (ops : list hop) (h : heap), heap_ok h ->
  let h' := h_run veqb dflt false h ops in
  heap_ok h' /\ n_objs h <= n_objs h' /\
  (forall r, r_buf r < n_arrs h -> rd_arr h' r = rd_arr h r) /\
  (forall j, j < n_objs h ->
     rd h' j = fold_left (pure_op veqb dflt) (filter (targets j) ops) (rd h j) /\
     (WF (rd h j) -> Forall (align_arg_ok (ndumps (rd h j))) (filter (targets j) ops) ->
      WF (rd h' j) /\ ndumps (rd h' j) = ndumps (rd h j))).
Proof.
  intros V veqb dflt H ops h OK. destruct (h_run_framed veqb dflt ops h OK) as (A & B & C & D).
  split; [exact A|]. split; [exact B|]. split; [exact C|]. intros j Hj. split; [exact (D j Hj)|].
  intros W F. exact (h_run_WF veqb dflt H ops h j OK Hj W F).
Qed.
Print Assumptions C11_containers_histories.

(* the storage discipline of partition() BEFORE fix fbcb22b (finding F39: one list object for all parts and the
   parent) does NOT have the frame property: remove() on part 1 changes part 2 and the parent *)
Theorem C11_shared_unique_values_refuted :
  let h2 := h_run Nat.eqb 0 true hx_heap0 (firstn 2 hx_ops) in
  let h3 := h_run Nat.eqb 0 true hx_heap0 hx_ops in
  targets 2 (HRemove 1 7) = false /\ targets 0 (HRemove 1 7) = false /\
  expand 0 (rd h2 2) = [8; 8; 8; 7; 7; 7] /\ expand 0 (rd h3 2) = [0; 0; 0; 8; 8; 8] /\
  uv (rd h2 0) = [7; 8] /\ uv (rd h3 0) = [8].
Proof. exact shared_refuted. Qed.
Print Assumptions C11_shared_unique_values_refuted.

(* non-vacuity: the same history with the code as it is; the caller's event array is still [0,3,6,9]; concatenate of
   one part returns the part; add(6, v) on a part of 6 dumps raises, add(5, v) overrides the last dump *)
Example C11_example_containers :
  let h2 := h_run Nat.eqb 0 false hx_heap0 (firstn 2 hx_ops) in
  let h3 := h_run Nat.eqb 0 false hx_heap0 hx_ops in
  heap_ok hx_heap0 /\
  expand 0 (rd h3 2) = [8; 8; 8; 7; 7; 7] /\ rd h3 2 = rd h2 2 /\ rd h3 0 = rd h2 0 /\
  expand 0 (rd h2 1) = [7; 7; 7] /\ uv (rd h3 1) = [8] /\ idx (rd h3 1) = [] /\ ev (rd h3 1) = [3] /\
  rd_arr h3 (mkref 0 0 4) = [0; 3; 6; 9] /\ n_objs h3 = 3 /\
  h_step Nat.eqb 0 false h3 (HConcat [2] false) = (h3, Some [2]) /\
  snd (h_step Nat.eqb 0 false h3 (HAdd 2 6 (Some 5))) = None /\
  expand 0 (rd (fst (h_step Nat.eqb 0 false h3 (HAdd 2 5 (Some 5)))) 2) = [8; 8; 8; 7; 7; 5].
Proof. exact unshared_example. Qed.
Print Assumptions C11_example_containers.

(* unique_in_order, fallback loop: "equal tokens mean equal values" (the hypothesis of C11_unique_in_order_fallback)
   is NECESSARY - a token function that maps two different values to one token (e.g. the raw bytes of an ndarray
   without its shape and dtype) merges them: the second one gets the index of the first and is never stored *)
Theorem C11_unique_in_order_needs_injective_tokens :
  forall V K (veqb : V -> V -> bool) (keqb : K -> K -> bool) (tok : V -> K),
  (forall a b, keqb (tok a) (tok b) = true -> uio_tok keqb tok [a; b] = ([a], [0; 0])) /\
  ((forall l, fst (uio_tok keqb tok l) = unique_in_order veqb l) ->
   forall a b, keqb (tok a) (tok b) = true -> veqb a b = true).
Proof. intros V K veqb keqb tok. split. exact (uio_tok_collision keqb tok). exact (uio_tok_needs_injective veqb keqb tok). Qed.
Print Assumptions C11_unique_in_order_needs_injective_tokens.

Example C11_example_token_collision :
  uio_tok Nat.eqb (fun x : nat => Nat.div x 10) [41; 42; 51] = ([41; 51], [0; 0; 1]) /\
  unique_in_order Nat.eqb [41; 42; 51] = [41; 42; 51].
Proof. vm_compute. split; reflexivity. Qed.
Print Assumptions C11_example_token_collision.

(* tie: the bounds check of add() written with the comparison operators and the constant re-read from the source, in
   front of the generated body add_g, IS add_chk for all arguments; add_unmatched calls that add with the default
   distance and the comparison of the source *)
Theorem C11_source_add_check : forall V (veqb : V -> V -> bool),
  (forall (c : @cd V) e val, add_chk_g veqb c e val = add_chk veqb c e val) /\
  (forall (c : @cd V) segs,
     add_unmatched_chk veqb c segs (Z.to_nat catg_match_dist) =
     fold_left (fun c s => match add_chk_g veqb c (Z.of_nat s) None with Some c' => c' | None => c end)
       (filter (fun s => catg_unmatched_cmp (Z.of_nat (list_min (map (absd s) (ev c)))) catg_match_dist) segs) c).
Proof. intros V veqb. split. exact (add_chk_g_ok veqb). exact (add_unmatched_chk_g veqb). Qed.
Print Assumptions C11_source_add_check.
