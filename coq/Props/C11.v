(* C11 — Categorical container operations preserve the per-dump sequence.  Only statements here. *)
From Coq Require Import ZArith List Bool Arith Lia.
From KV Require Import Base.Sx Model.Categorical Proofs.CategoricalP.
Import ListNotations.
Open Scope nat_scope.

Theorem C11_expand_map : forall A B (f : A -> B) r s vals,
  map f (expand_ev s r vals) = expand_ev s r (map f vals).
Proof. exact @expand_ev_map. Qed.
Print Assumptions C11_expand_map.
