(* C11 — Categorical container operations preserve the per-dump sequence as documented.
   Only statements here.  cd = {uv; idx; ev} is the model of katdal.categorical.CategoricalData,
   expand dflt c : list V is the explicit per-dump list of values (the abstraction function),
   WF c is the invariant (events strictly increasing, |ev| = |idx| + 1, indices in range, unique values distinct),
   ndumps c = last event = number of dumps, start0 c = the first event is dump 0.
   Every theorem is for ALL series, ALL arguments, any value type V with a decidable equality veqb. *)
From Coq Require Import ZArith List Bool Arith Lia.
From KV Require Import Base.Sx Model.Categorical Proofs.CategoricalP Proofs.CategoricalAddP Proofs.CategoricalPartP
  Proofs.CategoricalConcatP Proofs.CategoricalRemoveP Proofs.CategoricalAlignP Proofs.CategoricalSeqP
  Gen.Generated Proofs.CategoricalTieP.
Import ListNotations.
Open Scope nat_scope.

Definition eq_dec_spec {V} (veqb : V -> V -> bool) := forall a b : V, veqb a b = true <-> a = b.

(* constructor CategoricalData(values, events): invariant established, per-dump list = the given events/values *)
Theorem C11_constructor : forall V (veqb : V -> V -> bool) (dflt : V), eq_dec_spec veqb ->
  forall values events, incr events -> length events = S (length values) ->
  WF (make veqb values events) /\ expand dflt (make veqb values events) = expand_evs events values.
Proof. intros V veqb dflt H values events I L. split. exact (make_WF veqb dflt H values events I L).
  exact (make_expand veqb dflt H values events). Qed.
Print Assumptions C11_constructor.

(* the length of the per-dump list and _lookup: dump p holds the value of the last event at or before p *)
Theorem C11_lookup : forall V (dflt : V) (c : cd) p, WF c -> hd 0 (ev c) <= p -> p < ndumps c ->
  length (expand dflt c) = ndumps c - hd 0 (ev c) /\
  exists i, lookup c p = Some i /\ i < length (uv c) /\ nth i (uv c) dflt = nth (p - hd 0 (ev c)) (expand dflt c) dflt.
Proof. intros. split. apply expand_length; auto. apply lookup_value; auto. Qed.
Print Assumptions C11_lookup.

(* getitem_expand: indexing by int / slice (any bounds, any step) / mask (one bool per dump) / int list gives the
   same answer (value, list of values, or IndexError) as the same indexing of the explicit per-dump list *)
Theorem C11_getitem_expand : forall V (dflt : V) (c : cd) (k : key), WF c -> start0 c ->
  (forall m, k = KMask m -> length m = ndumps c) ->
  getitem dflt c k = spec_getitem (expand dflt c) k.
Proof. exact @getitem_expand. Qed.
Print Assumptions C11_getitem_expand.

(* eq_expand: ==, !=, <, >, <=, >= with a value (any per-value predicate f) = the per-dump booleans *)
Theorem C11_eq_expand : forall V (dflt : V) (c : cd) (f : V -> bool), WF c ->
  cmp c f = map f (expand dflt c).
Proof. exact @cmp_expand. Qed.
Print Assumptions C11_eq_expand.

(* add_expand (with a value): defined for every dump e < N, keeps WF, still ends at N, starts at min(e, old start),
   only adds the boundary e, and overrides the per-dump list from e until the next existing event *)
Theorem C11_add_expand : forall V (veqb : V -> V -> bool) (dflt : V), eq_dec_spec veqb ->
  forall (c : cd) e v, WF c -> e < ndumps c ->
  exists c', add veqb c e (Some v) = Some c' /\ WF c' /\ ndumps c' = ndumps c /\
    hd 0 (ev c') = Nat.min e (hd 0 (ev c)) /\
    (forall y, In y (ev c') <-> y = e \/ In y (ev c)) /\
    expand dflt c' = spec_add (expand dflt c) (ev c) e (Some v).
Proof. exact @add_value_spec. Qed.
Print Assumptions C11_add_expand.

(* add without a value: only a boundary is added *)
Theorem C11_add_duplicate_expand : forall V (veqb : V -> V -> bool) (dflt : V) (c c' : cd) e,
  WF c -> add veqb c e None = Some c' ->
  WF c' /\ ndumps c' = ndumps c /\ hd 0 (ev c') = hd 0 (ev c) /\ uv c' = uv c /\
  (forall y, In y (ev c') <-> y = e \/ In y (ev c)) /\ expand dflt c' = expand dflt c.
Proof. exact @add_novalue_spec. Qed.
Print Assumptions C11_add_duplicate_expand.

(* add_unmatched_expand: identity on the per-dump list, only boundaries taken from segs are added *)
Theorem C11_add_unmatched_expand : forall V (veqb : V -> V -> bool) (dflt : V) (c : cd) segs dist, WF c ->
  let c' := add_unmatched veqb c segs dist in
  WF c' /\ ndumps c' = ndumps c /\ hd 0 (ev c') = hd 0 (ev c) /\ uv c' = uv c /\
  (forall y, In y (ev c) -> In y (ev c')) /\ (forall y, In y (ev c') -> In y (ev c) \/ In y segs) /\
  expand dflt c' = expand dflt c.
Proof. exact @add_unmatched_spec. Qed.
Print Assumptions C11_add_unmatched_expand.

(* remove_expand: WF kept, still ends at N; leading dumps of the removed value disappear, every other dump of
   the removed value takes the preceding kept value (ffill) *)
Theorem C11_remove_expand : forall V (veqb : V -> V -> bool) (dflt : V), eq_dec_spec veqb ->
  forall (c : cd) v, WF c ->
  WF (remove veqb c v) /\ ndumps (remove veqb c v) = ndumps c /\
  expand dflt (remove veqb c v) = ffill veqb v None (expand dflt c).
Proof. intros V veqb dflt H c v W. destruct (remove_WF veqb c v W). split; auto. split; auto.
  exact (remove_expand veqb dflt H c v W). Qed.
Print Assumptions C11_remove_expand.

(* remove_repeats_expand: identity on the per-dump list; afterwards adjacent events have different values *)
Theorem C11_remove_repeats_expand : forall V (dflt : V) (c c' : cd), WF c -> remove_repeats c = Some c' ->
  WF c' /\ ndumps c' = ndumps c /\ hd 0 (ev c') = hd 0 (ev c) /\ uv c' = uv c /\
  expand dflt c' = expand dflt c /\
  (forall k, S k < length (idx c') -> nth k (vals dflt c') dflt <> nth (S k) (vals dflt c') dflt).
Proof. intros V dflt c c' W H. destruct (remove_repeats_WF c c' W H) as (A & B & C & D).
  repeat (split; [assumption|]). split. exact (remove_repeats_expand dflt c c' W H).
  exact (remove_repeats_values_differ dflt c c' W H). Qed.
Print Assumptions C11_remove_repeats_expand.

(* nearest segment start: first minimum of |segs - e| = a closest start, ties to the smaller start; monotone *)
Theorem C11_nearest : forall segs e, incr segs -> segs <> [] ->
  In (nearest segs e) segs /\
  (forall s, In s segs -> absd e (nearest segs e) <= absd e s) /\
  (forall s, In s segs -> absd e s = absd e (nearest segs e) -> nearest segs e <= s) /\
  (forall e', e <= e' -> nearest segs e <= nearest segs e').
Proof. intros segs e I NE. split. apply nearest_In; auto. split. intros; apply nearest_min; auto.
  split. intros; apply nearest_tie; auto. intros; apply nearest_monotone; auto. Qed.
Print Assumptions C11_nearest.

(* align_expand: WF kept; every new event is one of the given segment starts; not more events than before; the
   series ends at nearest(N) (= N when N is a segment boundary); and the per-dump list is the ORIGINAL sequence
   of per-event values with every boundary moved onto its nearest segment start (spec_align) *)
Theorem C11_align_expand : forall V (dflt : V) (c : cd) segs c', WF c -> incr segs -> align dflt c segs = Some c' ->
  WF c' /\ Forall (fun e => In e segs) (ev c') /\ ndumps c' = nearest segs (ndumps c) /\
  (In (ndumps c) segs -> ndumps c' = ndumps c) /\ length (idx c') <= length (idx c) /\
  expand dflt c' = expand_evs (map (nearest segs) (ev c)) (vals dflt c).
Proof. intros V dflt c segs c' W I H. destruct (align_WF dflt c segs c' W I H) as (A & B & C & D).
  repeat (split; [assumption|]). split. intros; eapply align_ends; eauto. split; auto.
  exact (align_expand dflt c segs c' W I H). Qed.
Print Assumptions C11_align_expand.

(* partition: every part is WF, starts at 0, shares the unique values, and its per-dump list is the cut
   [start, end) of the per-dump list *)
Theorem C11_partition_parts : forall V (dflt : V) (c : cd) segs, WF c -> start0 c -> incr segs ->
  last segs 0 <= ndumps c ->
  map (expand dflt) (partition c segs) = spec_partition (expand dflt c) segs /\
  (forall p, In p (partition c segs) -> WF p /\ start0 p /\ idx p <> [] /\ uv p = uv c) /\
  list_sum (map ndumps (partition c segs)) = last segs 0 - hd 0 segs.
Proof. exact @partition_spec. Qed.
Print Assumptions C11_partition_parts.

(* concatenate_categorical of ANY well-formed parts starting at dump 0 (allow_repeats on or off) *)
Theorem C11_concatenate_expand : forall V (veqb : V -> V -> bool) (dflt : V), eq_dec_spec veqb ->
  forall (parts : list cd) ar cc,
  (forall p, In p parts -> WF p /\ start0 p /\ idx p <> []) ->
  concatenate veqb dflt parts ar = Some cc ->
  WF cc /\ start0 cc /\ ndumps cc = list_sum (map ndumps parts) /\
  expand dflt cc = concat (map (expand dflt) parts).
Proof. exact @concatenate_expand. Qed.
Print Assumptions C11_concatenate_expand.

(* partition_concat_id: for segment boundaries running from 0 to N, gluing the parts' per-dump lists gives the
   per-dump list back, and so does concatenate_categorical(partition) with or without repeats *)
Theorem C11_partition_concat_id : forall V (veqb : V -> V -> bool) (dflt : V), eq_dec_spec veqb ->
  forall (c : cd) segs ar, WF c -> start0 c -> incr segs -> hd 0 segs = 0 -> last segs 0 = ndumps c ->
  concat (map (expand dflt) (partition c segs)) = expand dflt c /\
  forall cc, concatenate veqb dflt (partition c segs) ar = Some cc ->
    expand dflt cc = expand dflt c /\ WF cc /\ start0 cc /\ ndumps cc = ndumps c.
Proof. exact @partition_concat_id. Qed.
Print Assumptions C11_partition_concat_id.

(* histories: any sequence of add / remove / add_unmatched / align (N among the boundaries) / remove_repeats
   with in-domain arguments keeps the invariant and the number of dumps *)
Theorem C11_histories : forall V (veqb : V -> V -> bool) (dflt : V), eq_dec_spec veqb ->
  forall ops (c c' : cd) N, WF c -> ndumps c = N -> Forall (op_ok N) ops ->
  run_ops veqb dflt c ops = Some c' -> WF c' /\ ndumps c' = N.
Proof. exact @run_ops_WF. Qed.
Print Assumptions C11_histories.

(* tie: the constants of katdal/categorical.py re-read from the source on every run are the ones the model uses *)
Theorem C11_source_constants :
  cat_lookup_side_right = true /\ cat_add_side_left = true /\ cat_partition_side_right = true /\
  cat_match_dist_default = 1%Z /\ cat_unmatched_is_gt = true /\ cat_align_keeps_increasing = true /\
  cat_allow_repeats_default = false /\ cat_repeats_removed_unless_allowed = true.
Proof. exact cat_constants_ok. Qed.
Print Assumptions C11_source_constants.

(* non-vacuity: the hypotheses are satisfiable and the operations do something on a concrete series *)
Example C11_example :
  WF ex_c /\ start0 ex_c /\ expand 0 ex_c = [7;7;8;8;8;7;9;9;9;9] /\
  option_map (expand 0) (add Nat.eqb ex_c 3 (Some 5)) = Some [7;7;8;5;5;7;9;9;9;9] /\
  expand 0 (remove Nat.eqb ex_c 7) = [8;8;8;8;9;9;9;9] /\
  option_map (expand 0) (align 0 ex_c [0; 4; 10]) = Some [8;8;8;8;9;9;9;9;9;9] /\
  map (expand 0) (partition ex_c [0; 3; 10]) = [[7;7;8]; [8;8;7;9;9;9;9]] /\
  option_map (expand 0) (concatenate Nat.eqb 0 (partition ex_c [0; 3; 10]) false) = Some (expand 0 ex_c) /\
  getitem 0 ex_c (KSlice (Some (-3)%Z) None (Some (-2)%Z)) = GList [9; 7; 8; 7].
Proof. exact ex_c_facts. Qed.
Print Assumptions C11_example.
