(* C19 — Concatenated data sets behave as one long data set.  Only statements here.

   Models: Model/Concat.v (ConcatenatedDataSet.__init__, ConcatenatedSensorCache.get), Model/ConcatSel.v (DataSet.select
   on the whole and on the parts; translation of a call), Model/ConcatData.v (timestamps / vis / flags / weights).
   A [part] is one opened data set; [cdz] containers are the CategoricalData model of C11, [zexpand] their per-dump
   lists; [part_ok] says that every observation sensor of a part is a well-formed container over the part's dumps.
   The spec side ([spec_ts], [spec_plain], [spec_uniq], [spec_index], [spec_running], [spec_sensor], [spec_keep0],
   [spec_ds]) is written on the explicit per-dump lists of the parts in time order. *)
From Coq Require Import ZArith List Bool Lia Permutation Sorted String.
From KV Require Import Base.Sx Gen.Generated Model.Categorical Model.Concat Proofs.ConcatP Proofs.ConcatTieP Proofs.ConcatExP.
From KV Require Base.SelSlice Model.Select Proofs.SelectLawsP Model.ConcatSel Proofs.ConcatSelP Proofs.ConcatSelExP.
From KV Require Base.AxisIndex Base.NdArray Model.LazyIdx Model.ConcatData Proofs.ConcatDataP Proofs.ConcatDataExP.
From KV Require Model.ConcatIdent Proofs.ConcatIdentP Model.ConcatMulti Proofs.ConcatMultiP Proofs.ConcatMultiExP.
From KV Require Model.ConcatMeta Proofs.ConcatMetaP.
Import ListNotations.
Open Scope nat_scope.

(* ------------------------------------------------------------------ tie to the source *)
(* what the translator finds in ConcatenatedDataSet.__init__ / _set_keep and dataset.DEFAULT_SENSOR_PROPS is what the
   model assumes: ascending sort on start_time, more than one dump period refused, subarray / spw / target merged by
   value and partitioned back, scan / compscan counters from 0 growing by len(unique_values), select(spw=0,
   subarray=0), slices of the global time mask, allow_repeats exactly for label and scan_state *)
Theorem C19_source_constants :
  concat_sort_ascending_by_start = true /\ concat_max_dump_periods = 1 /\
  concat_merged_sensors = ["Observation/subarray"; "Observation/spw"; "Observation/target"]%string /\
  concat_running_sensors = ["Observation/scan_index"; "Observation/compscan_index"]%string /\
  concat_running_start = 0 /\ concat_running_step_is_num_unique = true /\
  concat_default_selection = [("spw"%string, 0%Z); ("subarray"%string, 0%Z)] /\
  concat_parts_get_mask_slices = true /\
  obs_label_allow_repeats = true /\ obs_scan_state_allow_repeats = true /\ obs_other_allow_repeats = [].
Proof. exact concat_constants_ok. Qed.
Print Assumptions C19_source_constants.

(* ------------------------------------------------------------------ order *)
(* the parts are put in order of start time: the sorted list is a permutation of the input, strictly increasing in
   start time; equal start times are refused *)
Theorem C19_chronological : forall input ps, sort_parts input = Some ps ->
  Permutation input ps /\ StronglySorted (fun a b => (p_start a < p_start b)%Z) ps /\ NoDup (map p_start input).
Proof. exact sort_parts_sorted. Qed.
Print Assumptions C19_chronological.

(* order_independent: ANY permutation of the input list opens as the same concatenation (or is refused alike) *)
Theorem C19_order_independent : forall l l', Permutation l l' -> concat_open l = concat_open l'.
Proof. exact order_independent. Qed.
Print Assumptions C19_order_independent.

Example C19_order_independent_example :
  Permutation ex_input [ex_C; ex_A; ex_B] /\ concat_open [ex_C; ex_A; ex_B] = COk ex_m.
Proof. exact ex_order. Qed.
Print Assumptions C19_order_independent_example.

(* ------------------------------------------------------------------ dump periods *)
(* dump_period_mismatch_refused: two parts with different dump periods are never concatenated; with distinct start
   times the refusal is the ConcatenationError of the dump-period test; conversely an opened concatenation has the
   dump period of every part *)
Theorem C19_dump_period_mismatch_refused : forall input a b, In a input -> In b input -> p_dp a <> p_dp b ->
  (forall m, concat_open input <> COk m) /\
  (NoDup (map p_start input) -> concat_open input = CErr EPeriod).
Proof. exact dump_period_mismatch_refused. Qed.
Print Assumptions C19_dump_period_mismatch_refused.

Theorem C19_dump_period_common : forall input m, concat_open input = COk m -> forall p, In p input -> p_dp p = m_dp m.
Proof. exact concat_open_dp. Qed.
Print Assumptions C19_dump_period_common.

Example C19_dump_period_example :
  concat_open (ex_slow :: ex_input) = CErr EPeriod /\ concat_open [ex_A; ex_B; ex_A] = CErr ETie.
Proof. exact ex_period. Qed.
Print Assumptions C19_dump_period_example.

(* compatible parts (distinct start times, one dump period, well-formed sensors) are always opened *)
Theorem C19_compatible_parts_open : forall input ps dp,
  sort_parts input = Some ps -> input <> [] -> Forall part_ok ps -> (forall p, In p input -> p_dp p = dp) ->
  exists m, concat_open input = COk m.
Proof. exact concat_open_succeeds. Qed.
Print Assumptions C19_compatible_parts_open.

(* ------------------------------------------------------------------ concat_expand *)
(* every observation sensor of the whole expands to the concatenation of the parts' expansions: timestamps, scan
   state and label as they are; subarray / spectral window / target as VALUES, with identical values merged in order
   of first appearance (m_subs / m_spws / m_cat) and the index sensors pointing into the merged lists; scan and
   compscan indices running on; the default selection = dumps of subarray 0 and spectral window 0.  Each [exists c]
   is the CategoricalData object that ConcatenatedSensorCache.get returns. *)
Theorem C19_concat_expand : forall input ps m,
  sort_parts input = Some ps -> Forall part_ok ps -> concat_open input = COk m ->
  let N := list_sum (map nT ps) in
  map p_start (m_parts m) = map p_start ps /\ m_segs m = segs_of (map nT ps) /\
  m_ts m = spec_ts ps /\
  m_subs m = spec_uniq p_sub ps /\ m_spws m = spec_uniq p_spw ps /\ m_cat m = spec_uniq p_tgt ps /\
  (exists c, m_sub m = Some c /\ cd_ok N c /\ zexpand c = spec_plain p_sub ps) /\
  (exists c, m_spw m = Some c /\ cd_ok N c /\ zexpand c = spec_plain p_spw ps) /\
  (exists c, m_tgt m = Some c /\ cd_ok N c /\ zexpand c = spec_plain p_tgt ps) /\
  (exists c, m_sub_index m = Some c /\ cd_ok N c /\ zexpand c = spec_index p_sub ps) /\
  (exists c, m_spw_index m = Some c /\ cd_ok N c /\ zexpand c = spec_index p_spw ps) /\
  (exists c, m_tgt_index m = Some c /\ cd_ok N c /\ zexpand c = spec_index p_tgt ps) /\
  (exists c, m_state m = Some c /\ cd_ok N c /\ zexpand c = spec_plain p_state ps) /\
  (exists c, m_label m = Some c /\ cd_ok N c /\ zexpand c = spec_plain p_label ps) /\
  (exists c, m_scan m = Some c /\ cd_ok N c /\ zexpand c = spec_running p_scan ps) /\
  (exists c, m_cscan m = Some c /\ cd_ok N c /\ zexpand c = spec_running p_cscan ps) /\
  m_keep0 m = Some (spec_keep0 ps) /\
  (* the sensors written back into the parts: the part's own per-dump values, over the MERGED value list *)
  Forall2 (fun p q => cd_ok (nT p) (p_tgt q) /\ zexpand (p_tgt q) = zexpand (p_tgt p) /\ uv (p_tgt q) = m_cat m) ps (m_parts m) /\
  Forall2 (fun p q => cd_ok (nT p) (p_sub q) /\ zexpand (p_sub q) = zexpand (p_sub p) /\ uv (p_sub q) = m_subs m) ps (m_parts m) /\
  Forall2 (fun p q => cd_ok (nT p) (p_spw q) /\ zexpand (p_spw q) = zexpand (p_spw p) /\ uv (p_spw q) = m_spws m) ps (m_parts m).
Proof. exact concat_expand_all. Qed.
Print Assumptions C19_concat_expand.

(* every other sensor (float / SIGNED int arrays, categorical data of float / signed integer / string / boolean /
   object type; unsigned integer types: see C19_unsigned_sensor below) present in an arbitrary subset of the parts:
   the whole presents the concatenation of the parts' values with the dummy value of the sensor's type (NaN, -1, '', False; C12)
   over the parts that lack it; KeyError iff no part has it; it only fails for a sensor that is categorical in one
   part and a plain array in another *)
Theorem C19_concat_expand_sensors : forall input ps m name ar,
  sort_parts input = Some ps -> Forall part_ok ps -> concat_open input = COk m -> Forall (sens_ok name) ps ->
  match get_sensor (m_parts m) name ar with
  | RNum l => spec_sensor ps name = Some l
  | RCat c => spec_sensor ps name = Some (zexpand c) /\ cd_ok (list_sum (map nT ps)) c
  | RKeyError => spec_sensor ps name = None
  | RFail => mixed_kinds name ps = true
  end.
Proof. exact sensor_expand_open. Qed.
Print Assumptions C19_concat_expand_sensors.

Theorem C19_dummy_is_C12s : forall dt,
  dummy_code dt = match snd (KV.Model.SensorCache.dummy_value None dt) with
                  | KV.Model.SensorCache.VNum None => nan_code
                  | KV.Model.SensorCache.VInt z => z
                  | KV.Model.SensorCache.VEmptyStr => 0%Z
                  | KV.Model.SensorCache.VFalse => 0%Z
                  | _ => (-8888)%Z
                  end.
Proof. exact dummy_code_def. Qed.
Print Assumptions C19_dummy_is_C12s.

(* FINDING C19-F4 (REPAIRED, katdal commit "fix: dummy_sensor_getter casts the integer dummy -1 into the sensor's type").
   [get_sensor_u ... ubits] = ConcatenatedSensorCache.get including sensors whose common dtype is an unsigned integer type
   of [ubits] bits (ubits = 0: one of the types above; then it IS get_sensor, C19_unsigned_sensor_signed_case).
   dummy_sensor_getter now evaluates np.array(-1).astype(dtype)[()] (re-read by the translator, which refuses the old
   np.dtype(dtype).type(-1)): -1 cast into the type.  FULL strength, no guard: for every opened concatenation, every
   sensor, every width, every subset of the parts having it, the whole presents the concatenation of the parts' values
   with the dummy of the type - the LARGEST value 2^ubits - 1 of an unsigned type ([spec_dummy_u]: the value the
   documented dummy -1 is stored as; what NumPy < 2 produced) - over the parts that lack it. *)
Theorem C19_unsigned_sensor : forall input ps m name ar ubits,
  sort_parts input = Some ps -> Forall part_ok ps -> concat_open input = COk m -> Forall (sens_ok name) ps ->
  match get_sensor_u (m_parts m) name ar ubits with
  | RNum l => spec_sensor_u ubits ps name = Some l
  | RCat c => spec_sensor_u ubits ps name = Some (zexpand c) /\ cd_ok (list_sum (map nT ps)) c
  | RKeyError => spec_sensor_u ubits ps name = None
  | RFail => mixed_kinds name ps = true
  end.
Proof. exact unsigned_sensor. Qed.
Print Assumptions C19_unsigned_sensor.

(* what must NOT change: for the types of C12's model (ubits = 0) nothing changed - same function, same spec, -1 for
   integers; and the filler of an unsigned type lies inside the type (never -1) *)
Theorem C19_unsigned_sensor_signed_case : forall ps name ar,
  get_sensor_u ps name ar 0 = get_sensor ps name ar /\ spec_sensor_u 0 ps name = spec_sensor ps name.
Proof. exact unsigned_signed_case. Qed.
Print Assumptions C19_unsigned_sensor_signed_case.

Theorem C19_unsigned_filler : forall ubits, (0 < ubits)%Z ->
  (0 <= dummy_code_u ubits KV.Model.SensorCache.DInt < 2 ^ ubits)%Z /\
  dummy_code_u ubits KV.Model.SensorCache.DInt = (2 ^ ubits - 1)%Z.
Proof. exact unsigned_filler_in_range. Qed.
Print Assumptions C19_unsigned_filler.

(* non-vacuity: a uint8 sensor (3, 200, 200, 200) held by the first of two parts: 255, 255 over the second; as uint16
   65535; as a signed sensor -1 *)
Theorem C19_unsigned_sensor_example :
  sort_parts ex_U = Some ex_U /\ Forall part_ok ex_U /\ concat_open ex_U = COk ex_Um /\ Forall (sens_ok 9%Z) ex_U /\
  (match get_sensor_u (m_parts ex_Um) 9 false 8 with RCat c => Some (zexpand c, ev c) | _ => None end)
    = Some ([3; 200; 200; 200; 255; 255]%Z, [0; 1; 4; 6]) /\
  spec_sensor_u 8 ex_U 9 = Some [3; 200; 200; 200; 255; 255]%Z /\
  spec_sensor_u 16 ex_U 9 = Some [3; 200; 200; 200; 65535; 65535]%Z /\
  (match get_sensor_u (m_parts ex_Um) 9 false 16 with RCat c => Some (zexpand c) | _ => None end)
    = Some [3; 200; 200; 200; 65535; 65535]%Z /\
  (match get_sensor_u (m_parts ex_Um) 9 false 0 with RCat c => Some (zexpand c) | _ => None end)
    = Some [3; 200; 200; 200; -1; -1]%Z.
Proof. exact ex_unsigned. Qed.
Print Assumptions C19_unsigned_sensor_example.

(* BEFORE the repair ([get_sensor_u_before_fix]: np.dtype(dtype).type(-1) raises OverflowError under NumPy >= 2): the
   same two-part concatenation could not be read where the spec answers *)
Theorem C19_unsigned_sensor_refuted_before_fix :
  exists input ps m name l,
    sort_parts input = Some ps /\ Forall part_ok ps /\ concat_open input = COk m /\ Forall (sens_ok name) ps /\
    mixed_kinds name ps = false /\ spec_sensor ps name = Some l /\
    get_sensor_u_before_fix (m_parts m) name false true = RFail.
Proof. exact ex_unsigned_refuted_before_fix. Qed.
Print Assumptions C19_unsigned_sensor_refuted_before_fix.

(* cache[name] under the time selection: every part applies its own slice of the global mask; glued, that is the
   global mask applied to the whole series; and the slices tile the mask *)
Theorem C19_selected_sensor : forall ps (keep : list bool) (l : list Z),
  List.length l = list_sum (map nT ps) -> List.length keep = list_sum (map nT ps) ->
  selected_pieces ps keep (cut (map nT ps) l) = mask_sel keep l /\ List.concat (cut (map nT ps) keep) = keep.
Proof. exact selected_sensor_both. Qed.
Print Assumptions C19_selected_sensor.

Example C19_concat_expand_example :
  sort_parts ex_input = Some ex_sorted /\ Forall part_ok ex_sorted /\ concat_open ex_input = COk ex_m /\
  map p_start (m_parts ex_m) = [100; 200; 300]%Z /\
  m_ts ex_m = [0; 4; 8; 12; 400; 404; 800; 804; 808]%Z /\
  m_cat ex_m = [2; 3; 1]%Z /\
  option_map zexpand (m_tgt ex_m) = Some [2; 3; 3; 3; 1; 1; 1; 1; 2]%Z /\
  option_map zexpand (m_tgt_index ex_m) = Some [0; 1; 1; 1; 2; 2; 2; 2; 0]%Z /\
  option_map zexpand (m_scan ex_m) = Some [0; 1; 1; 2; 3; 3; 4; 5; 5]%Z /\
  option_map zexpand (m_cscan ex_m) = Some [0; 0; 0; 1; 2; 2; 3; 3; 3]%Z /\
  get_sensor (m_parts ex_m) 7 false = RNum [-7777; -7777; -7777; -7777; 200; 201; 100; 101; 102]%Z /\
  (match get_sensor (m_parts ex_m) 8 false with RCat c => Some (zexpand c, ev c) | _ => None end)
    = Some ([5; 5; 5; 5; 0; 6; 0; 0; 0]%Z, [0; 4; 5; 6; 9]) /\
  get_sensor (m_parts ex_m) 9 false = RKeyError /\
  Forall (sens_ok 7) ex_sorted /\ Forall (sens_ok 8) ex_sorted.
Proof. exact ex_expand_all. Qed.
Print Assumptions C19_concat_expand_example.

(* ------------------------------------------------------------------ indices_continue *)
(* scan / compscan indices of the whole = the blocks of the parts in time order, part i shifted by the number of
   scans of the earlier parts; when every part numbers its own scans inside 0 .. n-1 (as every loader does), every
   index of an earlier part is smaller than every index of a later part: no collisions, time order *)
Theorem C19_indices_continue : forall (f : part -> cdz) ps, Forall (in_own_range f) ps ->
  spec_running f ps = List.concat (running_lists f ps 0) /\
  List.length (running_lists f ps 0) = List.length ps /\
  (forall i p, nth_error ps i = Some p ->
     nth_error (running_lists f ps 0) i
     = Some (map (fun v => (v + Z.of_nat (list_sum (firstn i (map (nuniq f) ps))))%Z) (zexpand (f p)))) /\
  StronglySorted (fun b1 b2 => forall v w, In v b1 -> In w b2 -> (v < w)%Z) (running_lists f ps 0).
Proof. exact indices_continue. Qed.
Print Assumptions C19_indices_continue.

Example C19_indices_continue_example :
  Forall (in_own_range p_scan) ex_sorted /\ Forall (in_own_range p_cscan) ex_sorted /\
  running_lists p_scan ex_sorted 0 = [[0; 1; 1; 2]; [3; 3]; [4; 5; 5]]%Z /\
  running_lists p_cscan ex_sorted 0 = [[0; 0; 0; 1]; [2; 2]; [3; 3; 3]]%Z.
Proof. exact ex_indices. Qed.
Print Assumptions C19_indices_continue_example.

(* ------------------------------------------------------------------ C19_select_commutes *)
Import KV.Base.SelSlice KV.Model.Select KV.Proofs.SelectLawsP KV.Model.ConcatSel KV.Proofs.ConcatSelP.

(* for EVERY criterion kind: its mask on the merged observation, cut at the part's segment, is the mask of the
   translated criterion on the part alone (own scan numbering, own catalogue); frequency / product criteria and
   unknown keywords are untouched *)
Theorem C19_crit_commutes : forall input ps m e mo i p t k v,
  sort_parts input = Some ps -> Forall part_ok ps -> concat_open input = COk m ->
  merged_obs e m = Some mo -> nth_error ps i = Some p -> nth_error (trs_of (m_cat m) ps) i = Some t ->
  match crit mo k v with
  | CMask DT M => crit (part_obs e p) k (tr_value t k v) = CMask DT (seg t M)
  | CMask d M => crit (part_obs e p) k (tr_value t k v) = CMask d M
  | CNone => crit (part_obs e p) k (tr_value t k v) = CNone
  | CErr => True
  end.
Proof. exact crit_commutes_open. Qed.
Print Assumptions C19_crit_commutes.

(* the segments of the parts tile the whole: a time mask of the whole is the concatenation of its per-part cuts *)
Theorem C19_masks_tile : forall cat ps (M : list bool), List.length M = list_sum (map nT ps) ->
  List.concat (map (fun t => seg t M) (trs_of cat ps)) = M.
Proof. exact (@masks_tile bool). Qed.
Print Assumptions C19_masks_tile.

(* hence select on the whole = per-part select: after ANY history of successful calls on the whole (distinct keywords
   per call, as Python guarantees), the translated history on every part alone succeeds, selects the part's segment
   of the time mask of the whole and the same channels and products; the time mask of the whole is the
   concatenation of the parts' masks *)
Theorem C19_select_commutes : forall input ps m e calls,
  sort_parts input = Some ps -> Forall part_ok ps -> concat_open input = COk m ->
  Forall (fun c => NoDup (keys c)) calls ->
  exists mo, merged_obs e m = Some mo /\
  forall S, run mo (init mo) calls = Ok S ->
    exists Sps,
      Forall2 (fun pt Sp => run (part_obs e (fst pt)) (init (part_obs e (fst pt))) (map (tr_kwargs (snd pt)) calls) = Ok Sp
                            /\ tk Sp = seg (snd pt) (tk S) /\ fk Sp = fk S /\ bk Sp = bk S)
              (combine ps (trs_of (m_cat m) ps)) Sps
      /\ tk S = List.concat (map tk Sps).
Proof. exact select_commutes. Qed.
Print Assumptions C19_select_commutes.

Example C19_select_commutes_example :
  merged_obs ConcatSelExP.ex_env ex_m = Some ConcatSelExP.ex_mo /\
  Forall (fun c => NoDup (keys c)) ConcatSelExP.ex_calls /\
  (exists S, run ConcatSelExP.ex_mo (init ConcatSelExP.ex_mo) ConcatSelExP.ex_calls = Ok S) /\
  ConcatSelExP.tk_of (run ConcatSelExP.ex_mo (init ConcatSelExP.ex_mo) (firstn 1 ConcatSelExP.ex_calls))
    = [false; true; true; false;  true; true;  true; false; false] /\
  ConcatSelExP.tk_of (run ConcatSelExP.ex_mo (init ConcatSelExP.ex_mo) ConcatSelExP.ex_calls)
    = [false; true; true; false;  false; false;  false; false; false] /\
  map (fun pt => ConcatSelExP.tk_of (run (part_obs ConcatSelExP.ex_env (fst pt)) (init (part_obs ConcatSelExP.ex_env (fst pt)))
                                         (map (tr_kwargs (snd pt)) ConcatSelExP.ex_calls)))
      (combine ex_sorted ConcatSelExP.ex_trs)
  = [[false; true; true; false]; [false; false]; [false; false; false]] /\
  map (fun t => tr_value t "targets" (VTargets [TIdx 0; TName 109])) ConcatSelExP.ex_trs
  = [VTargets [TIdx 0; TName 109]; VTargets [TName 109]; VTargets [TIdx 1; TName 109]] /\
  map (fun t => tr_value t "scans" (VScans [SIdx 3; SName 0])) ConcatSelExP.ex_trs
  = [VScans [SIdx 3; SName 0]; VScans [SIdx 0; SName 0]; VScans [SIdx (-1); SName 0]].
Proof. exact ConcatSelExP.ex_select_short. Qed.
Print Assumptions C19_select_commutes_example.

(* ------------------------------------------------------------------ C19_index *)
(* timestamps / vis / flags / weights: whenever the concatenated indexer of a data set answers an index (any head:
   int, slice, mask, integer list; any tail; spanning part boundaries), the answer is that index applied to the STORED
   arrays of the parts glued along time under the selection of the whole (glued time mask, common channel and product
   masks) -- values, shape and dtype.  Corollary of C05_concat. *)
Theorem C19_index : forall tail tailkeep dt parts ix out,
  Forall KV.Proofs.ConcatDataP.dpart_ok parts -> KV.Proofs.ConcatDataP.tail_ok tail tailkeep ->
  KV.Model.ConcatData.ds_getitem tail tailkeep dt parts ix = KV.Base.AxisIndex.Ok out ->
  KV.Model.ConcatData.spec_ds tail tailkeep dt parts ix = KV.Base.AxisIndex.Ok out.
Proof. exact KV.Proofs.ConcatDataP.index_correct. Qed.
Print Assumptions C19_index.

Example C19_index_example :
  Forall KV.Proofs.ConcatDataP.dpart_ok ConcatDataExP.ex_dparts /\ KV.Proofs.ConcatDataP.tail_ok [2; 3]%Z ConcatDataExP.ex_tailkeep /\
  KV.Model.ConcatData.ds_getitem [2; 3]%Z ConcatDataExP.ex_tailkeep 0 ConcatDataExP.ex_dparts
    [KV.Base.AxisIndex.ASlice (Some 1%Z) None None; KV.Base.AxisIndex.AInt 0]
  = KV.Model.ConcatData.spec_ds [2; 3]%Z ConcatDataExP.ex_tailkeep 0 ConcatDataExP.ex_dparts
    [KV.Base.AxisIndex.ASlice (Some 1%Z) None None; KV.Base.AxisIndex.AInt 0] /\
  KV.Model.ConcatData.ds_getitem [2; 3]%Z ConcatDataExP.ex_tailkeep 0 ConcatDataExP.ex_dparts
    [KV.Base.AxisIndex.ASlice (Some 1%Z) None None; KV.Base.AxisIndex.AInt 0] <> KV.Base.AxisIndex.Err.
Proof. exact ConcatDataExP.ex_data_short. Qed.
Print Assumptions C19_index_example.

(* ------------------------------------------------------------------ parts of another size (finding C19-F5, OPEN) *)
(* A concatenation whose parts have spectral windows with different numbers of channels / subarrays with different
   numbers of products.  select(spw=w, subarray=s) deselects every dump of the parts of the other windows / subarrays
   and ConcatenatedDataSet._set_keep hands EVERY part the channel / product masks of the selected ones.
   [ds_getitem_sized strict] = vis / flags / weights of such a data set; [spec_ds_sized] = the property: the index applied
   to the glued stored arrays of the parts of the selected window / subarray under the selection of the whole.
   h5 parts ([strict] = false, LazyIndexer): FULL strength.  v4 parts ([strict] = true, DaskLazyIndexer.shape applies the
   masks at once): every access raises IndexError although the spec answers - _refuted (vm_compute witness); _partial
   with the guard "every part has the size of the selected window / subarray". *)
Theorem C19_index_other_sizes_h5 : forall tail tailkeep dt parts ix out,
  Forall (fun p => KV.Proofs.ConcatDataP.dpart_ok (KV.Model.ConcatData.sp_part p)) parts ->
  KV.Proofs.ConcatDataP.tail_ok tail tailkeep ->
  KV.Model.ConcatData.ds_getitem_sized false tail tailkeep dt parts ix = KV.Base.AxisIndex.Ok out ->
  KV.Model.ConcatData.spec_ds_sized tail tailkeep dt parts ix = KV.Base.AxisIndex.Ok out /\
  (forall p, In p parts -> KV.Model.ConcatData.fits tail p = false -> KV.Model.ConcatData.has_dump p = false).
Proof. exact KV.Proofs.ConcatDataP.index_sized_lenient. Qed.
Print Assumptions C19_index_other_sizes_h5.

Theorem C19_index_other_sizes_v4_refuted :
  exists tail tailkeep dt parts ix out,
    Forall (fun p => KV.Proofs.ConcatDataP.dpart_ok (KV.Model.ConcatData.sp_part p)) parts /\
    KV.Proofs.ConcatDataP.tail_ok tail tailkeep /\
    (forall p, In p parts -> KV.Model.ConcatData.fits tail p = false -> KV.Model.ConcatData.has_dump p = false) /\
    KV.Model.ConcatData.spec_ds_sized tail tailkeep dt parts ix = KV.Base.AxisIndex.Ok out /\
    KV.Model.ConcatData.ds_getitem_sized true tail tailkeep dt parts ix = KV.Base.AxisIndex.Err.
Proof. exact ConcatDataExP.ex_sized_refuted. Qed.
Print Assumptions C19_index_other_sizes_v4_refuted.

Theorem C19_index_other_sizes_v4_partial : forall strict tail tailkeep dt parts ix out,
  Forall (fun p => KV.Proofs.ConcatDataP.dpart_ok (KV.Model.ConcatData.sp_part p)) parts ->
  KV.Proofs.ConcatDataP.tail_ok tail tailkeep ->
  forallb (KV.Model.ConcatData.fits tail) parts = true ->
  KV.Model.ConcatData.ds_getitem_sized strict tail tailkeep dt parts ix = KV.Base.AxisIndex.Ok out ->
  KV.Model.ConcatData.spec_ds_sized tail tailkeep dt parts ix = KV.Base.AxisIndex.Ok out.
Proof. exact KV.Proofs.ConcatDataP.index_sized_partial. Qed.
Print Assumptions C19_index_other_sizes_v4_partial.

(* with parts of one size it is the model of C19_index, strict or not *)
Theorem C19_index_same_size : forall strict tail tailkeep dt parts ix,
  forallb (KV.Model.ConcatData.fits tail) parts = true ->
  KV.Model.ConcatData.ds_getitem_sized strict tail tailkeep dt parts ix
  = KV.Model.ConcatData.ds_getitem tail tailkeep dt (map KV.Model.ConcatData.sp_part parts) ix.
Proof. exact KV.Proofs.ConcatDataP.sized_same_size. Qed.
Print Assumptions C19_index_same_size.

(* ------------------------------------------------------------------ identical subarrays / spectral windows *)
(* Model/ConcatIdent.v: what Subarray.__eq__ / SpectralWindow.__eq__ compare, component by component as the translator
   re-reads it from _description (fail-closed), and the if-chain of dummy_sensor_getter.  Model/ConcatMulti.v:
   select(subarray=s, spw=w, ...) on a concatenation with several subarrays / spectral windows. *)
Import KV.Model.ConcatIdent KV.Model.ConcatMulti.
Open Scope nat_scope.

(* what the translator finds: the antennas by their full description in order, then the products as pairs of input
   labels in order (no sorting, no set); the seven attributes of a spectral window; nan / -1 / '' / False by numpy
   type class; the filler of a missing sensor is the dummy of the common dtype of the parts that have it *)
Theorem C19_identity_source :
  subarray_description_parts = [("ants", "description"); ("corr_products", "inpA,inpB")]%string /\
  subarray_keeps_given_order = true /\
  spw_description_fields = ["centre_freq"; "channel_width"; "num_chans"; "sideband"; "band"; "product"; "bandwidth"]%string /\
  dummy_value_table = [("floating", "nan"); ("integer", "-1"); ("bytes_", "empty"); ("str_", "empty"); ("bool_", "False")]%string /\
  concat_filler_is_dummy_of_common_dtype = true.
Proof. exact KV.Proofs.ConcatIdentP.ident_constants_ok. Qed.
Print Assumptions C19_identity_source.

(* two subarrays compare equal EXACTLY when they have the same antennas in the same order and the same correlation
   products in the same order (the order of the products is the order of the columns of vis / flags / weights); two
   spectral windows exactly when all seven attributes agree *)
Theorem C19_subarray_identity : forall a b : subarray, sub_eqb a b = true <-> a = b.
Proof. exact KV.Proofs.ConcatIdentP.sub_eqb_eq. Qed.
Print Assumptions C19_subarray_identity.

Theorem C19_spw_identity : forall a b : spwin, spw_eqb a b = true <-> a = b.
Proof. exact KV.Proofs.ConcatIdentP.spw_eqb_eq. Qed.
Print Assumptions C19_spw_identity.

(* the value ids handed to Model/Concat.v: entry i gets the position of the first entry identical to it, so two
   entries get the same id exactly when they are identical *)
Theorem C19_value_ids : forall (tbl : list subarray) i j, (i < List.length tbl)%nat -> (j < List.length tbl)%nat ->
  (nth i (intern_ids sub_eqb tbl) 0 = nth j (intern_ids sub_eqb tbl) 0 <-> nth i tbl (mkSub [] []) = nth j tbl (mkSub [] [])).
Proof. exact KV.Proofs.ConcatIdentP.sub_ids_same. Qed.
Print Assumptions C19_value_ids.

(* identical subarrays (spectral windows) merged, and ONLY identical ones: two parts carry the same subarray index in
   the opened concatenation exactly when their subarrays are identical (rp, rq = table positions of their values) *)
Theorem C19_subarrays_merged_iff_identical : forall (tbl : list subarray) input ps m p q rp rq,
  sort_parts input = Some ps -> Forall part_ok ps -> concat_open input = COk m ->
  In p ps -> In q ps -> (rp < List.length tbl)%nat -> (rq < List.length tbl)%nat ->
  uv (p_sub p) = [Z.of_nat (nth rp (intern_ids sub_eqb tbl) 0)] ->
  uv (p_sub q) = [Z.of_nat (nth rq (intern_ids sub_eqb tbl) 0)] ->
  (zindex (m_subs m) (sub_of p) = zindex (m_subs m) (sub_of q) <-> nth rp tbl (mkSub [] []) = nth rq tbl (mkSub [] [])).
Proof. exact KV.Proofs.ConcatMultiP.subarrays_merged_iff_identical. Qed.
Print Assumptions C19_subarrays_merged_iff_identical.

Theorem C19_spws_merged_iff_identical : forall (tbl : list spwin) input ps m p q rp rq,
  sort_parts input = Some ps -> Forall part_ok ps -> concat_open input = COk m ->
  In p ps -> In q ps -> (rp < List.length tbl)%nat -> (rq < List.length tbl)%nat ->
  uv (p_spw p) = [Z.of_nat (nth rp (intern_ids spw_eqb tbl) 0)] ->
  uv (p_spw q) = [Z.of_nat (nth rq (intern_ids spw_eqb tbl) 0)] ->
  (zindex (m_spws m) (spw_of p) = zindex (m_spws m) (spw_of q)
   <-> nth rp tbl (mkSpw 0 0 0 0 0 0 0) = nth rq tbl (mkSpw 0 0 0 0 0 0 0)).
Proof. exact KV.Proofs.ConcatMultiP.spws_merged_iff_identical. Qed.
Print Assumptions C19_spws_merged_iff_identical.

(* the filler per type read from dummy_sensor_getter is the one Model/Concat.v fills with (C12's dummy_value):
   NaN for floats, -1 for integers, '' for strings, False for booleans *)
Theorem C19_dummy_table : forall dt, dummy_of_table dummy_value_table dt = dummy_code dt.
Proof. exact KV.Proofs.ConcatIdentP.dummy_table_is_model. Qed.
Print Assumptions C19_dummy_table.

(* ... and for an unsigned integer type of any width (np.issubdtype(uint, np.integer): the integer branch, whose filler the
   translator found to be np.array(-1).astype(dtype)[()], a cast): the filler of get_sensor_u *)
Theorem C19_dummy_table_unsigned : forall ubits dt,
  dummy_of_table_u dummy_value_table dummy_int_is_cast_into_type ubits dt = dummy_code_u ubits dt.
Proof. exact KV.Proofs.ConcatIdentP.dummy_table_u_is_model. Qed.
Print Assumptions C19_dummy_table_unsigned.

Theorem C19_dummy_cast_source :
  dummy_int_is_cast_into_type = true /\ dummy_int_before_cast = dummy_code KV.Model.SensorCache.DInt.
Proof. exact KV.Proofs.ConcatIdentP.dummy_cast_constants_ok. Qed.
Print Assumptions C19_dummy_cast_source.

(* ------------------------------------------------------------------ select(subarray=s, spw=w, ...) *)
(* what the translator finds in DataSet.select: spw= / subarray= default to the current ones; an index beyond the
   lists raises IndexError; switching resets the time mask to (spw_index == spw) & (subarray_index == subarray) and the
   channel / product masks to the size of THAT window / subarray; select() reads no product list or channel grid
   other than subarrays[self.subarray] / spectral_windows[self.spw] *)
Theorem C19_select_sw_source :
  select_time_reset_sensors = ["Observation/spw_index"; "Observation/subarray_index"]%string /\
  select_reads_only_current_subarray = true /\ select_reads_only_current_spw = true /\
  select_sw_out_of_range_raises_indexerror = true.
Proof. exact select_sw_constants_ok. Qed.
Print Assumptions C19_select_sw_source.

(* select(subarray=s, spw=w) keeps exactly the dumps whose subarray is the s-th and whose spectral window is the
   w-th of the merged lists (s = w = 0: the default selection of C19_concat_expand) *)
Theorem C19_keep_sw : forall input ps m s w,
  sort_parts input = Some ps -> Forall part_ok ps -> concat_open input = COk m ->
  m_keep m s w = Some (spec_keep ps s w).
Proof. exact KV.Proofs.ConcatMultiP.keep_sw_open. Qed.
Print Assumptions C19_keep_sw.

(* select_sw_commutes: after select(subarray=s, spw=w) and ANY history of successful further calls on the whole, a
   part whose subarray / window are the s-th / w-th of the merged lists has ITS OWN products and channels equal to
   the whole's, the translated history on that part alone succeeds and selects exactly the part's segment of the time
   mask of the whole and the same channels and products; of every other part no dump is selected *)
Theorem C19_select_sw_commutes : forall input ps m E s w calls,
  sort_parts input = Some ps -> Forall part_ok ps -> concat_open input = COk m ->
  Forall KV.Proofs.ConcatMultiP.single_sw ps -> (s < List.length (m_subs m))%nat -> (w < List.length (m_spws m))%nat ->
  Forall (fun c => NoDup (keys c)) calls ->
  exists mo, merged_obs (whole_env E m s w) m = Some mo /\
  m_keep m (Z.of_nat s) (Z.of_nat w) = Some (spec_keep ps (Z.of_nat s) (Z.of_nat w)) /\
  forall S, run mo (init mo) calls = Ok S ->
    let TK := band (spec_keep ps (Z.of_nat s) (Z.of_nat w)) (tk S) in
    forall i p t, nth_error ps i = Some p -> nth_error (trs_of (m_cat m) ps) i = Some t ->
      if member m s w p
      then part_env E p = whole_env E m s w /\
           exists Sp, run (part_obs (part_env E p) p) (init (part_obs (part_env E p) p)) (map (tr_kwargs t) calls) = Ok Sp
                      /\ tk Sp = seg t TK /\ fk Sp = fk S /\ bk Sp = bk S
      else seg t TK = repeat false (nT p).
Proof. exact KV.Proofs.ConcatMultiP.select_sw_commutes. Qed.
Print Assumptions C19_select_sw_commutes.

(* a concatenation B | C | A where C lists the same three products of the same two antennas in another order: C is
   another subarray (index 1); pol='hh' selects columns 0, 1 in subarray 0 and columns 1, 2 in subarray 1, each as
   the part alone does *)
Example C19_select_sw_example :
  intern_ids sub_eqb ConcatMultiExP.ex_subs = [0; 1; 0] /\ intern_ids spw_eqb ConcatMultiExP.ex_spws = [0; 0; 0] /\
  sub_eqb ConcatMultiExP.exS0 ConcatMultiExP.exS1 = false /\
  sort_parts ConcatMultiExP.exM_input = Some ConcatMultiExP.exM_sorted /\
  concat_open ConcatMultiExP.exM_input = COk ConcatMultiExP.exM_m /\
  Forall part_ok ConcatMultiExP.exM_sorted /\ Forall KV.Proofs.ConcatMultiP.single_sw ConcatMultiExP.exM_sorted /\
  m_subs ConcatMultiExP.exM_m = [0; 1]%Z /\
  m_keep ConcatMultiExP.exM_m 1 0 = Some [false; false; false; false; true; true; false; false; false] /\
  map (member ConcatMultiExP.exM_m 1 0) ConcatMultiExP.exM_sorted = [false; true; false] /\
  ConcatMultiExP.bk_of (run (ConcatMultiExP.exM_mo 0 0) (init (ConcatMultiExP.exM_mo 0 0)) ConcatMultiExP.exM_calls) = [true; true; false] /\
  ConcatMultiExP.bk_of (run (ConcatMultiExP.exM_mo 1 0) (init (ConcatMultiExP.exM_mo 1 0)) ConcatMultiExP.exM_calls) = [false; true; true].
Proof. exact ConcatMultiExP.exM_short. Qed.
Print Assumptions C19_select_sw_example.

(* ------------------------------------------------------------------ metadata of the concatenation (round f) *)
(* Model/ConcatMeta.v: the block "Merge high-level metadata" of ConcatenatedDataSet.__init__ (anchor: chronological sort
   and metadata merge).  [dmeta] = one data set as that block reads it (values as ids, '' = 0); [concat_meta] = what the
   concatenation presents: the six joined strings as the lists of their components, obs_params / receivers as
   association lists of [One v] (all parts agree) / [Many vs] (the parts' values in time order, '' for a part without the
   key), start / end time, ref_ant / time_offset, the order of self.datasets. *)
Import KV.Model.ConcatMeta KV.Proofs.ConcatMetaP.
Open Scope Z_scope.

(* what the translator finds (item_concat_meta): ref_ant / time_offset from datasets[0] BEFORE the sort, everything else
   after it; the separator of every joined string; `.get(key, '')`; one value iff itertools.groupby finds one run;
   start = min, end = max *)
Theorem C19_meta_source :
  concat_meta_ref_from_input_head = true /\
  concat_meta_joins = [("name", ","); ("url", " | "); ("version", ","); ("observer", ","); ("description", " | ");
                       ("experiment_id", ",")]%string /\
  concat_meta_dicts = ["obs_params"; "receivers"]%string /\ concat_meta_missing_value = ""%string /\
  concat_meta_one_value_iff_one_group = true /\ concat_start_is_min_end_is_max = true.
Proof. exact meta_constants_ok. Qed.
Print Assumptions C19_meta_source.

(* ANY order of the input list gives the same metadata (and the same refusal) - except ref_ant / time_offset ... *)
Theorem C19_meta_order_independent : forall l l', Permutation l l' ->
  option_map forget_ref (concat_meta l) = option_map forget_ref (concat_meta l').
Proof. exact meta_order_independent. Qed.
Print Assumptions C19_meta_order_independent.

(* ... which are those of the first data set of the INPUT list, hence order independent too when all parts were opened
   with the same ref_ant / time_offset, as katdal.open([...], ref_ant, time_offset) does *)
Theorem C19_meta_ref_is_input_head : forall a t m,
  concat_meta (a :: t) = Some m -> mm_refant m = dm_refant a /\ mm_toff m = dm_toff a.
Proof. exact meta_ref_is_input_head. Qed.
Print Assumptions C19_meta_ref_is_input_head.

Theorem C19_meta_order_independent_same_ref : forall l l', Permutation l l' ->
  (forall a b, In a l -> In b l -> dm_refant a = dm_refant b /\ dm_toff a = dm_toff b) ->
  concat_meta l = concat_meta l'.
Proof. exact meta_order_independent_full. Qed.
Print Assumptions C19_meta_order_independent_same_ref.

(* self.datasets: a permutation of the input in strictly increasing start time; refused iff no data set or equal
   start times *)
Theorem C19_meta_chronological : forall l m, concat_meta l = Some m ->
  exists ds, Permutation l ds /\ StronglySorted lt_m ds /\ mm_order m = map dm_start ds /\ NoDup (map dm_start l).
Proof. exact meta_order. Qed.
Print Assumptions C19_meta_chronological.

Theorem C19_meta_refused : forall l, concat_meta l = None <-> l = [] \/ ~ NoDup (map dm_start l).
Proof. exact meta_refused. Qed.
Print Assumptions C19_meta_refused.

(* start_time = the earliest start = the start of the first data set in time order; end_time = the latest end; both
   are attained by a part and bound every part *)
Theorem C19_meta_start_end : forall l m, concat_meta l = Some m ->
  (forall d, In d l -> mm_start m <= dm_start d /\ dm_end d <= mm_end m) /\
  (exists d, In d l /\ mm_start m = dm_start d) /\ (exists d, In d l /\ mm_end m = dm_end d) /\
  mm_start m = hd 0 (mm_order m).
Proof. exact meta_start_end. Qed.
Print Assumptions C19_meta_start_end.

(* name / url / version / observer / description / experiment_id: every distinct value of the parts exactly once, in
   order of first appearance over the parts in TIME order *)
Theorem C19_meta_joined : forall l m, concat_meta l = Some m ->
  forall (f : dmeta -> Z) (g : mmeta -> list Z),
    (f = dm_name /\ g = mm_name) \/ (f = dm_url /\ g = mm_url) \/ (f = dm_version /\ g = mm_version) \/
    (f = dm_observer /\ g = mm_observer) \/ (f = dm_descr /\ g = mm_descr) \/ (f = dm_expid /\ g = mm_expid) ->
    NoDup (g m) /\ (forall x, In x (g m) <-> exists d, In d l /\ f d = x) /\
    (exists ds, Permutation l ds /\ StronglySorted lt_m ds /\ g m = unique_in_order Z.eqb (map f ds)).
Proof. exact meta_joined. Qed.
Print Assumptions C19_meta_joined.

(* obs_params / receivers of the whole = the merge of the parts' dictionaries in time order ... *)
Theorem C19_meta_dicts : forall l m, concat_meta l = Some m ->
  exists ds, Permutation l ds /\ StronglySorted lt_m ds /\
             mm_params m = merge_dicts (map dm_params ds) /\ mm_rx m = merge_dicts (map dm_rx ds).
Proof. exact meta_dicts. Qed.
Print Assumptions C19_meta_dicts.

(* ... of which: keys distinct; a key is there iff some part has it; nothing is lost (for every key and every part the
   part's own value, or '' when it lacks the key, is read back from the merged entry); a single value stands EXACTLY for
   "all parts agree"; a list is the list of the parts' values *)
Theorem C19_merged_dict_laws : forall ds,
  NoDup (map fst (merge_dicts ds)) /\
  (forall k, In k (map fst (merge_dicts ds)) <-> exists d, In d ds /\ In k (map fst d)) /\
  (forall k mv, mget k (merge_dicts ds) = Some mv ->
     (forall i, (i < List.length ds)%nat -> mval_nth mv i = dget k (nth i ds [])) /\
     (forall v, mv = One v <-> ds <> [] /\ forall d, In d ds -> dget k d = v) /\
     (forall vs, mv = Many vs -> vs = map (dget k) ds)) /\
  (forall k, mget k (merge_dicts ds) = None <-> forall d, In d ds -> ~ In k (map fst d)).
Proof. exact merge_dicts_laws. Qed.
Print Assumptions C19_merged_dict_laws.

(* katdal.open([f]) presents the metadata of f itself *)
Theorem C19_meta_single : forall d, NoDup (map fst (dm_params d)) -> NoDup (map fst (dm_rx d)) ->
  concat_meta [d] =
  Some (mkMM [dm_name d] [dm_url d] [dm_version d] [dm_observer d] [dm_descr d] [dm_expid d]
             (map (fun kv => (fst kv, One (snd kv))) (dm_params d)) (map (fun kv => (fst kv, One (snd kv))) (dm_rx d))
             (dm_start d) (dm_end d) (dm_refant d) (dm_toff d) [dm_start d]).
Proof. exact meta_single. Qed.
Print Assumptions C19_meta_single.

(* C | A | B given out of time order: names / urls in time order, one version, two observers; key 7 missing from B
   (list with ''), key 8 agreed (single value), key 9 only in C; ref_ant / time_offset of C (the first of the input list,
   the LAST in time) - and of A when A is given first; equal start times refused *)
Example C19_meta_example :
  concat_meta [mC; mA; mB] =
  Some (mkMM [1; 2; 3] [11; 12; 13] [4] [5; 9] [6] [0]
             [(7, Many [70; 0; 70]); (8, One 80); (9, Many [0; 0; 90])] [(1, Many [30; 30; 31]); (2, Many [30; 0; 30])]
             100 340 43 5 [100; 200; 300]) /\
  option_map forget_ref (concat_meta [mA; mB; mC]) = option_map forget_ref (concat_meta [mC; mA; mB]) /\
  option_map mm_refant (concat_meta [mA; mB; mC]) = Some 41 /\
  concat_meta [mA; mA] = None.
Proof. exact ex_meta. Qed.
Print Assumptions C19_meta_example.
