(* C12 — Numeric sensors are cleaned, interpolated, cached and selected consistently.  Only statements here. *)
From Coq Require Import ZArith QArith List Bool String.
From KV Require Import Base.Sx Base.Str Gen.Generated Model.Interp Model.SensorCache Proofs.InterpP.
Import ListNotations.
Open Scope Q_scope.

(* Interpolating onto a sub-grid (a time selection) = the same selection of the full-grid interpolation (reused by C17). *)
Theorem C12_interp_pointwise : forall nodes (m : list bool) (grid : list Q),
  map (interp nodes) (select_mask m grid) = select_mask m (map (interp nodes) grid).
Proof. exact interp_pointwise. Qed.
Print Assumptions C12_interp_pointwise.
