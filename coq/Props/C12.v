(* C12 — Numeric sensors are cleaned, interpolated, cached and selected consistently.  Only statements here.
   Model: Model/SensorCache.v (sensordata.py, concatdata.py), Model/Interp.v (numpy.interp as katdal calls it).
   `get vf false` is the faithful model of the (repaired) code; `vf` (the virtual sensor functions) is universally
   quantified; sensor_valid_statuses / sensor_status_width are regenerated from the source on every run. *)
From Coq Require Import ZArith QArith List Bool String.
From KV Require Import Base.Sx Base.Str Gen.Generated Model.Interp Model.SensorCache Model.SensorWild Model.SensorVirt
  Proofs.InterpP Proofs.SensorCacheP Proofs.SensorWildP Proofs.SensorVirtP.
Import ListNotations.
Open Scope Q_scope.

(* The statuses the code treats as readable are the documented ones, compared on the first 7 characters. *)
Theorem C12_valid_statuses :
  sensor_valid_statuses = ["nominal"; "warn"; "error"]%string /\ sensor_status_width = 7%nat.
Proof. split; reflexivity. Qed.
Print Assumptions C12_valid_statuses.

(* After the clean-up the timestamps are strictly increasing (sorted, no duplicates), for every sample sequence. *)
Theorem C12_clean_sorted_unique : forall hs l, strictly_inc (nodes_of (clean hs l)).
Proof. exact clean_sorted_unique. Qed.
Print Assumptions C12_clean_sorted_unique.

(* A sample survives iff it is the LAST sample of the raw sequence carrying its timestamp and (when the sensor has
   statuses) its status is readable.  Order of the code: duplicates are resolved first, THEN the status filter, so a
   timestamp whose last sample is unreadable disappears even if an earlier duplicate was readable. *)
Theorem C12_clean_keeps_last_valid : forall hs l s,
  In s (clean hs l) <->
  (exists l1 l2, l = l1 ++ s :: l2 /\ forall x, In x l2 -> ~ s_t x == s_t s)
  /\ (hs = true -> status_ok (s_st s) = true).
Proof. exact clean_keeps_last_valid. Qed.
Print Assumptions C12_clean_keeps_last_valid.

(* Interpolation: exact at a node ... *)
Theorem C12_interp_at_node : forall nodes x xi yi,
  strictly_inc nodes -> In (xi, yi) nodes -> x == xi -> interp_d nodes x == yi.
Proof. exact interp_at_node. Qed.
Print Assumptions C12_interp_at_node.

(* ... the convex combination of the two neighbouring nodes in between ... *)
Theorem C12_interp_between : forall h x0 y0 x1 y1 t x,
  strictly_inc (h ++ (x0, y0) :: (x1, y1) :: t) -> x0 <= x -> x < x1 ->
  let lam := (x - x0) / (x1 - x0) in
  0 <= lam /\ lam < 1 /\ x == (1 - lam) * x0 + lam * x1 /\
  interp_d (h ++ (x0, y0) :: (x1, y1) :: t) x == (1 - lam) * y0 + lam * y1.
Proof. exact interp_between_weight. Qed.
Print Assumptions C12_interp_between.

(* ... and held constant outside the sample range. *)
Theorem C12_interp_outside :
  (forall x0 y0 t x, strictly_inc ((x0, y0) :: t) -> x <= x0 -> interp_d ((x0, y0) :: t) x == y0) /\
  (forall h xn yn x, strictly_inc (h ++ [(xn, yn)]) -> xn <= x -> interp_d (h ++ [(xn, yn)]) x == yn).
Proof. exact (conj interp_left interp_right). Qed.
Print Assumptions C12_interp_outside.

(* Interpolating onto a sub-grid (a time selection) = the same selection of the full-grid interpolation (reused by C17). *)
Theorem C12_interp_pointwise : forall nodes (m : list bool) (grid : list Q),
  map (interp nodes) (select_mask m grid) = select_mask m (map (interp nodes) grid).
Proof. exact interp_pointwise. Qed.
Print Assumptions C12_interp_pointwise.

(* First read of a numeric sensor through the cache = interpolation of the cleaned, time_offset-shifted samples onto
   the dump timestamps, restricted to `keep` when selected; the full-length result is cached; raw samples untouched. *)
Theorem C12_get : forall vf fuel c name gid g select kw,
  r_lookup name (c_raw c) = Some (ERaw gid) -> nth_error (c_store c) gid = Some g ->
  let p := fst (get_props name (c_props c) kw) in
  let cl := clean (g_has_status g) (shift (offset_of p) (g_samples g)) in
  cl <> [] -> decide_cat p (g_dtype g) = false -> (g_dtype g = DFloat \/ g_dtype g = DInt) ->
  let full := map (fun x => Some (interp_d (nodes_of cl) x)) (c_ts c) in
  let '(c', r) := get vf false fuel c name select true kw in
  r = RVals (if select then select_mask (c_keep c) full else full) /\
  r_lookup name (c_raw c') = Some (EVals full) /\ c_store c' = c_store c.
Proof. exact C12_get. Qed.
Print Assumptions C12_get.

(* Once cached, ANY interleaving of selection changes and reads (any sensor, any select/extract/kwargs) leaves the
   cached full-length values in place and a further access returns them restricted to the then-current selection. *)
Theorem C12_get_repeatable : forall vf name l ops c,
  r_lookup name (c_raw c) = Some (EVals l) -> no_producer name c -> forallb is_read ops = true ->
  let c' := fst (run_ops vf false c ops) in
  forall fuel s e kw, s && negb e = false ->
  get vf false fuel c' name s e kw = (c', RVals (if s then select_mask (c_keep c') l else l)).
Proof. exact get_repeatable. Qed.
Print Assumptions C12_get_repeatable.

(* Extraction never alters the raw samples: no access history changes the samples held by any getter. *)
Theorem C12_extract_pure : forall vf ops c, c_store (fst (run_ops vf false c ops)) = c_store c.
Proof. exact run_pure. Qed.
Print Assumptions C12_extract_pure.

(* Hence a sensor and its alias (same getter), read with the same effective properties, give the same values. *)
Theorem C12_alias_consistent : forall vf fuel c a b gid g kwa kwb c1 la c2 lb,
  r_lookup a (c_raw c) = Some (ERaw gid) -> r_lookup b (c_raw c) = Some (ERaw gid) -> a <> b ->
  nth_error (c_store c) gid = Some g ->
  get vf false fuel c a false true kwa = (c1, RVals la) ->
  get vf false fuel c1 b false true kwb = (c2, RVals lb) ->
  fst (get_props a (c_props c) kwa) = fst (get_props b (c_props c1) kwb) ->
  la = lb.
Proof. exact alias_consistent. Qed.
Print Assumptions C12_alias_consistent.

(* The statement discriminates: for the code BEFORE the F3 repair (in-place `timestamp += time_offset`, inplace = true)
   the alias differs and the stored samples are shifted twice; for the repaired code neither happens. *)
Theorem C12_alias_refuted_before_fix :
  let ops := [OGet "a/x" false true p_empty; OGet "a/z" false true p_empty] in
  map of_res (snd (run_ops no_vf true f3_cache ops)) = [L [I 0%Z; qs [0; 0; 4]%Z]; L [I 0%Z; qs [0; 0; 0]%Z]] /\
  of_store (c_store (fst (run_ops no_vf true f3_cache ops))) = of_store [mkG DFloat false [mkS 2 0 ""; mkS 4 8 ""]] /\
  map of_res (snd (run_ops no_vf false f3_cache ops)) = [L [I 0%Z; qs [0; 0; 4]%Z]; L [I 0%Z; qs [0; 0; 4]%Z]] /\
  c_store (fst (run_ops no_vf false f3_cache ops)) = c_store f3_cache.
Proof. exact inplace_refutes_purity. Qed.
Print Assumptions C12_alias_refuted_before_fix.

(* Dummy value per dtype; an explicit initial value wins. *)
Theorem C12_dummy_by_dtype :
  dummy_value None DFloat = (DFloat, VNum None) /\
  dummy_value None DInt = (DInt, VInt (-1)) /\
  dummy_value None DStr = (DStr, VEmptyStr) /\
  dummy_value None DBool = (DBool, VFalse) /\
  (forall q dt, dummy_value (Some (IVFloat q)) dt = (DFloat, VNum (Some q))) /\
  (forall d dt, dummy_value (Some (IVOther d)) dt = (d, VGiven d)).
Proof. exact dummy_by_dtype. Qed.
Print Assumptions C12_dummy_by_dtype.

(* A sensor with no usable samples (empty, or every sample dropped) is the dummy value of its type on every dump. *)
Theorem C12_no_usable_samples : forall g ts p,
  usable g p = [] ->
  extract_sensor g ts p =
    let '(dt, dv) := dummy_value (p_init p) (g_dtype g) in
    if decide_cat p dt then XCat (Some dv)
    else match dv with
         | VNum q => XVals (map (fun _ => q) ts)
         | VInt z => XVals (map (fun _ => Some (inject_Z z)) ts)
         | _ => XErr
         end.
Proof. exact extract_no_usable. Qed.
Print Assumptions C12_no_usable_samples.

(* A virtual sensor = the registered function of its source sensors' values and the timestamps, stored under every
   name the function produces; the requested name is returned restricted to the selection. *)
Theorem C12_virtual_is_function_of_sources : forall vf fuel c name select extract kw v c1 vals k,
  select && negb extract = false ->
  r_lookup name (c_raw c) = None ->
  find (fun v => mem_string name (v_names v)) (c_virt c) = Some v ->
  eval_srcs (fun c' s => get vf false fuel c' s false true p_empty) c (v_srcs v) = (c1, inl vals) ->
  index_of_name name (v_names v) = Some k -> NoDup (v_names v) ->
  let '(c', r) := get vf false (S fuel) c name select extract kw in
  r = RVals (if select then select_mask (c_keep c) (vf (v_fid v) k vals (c_ts c)) else vf (v_fid v) k vals (c_ts c)) /\
  (forall j n, nth_error (v_names v) j = Some n ->
     r_lookup n (c_raw c') = Some (EVals (vf (v_fid v) j vals (c_ts c)))) /\
  c_store c' = c_store c.
Proof. exact virtual_is_function_of_sources. Qed.
Print Assumptions C12_virtual_is_function_of_sources.

(* Concatenated cache: parts lacking a numeric sensor contribute the dummy value over their dumps, stored back. *)
Theorem C12_concat_cache_fills : forall vf cc name select kw p2 r2 q,
  gets vf false (cc_parts cc) name select true kw = (p2, r2) ->
  forallb vk r2 = true -> existsb is_key r2 = true -> forallb is_key r2 = false ->
  let p := fst (get_props name (cc_props cc) kw) in
  dummy_value (p_init p) DFloat = (DFloat, VNum q) -> decide_cat p DFloat = false ->
  let xv := fun c : cache => map (fun _ : Q => q) (c_ts c) in
  let '(cc', r) := cget vf false cc name select true kw in
  r = RVals (filled p2 r2 select xv) /\
  (forall i c, nth_error p2 i = Some c -> nth_error r2 i = Some RErrKey ->
     exists c', nth_error (cc_parts cc') i = Some c' /\
                r_lookup name (c_raw c') = Some (EVals (xv c)) /\ c_store c' = c_store c /\ c_keep c' = c_keep c).
Proof. exact concat_cache_fills. Qed.
Print Assumptions C12_concat_cache_fills.

(* Property merge: keyword arguments beat every map entry. *)
Theorem C12_props_kwargs_win : forall name pm kw,
  let p := fst (get_props name pm kw) in
  (forall o, p_off kw = Some o -> p_off p = Some o) /\
  (forall b, p_cat kw = Some b -> p_cat p = Some b) /\
  (forall i, p_init kw = Some i -> p_init p = Some i).
Proof. exact get_props_kwargs_win. Qed.
Print Assumptions C12_props_kwargs_win.

(* ---- wildcard property merge (which property overrides apply to WHICH sensor) ---- *)

(* The shape of the wildcard test in SensorCache._get_props, regenerated from the source at every run: keys containing
   "*" are split at "*", the literal parts are regex-escaped and joined by ".*", and the pattern is anchored at the
   start AND at the end of the sensor name; merge order = name entry, wildcard entries, keyword arguments. *)
Theorem C12_wildcard_regex_shape :
  sensor_wild_char = "*"%string /\ sensor_wild_join = ".*"%string /\ sensor_wild_escape = true /\
  sensor_wild_anchor_start = true /\ sensor_wild_anchor_end = true /\
  sensor_props_merge_order = ["name"; "wildcards"; "kwargs"]%string.
Proof. exact wild_regex_shape. Qed.
Print Assumptions C12_wildcard_regex_shape.

(* A property-map entry applies to a sensor iff its key contains a star and the WHOLE sensor name is the literal
   parts of the key (key.split("*")), in order, separated by arbitrary (possibly empty) gaps. *)
Theorem C12_wildcard_whole_name : forall k name,
  key_matches k name = true <->
  In star (list_ascii_of_string k) /\
  wild_spec (split_star (list_ascii_of_string k)) (list_ascii_of_string name).
Proof. exact key_matches_spec. Qed.
Print Assumptions C12_wildcard_whole_name.

(* Hence a matching name starts with the first literal part, ENDS with the last literal part and is at least as long
   as the literal parts together: a name that merely starts with / contains something the key matches is not
   affected by the entry (e.g. "*wind_speed" applies to "asc_wind_speed" but not to "asc_wind_speed_rate"). *)
Theorem C12_wildcard_anchored : forall k name, key_matches k name = true ->
  let parts := split_star (list_ascii_of_string k) in
  (exists r, list_ascii_of_string name = List.hd [] parts ++ r)%list /\
  (exists l, list_ascii_of_string name = l ++ List.last parts [])%list /\
  (List.length (List.concat parts) <= String.length name)%nat.
Proof. exact key_matches_anchored. Qed.
Print Assumptions C12_wildcard_anchored.

Theorem C12_wildcard_examples :
  key_matches "*wind_speed" "asc_wind_speed" = true /\
  key_matches "*wind_speed" "asc_wind_speed_rate" = false /\
  key_matches "*noise_diode" "m000_dig_noise_diode" = true /\
  key_matches "*noise_diode" "m000_dig_noise_diode_power" = false /\
  key_matches "a*x" "ba/x" = false /\
  key_matches "a.*" "a/x" = false /\
  key_matches "a/x" "a/x" = false /\
  key_matches "*" "" = true /\
  key_matches "a**x" "ax" = true.
Proof. exact key_matches_examples. Qed.
Print Assumptions C12_wildcard_examples.

(* Precedence, per property (time_offset, categorical, initial_value): the keyword argument, else the LAST entry in
   dict order whose wildcard key matches the sensor and which sets the property, else the name-specific entry.
   Entries whose key does not match the whole name have no influence. *)
Theorem C12_props_precedence : forall name pm kw,
  let p := fst (get_props name pm kw) in
  p_off p = effective p_off name pm kw /\ p_cat p = effective p_cat name pm kw /\ p_init p = effective p_init name pm kw.
Proof. exact get_props_precedence. Qed.
Print Assumptions C12_props_precedence.

Theorem C12_props_nonmatching_irrelevant : forall name pm1 k v pm2 base,
  key_matches k name = false ->
  merge_wild name (pm1 ++ (k, v) :: pm2) base = merge_wild name (pm1 ++ pm2) base.
Proof. exact merge_wild_irrelevant. Qed.
Print Assumptions C12_props_nonmatching_irrelevant.

(* ---- built-in virtual sensors (mjd, lst, az/el, ra/dec, parangle, target_x/y, u/v/w): pointwise in the dump ---- *)

(* The documented function of a built-in virtual sensor is a function of ONE dump: its timestamp and the values of the
   source sensors at that dump (`pf`, universally quantified: katpoint is not modelled).  Read through the cache, the
   full-length result is pf applied dump by dump; with the time selection it is pf applied to the SELECTED dumps and
   the selected source values - the virtual sensor of a sub-grid is the sub-grid of the virtual sensor - and every
   produced name is cached full-length; raw samples untouched. *)
Theorem C12_virtual_pointwise : forall pf fuel c name select extract kw v c1 vals k,
  select && negb extract = false ->
  r_lookup name (c_raw c) = None ->
  find (fun v => mem_string name (v_names v)) (c_virt c) = Some v ->
  eval_srcs (fun c' s => get (vf_pw pf) false fuel c' s false true p_empty) c (v_srcs v) = (c1, inl vals) ->
  index_of_name name (v_names v) = Some k -> NoDup (v_names v) ->
  let '(c', r) := get (vf_pw pf) false (S fuel) c name select extract kw in
  r = RVals (if select then pw (pf (v_fid v) k) (map (select_mask (c_keep c)) vals) (select_mask (c_keep c) (c_ts c))
             else pw (pf (v_fid v) k) vals (c_ts c)) /\
  (forall j n, nth_error (v_names v) j = Some n ->
     r_lookup n (c_raw c') = Some (EVals (pw (pf (v_fid v) j) vals (c_ts c)))) /\
  c_store c' = c_store c.
Proof. exact virtual_pointwise. Qed.
Print Assumptions C12_virtual_pointwise.

(* Dump i of the result is pf of timestamps[i] and of the source values AT dump i ... *)
Theorem C12_virtual_dump_local : forall pf fid k vals ts i t,
  nth_error ts i = Some t -> nth_error (vf_pw pf fid k vals ts) i = Some (pf fid k t (at_dump i vals)).
Proof. exact virtual_dump_local. Qed.
Print Assumptions C12_virtual_dump_local.

(* ... hence independent of every other dump, of the spacing of the grid (the dump period, dropped or late dumps) and
   of the number of dumps: two grids that agree at one dump give the same value there. *)
Theorem C12_virtual_independent_of_neighbours : forall f ts vals i ts' vals' j,
  nth_error ts i = nth_error ts' j -> at_dump i vals = at_dump j vals' ->
  nth_error (pw f vals ts) i = nth_error (pw f vals' ts') j.
Proof. exact pw_local. Qed.
Print Assumptions C12_virtual_independent_of_neighbours.

(* Selection and concatenation of dump grids commute with a pointwise virtual sensor. *)
Theorem C12_virtual_select_concat :
  (forall f ts m vals, select_mask m (pw f vals ts) = pw f (map (select_mask m) vals) (select_mask m ts)) /\
  (forall f ts1 ts2 vals1 vals2,
     Forall (fun v => List.length v = List.length ts1) vals1 -> List.length vals1 = List.length vals2 ->
     pw f (zip_app vals1 vals2) (ts1 ++ ts2) = (pw f vals1 ts1 ++ pw f vals2 ts2)%list).
Proof. exact (conj pw_select pw_app). Qed.
Print Assumptions C12_virtual_select_concat.

(* Concatenated cache: when every part yields values for a (virtual or real) sensor, the result is the concatenation of
   the per-part results in order - each part evaluates the virtual sensor on its OWN dumps. *)
Theorem C12_concat_all_parts : forall vf cc name select kw p2 r2,
  gets vf false (cc_parts cc) name select true kw = (p2, r2) ->
  forallb is_vals r2 = true -> r2 <> [] ->
  exists l, concat_vals r2 = Some l /\
    cget vf false cc name select true kw = (mkCC p2 (snd (get_props name (cc_props cc) kw)), RVals l).
Proof. exact cget_all_vals. Qed.
Print Assumptions C12_concat_all_parts.

(* Timestamps/mjd: the documented function MJD(t) = t / 86400 + 40587 of every dump timestamp (no sources); MJD
   differences track timestamp differences on every grid. *)
Theorem C12_mjd : (forall vals ts, pw mjd_pf vals ts = map (fun t => Some (mjd_q t)) ts) /\
  (forall a b, mjd_q b - mjd_q a == (b - a) / 86400) /\ mjd_q 0 == 40587 /\ mjd_q 86400 == 40588.
Proof. exact (conj mjd_pw (conj mjd_diff mjd_epoch)). Qed.
Print Assumptions C12_mjd.

(* The statement discriminates (seeded change C12-4: "convert the first dump, step the rest along at the dump period"):
   stepping agrees with the documented function on a perfectly regular grid whose spacing is the dump period, and
   differs from it as soon as one dump is missing. *)
Theorem C12_mjd_stepping_refuted :
  (forall n t0 p, Forall2 Qeq (mjd_stepped p (regular t0 p n)) (map mjd_q (regular t0 p n))) /\
  (exists a b, nth_error (mjd_stepped 8 [0; 8; 24]) 2 = Some a /\ nth_error (map mjd_q [0; 8; 24]) 2 = Some b /\ ~ a == b).
Proof. exact (conj mjd_stepped_regular mjd_stepped_refuted). Qed.
Print Assumptions C12_mjd_stepping_refuted.

(* From the source at every run: the virtual sensors registered by dataset.py and the four format modules, and the
   only ways their functions use the cache: reading sensors (get), the dump timestamps, and storing what they produce
   (cache[name] = ..., update).  In particular none reads cache.dump_period or cache.keep: the values cannot depend on
   the nominal dump spacing or on the selection, as the model's function table assumes. *)
Theorem C12_virtual_registry :
  virtual_sensor_templates =
    ["Antennas/{ant}/[uvw]"; "Antennas/{ant}/az"; "Antennas/{ant}/basis_[uvw]"; "Antennas/{ant}/dec";
     "Antennas/{ant}/el"; "Antennas/{ant}/lst"; "Antennas/{ant}/parangle"; "Antennas/{ant}/ra";
     "Antennas/{ant}/target_[xy]_{projection}_{coordsys}"; "Correlator/Inputs/{inp}/applied_delay";
     "Correlator/Inputs/{inp}/applied_gain"; "Correlator/Inputs/{inp}/applied_phase"; "Timestamps/mjd"]%string /\
  forall a, In a virtual_cache_attrs -> In a ["get"; "setitem"; "timestamps"; "update"]%string.
Proof. exact virtual_registry. Qed.
Print Assumptions C12_virtual_registry.
