(* C12 — Numeric sensors are cleaned, interpolated, cached and selected consistently.  Only statements here.
   Model: Model/SensorCache.v (sensordata.py, concatdata.py), Model/Interp.v (numpy.interp as katdal calls it).
   `get vf false` is the faithful model of the (repaired) code; `vf` (the virtual sensor functions) is universally
   quantified; sensor_valid_statuses / sensor_status_width are regenerated from the source on every run. *)
From Coq Require Import ZArith QArith List Bool String.
From KV Require Import Base.Sx Base.Str Gen.Generated Model.Interp Model.SensorCache Model.SensorWild Model.SensorVirt
  Model.SensorKeep Model.SensorTmpl Model.SensorApi Model.SensorFill Model.SensorV4 Model.SensorNum
  Proofs.InterpP Proofs.SensorCacheP Proofs.SensorWildP Proofs.SensorVirtP
  Proofs.SensorKeepP Proofs.SensorTmplP Proofs.SensorApiP Proofs.SensorFillP Proofs.SensorShapeP Proofs.SensorV4P Proofs.SensorNumP.
Import ListNotations.
Open Scope Q_scope.

(* The statuses the code treats as readable are the documented ones, compared on the first 7 characters. *)
Theorem C12_valid_statuses :
  sensor_valid_statuses = ["nominal"; "warn"; "error"]%string /\ sensor_status_width = 7%nat.
Proof. split; reflexivity. Qed.
Print Assumptions C12_valid_statuses.

(* After the clean-up the timestamps are strictly increasing (sorted, no duplicates), for every sample sequence. *)
Theorem C12_clean_sorted_unique : forall hs l, strictly_inc (nodes_of (clean hs l)).
Proof. exact clean_sorted_unique. Qed.
Print Assumptions C12_clean_sorted_unique.

(* A sample survives iff it is the LAST sample of the raw sequence carrying its timestamp and (when the sensor has
   statuses) its status is readable.  Order of the code: duplicates are resolved first, THEN the status filter, so a
   timestamp whose last sample is unreadable disappears even if an earlier duplicate was readable. *)
Theorem C12_clean_keeps_last_valid : forall hs l s,
  In s (clean hs l) <->
  (exists l1 l2, l = l1 ++ s :: l2 /\ forall x, In x l2 -> ~ s_t x == s_t s)
  /\ (hs = true -> status_ok (s_st s) = true).
Proof. exact clean_keeps_last_valid. Qed.
Print Assumptions C12_clean_keeps_last_valid.

(* Interpolation: exact at a node ... *)
Theorem C12_interp_at_node : forall nodes x xi yi,
  strictly_inc nodes -> In (xi, yi) nodes -> x == xi -> interp_d nodes x == yi.
Proof. exact interp_at_node. Qed.
Print Assumptions C12_interp_at_node.

(* ... the convex combination of the two neighbouring nodes in between ... *)
Theorem C12_interp_between : forall h x0 y0 x1 y1 t x,
  strictly_inc (h ++ (x0, y0) :: (x1, y1) :: t) -> x0 <= x -> x < x1 ->
  let lam := (x - x0) / (x1 - x0) in
  0 <= lam /\ lam < 1 /\ x == (1 - lam) * x0 + lam * x1 /\
  interp_d (h ++ (x0, y0) :: (x1, y1) :: t) x == (1 - lam) * y0 + lam * y1.
Proof. exact interp_between_weight. Qed.
Print Assumptions C12_interp_between.

(* ... and held constant outside the sample range. *)
Theorem C12_interp_outside :
  (forall x0 y0 t x, strictly_inc ((x0, y0) :: t) -> x <= x0 -> interp_d ((x0, y0) :: t) x == y0) /\
  (forall h xn yn x, strictly_inc (h ++ [(xn, yn)]) -> xn <= x -> interp_d (h ++ [(xn, yn)]) x == yn).
Proof. exact (conj interp_left interp_right). Qed.
Print Assumptions C12_interp_outside.

(* Interpolating onto a sub-grid (a time selection) = the same selection of the full-grid interpolation (reused by C17). *)
Theorem C12_interp_pointwise : forall nodes (m : list bool) (grid : list Q),
  map (interp nodes) (select_mask m grid) = select_mask m (map (interp nodes) grid).
Proof. exact interp_pointwise. Qed.
Print Assumptions C12_interp_pointwise.

(* First read of a numeric sensor through the cache = interpolation of the cleaned, time_offset-shifted samples onto
   the dump timestamps, restricted to `keep` when selected; the full-length result is cached; raw samples untouched. *)
Theorem C12_get : forall vf fuel c name gid g select kw,
  r_lookup name (c_raw c) = Some (ERaw gid) -> nth_error (c_store c) gid = Some g ->
  let p := fst (get_props name (c_props c) kw) in
  let cl := clean (g_has_status g) (shift (offset_of p) (g_samples g)) in
  cl <> [] -> decide_cat p (g_dtype g) = false -> (g_dtype g = DFloat \/ g_dtype g = DInt) ->
  let full := map (fun x => Some (interp_d (nodes_of cl) x)) (c_ts c) in
  let '(c', r) := get vf false fuel c name select true kw in
  r = RVals (if select then select_mask (c_keep c) full else full) /\
  r_lookup name (c_raw c') = Some (EVals full) /\ c_store c' = c_store c.
Proof. exact C12_get. Qed.
Print Assumptions C12_get.

(* Once cached, ANY interleaving of selection changes and reads (any sensor, any select/extract/kwargs) leaves the
   cached full-length values in place and a further access returns them restricted to the then-current selection. *)
Theorem C12_get_repeatable : forall vf name l ops c,
  r_lookup name (c_raw c) = Some (EVals l) -> no_producer name c -> forallb is_read ops = true ->
  let c' := fst (run_ops vf false c ops) in
  forall fuel s e kw, s && negb e = false ->
  get vf false fuel c' name s e kw = (c', RVals (if s then select_mask (c_keep c') l else l)).
Proof. exact get_repeatable. Qed.
Print Assumptions C12_get_repeatable.

(* Extraction never alters the raw samples: no access history changes the samples held by any getter. *)
Theorem C12_extract_pure : forall vf ops c, c_store (fst (run_ops vf false c ops)) = c_store c.
Proof. exact run_pure. Qed.
Print Assumptions C12_extract_pure.

(* Hence a sensor and its alias (same getter), read with the same effective properties, give the same values. *)
Theorem C12_alias_consistent : forall vf fuel c a b gid g kwa kwb c1 la c2 lb,
  r_lookup a (c_raw c) = Some (ERaw gid) -> r_lookup b (c_raw c) = Some (ERaw gid) -> a <> b ->
  nth_error (c_store c) gid = Some g ->
  get vf false fuel c a false true kwa = (c1, RVals la) ->
  get vf false fuel c1 b false true kwb = (c2, RVals lb) ->
  fst (get_props a (c_props c) kwa) = fst (get_props b (c_props c1) kwb) ->
  la = lb.
Proof. exact alias_consistent. Qed.
Print Assumptions C12_alias_consistent.

(* The statement discriminates: for the code BEFORE the F3 repair (in-place `timestamp += time_offset`, inplace = true)
   the alias differs and the stored samples are shifted twice; for the repaired code neither happens. *)
Theorem C12_alias_refuted_before_fix :
  let ops := [OGet "a/x" false true p_empty; OGet "a/z" false true p_empty] in
  map of_res (snd (run_ops no_vf true f3_cache ops)) = [L [I 0%Z; qs [0; 0; 4]%Z]; L [I 0%Z; qs [0; 0; 0]%Z]] /\
  of_store (c_store (fst (run_ops no_vf true f3_cache ops))) = of_store [mkG DFloat false [mkS 2 0 ""; mkS 4 8 ""]] /\
  map of_res (snd (run_ops no_vf false f3_cache ops)) = [L [I 0%Z; qs [0; 0; 4]%Z]; L [I 0%Z; qs [0; 0; 4]%Z]] /\
  c_store (fst (run_ops no_vf false f3_cache ops)) = c_store f3_cache.
Proof. exact inplace_refutes_purity. Qed.
Print Assumptions C12_alias_refuted_before_fix.

(* Dummy value per dtype; an explicit initial value wins. *)
Theorem C12_dummy_by_dtype :
  dummy_value None DFloat = (DFloat, VNum None) /\
  dummy_value None DInt = (DInt, VInt (-1)) /\
  dummy_value None DStr = (DStr, VEmptyStr) /\
  dummy_value None DBool = (DBool, VFalse) /\
  (forall q dt, dummy_value (Some (IVFloat q)) dt = (DFloat, VNum (Some q))) /\
  (forall d dt, dummy_value (Some (IVOther d)) dt = (d, VGiven d)).
Proof. exact dummy_by_dtype. Qed.
Print Assumptions C12_dummy_by_dtype.

(* A sensor with no usable samples (empty, or every sample dropped) is the dummy value of its type on every dump. *)
Theorem C12_no_usable_samples : forall g ts p,
  usable g p = [] ->
  extract_sensor g ts p =
    let '(dt, dv) := dummy_value (p_init p) (g_dtype g) in
    if decide_cat p dt then XCat (Some dv)
    else match dv with
         | VNum q => XVals (map (fun _ => q) ts)
         | VInt z => XVals (map (fun _ => Some (inject_Z z)) ts)
         | _ => XErr
         end.
Proof. exact extract_no_usable. Qed.
Print Assumptions C12_no_usable_samples.

(* A virtual sensor = the registered function of its source sensors' values and the timestamps, stored under every
   name the function produces; the requested name is returned restricted to the selection. *)
Theorem C12_virtual_is_function_of_sources : forall vf fuel c name select extract kw v c1 vals k,
  select && negb extract = false ->
  r_lookup name (c_raw c) = None ->
  find (fun v => mem_string name (v_names v)) (c_virt c) = Some v ->
  eval_srcs (fun c' s => get vf false fuel c' s false true p_empty) c (v_srcs v) = (c1, inl vals) ->
  index_of_name name (v_names v) = Some k -> NoDup (v_names v) ->
  let '(c', r) := get vf false (S fuel) c name select extract kw in
  r = RVals (if select then select_mask (c_keep c) (vf (v_fid v) k vals (c_ts c)) else vf (v_fid v) k vals (c_ts c)) /\
  (forall j n, nth_error (v_names v) j = Some n ->
     r_lookup n (c_raw c') = Some (EVals (vf (v_fid v) j vals (c_ts c)))) /\
  c_store c' = c_store c.
Proof. exact virtual_is_function_of_sources. Qed.
Print Assumptions C12_virtual_is_function_of_sources.

(* Concatenated cache: parts lacking a numeric sensor contribute the dummy value over their dumps, stored back. *)
Theorem C12_concat_cache_fills : forall vf cc name select kw p2 r2 q,
  gets vf false (cc_parts cc) name select true kw = (p2, r2) ->
  forallb vk r2 = true -> existsb is_key r2 = true -> forallb is_key r2 = false ->
  let p := fst (get_props name (cc_props cc) kw) in
  dummy_value (p_init p) DFloat = (DFloat, VNum q) -> decide_cat p DFloat = false ->
  let xv := fun c : cache => map (fun _ : Q => q) (c_ts c) in
  let '(cc', r) := cget vf false cc name select true kw in
  r = RVals (filled p2 r2 select xv) /\
  (forall i c, nth_error p2 i = Some c -> nth_error r2 i = Some RErrKey ->
     exists c', nth_error (cc_parts cc') i = Some c' /\
                r_lookup name (c_raw c') = Some (EVals (xv c)) /\ c_store c' = c_store c /\ c_keep c' = c_keep c).
Proof. exact concat_cache_fills. Qed.
Print Assumptions C12_concat_cache_fills.

(* Property merge: keyword arguments beat every map entry. *)
Theorem C12_props_kwargs_win : forall name pm kw,
  let p := fst (get_props name pm kw) in
  (forall o, p_off kw = Some o -> p_off p = Some o) /\
  (forall b, p_cat kw = Some b -> p_cat p = Some b) /\
  (forall i, p_init kw = Some i -> p_init p = Some i).
Proof. exact get_props_kwargs_win. Qed.
Print Assumptions C12_props_kwargs_win.

(* ---- wildcard property merge (which property overrides apply to WHICH sensor) ---- *)

(* The shape of the wildcard test in SensorCache._get_props, regenerated from the source at every run: keys containing
   "*" are split at "*", the literal parts are regex-escaped and joined by ".*", and the pattern is anchored at the
   start AND at the end of the sensor name; merge order = name entry, wildcard entries, keyword arguments. *)
Theorem C12_wildcard_regex_shape :
  sensor_wild_char = "*"%string /\ sensor_wild_join = ".*"%string /\ sensor_wild_escape = true /\
  sensor_wild_anchor_start = true /\ sensor_wild_anchor_end = true /\
  sensor_props_merge_order = ["name"; "wildcards"; "kwargs"]%string.
Proof. exact wild_regex_shape. Qed.
Print Assumptions C12_wildcard_regex_shape.

(* A property-map entry applies to a sensor iff its key contains a star and the WHOLE sensor name is the literal
   parts of the key (key.split("*")), in order, separated by arbitrary (possibly empty) gaps. *)
Theorem C12_wildcard_whole_name : forall k name,
  key_matches k name = true <->
  In star (list_ascii_of_string k) /\
  wild_spec (split_star (list_ascii_of_string k)) (list_ascii_of_string name).
Proof. exact key_matches_spec. Qed.
Print Assumptions C12_wildcard_whole_name.

(* Hence a matching name starts with the first literal part, ENDS with the last literal part and is at least as long
   as the literal parts together: a name that merely starts with / contains something the key matches is not
   affected by the entry (e.g. "*wind_speed" applies to "asc_wind_speed" but not to "asc_wind_speed_rate"). *)
Theorem C12_wildcard_anchored : forall k name, key_matches k name = true ->
  let parts := split_star (list_ascii_of_string k) in
  (exists r, list_ascii_of_string name = List.hd [] parts ++ r)%list /\
  (exists l, list_ascii_of_string name = l ++ List.last parts [])%list /\
  (List.length (List.concat parts) <= String.length name)%nat.
Proof. exact key_matches_anchored. Qed.
Print Assumptions C12_wildcard_anchored.

Theorem C12_wildcard_examples :
  key_matches "*wind_speed" "asc_wind_speed" = true /\
  key_matches "*wind_speed" "asc_wind_speed_rate" = false /\
  key_matches "*noise_diode" "m000_dig_noise_diode" = true /\
  key_matches "*noise_diode" "m000_dig_noise_diode_power" = false /\
  key_matches "a*x" "ba/x" = false /\
  key_matches "a.*" "a/x" = false /\
  key_matches "a/x" "a/x" = false /\
  key_matches "*" "" = true /\
  key_matches "a**x" "ax" = true.
Proof. exact key_matches_examples. Qed.
Print Assumptions C12_wildcard_examples.

(* Precedence, per property (time_offset, categorical, initial_value): the keyword argument, else the LAST entry in
   dict order whose wildcard key matches the sensor and which sets the property, else the name-specific entry.
   Entries whose key does not match the whole name have no influence. *)
Theorem C12_props_precedence : forall name pm kw,
  let p := fst (get_props name pm kw) in
  p_off p = effective p_off name pm kw /\ p_cat p = effective p_cat name pm kw /\ p_init p = effective p_init name pm kw.
Proof. exact get_props_precedence. Qed.
Print Assumptions C12_props_precedence.

Theorem C12_props_nonmatching_irrelevant : forall name pm1 k v pm2 base,
  key_matches k name = false ->
  merge_wild name (pm1 ++ (k, v) :: pm2) base = merge_wild name (pm1 ++ pm2) base.
Proof. exact merge_wild_irrelevant. Qed.
Print Assumptions C12_props_nonmatching_irrelevant.

(* ---- built-in virtual sensors (mjd, lst, az/el, ra/dec, parangle, target_x/y, u/v/w): pointwise in the dump ---- *)

(* The documented function of a built-in virtual sensor is a function of ONE dump: its timestamp and the values of the
   source sensors at that dump (`pf`, universally quantified: katpoint is not modelled).  Read through the cache, the
   full-length result is pf applied dump by dump; with the time selection it is pf applied to the SELECTED dumps and
   the selected source values - the virtual sensor of a sub-grid is the sub-grid of the virtual sensor - and every
   produced name is cached full-length; raw samples untouched. *)
Theorem C12_virtual_pointwise : forall pf fuel c name select extract kw v c1 vals k,
  select && negb extract = false ->
  r_lookup name (c_raw c) = None ->
  find (fun v => mem_string name (v_names v)) (c_virt c) = Some v ->
  eval_srcs (fun c' s => get (vf_pw pf) false fuel c' s false true p_empty) c (v_srcs v) = (c1, inl vals) ->
  index_of_name name (v_names v) = Some k -> NoDup (v_names v) ->
  let '(c', r) := get (vf_pw pf) false (S fuel) c name select extract kw in
  r = RVals (if select then pw (pf (v_fid v) k) (map (select_mask (c_keep c)) vals) (select_mask (c_keep c) (c_ts c))
             else pw (pf (v_fid v) k) vals (c_ts c)) /\
  (forall j n, nth_error (v_names v) j = Some n ->
     r_lookup n (c_raw c') = Some (EVals (pw (pf (v_fid v) j) vals (c_ts c)))) /\
  c_store c' = c_store c.
Proof. exact virtual_pointwise. Qed.
Print Assumptions C12_virtual_pointwise.

(* Dump i of the result is pf of timestamps[i] and of the source values AT dump i ... *)
Theorem C12_virtual_dump_local : forall pf fid k vals ts i t,
  nth_error ts i = Some t -> nth_error (vf_pw pf fid k vals ts) i = Some (pf fid k t (at_dump i vals)).
Proof. exact virtual_dump_local. Qed.
Print Assumptions C12_virtual_dump_local.

(* ... hence independent of every other dump, of the spacing of the grid (the dump period, dropped or late dumps) and
   of the number of dumps: two grids that agree at one dump give the same value there. *)
Theorem C12_virtual_independent_of_neighbours : forall f ts vals i ts' vals' j,
  nth_error ts i = nth_error ts' j -> at_dump i vals = at_dump j vals' ->
  nth_error (pw f vals ts) i = nth_error (pw f vals' ts') j.
Proof. exact pw_local. Qed.
Print Assumptions C12_virtual_independent_of_neighbours.

(* Selection and concatenation of dump grids commute with a pointwise virtual sensor. *)
Theorem C12_virtual_select_concat :
  (forall f ts m vals, select_mask m (pw f vals ts) = pw f (map (select_mask m) vals) (select_mask m ts)) /\
  (forall f ts1 ts2 vals1 vals2,
     Forall (fun v => List.length v = List.length ts1) vals1 -> List.length vals1 = List.length vals2 ->
     pw f (zip_app vals1 vals2) (ts1 ++ ts2) = (pw f vals1 ts1 ++ pw f vals2 ts2)%list).
Proof. exact (conj pw_select pw_app). Qed.
Print Assumptions C12_virtual_select_concat.

(* Concatenated cache: when every part yields values for a (virtual or real) sensor, the result is the concatenation of
   the per-part results in order - each part evaluates the virtual sensor on its OWN dumps. *)
Theorem C12_concat_all_parts : forall vf cc name select kw p2 r2,
  gets vf false (cc_parts cc) name select true kw = (p2, r2) ->
  forallb is_vals r2 = true -> r2 <> [] ->
  exists l, concat_vals r2 = Some l /\
    cget vf false cc name select true kw = (mkCC p2 (snd (get_props name (cc_props cc) kw)), RVals l).
Proof. exact cget_all_vals. Qed.
Print Assumptions C12_concat_all_parts.

(* Timestamps/mjd: the documented function MJD(t) = t / 86400 + 40587 of every dump timestamp (no sources); MJD
   differences track timestamp differences on every grid. *)
Theorem C12_mjd : (forall vals ts, pw mjd_pf vals ts = map (fun t => Some (mjd_q t)) ts) /\
  (forall a b, mjd_q b - mjd_q a == (b - a) / 86400) /\ mjd_q 0 == 40587 /\ mjd_q 86400 == 40588.
Proof. exact (conj mjd_pw (conj mjd_diff mjd_epoch)). Qed.
Print Assumptions C12_mjd.

(* The statement discriminates (seeded change C12-4: "convert the first dump, step the rest along at the dump period"):
   stepping agrees with the documented function on a perfectly regular grid whose spacing is the dump period, and
   differs from it as soon as one dump is missing. *)
Theorem C12_mjd_stepping_refuted :
  (forall n t0 p, Forall2 Qeq (mjd_stepped p (regular t0 p n)) (map mjd_q (regular t0 p n))) /\
  (exists a b, nth_error (mjd_stepped 8 [0; 8; 24]) 2 = Some a /\ nth_error (map mjd_q [0; 8; 24]) 2 = Some b /\ ~ a == b).
Proof. exact (conj mjd_stepped_regular mjd_stepped_refuted). Qed.
Print Assumptions C12_mjd_stepping_refuted.

(* From the source at every run: the virtual sensors registered by dataset.py and the four format modules, and the
   only ways their functions use the cache: reading sensors (get), the dump timestamps, and storing what they produce
   (cache[name] = ..., update).  In particular none reads cache.dump_period or cache.keep: the values cannot depend on
   the nominal dump spacing or on the selection, as the model's function table assumes. *)
Theorem C12_virtual_registry :
  virtual_sensor_templates =
    ["Antennas/{ant}/[uvw]"; "Antennas/{ant}/az"; "Antennas/{ant}/basis_[uvw]"; "Antennas/{ant}/dec";
     "Antennas/{ant}/el"; "Antennas/{ant}/lst"; "Antennas/{ant}/parangle"; "Antennas/{ant}/ra";
     "Antennas/{ant}/target_[xy]_{projection}_{coordsys}"; "Correlator/Inputs/{inp}/applied_delay";
     "Correlator/Inputs/{inp}/applied_gain"; "Correlator/Inputs/{inp}/applied_phase"; "Timestamps/mjd"]%string /\
  forall a, In a virtual_cache_attrs -> In a ["get"; "setitem"; "timestamps"; "update"]%string.
Proof. exact virtual_registry. Qed.
Print Assumptions C12_virtual_registry.


(* ====================================================================================================================
   Session 5: the paths from the public API down to the modelled core.
   ==================================================================================================================== *)

(* ---- the clean-up and the status filter, exactly ---- *)
(* From the source at every run: the sort is the STABLE mergesort and the LAST sample of a run of equal timestamps
   survives (`list(np.diff(x) != 0) + [True]`) - what Model/SensorCache.clean (insertion sort, keep_last) mirrors. *)
Theorem C12_cleanup_shape : sensor_sort_kind = "mergesort"%string /\ sensor_dup_rule = "last"%string.
Proof. exact cleanup_shape. Qed.
Print Assumptions C12_cleanup_shape.

(* The readable statuses are EXACTLY nominal / warn / error: of all strings of at most 7 characters (every KATCP
   status) these three and no other keep their sample. *)
Theorem C12_status_exact : forall s, (String.length s <= 7)%nat ->
  (status_ok s = true <-> s = "nominal"%string \/ s = "warn"%string \/ s = "error"%string).
Proof. exact status_exact. Qed.
Print Assumptions C12_status_exact.

(* Only the first seven characters of a recorded status count (`astype('|S7')`): "nominal " and "nominally" read as
   nominal, "warning" / "errors" / "Nominal" / "" / integer statuses do not. *)
Theorem C12_status_first7 :
  (forall s t, substring 0 7 s = substring 0 7 t -> status_ok s = status_ok t) /\
  map status_ok ["nominal"; "warn"; "error"; "unknown"; "failure"; "unreachable"; "inactive"]%string
    = [true; true; true; false; false; false; false] /\
  map status_ok ["warning"; "errors"; "Nominal"; ""; "nominal "; "nomina"; " warn"; "1"; "0"]%string
    = [false; false; false; false; true; false; false; false; false] /\
  status_ok "nominally" = true.
Proof. exact (conj status_first7 status_examples). Qed.
Print Assumptions C12_status_first7.

(* ---- defaults and statement order of the mirrored functions, regenerated from the source ---- *)
Theorem C12_api_shape :
  sensor_offset_default = 0%Z /\
  sensor_extract_steps = ["get"; "shift-copy"; "clean"; "dummy-if-empty"; "decide-categorical"; "interp"]%string /\
  sensor_get_select_default = false /\ sensor_get_extract_default = true /\ sensor_getitem_select = true /\
  sensor_keep_default = "slice(None)"%string /\
  sensor_get_steps = ["select-needs-extract"; "raw"; "virtual-templates-in-order"; "store-if-truthy"; "KeyError";
                      "extract-getter-and-cache"; "select-by-keep"]%string /\
  sensor_alias_rule = ["endswith"; "replace"]%string /\
  concat_get_select_default = false /\ concat_get_extract_default = true.
Proof. exact api_shape. Qed.
Print Assumptions C12_api_shape.

Theorem C12_dummy_shape :
  sensor_dummy_float_is_nan = true /\ sensor_dummy_int = (-1)%Z /\ sensor_dummy_str = ""%string /\
  sensor_dummy_bool = false /\ sensor_dummy_timestamp = 0%Z /\
  sensor_dummy_order = ["floating"; "integer"; "string"; "bool"]%string.
Proof. exact dummy_shape. Qed.
Print Assumptions C12_dummy_shape.

(* ---- the time selection `keep` in every documented form ---- *)
(* The default keep (slice(None)) selects everything: with it cache[name] = cache.get(name). *)
Theorem C12_keep_default : forall A (l : list A), apply_keep keep_default l = KrVals l.
Proof. exact keep_default_identity. Qed.
Print Assumptions C12_keep_default.

(* A boolean mask of the right length is the selection of the cache model; an EMPTY mask selects nothing (numpy
   special case); ANY other length is an IndexError (never a silently shortened selection); the index-list form
   np.nonzero(mask)[0] of a mask selects the same values. *)
Theorem C12_keep_mask :
  (forall A (m : list bool) (l : list A), apply_keep (KpMask m) l =
     if Nat.eqb (List.length m) (List.length l) then KrVals (select_mask m l)
     else match m with [] => KrVals [] | _ => KrIndexErr end) /\
  (forall A (m : list bool) (l : list A), List.length m = List.length l ->
     apply_keep (KpIdx (true_pos m 0)) l = apply_keep (KpMask m) l).
Proof. exact (conj keep_mask_spec keep_idx_of_mask). Qed.
Print Assumptions C12_keep_mask.

(* A slice selects EXACTLY the positions of Python's slice semantics (inside [0, n), on the lattice start + k*step,
   before the stop in the direction of travel), in that order; it never raises IndexError and a zero step is the
   only ValueError; a forward slice a:b is the contiguous block. *)
Theorem C12_keep_slice :
  (forall n a b s ps s0 s1 st,
     k_positions n a b s = Some ps -> k_adjust (Z.of_nat n) a b s = Some (s0, s1, st) ->
     forall p, In p ps <-> slice_selects (Z.of_nat n) s0 s1 st p) /\
  (forall A (l : list A) a b s ps r,
     k_positions (List.length l) a b s = Some ps -> apply_keep (KpSlice a b s) l = KrVals r ->
     map Some r = map (fun p => nth_error l (Z.to_nat p)) ps) /\
  (forall A (l : list A) a b s,
     (s = Some 0%Z -> apply_keep (KpSlice a b s) l = KrValueErr) /\
     (s <> Some 0%Z -> exists r, apply_keep (KpSlice a b s) l = KrVals r)) /\
  (forall A (l : list A) a b, (0 <= a <= b)%Z -> (b <= Z.of_nat (List.length l))%Z ->
     apply_keep (KpSlice (Some a) (Some b) None) l = KrVals (firstn (Z.to_nat (b - a)) (skipn (Z.to_nat a) l))).
Proof. exact (conj keep_slice_positions (conj keep_slice_values (conj keep_slice_total keep_slice_contiguous))). Qed.
Print Assumptions C12_keep_slice.

(* Integer keeps: one index gives the scalar at i mod n; an index list gives one value per index in list order
   (repeats allowed); an index outside [-n, n) is an IndexError in both forms - never a wrapped-around value. *)
Theorem C12_keep_int :
  (forall A (l : list A) i a, apply_keep (KpInt i) l = KrScalar a <->
     (- Z.of_nat (List.length l) <= i < Z.of_nat (List.length l))%Z /\
     nth_error l (Z.to_nat (i mod Z.of_nat (List.length l))) = Some a) /\
  (forall A (l : list A) i, apply_keep (KpInt i) l = KrIndexErr <->
     ~ (- Z.of_nat (List.length l) <= i < Z.of_nat (List.length l))%Z) /\
  (forall A (l : list A) ix r, apply_keep (KpIdx ix) l = KrVals r ->
     List.length r = List.length ix /\
     forall j i, nth_error ix j = Some i ->
       (- Z.of_nat (List.length l) <= i < Z.of_nat (List.length l))%Z /\
       nth_error r j = nth_error l (Z.to_nat (i mod Z.of_nat (List.length l))) /\ nth_error r j <> None) /\
  (forall A (l : list A) ix, apply_keep (KpIdx ix) l = KrIndexErr <->
     exists i, In i ix /\ ~ (- Z.of_nat (List.length l) <= i < Z.of_nat (List.length l))%Z).
Proof. exact (conj keep_int_spec (conj keep_int_error (conj keep_idx_spec keep_idx_error))). Qed.
Print Assumptions C12_keep_int.

Theorem C12_keep_examples :
  (apply_keep (KpSlice (Some 1) None (Some 2)) [10; 11; 12; 13; 14; 15; 16] = KrVals [11; 13; 15] /\
  apply_keep (KpSlice None None (Some (-2))) [10; 11; 12; 13; 14; 15; 16] = KrVals [16; 14; 12; 10] /\
  apply_keep (KpSlice (Some (-3)) (Some 100) None) [10; 11; 12; 13; 14; 15; 16] = KrVals [14; 15; 16] /\
  apply_keep (KpSlice None None (Some 0)) [10; 11] = KrValueErr /\
  apply_keep (KpInt (-1)) [10; 11; 12] = KrScalar 12 /\
  apply_keep (KpInt 3) [10; 11; 12] = KrIndexErr /\
  apply_keep (KpIdx [0; 2; -1; 0]) [10; 11; 12] = KrVals [10; 12; 12; 10] /\
  apply_keep (KpIdx [0; 3]) [10; 11; 12] = KrIndexErr /\
  apply_keep (KpIdx []) [10; 11; 12] = KrVals [] /\
  apply_keep (KpMask [true; false]) [10; 11; 12] = KrIndexErr /\
  apply_keep (KpMask [true; false; true]) [10; 11; 12] = KrVals [10; 12])%Z.
Proof. exact keep_examples. Qed.
Print Assumptions C12_keep_examples.

(* ---- the public get: raw sensor through ANY keep ---- *)
(* select=True with extract=False is refused before anything is looked up or changed. *)
Theorem C12_api_select_needs_extract : forall vf x name kw,
  get_x vf x name true false kw = (x, XPlain RErrValue, None).
Proof. exact api_select_needs_extract. Qed.
Print Assumptions C12_api_select_needs_extract.

(* First read of a numeric sensor through the public entry point, whatever form `keep` has: the full-length
   interpolation of the cleaned, shifted samples is cached, the caller gets `full[keep]` (C12_keep_* say what that is),
   the raw samples, the selection and the query log are untouched, no template and no store is consulted. *)
Theorem C12_api_get_numeric : forall vf x name gid g select kw,
  let c := x_c x in
  r_lookup name (c_raw c) = Some (ERaw gid) -> nth_error (c_store c) gid = Some g ->
  let p := fst (get_props name (c_props c) kw) in
  let cl := clean (g_has_status g) (shift (offset_of p) (g_samples g)) in
  cl <> [] -> decide_cat p (g_dtype g) = false -> (g_dtype g = DFloat \/ g_dtype g = DInt) ->
  let full := map (fun t => Some (interp_d (nodes_of cl) t)) (c_ts c) in
  let '(x', r, cr) := get_x vf x name select true kw in
  r = (if select then XSel (apply_keep (x_keep x) full) else XPlain (RVals full)) /\
  r_lookup name (c_raw (x_c x')) = Some (EVals full) /\ c_store (x_c x') = c_store c /\
  x_log x' = x_log x /\ x_keep x' = x_keep x /\ cr = None.
Proof. exact api_get_numeric. Qed.
Print Assumptions C12_api_get_numeric.

(* With a boolean mask of the length of the dump grid (what DataSet installs) the general selection IS the
   selection of the cache model, so C12_get / C12_get_repeatable / ... speak about the public entry point. *)
Theorem C12_api_mask_keep : forall (m : list bool) (f : Q -> qn) (ts : list Q),
  List.length m = List.length ts -> apply_keep (KpMask m) (map f ts) = KrVals (select_mask m (map f ts)).
Proof. exact api_mask_keep. Qed.
Print Assumptions C12_api_mask_keep.

(* _set_keep(None) changes nothing, _set_keep(k) installs k and nothing else; cache[name] is get(name, select=True). *)
Theorem C12_api_setkeep_item : forall vf,
  (forall x k, xstep vf x (XSetKeep None) = (x, XPlain ROk, None) /\
               x_keep (fst (fst (xstep vf x (XSetKeep (Some k))))) = k /\
               x_c (fst (fst (xstep vf x (XSetKeep (Some k))))) = x_c x) /\
  (forall x name, xstep vf x (XItem name) = get_x vf x name true true p_empty).
Proof. exact (fun vf => conj (api_setkeep vf) (api_item vf)). Qed.
Print Assumptions C12_api_setkeep_item.

(* ---- virtual-sensor templates ---- *)
(* The template test as found in the source: `{ident}` -> `(?P<ident>[^/]+)`, re.match (anchored at the START only). *)
Theorem C12_template_regex_shape :
  virtual_var_pattern = "(\{[a-zA-Z_]\w*\})"%string /\ virtual_var_format = "(?P<{}>[^/]+)"%string /\
  virtual_match_fn = "match"%string.
Proof. exact template_shape. Qed.
Print Assumptions C12_template_regex_shape.

(* A template matches a name iff the name STARTS WITH an instance of the template (literals, one character of each
   class, each variable a non-empty slash-free text); the bindings handed to the sensor function are those of such an
   instance, one per variable in template order, each non-empty and slash-free. *)
Theorem C12_template_match :
  (forall segs s b, tm segs s = Some b -> exists p rest, s = (p ++ rest)%list /\ fits segs b p) /\
  (forall segs b p, fits segs b p -> forall rest, tm segs (p ++ rest)%list <> None) /\
  (forall segs s b, tm segs s = Some b ->
     map fst b = vars_of segs /\ forall v w, In (v, w) b -> w <> [] /\ slash_free w).
Proof. exact (conj tm_sound (conj tm_complete tm_bindings)). Qed.
Print Assumptions C12_template_match.

(* A variable is GREEDY: it takes the longest slash-free text after which the rest of the template still matches. *)
Theorem C12_template_var_greedy : forall k s w b, var_go k s = Some (w, b) ->
  forall w' s', s = (w' ++ s')%list -> w' <> [] -> slash_free w' -> k s' <> None ->
  (List.length w' <= List.length w)%nat.
Proof. exact var_go_longest. Qed.
Print Assumptions C12_template_var_greedy.

(* The test is NOT anchored at the end: it accepts exactly the names that start with a full instance, hence every
   extension of a matching name; machine-checked witness "Antennas/m000/azimuth" against "Antennas/{ant}/az". *)
Theorem C12_template_prefix :
  (forall segs s, tm segs s <> None <-> exists p rest, s = (p ++ rest)%list /\ tm_full segs p <> None) /\
  (forall segs s b, tm segs s = Some b -> forall extra, tm segs (s ++ extra)%list <> None) /\
  (forall segs s b, tm_full segs s = Some b -> fits segs b s) /\
  (exists segs s, parse "Antennas/{ant}/az" = Some segs /\ tm segs s <> None /\ tm_full segs s = None).
Proof. exact (conj tm_iff_prefix_instance (conj tm_prefix_closed (conj tm_full_sound tm_not_anchored_at_end))). Qed.
Print Assumptions C12_template_prefix.

(* Templates are tried in dict order and the FIRST that matches wins; no template matches iff none does. *)
Theorem C12_template_first_match :
  (forall ts i name j b, resolve_from i ts name = Some (j, b) <->
     exists k, j = (i + k)%nat /\ (exists t, nth_error ts k = Some t /\ tm t name = Some b) /\
               forall k' t', (k' < k)%nat -> nth_error ts k' = Some t' -> tm t' name = None) /\
  (forall ts i name, resolve_from i ts name = None <-> forall t, In t ts -> tm t name = None).
Proof. exact (conj resolve_from_spec resolve_from_none). Qed.
Print Assumptions C12_template_first_match.

(* The registries of the five modules (dict order regenerated from the source) lie in the modelled regex subset, and
   what the v4 registry does with documented and undocumented names. *)
Theorem C12_template_registry :
  (forallb (fun e => match parse_all (map fst (snd e)) with Some _ => true | None => false end) virtual_registries = true /\
   map fst virtual_registries = ["dataset"; "h5datav1"; "h5datav2"; "h5datav3"; "visdatav4"]%string) /\
  (funcs_at "visdatav4" (resolve_in "visdatav4" "Antennas/m000/az") = "_calc_azel" /\
   option_map snd (resolve_in "visdatav4" "Antennas/m000/az") = Some [("ant", "m000")] /\
   funcs_at "visdatav4" (resolve_in "visdatav4" "Timestamps/mjd") = "_calc_mjd" /\
   funcs_at "visdatav4" (resolve_in "visdatav4" "Antennas/m000/target_y_SIN_radec") = "_calc_target_coords" /\
   option_map snd (resolve_in "visdatav4" "Antennas/m000/target_y_SIN_radec")
     = Some [("ant", "m000"); ("projection", "SIN"); ("coordsys", "radec")] /\
   funcs_at "visdatav4" (resolve_in "visdatav4" "Antennas/array/basis_u") = "_calc_uvw_basis" /\
   funcs_at "visdatav4" (resolve_in "visdatav4" "Antennas/m000/u") = "_calc_uvw_per_ant" /\
   funcs_at "visdatav4" (resolve_in "visdatav4" "Correlator/Inputs/m000h/applied_gain") = "_calc_gain" /\
   option_map snd (resolve_in "visdatav4" "Correlator/Inputs/m000h/applied_delay") = Some [("inp", "m000h")] /\
   resolve_in "visdatav4" "Antennas/m0/00/az" = None /\
   resolve_in "visdatav4" "Antennas//az" = None /\
   resolve_in "visdatav4" "antennas/m000/az" = None /\
   resolve_in "visdatav4" "xAntennas/m000/az" = None /\
   resolve_in "dataset" "Antennas/m000/az" = None /\
   funcs_at "visdatav4" (resolve_in "visdatav4" "Antennas/m000/azimuth") = "_calc_azel" /\
   funcs_at "visdatav4" (resolve_in "visdatav4" "Antennas/m000/radec") = "_calc_radec")%string.
Proof. exact (conj registries_parse registry_examples). Qed.
Print Assumptions C12_template_registry.

(* A name that is not in the cache and matches a template: the function of the FIRST matching template is called
   with the bindings of the match; what it stores under the name is returned through the current keep; every other
   cache entry, the raw samples, the selection and the query log are untouched (no store query). *)
Theorem C12_api_template : forall vf x name select extract kw tid b,
  select && negb extract = false ->
  r_lookup name (c_raw (x_c x)) = None -> resolve (x_tmpl x) name = Some (tid, b) ->
  let vals := vf (Z.of_nat tid) 0%nat [] (c_ts (x_c x)) in
  let '(x', r, cr) := get_x vf x name select extract kw in
  cr = Some (tid, b) /\ r = post_select (x_keep x) select (RVals vals) /\
  r_lookup name (c_raw (x_c x')) = Some (EVals vals) /\
  (forall n, n <> name -> r_lookup n (c_raw (x_c x')) = r_lookup n (c_raw (x_c x))) /\
  x_log x' = x_log x /\ c_store (x_c x') = c_store (x_c x) /\ x_keep x' = x_keep x.
Proof. exact api_template. Qed.
Print Assumptions C12_api_template.

(* ---- the katstore fallback ---- *)
Theorem C12_katstore_shape :
  katstore_before = 600%Z /\ katstore_after = 60%Z /\
  katstore_checks = ["isidentifier"; "sensor==name"; "nonempty"]%string.
Proof. exact katstore_shape. Qed.
Print Assumptions C12_katstore_shape.

(* The decision: a query is sent ONLY for a name that is neither in the cache nor matched by a template, with a
   truthy store and an identifier name, and then it is ONE query over
   [first dump - dump period - 600 s, last dump + dump period + 60 s]. *)
Theorem C12_katstore_decision : forall vf x name select extract kw,
  let x' := fst (fst (get_x vf x name select extract kw)) in
  x_log x' = x_log x \/
  (r_lookup name (c_raw (x_c x)) = None /\ resolve (x_tmpl x) name = None /\ store_active (x_store x) = true /\
   is_identifier name = true /\
   exists s e, store_window (c_ts (x_c x)) (x_dp x) = Some (s, e) /\ x_log x' = mkQy name s e :: x_log x).
Proof. exact api_log. Qed.
Print Assumptions C12_katstore_decision.

(* No store (None or ''), or a name that is not an identifier: KeyError, nothing changes, no query. *)
Theorem C12_katstore_keyerror : forall vf,
  (forall x name select extract kw,
     r_lookup name (c_raw (x_c x)) = None -> resolve (x_tmpl x) name = None -> store_active (x_store x) = false ->
     select && negb extract = false -> get_x vf x name select extract kw = (x, XPlain RErrKey, None)) /\
  (forall x name select extract kw t0 rest,
     r_lookup name (c_raw (x_c x)) = None -> resolve (x_tmpl x) name = None -> store_active (x_store x) = true ->
     select && negb extract = false -> c_ts (x_c x) = t0 :: rest -> is_identifier name = false ->
     get_x vf x name select extract kw = (x, XPlain RErrKey, None)) /\
  (store_active None = false /\ store_active (Some ""%string) = false /\
   forall a s, store_active (Some (String a s)) = true) /\
  (is_identifier "wind_speed" = true /\ is_identifier "_x9" = true /\ is_identifier "a/b" = false /\
   is_identifier "9a" = false /\ is_identifier "" = false /\ is_identifier "a.b" = false /\ is_identifier "a b" = false).
Proof.
  exact (fun vf => conj (api_unknown_no_store vf) (conj (api_store_not_identifier vf)
                     (conj store_active_spec is_identifier_examples))).
Qed.
Print Assumptions C12_katstore_keyerror.

(* The samples the fallback uses are exactly the records of the store NAMED `name` (not merely starting with it) whose
   time lies in the window. *)
Theorem C12_katstore_samples : forall srv name s e smp,
  In smp (store_samples (srv_answer srv name s e) name) <->
  exists r, In r srv /\ k_sensor r = name /\ s <= k_t r /\ k_t r <= e /\ smp = mkS (k_t r) (k_v r) (k_st r).
Proof. exact store_samples_spec. Qed.
Print Assumptions C12_katstore_samples.

(* They go through the ORDINARY extraction (status filter, duplicates, time_offset, interpolation, keep); the result
   is cached under the name, so a second read does not ask the store again (C12_katstore_decision: name in cache). *)
Theorem C12_katstore_extract : forall vf x name select kw t0 rest smp,
  let c := x_c x in
  r_lookup name (c_raw c) = None -> resolve (x_tmpl x) name = None -> store_active (x_store x) = true ->
  c_ts c = t0 :: rest -> is_identifier name = true ->
  let s := t0 - x_dp x - inject_Z katstore_before in
  let e := List.last (t0 :: rest) t0 + x_dp x + inject_Z katstore_after in
  store_samples (srv_answer (x_srv x) name s e) name = smp ->
  let p := fst (get_props name (c_props c) kw) in
  let cl := clean true (shift (offset_of p) smp) in
  cl <> [] -> decide_cat p DFloat = false ->
  let full := map (fun t => Some (interp_d (nodes_of cl) t)) (c_ts c) in
  let '(x', r, cr) := get_x vf x name select true kw in
  r = (if select then XSel (apply_keep (x_keep x) full) else XPlain (RVals full)) /\
  r_lookup name (c_raw (x_c x')) = Some (EVals full) /\
  x_log x' = mkQy name s e :: x_log x /\
  c_store (x_c x') = (c_store c ++ [mkG DFloat true smp])%list /\ cr = None.
Proof. exact api_store_extract. Qed.
Print Assumptions C12_katstore_extract.

(* extract=False hands out the fresh getter WITHOUT entering it in the cache; an empty answer is a KeyError. *)
Theorem C12_katstore_raw_and_empty : forall vf,
  (forall x name kw t0 rest smp,
     let c := x_c x in
     r_lookup name (c_raw c) = None -> resolve (x_tmpl x) name = None -> store_active (x_store x) = true ->
     c_ts c = t0 :: rest -> is_identifier name = true ->
     let s := t0 - x_dp x - inject_Z katstore_before in
     let e := List.last (t0 :: rest) t0 + x_dp x + inject_Z katstore_after in
     store_samples (srv_answer (x_srv x) name s e) name = smp -> smp <> [] ->
     let '(x', r, cr) := get_x vf x name false false kw in
     r = XPlain (RGetter (List.length (c_store c))) /\ c_raw (x_c x') = c_raw c /\
     x_log x' = mkQy name s e :: x_log x /\ c_store (x_c x') = (c_store c ++ [mkG DFloat true smp])%list) /\
  (forall x name select extract kw t0 rest,
     let c := x_c x in
     r_lookup name (c_raw c) = None -> resolve (x_tmpl x) name = None -> store_active (x_store x) = true ->
     select && negb extract = false -> c_ts c = t0 :: rest -> is_identifier name = true ->
     let s := t0 - x_dp x - inject_Z katstore_before in
     let e := List.last (t0 :: rest) t0 + x_dp x + inject_Z katstore_after in
     store_samples (srv_answer (x_srv x) name s e) name = [] ->
     get_x vf x name select extract kw = (with_log x (mkQy name s e :: x_log x), XPlain RErrKey, None)).
Proof. exact (fun vf => conj (api_store_raw vf) (api_store_no_data vf)). Qed.
Print Assumptions C12_katstore_raw_and_empty.

(* ---- the concatenated cache: dummy value per dtype ---- *)
Theorem C12_concat_fill_shape :
  concat_fill_steps = ["parts"; "KeyError-if-all-missing"; "re-extract-if-partly-extracted"; "props";
                       "common-dtype-of-unselected-parts"; "dummy(initial_value,dtype)"; "extract-dummy-per-part";
                       "array-if-non-float-and-no-categorical"; "write-back"; "concatenate"]%string.
Proof. exact concat_fill_shape. Qed.
Print Assumptions C12_concat_fill_shape.

(* The documented dummy value: an explicit initial_value (with ITS type), else NaN / -1 / '' / False by dtype -
   the same table as the single-cache model, built from the constants regenerated from dummy_sensor_getter. *)
Theorem C12_concat_dummy_table :
  (fill_dummy None DFloat = (DFloat, FNum None) /\ fill_dummy None DInt = (DInt, FInt (-1)) /\
   fill_dummy None DStr = (DStr, FStr true) /\ fill_dummy None DBool = (DBool, FBool false) /\
   (forall i dt, fill_dummy (Some i) dt = (init_dtype i, init_fval i))) /\
  (forall dt, fst (fill_dummy None dt) = fst (dummy_value None dt) /\
              fval_of_dval (snd (dummy_value None dt)) = Some (snd (fill_dummy None dt))).
Proof. exact (conj fill_dummy_table fill_dummy_agrees). Qed.
Print Assumptions C12_concat_dummy_table.

(* The dtype the default is chosen by is the common dtype of the parts that HAVE the sensor: it is the dtype of one
   of them, absorbs every other (bool < int < float < str, as np.result_type) and does not depend on their order. *)
Theorem C12_concat_common_dtype :
  (forall l d, promote_all l = Some d -> In d l /\ forall x, In x l -> x <> DObj -> promote2 x d = Some d) /\
  (forall l l', Permutation.Permutation l l' -> promote_all l = promote_all l') /\
  (promote_all [DBool; DInt] = Some DInt /\ promote_all [DInt; DFloat; DBool] = Some DFloat /\
   promote_all [DStr; DStr] = Some DStr /\ promote_all [DStr; DInt] = Some DStr /\ promote_all [] = None /\
   promote_all [DBool] = Some DBool).
Proof. exact (conj promote_all_spec (conj promote_all_perm promote_examples)). Qed.
Print Assumptions C12_concat_common_dtype.

(* Parts that have the sensor come out exactly as they answer themselves; a part that lacks it gets a filler that is
   CONSTANT over its own dumps with the documented value - an array when the filler is interpolated or when the common
   dtype is not a float and no present part is categorical, categorical data otherwise. *)
Theorem C12_concat_fill : 
  (forall parts p dtype,
     let rs := map (fun ns => part_get (fst ns) (snd ns) p) parts in
     forallb is_pmissing rs = false -> existsb is_perr rs = false ->
     promote_all (somes (map pres_dtype rs)) = Some dtype ->
     fst (cfill parts p) =
     map (fun ns => let r := part_get (fst ns) (snd ns) p in
                    if is_pmissing r then fill_one dtype (existsb is_pcat rs) p (fst ns) else r) parts) /\
  (forall dtype anycat p n,
     let '(dt', fv) := fill_dummy (f_init p) dtype in
     fill_one dtype anycat p n =
       if f_decide p dt' then
         if negb (is_float dtype) && negb anycat then PArr dt' (repeat (fnum fv) n) else PCat dt' (Some fv)
       else match as_float fv with Some q => PArr DFloat (repeat q n) | None => PErr end) /\
  (forall dtype anycat p n, fill_one dtype anycat p n <> PErr ->
     (is_parr (fill_one dtype anycat p n) = true <->
      f_decide p (fst (fill_dummy (f_init p) dtype)) = false \/ (is_float dtype = false /\ anycat = false))) /\
  (forall parts p, forallb is_pmissing (map (fun ns => part_get (fst ns) (snd ns) p) parts) = true ->
     snd (cfill parts p) = CKey).
Proof. exact (conj cfill_parts (conj fill_one_spec (conj fill_one_array_iff cfill_all_missing))). Qed.
Print Assumptions C12_concat_fill.

(* The all-float case is the one C12_concat_cache_fills states on the cache model: NaN or the float initial value. *)
Theorem C12_concat_fill_float : forall anycat p n,
  (f_init p = None \/ exists q, f_init p = Some (IFloat q)) -> (f_cat p = None \/ f_cat p = Some false) ->
  fill_one DFloat anycat p n =
  PArr DFloat (repeat (match f_init p with Some (IFloat q) => Some q | _ => None end) n).
Proof. exact fill_one_float. Qed.
Print Assumptions C12_concat_fill_float.

Theorem C12_concat_fill_examples :
  cfill [(2%nat, SArr DFloat [Some 1; Some 2]); (3%nat, SMissing)] (mkFP None None)
    = ([PArr DFloat [Some 1; Some 2]; PArr DFloat [None; None; None]],
       CArr (Some DFloat) [Some 1; Some 2; None; None; None]) /\
  snd (cfill [(2%nat, SArr DFloat [Some 1; Some 2]); (2%nat, SMissing)] (mkFP None (Some (IFloat 7))))
    = CArr (Some DFloat) [Some 1; Some 2; Some 7; Some 7] /\
  cfill [(2%nat, SArr DInt [Some 4; Some 5]); (2%nat, SMissing)] (mkFP None None)
    = ([PArr DInt [Some 4; Some 5]; PArr DInt [Some (-1 # 1); Some (-1 # 1)]],
       CArr (Some DInt) [Some 4; Some 5; Some (-1 # 1); Some (-1 # 1)]) /\
  snd (cfill [(1%nat, SArr DInt [Some 4]); (1%nat, SArr DBool [Some 1]); (1%nat, SMissing)] (mkFP None None))
    = CArr (Some DInt) [Some 4; Some 1; Some (-1 # 1)] /\
  cfill [(2%nat, SGet DInt 3); (2%nat, SMissing)] (mkFP None None)
    = ([PCat DInt None; PCat DInt (Some (FInt (-1)))], CCat) /\
  fst (cfill [(2%nat, SGet DStr 0); (2%nat, SMissing)] (mkFP None None))
    = [PCat DStr None; PCat DStr (Some (FStr true))] /\
  cfill [(2%nat, SArr DFloat [Some 1; Some 2]); (1%nat, SMissing)] (mkFP None (Some (IInt 7)))
    = ([PArr DFloat [Some 1; Some 2]; PCat DInt (Some (FInt 7))], CMixed) /\
  snd (cfill [(2%nat, SArr DInt [Some 4; Some 5]); (1%nat, SMissing)] (mkFP (Some false) None))
    = CArr (Some DFloat) [Some 4; Some 5; Some (-1 # 1)] /\
  snd (cfill [(2%nat, SMissing); (1%nat, SMissing)] (mkFP None None)) = CKey.
Proof. exact cfill_examples. Qed.
Print Assumptions C12_concat_fill_examples.

(* ---- the v4-only virtual sensors Correlator/Inputs/{inp}/applied_delay | applied_phase ---- *)
(* Read through the cache, the sensor built by _calc_delay from the CBF updates (chronological, more than 1e-6 s apart)
   goes through the ordinary extraction unchanged: every dump gets the interpolation of the built nodes. *)
Theorem C12_v4_applied_read : forall which S F ups ts fin,
  v4_final S F ups ts = Some fin -> ups_ok S F fin ups ->
  v4_applied which S F ups ts =
  XVals (map (fun t => Some (interp_d (sh (offset_of p_empty)
                                          (if which then v4_nodes S F fin u_d u_dr ups
                                           else v4_nodes S F fin u_p u_pr ups)) t)) ts).
Proof. exact v4_applied_values. Qed.
Print Assumptions C12_v4_applied_read.

(* The documented function: between an update and (1e-6 s before) the next one - and after the last update up to
   final_time - the value is the update's value advanced at the update's own rate; before the first update the first
   value is held; and the independent statement "latest update at or before t" (spec_applied) names the same update. *)
Theorem C12_v4_applied_piecewise :
  (forall S F fin val rate pre u post off t,
     ups_ok S F fin (pre ++ u :: post)%list -> u_time S F u + off <= t ->
     t <= match post with v :: _ => u_time S F v - v4_eps | [] => fin end + off ->
     interp_d (sh off (v4_nodes S F fin val rate (pre ++ u :: post)%list)) t
       == val u + rate u * (t - (u_time S F u + off))) /\
  (forall S F fin val rate u rest off t,
     ups_ok S F fin (u :: rest) -> t <= u_time S F u + off ->
     interp_d (sh off (v4_nodes S F fin val rate (u :: rest))) t == val u) /\
  (forall S F fin val rate pre u post t,
     ups_ok S F fin (pre ++ u :: post)%list -> u_time S F u <= t ->
     t <= match post with v :: _ => u_time S F v - v4_eps | [] => fin end ->
     spec_applied S F val rate (pre ++ u :: post)%list t = Some (val u + rate u * (t - u_time S F u))) /\
  (forall S F fin val rate u rest t,
     ups_ok S F fin (u :: rest) -> t < u_time S F u -> spec_applied S F val rate (u :: rest) t = Some (val u)) /\
  (forall S F u0 ups t0 ts, v4_final S F (u0 :: ups) (t0 :: ts) =
     Some (qmax (u_time S F (List.last (u0 :: ups) u0)) (List.last (t0 :: ts) t0) + v4_pad)) /\
  (forall a b, a <= qmax a b /\ b <= qmax a b).
Proof.
  exact (conj v4_piecewise (conj v4_before_first (conj v4_spec_piecewise (conj v4_spec_before_first
          (conj v4_final_spec qmax_ge))))).
Qed.
Print Assumptions C12_v4_applied_piecewise.

(* From the source at every run: the end point of an update's segment lies 1e-6 s before the next update, final_time
   1 s after the later of the last update and the last dump; the statement order of _calc_delay. *)
Theorem C12_v4_delay_shape : v4_eps == 1 # 1000000 /\ v4_pad == 1 /\
  v4_delay_steps = ["times=sync+count/scale"; "final=max(last update,last dump)+pad"; "next_times=times[1:]-eps,final";
                    "next=value+rate*(next_times-times)"; "interleave"; "store delay and phase getters"]%string.
Proof. exact v4_constants. Qed.
Print Assumptions C12_v4_delay_shape.

Theorem C12_v4_applied_example :
  let ups := [mkU 0 1 (-1) 0 2; mkU 8 2 0 10 3; mkU 16 3 1 20 4] in
  let ts := [98; 100; 101; 103; 104; 106; 108; 110] in
  SensorV4.of_xres (v4_applied true 100 2 ups ts)
    = L [I 0%Z; L (map (fun z => of_qn (Some (inject_Z z))) [1; 1; 0; -2; 2; 2; 3; 5]%Z)] /\
  L (map (fun t => of_qn (spec_applied 100 2 u_d u_dr ups t)) ts)
    = L (map (fun z => of_qn (Some (inject_Z z))) [1; 1; 0; -2; 2; 2; 3; 5]%Z) /\
  SensorV4.of_xres (v4_applied false 100 2 ups ts)
    = L [I 0%Z; L (map (fun z => of_qn (Some (inject_Z z))) [0; 0; 2; 6; 10; 16; 20; 28]%Z)] /\
  v4_applied true 100 2 [] ts = XErr /\ v4_applied true 100 2 ups [] = XErr.
Proof. exact v4_example. Qed.
Print Assumptions C12_v4_applied_example.

(* ================================================================== extension round 2: Model/SensorNum.v *)

(* The dtype of a numeric read.  Whatever the dtype of the samples (float, int, bool), the properties and the dump
   grid: a numeric result is FLOAT64 with one value per dump (np.interp's result is returned as it is - the translator
   finds no cast after it: sensor_numeric_cast = ""). *)
Theorem C12_numeric_result_is_float : forall g ts p dt l,
  extract_t g ts p = TNum dt l -> dt = DFloat /\ List.length l = List.length ts.
Proof. exact extract_t_float. Qed.
Print Assumptions C12_numeric_result_is_float.

(* int / bool / float samples read numerically (categorical=False, or the default for floats): the EXACT interpolated
   value at every dump - not rounded or truncated to the dtype of the samples. *)
Theorem C12_numeric_int_bool_exact : forall g ts p,
  usable g p <> [] -> decide_cat p (g_dtype g) = false -> interp_accepts (g_dtype g) = true ->
  extract_t g ts p = TNum DFloat (map (fun x => Some (interp_d (nodes_of (usable g p)) x)) ts).
Proof. exact extract_t_numeric. Qed.
Print Assumptions C12_numeric_int_bool_exact.

(* The typed extraction refines the one of the core model (every earlier theorem applies to it). *)
Theorem C12_numeric_refines_core : forall g ts p,
  g_dtype g <> DBool -> erase (extract_t g ts p) = extract_sensor g ts p.
Proof. exact extract_t_refines. Qed.
Print Assumptions C12_numeric_refines_core.

(* Without a `categorical` property a sensor with usable samples is numeric iff its samples are floats; a string /
   object sensor forced numeric is an error, never data. *)
Theorem C12_numeric_default_and_errors :
  (forall g ts p, usable g p <> [] -> p_cat p = None ->
     ((exists l, extract_t g ts p = TNum DFloat l) <-> g_dtype g = DFloat)) /\
  (forall g ts p, usable g p <> [] -> p_cat p = Some false -> (g_dtype g = DStr \/ g_dtype g = DObj) ->
     extract_t g ts p = TErr).
Proof. exact (conj extract_t_categorical_default extract_t_str_numeric). Qed.
Print Assumptions C12_numeric_default_and_errors.

Theorem C12_numeric_examples :
  (extract_t (mkG DInt false [mkS 0 0 ""; mkS 4 1 ""]) [1; 2; 4; 5] (mkP None (Some false) None)
   = TNum DFloat [Some ((1 - 0) / (4 - 0) * (1 - 0) + 0); Some ((1 - 0) / (4 - 0) * (2 - 0) + 0); Some 1; Some 1]) /\
  (extract_t (mkG DBool false [mkS 0 0 ""; mkS 2 1 ""]) [1] (mkP None (Some false) None)
   = TNum DFloat [Some ((1 - 0) / (2 - 0) * (1 - 0) + 0)] /\ (1 - 0) / (2 - 0) * (1 - 0) + 0 == 1 # 2).
Proof. exact (conj int_not_truncated bool_numeric). Qed.
Print Assumptions C12_numeric_examples.

(* initial_value must NOT act on a sensor that has usable samples: the extraction result is the same whatever
   initial value (of whatever type) is given ... *)
Theorem C12_initial_value_inert : forall g ts p iv,
  usable g p <> [] ->
  extract_t g ts (with_init p iv) = extract_t g ts p /\
  extract_sensor g ts (with_init p iv) = extract_sensor g ts p.
Proof. exact initial_value_inert. Qed.
Print Assumptions C12_initial_value_inert.

(* ... and through the cache: the first read with an initial_value keyword returns the same values, caches the same
   full-length array and leaves the same raw samples as the read without it. *)
Theorem C12_initial_value_inert_get : forall vf fuel c name gid g select kw iv,
  r_lookup name (c_raw c) = Some (ERaw gid) -> nth_error (c_store c) gid = Some g ->
  usable g (fst (get_props name (c_props c) kw)) <> [] ->
  let '(c1, r1) := get vf false fuel c name select true (with_init kw iv) in
  let '(c2, r2) := get vf false fuel c name select true kw in
  r1 = r2 /\ r_lookup name (c_raw c1) = r_lookup name (c_raw c2) /\ c_store c1 = c_store c2.
Proof. exact get_initial_value_inert. Qed.
Print Assumptions C12_initial_value_inert_get.

(* Non-vacuity and the other side: before the first sample the FIRST SAMPLE is held (not the initial value); the
   initial value appears only when nothing is usable, else NaN / -1. *)
Theorem C12_initial_value_examples :
  (extract_t (mkG DFloat false [mkS 4 10 ""; mkS 8 20 ""]) [0; 2; 4] (mkP None None (Some (IVFloat 99)))
   = TNum DFloat [Some 10; Some 10; Some ((20 - 10) / (8 - 4) * (4 - 4) + 10)]) /\
  (extract_t (mkG DFloat true [mkS 4 10 "failure"]) [0; 2] (mkP None None (Some (IVFloat 99))) = TNum DFloat [Some 99; Some 99]
   /\ extract_t (mkG DFloat true [mkS 4 10 "failure"]) [0; 2] p_empty = TNum DFloat [None; None]
   /\ extract_t (mkG DInt true [mkS 4 10 "failure"]) [0; 2] (mkP None (Some false) None)
      = TNum DFloat [Some (inject_Z (-1)); Some (inject_Z (-1))]).
Proof. exact (conj initial_value_not_before_first_sample initial_value_only_for_dummy). Qed.
Print Assumptions C12_initial_value_examples.

(* time_offset is a shift of the time axis: the clean-up commutes with it, and the value read at dump time x with
   offset o is the value the unshifted sensor has at x - o. *)
Theorem C12_offset_is_time_shift :
  (forall hs o l, clean hs (shift o l) = shift o (clean hs l)) /\
  (forall hs o l x, interp_d (nodes_of (clean hs (shift o l))) x == interp_d (nodes_of (clean hs l)) (x - o)).
Proof. exact (conj clean_shift offset_is_time_shift). Qed.
Print Assumptions C12_offset_is_time_shift.

(* Interpolation never overshoots: every value lies between the smallest and the largest sample value (any node
   list) - a bool sensor read numerically stays within [0, 1]. *)
Theorem C12_interp_bounds : forall lo hi nodes x, nodes <> [] ->
  Forall (fun n => lo <= snd n <= hi) nodes -> lo <= interp_d nodes x <= hi.
Proof. exact interp_bounds. Qed.
Print Assumptions C12_interp_bounds.

(* A linear conversion of the values commutes with the interpolation (deg -> rad of the samples, then interpolate =
   interpolate, then convert). *)
Theorem C12_interp_scale : forall c l x, interp_d (scale_nodes c l) x == c * interp_d l x.
Proof. exact interp_scale. Qed.
Print Assumptions C12_interp_scale.

(* The arithmetic virtual sensors INSIDE the model (exact rationals, pi = the float64 constant; the float64 result of
   the code differs by at most the roundings of pi / 180 and of one product).  From the source at every run: the
   conversion function, the name test and the real source sensor of az / el in every format module. *)
Theorem C12_azel_sources :
  azel_sources = [("h5datav1", ("Antennas/{ant}/pos_actual_scan_azim", "Antennas/{ant}/pos_actual_scan_elev"));
                  ("h5datav2", ("Antennas/{ant}/pos.actual-scan-azim", "Antennas/{ant}/pos.actual-scan-elev"));
                  ("h5datav3", ("Antennas/{ant}/pos_actual_scan_azim", "Antennas/{ant}/pos_actual_scan_elev"));
                  ("visdatav4", ("{ant}_pos_actual_scan_azim", "{ant}_pos_actual_scan_elev"))]%string
  /\ azel_convert = "deg2rad"%string /\ azel_az_suffix = "az"%string
  /\ azel_pick "Antennas/m000/az" "AZ" "EL" = "AZ"%string /\ azel_pick "Antennas/m000/el" "AZ" "EL" = "EL"%string.
Proof. exact azel_sources_table. Qed.
Print Assumptions C12_azel_sources.

Theorem C12_deg2rad :
  (forall x, azel_conv_q x = deg2rad_q x) /\
  (3141592653589793 # 1000000000000000 < pi64 /\ pi64 < 3141592653589794 # 1000000000000000) /\
  (deg2rad_q 0 == 0 /\ deg2rad_q 180 == pi64 /\ deg2rad_q 90 == pi64 / 2 /\
   (forall a b, deg2rad_q (a + b) == deg2rad_q a + deg2rad_q b) /\
   (forall k a, deg2rad_q (k * a) == k * deg2rad_q a) /\
   (forall a b, a < b -> deg2rad_q a < deg2rad_q b) /\
   (forall a b, deg2rad_q a == deg2rad_q b -> a == b) /\
   (forall x, rad2deg_q (deg2rad_q x) == x)).
Proof. exact (conj azel_is_deg2rad (conj pi64_bounds deg2rad_laws)). Qed.
Print Assumptions C12_deg2rad.

(* az / el read through the cache: deg2rad of the cached source AT EVERY DUMP (NaN stays NaN), restricted to the
   selection when selected, cached full-length under the requested name; the cached source array and the raw samples
   are what they were.  mjd: t / 86400 + 40587 of every dump. *)
Theorem C12_azel_read : forall fuel c name src l select kw,
  r_lookup name (c_raw c) = None -> name <> src ->
  find (fun v => mem_string name (v_names v)) (c_virt c) = Some (mkV [name] [src] fid_azel) ->
  r_lookup src (c_raw c) = Some (EVals l) -> List.length l = List.length (c_ts c) ->
  let full := map (option_map deg2rad_q) l in
  let '(c', r) := get arith_vf false (S fuel) c name select true kw in
  r = RVals (if select then select_mask (c_keep c) full else full) /\
  r_lookup name (c_raw c') = Some (EVals full) /\
  r_lookup src (c_raw c') = Some (EVals l) /\ c_store c' = c_store c.
Proof. exact azel_read. Qed.
Print Assumptions C12_azel_read.

Theorem C12_arith_functions :
  (forall k vals ts, arith_vf fid_mjd k vals ts = map (fun t => Some (mjd_q t)) ts) /\
  (forall k src ts, List.length src = List.length ts -> arith_vf fid_azel k [src] ts = map (option_map deg2rad_q) src).
Proof. exact (conj arith_vf_mjd arith_vf_azel). Qed.
Print Assumptions C12_arith_functions.

Theorem C12_azel_example :
  let c := mkC [("m/azim"%string, EVals [Some 180; None; Some (-90)])] [0; 1; 2] [true; false; true] []
               [mkV ["m/az"%string] ["m/azim"%string] fid_azel] [] in
  snd (get arith_vf false 2 c "m/az"%string true true p_empty)
  = RVals [Some (180 * (pi64 / 180)); Some (-90 * (pi64 / 180))].
Proof. exact azel_example. Qed.
Print Assumptions C12_azel_example.

(* A VIRTUAL SENSOR NEVER ALTERS ITS SOURCE SENSORS (nor any other cached sensor), over all read histories, with the
   cached arrays as state: `run_v vf ipv` is the history machine in which a virtual sensor function that works in
   place overwrites the cached array of its source; `virtual_ipv` is regenerated from the source (true iff the
   translator finds an in-place write on an array obtained from the cache in a registered function).  For the code as
   it is: every cached array no virtual sensor produces is unchanged after ANY history of reads and selection changes,
   the raw samples are unchanged, and reading it again gives it restricted to the current selection. *)
Theorem C12_virtual_preserves_sources : forall vf name l ops c,
  r_lookup name (c_raw c) = Some (EVals l) -> no_producer name c -> forallb is_read ops = true ->
  let c' := fst (run_v vf virtual_ipv c ops) in
  r_lookup name (c_raw c') = Some (EVals l) /\ c_store c' = c_store c /\
  forall fuel s, get vf false fuel c' name s true p_empty = (c', RVals (if s then select_mask (c_keep c') l else l)).
Proof. exact virtual_preserves_sources_code. Qed.
Print Assumptions C12_virtual_preserves_sources.

Theorem C12_virtual_no_inplace_shape :
  virtual_ipv = false /\ virtual_inplace_writes = 0%Z /\ (0 < virtual_functions_checked)%Z.
Proof. exact virtual_ipv_false. Qed.
Print Assumptions C12_virtual_no_inplace_shape.

(* the faithful machine is the cache model of the earlier theorems *)
Theorem C12_run_v_faithful : forall vf ops c, run_v vf false c ops = run_ops vf false c ops.
Proof. exact run_v_faithful. Qed.
Print Assumptions C12_run_v_faithful.

(* The statement discriminates: with an in-place conversion, ONE read of az leaves radians in the cached azimuth
   sensor although every returned value is right; and az read again after a second in-place function differs. *)
Theorem C12_virtual_inplace_refuted :
  (exists c ops name l,
    r_lookup name (c_raw c) = Some (EVals l) /\ no_producer name c /\ forallb is_read ops = true /\
    r_lookup name (c_raw (fst (run_v arith_vf true c ops))) <> Some (EVals l) /\
    snd (run_v arith_vf true c ops) = snd (run_v arith_vf false c ops)) /\
  (let c := mkC [("m/azim"%string, EVals [Some 180])] [0] [true] []
               [mkV ["m/az"%string] ["m/azim"%string] fid_azel; mkV ["m/az2"%string] ["m/az"%string] fid_azel] [] in
   let ops := [OItem "m/az"%string; OItem "m/az2"%string; OItem "m/az"%string] in
   (forall r1 r2 r3, snd (run_v arith_vf false c ops) = [r1; r2; r3] -> r1 = r3) /\
   (exists r1 r2 r3, snd (run_v arith_vf true c ops) = [r1; r2; r3] /\ r1 <> r3)).
Proof. exact (conj virtual_inplace_refuted inplace_breaks_repeatability). Qed.
Print Assumptions C12_virtual_inplace_refuted.

(* EXTRACTION NEVER ALTERS THE RAW SAMPLES - public API, all histories: after any sequence of get (any select /
   extract / keyword properties), cache[name], _set_keep (any keep form), with raw sensors, template sensors and
   katstore fallbacks interleaved, every getter that existed before holds exactly its samples (the list of getters
   only grows: the katstore answers are appended). *)
Theorem C12_api_history_raw_samples :
  (forall vf ops x, exists tail, c_store (x_c (fst (xrun vf x ops))) = (c_store (x_c x) ++ tail)%list) /\
  (forall vf ops x gid g, nth_error (c_store (x_c x)) gid = Some g ->
     nth_error (c_store (x_c (fst (xrun vf x ops)))) gid = Some g).
Proof. exact (conj xrun_store xrun_raw_samples). Qed.
Print Assumptions C12_api_history_raw_samples.
