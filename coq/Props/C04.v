(* C04 — Two-stage lazy indexing of dask arrays equals composed outer indexing, lazily.  Only statements here. *)
From Coq Require Import ZArith List Bool Permutation.
From KV Require Import Base.Sx Gen.Generated Model.Chunks Model.DaskIdx Model.DaskJoint Model.DaskLazy Model.DaskGen
  Model.DaskStore Proofs.DaskStoreP Proofs.DaskIdxP Proofs.DaskGenP Proofs.DaskSliceP Proofs.DaskReadsP Proofs.DaskTwoStageP Proofs.DaskJointP Proofs.DaskLazyP.
Import ListNotations.
Open Scope Z_scope.

(* _range_to_slice: whenever a slice is returned it selects exactly the given positions, in order, on every
   axis long enough to contain them (all list lengths, all n). *)
Theorem C04_range_to_slice_sound : forall l s n,
  d_range_to_slice l = Some s -> (forall x, In x l -> x < n) -> d_slice_pos s n = Some l.
Proof. exact d_range_to_slice_sound. Qed.
Print Assumptions C04_range_to_slice_sound.

(* ... it rejects negative entries, zero steps and uneven spacing; descending below 0 gives stop = None;
   every non-negative evenly spaced list is accepted. *)
Theorem C04_range_to_slice_rejects :
  (forall l x, In x l -> x < 0 -> d_range_to_slice l = None) /\
  (forall a r, d_range_to_slice (a :: a :: r) = None) /\
  (forall l i, (S (S i) < List.length l)%nat ->
     nth (S i) l 0 - nth i l 0 <> nth (S (S i)) l 0 - nth (S i) l 0 -> d_range_to_slice l = None) /\
  (forall l s, d_range_to_slice l = Some s -> l <> [] ->
     (ds_stop s = None <-> exists step, ds_step s = Some step /\ last l 0 + step < 0)) /\
  (forall a step k, step <> 0 -> (forall i, (i <= k)%nat -> 0 <= a + Z.of_nat i * step) ->
     exists s, d_range_to_slice (map (fun i => a + Z.of_nat i * step) (seq 0 (S k))) = Some s).
Proof.
  exact (conj d_range_to_slice_rejects_negative (conj d_range_to_slice_rejects_zero_step
        (conj d_range_to_slice_rejects_uneven (conj d_range_to_slice_descending_to_zero d_range_to_slice_complete)))).
Qed.
Print Assumptions C04_range_to_slice_rejects.

(* dask's normalize_slice keeps the selected positions except in its flaw F20 (negative step, start < -n);
   the flaw is real. *)
Theorem C04_normalize_slice_partial : forall s n s', 0 <= n -> d_f20_free s n = true ->
  d_normalize_slice s n = Some s' -> d_slice_pos s' n = d_slice_pos s n.
Proof. exact d_normalize_slice_pos_partial. Qed.
Print Assumptions C04_normalize_slice_partial.
Theorem C04_normalize_slice_refuted : exists s n s',
  0 <= n /\ d_normalize_slice s n = Some s' /\ d_slice_pos s' n <> d_slice_pos s n.
Proof. exact d_normalize_slice_refuted. Qed.
Print Assumptions C04_normalize_slice_refuted.

(* _simplify_index: the simplified index list resolves, axis by axis, to the same positions as the caller's index
   list padded with full slices (outside F20), and is rejected exactly when numpy rejects it. *)
Theorem C04_simplify_preserves_oindex : forall shape ixs, Forall (fun n => 0 <= n) shape ->
  d_f20_free_all shape ixs = true ->
  match d_simplify_index ixs shape with
  | Some ixs' => d_resolve_all shape ixs' = d_resolve_pad shape ixs /\ d_resolve_pad shape ixs <> None
                 /\ List.length ixs' = List.length shape
  | None => d_resolve_pad shape ixs = None
  end.
Proof. exact d_simplify_index_resolve. Qed.
Print Assumptions C04_simplify_preserves_oindex.
(* katdal's own step (evenly spaced list -> slice) needs no guard at all *)
Theorem C04_simplify1_preserves : forall n l, 0 <= n ->
  forallb (fun z => (0 <=? z) && (z <? n)) l = true ->
  d_resolve n (d_simplify1 n (DList l)) = d_resolve n (DList l).
Proof. exact d_simplify1_resolve. Qed.
Print Assumptions C04_simplify1_preserves.

(* _dask_oindex (one axis at a time, counter not advanced after a scalar) IS outer indexing: every array, every
   index list of ints (incl. negative), slices, masks, lists (unsorted, repeated, negative), any length. *)
Theorem C04_oindex_seq_is_oindex : forall a ixs, d_oeqv (d_oindex_seq a ixs 0) (d_oindex a ixs).
Proof. exact d_oindex_seq_is_oindex. Qed.
Print Assumptions C04_oindex_seq_is_oindex.

(* dask_getitem = outer indexing (same result or both reject), outside F20 *)
Theorem C04_getitem_partial : forall x ixs, d_nonneg (d_shape x) -> d_f20_free_all (d_shape x) ixs = true ->
  d_oeqv (d_getitem x ixs) (d_oindex x ixs).
Proof. exact d_getitem_is_oindex. Qed.
Print Assumptions C04_getitem_partial.

(* Full statement (refuted by F20, see C04_two_stage_refuted):
     forall a k1 tr k2, d_oeqv (d_index (DBase a k1 tr) k2) (d_spec_index (DBase a k1 tr) k2).
   Proved with the guard spelled out: no slice of either stage has a negative step and a start below -n. *)
Theorem C04_two_stage_partial : forall a k1 tr k2,
  d_nonneg (d_shape a) -> Forall d_tr_ok tr -> d_f20_free_all (d_shape a) k1 = true ->
  (forall ds, d_spec_dataset (DBase a k1 tr) = Some ds -> d_f20_free_all (d_shape ds) k2 = true) ->
  d_oeqv (d_index (DBase a k1 tr) k2)
         (match d_oindex a k1 with Some b => d_oindex (d_apply_all tr b) k2 | None => None end) /\
  d_adv (DBase a k1 tr) =
    match d_oindex a k1 with Some b => Some (d_shape (d_apply_all tr b), d_dtype (d_apply_all tr b)) | None => None end.
Proof.
  intros a k1 tr k2 Hs Ht Hf1 Hf2.
  destruct (d_index_spec (DBase a k1 tr) k2 (conj Hs (conj Ht Hf1)) Hf2) as [P Q].
  unfold d_spec_index in P. cbn [d_spec_dataset] in P, Q.
  destruct (d_oindex a k1); auto.
Qed.
Print Assumptions C04_two_stage_partial.
Theorem C04_two_stage_refuted : exists a k2, d_nonneg (d_shape a) /\
  option_map d_values (d_index (DBase a [] []) k2) = Some [4] /\
  option_map d_values (d_spec_index (DBase a [] []) k2) = Some [].
Proof. exact d_index_spec_refuted. Qed.
Print Assumptions C04_two_stage_refuted.

(* nesting, any depth: an indexer over an indexer is the composed chain index/transform/index/transform/...,
   with the advertised shape and dtype of that chain *)
Theorem C04_nesting_partial : forall i k2, d_ind_ok i ->
  (forall ds, d_spec_dataset i = Some ds -> d_f20_free_all (d_shape ds) k2 = true) ->
  d_oeqv (d_index i k2) (d_spec_index i k2) /\
  d_adv i = match d_spec_dataset i with Some a => Some (d_shape a, d_dtype a) | None => None end.
Proof. exact d_index_spec. Qed.
Print Assumptions C04_nesting_partial.

(* joint retrieval = one by one (and fails iff one of them fails) *)
Theorem C04_joint : forall l k,
  (forall rs, d_get_joint l k = Some rs <-> Forall2 (fun i r => d_index i k = Some r) l rs) /\
  (d_get_joint l k = None <-> exists i, In i l /\ d_index i k = None).
Proof. intros l k. exact (conj (d_get_joint_spec l k) (d_get_joint_none l k)). Qed.
Print Assumptions C04_joint.

(* reads: for stages made of unit-step slices and integers, the chunks touched on an axis are exactly the stored
   chunks whose extent meets the composed interval, each once; two stages compose to [lo1+lo2, lo1+hi2). *)
Theorem C04_reads : forall cs ks, Forall (fun c => 0 < c) cs ->
  d_reads_axis cs ks = d_spec_reads_axis cs ks /\
  (forall ids, d_spec_reads_axis cs ks = Some ids -> NoDup ids /\
     exists lo hi, d_compose_region 0 (fold_right Z.add 0 cs) ks = Some (lo, hi) /\
       forall i, In i ids <->
         (0 <= i /\ exists c, nth_error cs (Z.to_nat i) = Some c /\
            Z.max lo (fold_right Z.add 0 (firstn (Z.to_nat i) cs))
              < Z.min hi (fold_right Z.add 0 (firstn (Z.to_nat i) cs) + c))).
Proof.
  intros cs ks Hc. split; [exact (d_reads_model_is_spec cs ks Hc)|].
  unfold d_spec_reads_axis. intros ids H.
  destruct (d_compose_region 0 (fold_right Z.add 0 cs) ks) as [[lo hi]|]; [|discriminate].
  injection H as <-. split; [exact (d_meeting_NoDup cs 0 0 lo hi)|].
  exists lo, hi. split; [reflexivity|]. exact (d_meeting_iff cs lo hi).
Qed.
Print Assumptions C04_reads.
Theorem C04_reads_two_stage_interval : forall n s1 s2 lo1 hi1 lo2 hi2, 0 <= n ->
  d_region n s1 = Some (lo1, hi1) -> d_region (hi1 - lo1) s2 = Some (lo2, hi2) ->
  d_compose_region 0 n [s1; s2] = Some (lo1 + lo2, lo1 + hi2) /\
  0 <= lo1 + lo2 /\ lo1 + lo2 <= lo1 + hi2 /\ lo1 + hi2 <= hi1 /\ hi1 <= n.
Proof. exact d_compose_two. Qed.
Print Assumptions C04_reads_two_stage_interval.

(* ---- joint retrieval over several stores / several indexers of one stored array (Model/DaskJoint.v) ---- *)
(* get() keys the selected arrays by their dask names (first.setdefault(name, ...); the merged graph has one task per
   key).  For ANY world of stores w, ANY naming scheme that separates different (store, array name, chain) triples,
   and any list of indexers over any stores / arrays: joint = one by one (C04_joint then gives d_index for each). *)
Theorem C04_joint_named : forall (w : Z -> Z -> d_arr) (tf : Z -> d_arr -> d_arr) (K : Type) (keqb : K -> K -> bool)
    (name : j_ind -> K) l k2,
  (forall a, keqb a a = true) ->
  (forall i j, In i l -> In j l -> keqb (name i) (name j) = true ->
     ji_store i = ji_store j /\ ji_name i = ji_name j /\ ji_chain i = ji_chain j) ->
  j_get w tf K keqb name l k2 = d_get_joint (map (j_sem w tf) l) k2.
Proof. intros w tf K keqb name l k2 R S. exact (j_get_named w tf K keqb name R l k2 S). Qed.
Print Assumptions C04_joint_named.
(* ... in particular the name built from (store, array name, chain), the one executed by the correspondence *)
Theorem C04_joint_names : forall w tf l k2,
  j_get w tf j_ind j_ind_eqb j_name l k2 = d_get_joint (map (j_sem w tf) l) k2.
Proof. exact j_get_names. Qed.
Print Assumptions C04_joint_names.
(* a name that forgets the store is NOT enough: two stores, same array name, same selection *)
Theorem C04_joint_names_need_store : exists shape l k2,
  option_map (map d_values) (j_get (j_world shape) d_transform _ j_nostore_eqb j_name_nostore l k2)
    = Some [[0; 1]; [0; 1]] /\
  option_map (map d_values) (d_get_joint (map (j_sem (j_world shape) d_transform) l) k2)
    = Some [[0; 1]; [2000; 2001]].
Proof. exact j_get_nostore_refuted. Qed.
Print Assumptions C04_joint_names_need_store.

(* reads of a joint request of contiguous indexers (any number of stores, stored arrays, indexers per stored array,
   axes, stages): the get_chunk calls (store, array, chunk) of the one merged computation are exactly the chunks
   that meet, on every axis, the composed region of SOME indexer derived from that stored array — each once. *)
Theorem C04_joint_reads : forall l rs, (forall i, In i l -> j_pos i) -> j_reads l = Some rs ->
  NoDup rs /\ forall key, In key rs <-> exists i, In i l /\ j_overlaps key i = true.
Proof. exact j_reads_spec. Qed.
Print Assumptions C04_joint_reads.
(* meaning of the overlap test on one axis: the chunk's extent meets the composed interval (as in C04_reads) *)
Theorem C04_joint_reads_overlap_meaning : forall cs ks id, j_meets_axis id (cs, ks) = true <->
  exists lo hi, d_compose_region 0 (fold_right Z.add 0 cs) ks = Some (lo, hi) /\ 0 <= id /\
    exists c, nth_error cs (Z.to_nat id) = Some c /\
      Z.max lo (fold_right Z.add 0 (firstn (Z.to_nat id) cs)) <
      Z.min hi (fold_right Z.add 0 (firstn (Z.to_nat id) cs) + c).
Proof. exact j_meets_axis_iff. Qed.
Print Assumptions C04_joint_reads_overlap_meaning.
(* model = executable spec (filter of all chunks of the stored arrays involved); both reject together *)
Theorem C04_joint_reads_model_is_spec : forall l, (forall i, In i l -> j_pos i) ->
  match j_reads l, j_spec_reads l with
  | Some rs, Some rs' => Permutation rs rs' /\ NoDup rs
  | None, None => True
  | _, _ => False
  end.
Proof. exact j_reads_model_is_spec. Qed.
Print Assumptions C04_joint_reads_model_is_spec.
(* one computation per selected array instead of one merged computation reads a shared chunk twice *)
Theorem C04_joint_reads_need_one_computation : exists l rs, (forall i, In i l -> j_pos i) /\
  j_reads_seq l = Some rs /\ ~ NoDup rs /\ exists rs', j_reads l = Some rs' /\ NoDup rs'.
Proof. exact j_reads_seq_refuted. Qed.
Print Assumptions C04_joint_reads_need_one_computation.

(* Finding F48 (open): when dask_getitem's hand-made cull flattens a selected array (a stage keeps less than half of
   the blocks: j_culled, tied to the code by observing the graphs), dask may fuse the stored array's layer into an
   un-culled selected array and the flattened copies of the chunk-fetch tasks run again.  The model j_reads is NOT
   faithful there; what is stated instead is the envelope the correspondence enforces: a chunk may be fetched a
   second time only if a culled AND an un-culled indexer of the same stored array both need it (j_twice), ... *)
Theorem C04_joint_reads_twice_only_if : forall l key, In key (j_twice l) ->
  exists i j, In i l /\ In j l /\ j_culled i = true /\ j_culled j = false /\
              j_overlaps key i = true /\ j_overlaps key j = true.
Proof. exact j_twice_In. Qed.
Print Assumptions C04_joint_reads_twice_only_if.
(* ... so with the guard "no selected array is culled" C04_joint_reads is the whole story (each chunk exactly once) *)
Theorem C04_joint_reads_partial : forall l rs, (forall i, In i l -> j_pos i) ->
  (forall i, In i l -> j_culled i = false) -> j_reads l = Some rs ->
  j_twice l = [] /\ NoDup rs /\ forall key, In key rs <-> exists i, In i l /\ j_overlaps key i = true.
Proof. intros l rs HP HC H. split; [exact (j_twice_guard l HC)|exact (j_reads_spec l rs HP H)]. Qed.
Print Assumptions C04_joint_reads_partial.
(* ... and the guard is needed: the witness of F48 (observed on the real code: both chunks are fetched twice) *)
Theorem C04_joint_reads_refuted : exists l, (forall i, In i l -> j_pos i) /\
  j_twice l = [(1, 0, [0; 0]); (1, 0, [1; 0])] /\ map j_culled l = [true; false].
Proof. exact j_twice_witness. Qed.
Print Assumptions C04_joint_reads_refuted.

(* ---- DaskLazyIndexer.dataset over HISTORIES of accesses with faults (Model/DaskLazy.v) ----
   z_code is the statement skeleton of the property as translated from katdal/lazy_indexer.py at this run (lock scope,
   test of the cell, resolution of a parent indexer, stage 1, transform loop, publication, clearing of the source,
   return).  For ANY array type, index type and dask_getitem, any world of indexers (nested, sharing parents; parents
   are constructed before their children), any history of requests (.dataset / .shape / .dtype / indexer[k] = one
   object, get([...], k) = several) and any plan of which transform calls raise during which request: the translated
   code behaves - outcome by outcome and transform call by transform call - as the atomic, all-or-nothing, cached
   computation z_spec_access. *)
Theorem C04_dataset_atomic : forall (V K : Type) (getitem : V -> K -> option V) (w : z_world V K), z_wf V K w ->
  forall hist, z_run getitem z_code w (z_init w) hist = z_spec_run getitem w (fun _ => None) hist.
Proof. exact z_run_refines_init. Qed.
Print Assumptions C04_dataset_atomic.

(* what "atomic" means.  ALL OR NOTHING: an access that returns has cached exactly the array it returned; an access
   that raises (a transform or dask_getitem raised, here or in a parent) leaves the object unset, as it was; `None` is
   never returned. *)
Theorem C04_dataset_all_or_nothing : forall (V K : Type) (getitem : V -> K -> option V) fuel w plan c i c' o lg,
  z_wf V K w -> z_spec_access getitem fuel w plan c i = (c', o, lg) ->
  match o with
  | ZRet a => c' i = Some a
  | ZRetNone => False
  | _ => c' i = c i /\ ((0 < fuel)%nat -> nth_error w i <> None -> c i = None)
  end.
Proof. exact z_spec_all_or_nothing. Qed.
Print Assumptions C04_dataset_all_or_nothing.
(* ... and touches no object constructed later, and never un-caches or replaces a cached array *)
Theorem C04_dataset_frame : forall (V K : Type) (getitem : V -> K -> option V) fuel w plan c i c' o lg,
  z_wf V K w -> z_spec_access getitem fuel w plan c i = (c', o, lg) ->
  (forall k, (i < k)%nat -> c' k = c k) /\ (forall k a, c k = Some a -> c' k = Some a).
Proof.
  intros V K g fuel w plan c i c' o lg W H.
  exact (conj (z_spec_frame V K g fuel w plan c i c' o lg W H) (z_spec_mono V K g fuel w plan c i c' o lg H)).
Qed.
Print Assumptions C04_dataset_frame.
(* ONCE: when an access to i has returned a, then after any further history of requests (with any faults) every
   access to i returns that very a, calls no transform and changes nothing *)
Theorem C04_dataset_once : forall (V K : Type) (getitem : V -> K -> option V) (w : z_world V K) plan c i c' a lg hist plan',
  z_spec_access getitem (List.length w) w plan c i = (c', ZRet a, lg) -> z_wf V K w ->
  let c'' := z_spec_after V K getitem w c' hist in
  z_spec_access getitem (List.length w) w plan' c'' i = (c'', ZRet a, []).
Proof. exact z_spec_once. Qed.
Print Assumptions C04_dataset_once.
(* VALUE: whatever is returned (first access, retry after a fault, cached) is the WHOLE chain
   transforms(dask_getitem(source, keep)), a pure function of the construction arguments - never a prefix of it *)
Theorem C04_dataset_value : forall (V K : Type) (getitem : V -> K -> option V) (w : z_world V K), z_wf V K w ->
  forall fuel plan c i c' o lg, (fuel <= List.length w)%nat -> (i < fuel)%nat -> z_cache_ok V K getitem w c ->
  z_spec_access getitem fuel w plan c i = (c', o, lg) ->
  z_cache_ok V K getitem w c' /\ (forall a, o = ZRet a -> z_pure getitem (List.length w) w i = Some a).
Proof. exact z_spec_value. Qed.
Print Assumptions C04_dataset_value.
(* ... which for the objects of a nested indexer is d_dataset, the .dataset that C04_two_stage_partial /
   C04_nesting_partial equate with transform(array[stage 1]) at any depth *)
Theorem C04_dataset_value_is_chain : forall i,
  z_pure d_getitem (List.length (z_of_ind i)) (z_of_ind i) (List.length (z_of_ind i) - 1)%nat = d_dataset i.
Proof. exact z_pure_of_ind. Qed.
Print Assumptions C04_dataset_value_is_chain.
(* ALL: without a fault an access returns the whole chain whenever it is defined, and raises otherwise *)
Theorem C04_dataset_nofault : forall (V K : Type) (getitem : V -> K -> option V) (w : z_world V K), z_wf V K w ->
  forall fuel c i c' o lg, (fuel <= List.length w)%nat -> (i < fuel)%nat -> z_cache_ok V K getitem w c ->
  z_spec_access getitem fuel w (fun _ _ => false) c i = (c', o, lg) ->
  match z_pure getitem (List.length w) w i with Some a => o = ZRet a | None => o = ZErr end.
Proof. exact z_spec_nofault. Qed.
Print Assumptions C04_dataset_nofault.
(* the build-in-place variant with a lock-free fast path (seeded change C04-6, written in the same instruction set)
   is NOT atomic: second transform raises in the first access, the retry silently returns the half-built array *)
Theorem C04_dataset_inplace_refuted :
  z_run z_ex_get z_code_inplace z_ex_world (z_init z_ex_world) z_ex_hist
    = [[(ZFault, [(0, 0); (0, 1)]%nat)]; [(ZRet 6, [])]] /\
  z_spec_run z_ex_get z_ex_world (fun _ => None) z_ex_hist
    = [[(ZFault, [(0, 0); (0, 1)]%nat)]; [(ZRet 12, [(0, 0); (0, 1)]%nat)]] /\
  z_run z_ex_get z_code z_ex_world (z_init z_ex_world) z_ex_hist
    = z_spec_run z_ex_get z_ex_world (fun _ => None) z_ex_hist.
Proof. exact z_inplace_refuted. Qed.
Print Assumptions C04_dataset_inplace_refuted.
(* the rest of the class as the model takes it (translated flags): both fields are touched only by __init__ and
   dataset, every statement of dataset that touches them is inside `with self._lock:`, __init__ leaves the cell unset
   and the source = its argument, deep-copies keep and copies the transform list, and shape / dtype / len /
   __getitem__ / get reach the data only through the `dataset` property *)
Theorem C04_dataset_skeleton :
  z_decode c04_ds_code <> None /\ c04_ds_locked = true /\ c04_ds_field_users = [] /\
  c04_init_cell_unset = true /\ c04_init_orig_is_arg = true /\ c04_init_keep_deepcopied = true /\
  c04_init_transforms_copied = true /\ c04_init_lock_fresh = true /\ c04_init_defaults_empty = true /\
  c04_transforms_is_field = true /\
  c04_shape_via_dataset = true /\ c04_dtype_via_dataset = true /\ c04_getitem_via_dataset = true /\
  c04_get_via_dataset = true /\ c04_len_via_dataset = true.
Proof. exact z_skeleton. Qed.
Print Assumptions C04_dataset_skeleton.

(* ---- the helper functions as translated (Model/DaskGen.v) ----
   _range_to_slice re-assembled from the tests / default / returned slice found in the source, _dask_oindex with the
   axis step found in the source and the cull threshold of dask_getitem ARE the hand-written models the theorems
   above speak about (an edit of one of those expressions changes the generated definition and this stops checking;
   an edit of the statement skeletons of dask_getitem / _dask_oindex / _simplify_index is refused by the translator). *)
Theorem C04_helpers_as_translated :
  (forall l, g_range_to_slice l = d_range_to_slice l) /\
  (forall ixs a axis, g_oindex_seq a ixs (Z.of_nat axis) = d_oindex_seq a ixs axis) /\
  (forall a b, c04_cull_test a b = (2 * a <? b)) /\
  (forall fuel st, g_culled_steps fuel st = j_culled_steps fuel st) /\
  c04_simplify_loop_as_modelled = true /\ c04_iter_as_modelled = true.
Proof.
  exact (conj g_range_to_slice_eq (conj g_oindex_seq_eq (conj g_cull_test_eq (conj g_culled_steps_eq g_skeletons)))).
Qed.
Print Assumptions C04_helpers_as_translated.

(* len(indexer) and iteration (for index in range(len(self)): yield self[index]): the first advertised dimension and,
   in order, exactly the rows transform(array[stage 1])[k] of the spec data set; both raise on a 0-d data set or a
   rejected first stage.  Any nesting depth; guard = F20 on the first-stage slices only (an integer index cannot hit it) *)
Theorem C04_iter_partial : forall i, d_ind_ok i ->
  match d_spec_dataset i with
  | Some a =>
      match d_shape a with
      | n :: _ => d_len i = Some n /\
                  exists rows, d_iter i = Some rows /\ List.length rows = Z.to_nat n /\
                    forall k, (k < Z.to_nat n)%nat -> d_oeqv (nth k rows None) (d_oindex a [DInt (Z.of_nat k)])
      | [] => d_len i = None /\ d_iter i = None
      end
  | None => d_len i = None /\ d_iter i = None
  end.
Proof. exact d_iter_spec. Qed.
Print Assumptions C04_iter_partial.
(* non-vacuity of C04_dataset_atomic on arrays: shared parent, a fault in the parent, then in the child, then none *)
Theorem C04_dataset_example :
  z_wf _ _ z_ex2_world /\
  z_ex2_show (z_run d_getitem z_code z_ex2_world (z_init z_ex2_world) z_ex2_hist) =
    [[(None, [(0, 0)]%nat)];
     [(None, [(0, 0); (1, 0)]%nat)];
     [(Some [-3; -5; -7], [(2, 0)]%nat); (Some [-7; -3], [(1, 0)]%nat)];
     [(Some [-7; -3], []); (Some [-3; -5; -7], []); (Some [3; 5; 7], [])]] /\
  z_run d_getitem z_code z_ex2_world (z_init z_ex2_world) z_ex2_hist
    = z_spec_run d_getitem z_ex2_world (fun _ => None) z_ex2_hist.
Proof. exact z_example_nested. Qed.
Print Assumptions C04_dataset_example.

(* LATER MUTATION OF THE CALLER'S INDEX ARRAYS HAS NO EFFECT: objects constructed from index objects the caller still
   holds; the caller overwrites them (ZMutate) anywhere in the history.  With the constructor as translated
   (c04_init_keep_deepcopied: self.keep = copy.deepcopy(keep)) the whole history - with faults, retries, nesting -
   is the atomic spec over the values the index objects had at construction; with a constructor that keeps the
   caller's object it is not (Coq witness). *)
Theorem C04_keep_snapshot : forall (V K : Type) (getitem : V -> K -> option V) w, z_wf V K (z_snapshot w) ->
  forall evs st,
  z_run_events getitem c04_init_keep_deepcopied z_code w st (z_init (z_snapshot w)) evs
    = z_spec_run getitem (z_snapshot w) (fun _ => None) (z_requests_of evs).
Proof. exact z_keep_snapshot. Qed.
Print Assumptions C04_keep_snapshot.
Theorem C04_keep_snapshot_needs_copy :
  let w := [(ZPBase 5, (1, Some 0%nat), @nil (Z -> Z))] in
  let evs := [ZMutate 0%nat 100; ZRequest [0%nat] (fun _ _ => false)] in
  z_run_events (fun a k => Some (a + k)) false z_code w (fun _ => 1) (z_init (z_snapshot w)) evs
    = [[(ZRet 105, [])]] /\
  z_spec_run (fun a k => Some (a + k)) (z_snapshot w) (fun _ => None) (z_requests_of evs)
    = [[(ZRet 6, [])]].
Proof. exact z_keep_alias_refuted. Qed.
Print Assumptions C04_keep_snapshot_needs_copy.
(* HISTORY INDEPENDENCE: after ANY two histories (different faults, retries, order of requests, other objects touched),
   accesses to i that return, return the same array *)
Theorem C04_dataset_history_independent : forall (V K : Type) (getitem : V -> K -> option V) (w : z_world V K),
  z_wf V K w -> forall h1 h2 p1 p2 i c1' a1 lg1 c2' a2 lg2,
  z_spec_access getitem (List.length w) w p1 (z_spec_after V K getitem w (fun _ => None) h1) i = (c1', ZRet a1, lg1) ->
  z_spec_access getitem (List.length w) w p2 (z_spec_after V K getitem w (fun _ => None) h2) i = (c2', ZRet a2, lg2) ->
  a1 = a2.
Proof. exact z_spec_history_independent. Qed.
Print Assumptions C04_dataset_history_independent.

(* ---- the chunk store as a recorded history of get_chunk calls (Model/DaskStore.v; chunk grid = C07's Model/Chunks.v) ----
   NOTHING IS READ UNTIL AN ELEMENT IS REQUESTED.  A history of public accesses: construction of indexers (over stored
   arrays or nested), .shape / .dtype / .dataset / len / str / repr, and element requests indexer[k] / get([...], k).
   The number of dask computations each access performs is COUNTED IN THE SOURCE by the translator (c04_meta_computes,
   c04_get_computes); with those counts: a history without an element request leaves the store's log empty, however
   many indexers were built and advertised; up to and including the first element request the log is the reads of that
   request alone; accesses that are not element requests can be inserted / removed anywhere without changing the log. *)
Theorem C04_lazy_until_requested :
  (forall h, forallb (fun op => negb (s_is_fetch op)) h = true -> s_run h = Some []) /\
  (forall pre l, forallb (fun op => negb (s_is_fetch op)) pre = true ->
     s_run pre = Some [] /\ s_run (pre ++ [SFetch l]) = s_request_calls l) /\
  (forall h, s_run h = s_run (filter s_is_fetch h)).
Proof. exact (conj s_run_lazy (conj s_run_first_fetch s_run_filter)). Qed.
Print Assumptions C04_lazy_until_requested.
(* the whole log of any history = the reads of its element requests, request by request, in order (a repeated request
   reads its chunks again: "each once" is per request, nothing is cached in between), and histories compose *)
Theorem C04_store_log_is_requests :
  (forall h, s_run h = option_map (@concat s_call) (d_sequence (map s_request_calls (s_fetches h)))) /\
  (forall h1 h2, s_run (h1 ++ h2) =
     match s_run h1, s_run h2 with Some a, Some b => Some (a ++ b) | _, _ => None end).
Proof. exact (conj s_run_fetches s_run_app). Qed.
Print Assumptions C04_store_log_is_requests.
(* ONE REQUEST made of contiguous ranges (any number of stores, stored arrays, indexers per stored array, nesting depth =
   stages, axes): the recorded calls are pairwise different (each once); a call is made iff it is wanted by some indexer
   of the request: same store and array, and on every axis its slice is the extent of a stored chunk that meets the
   composed interval of that indexer; and every call asks for a WHOLE block of the stored array's chunk grid
   (Chunks.blocks), never a part of a chunk and nothing outside the grid. *)
Theorem C04_request_reads_overlapping_chunks_once : forall l cs, (forall i, In i l -> j_pos i) ->
  s_request_calls l = Some cs ->
  NoDup cs /\
  (forall c, In c cs <-> exists i, In i l /\ s_wanted c i) /\
  (forall c, In c cs -> exists i, In i l /\ fst (fst c) = jr_store i /\ snd (fst c) = jr_name i /\
                                  In (snd c) (blocks (s_chunks i))).
Proof. exact s_request_spec. Qed.
Print Assumptions C04_request_reads_overlapping_chunks_once.
(* the read model answers exactly the requests whose stages are contiguous on every axis (unit-step slices, integers) *)
Theorem C04_request_answered_iff_contiguous : forall l, (forall i, In i l -> j_pos i) ->
  (s_request_calls l <> None <-> forallb j_contig l = true).
Proof. exact s_request_some_iff. Qed.
Print Assumptions C04_request_answered_iff_contiguous.
(* the translated facts the history model stands on: no computing call in construction / dataset / shape / dtype / len /
   str / repr / dask_getitem, exactly one (da.store) in get(); get()'s body and the chunk store's getter as modelled *)
Theorem C04_store_skeleton : c04_meta_computes = 0 /\ c04_get_computes = 1 /\ c04_get_as_modelled = true /\
  c04_getter_passes_slices = true /\ c04_shape_via_dataset = true /\ c04_dtype_via_dataset = true /\
  c04_len_via_dataset = true /\ c04_getitem_via_dataset = true /\ c04_get_via_dataset = true.
Proof. exact s_skeleton. Qed.
Print Assumptions C04_store_skeleton.
(* non-vacuity: two indexers of one stored array chunked ((2,1),(3,1,2)); four constructions / advertisements read
   nothing; a[..] reads two chunks; .shape reads nothing; get([a, b]) reads the three chunks either needs, each once *)
Theorem C04_store_example :
  s_run (firstn 4 s_ex_hist) = Some [] /\
  s_run (firstn 5 s_ex_hist) = Some [(1, 0, [(0, 2); (3, 4)]); (1, 0, [(0, 2); (4, 6)])] /\
  s_run s_ex_hist = Some [(1, 0, [(0, 2); (3, 4)]); (1, 0, [(0, 2); (4, 6)]);
                          (1, 0, [(0, 2); (0, 3)]); (1, 0, [(0, 2); (3, 4)]); (1, 0, [(0, 2); (4, 6)])] /\
  (forall i, In i [s_ex_a; s_ex_b] -> j_pos i).
Proof. exact s_example. Qed.
Print Assumptions C04_store_example.

(* SHAPE AND DTYPE ARE ADVERTISED WITHOUT DATA: for every indexer - any nesting depth, any first-stage indices, any chain
   of transforms that derive their output shape/dtype from the input's shape/dtype (as every dask graph transform does;
   the transforms of the correspondence qualify) - .shape/.dtype (and whether the construction is rejected) are those of
   the same indexer over arrays whose contents are blanked out: no stored value can influence them, so they are known
   before the first fetch.  (That they are the RIGHT shape/dtype is C04_two_stage_partial / C04_nesting_partial.) *)
Theorem C04_advertised_without_data :
  (forall i, d_ind_meta i -> d_adv i = d_adv (d_blank i)) /\ (forall c, d_tr_meta (d_transform c)).
Proof. exact (conj d_adv_blank d_transform_meta). Qed.
Print Assumptions C04_advertised_without_data.
