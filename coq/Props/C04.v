(* C04 — Two-stage lazy indexing of dask arrays equals composed outer indexing, lazily.  Only statements here. *)
From Coq Require Import ZArith List Bool.
From KV Require Import Base.Sx Model.DaskIdx Proofs.DaskIdxP.
Import ListNotations.
Open Scope Z_scope.

Theorem C04_f20_numpy : d_slice_pos (DS (Some (-6)) (Some 2) (Some (-2))) 5 = Some [].
Proof. exact f20_witness. Qed.
Print Assumptions C04_f20_numpy.
