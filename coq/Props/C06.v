(* C06 — Lost data become zeros flagged data_lost, exactly where they were lost.  Only statements here. *)
From Coq Require Import ZArith List Bool.
From KV Require Import Base.Sx Model.Prune Model.LostMap Proofs.LostMapP.
Import ListNotations.
Open Scope Z_scope.

Theorem C06_data_lost_is_bit3 : DATA_LOST = 8.
Proof. exact data_lost_is_bit3. Qed.
Print Assumptions C06_data_lost_is_bit3.
