(* C06 — Lost data become zeros flagged data_lost, exactly where they were lost.  Only statements here.

   Model (Model/Prune.v, Model/LostMap.v): chunkstore._prune_chunks + the unit-step slicing of get_dask_array,
   dask's intersect_chunks, the lost map / _apply_data_lost / _default_zero / weights * weights_channel of
   ChunkStoreVisFlagsWeights, datasources._align_chunk_info.  cfg_ok c p (Proofs/C06P.v) says: every array is
   chunked into positive chunks (any chunking, independently per array), the arrays agree on the length of each
   axis they have (weights_channel may have fewer axes), each axis carries no window or a normalised non-empty
   window lo < hi, and p is an element of the preselected window.  c_miss (which chunks are absent) and c_dat
   (what was stored) are arbitrary. *)
From Coq Require Import ZArith List Bool.
From KV Require Import Gen.Generated Base.Sx Base.Str Model.Prune Model.LostMap Model.LostIO Proofs.PruneP Proofs.LostMapP Proofs.LostMapNdP Proofs.C06P Proofs.LostIOP Proofs.C06TopP.
Import ListNotations.
Open Scope Z_scope.

(* DATA_LOST as translated from katdal/flags.py is bit 3. *)
Theorem C06_data_lost_is_bit3 : DATA_LOST = 8.
Proof. exact data_lost_is_bit3. Qed.
Print Assumptions C06_data_lost_is_bit3.

(* intersect_chunks on one axis, any two chunkings of the same length into positive chunks: one list of pieces per
   new chunk; every piece is a non-empty slice of an existing old chunk; element x, seen as (old chunk, local
   position), is inside a piece listed under new chunk j exactly when j is the new chunk containing x. *)
Theorem C06_intersect_1d_tiles : forall old new, allpos old -> allpos new -> zsum old = zsum new ->
  length (intersect_1d old new) = length new /\
  (forall j pc, In pc (nth j (intersect_1d old new) []) -> piece_ok old pc) /\
  (forall x, 0 <= x < zsum old -> forall j,
     cov1 (nth j (intersect_1d old new) []) (loc old 0 x) = Nat.eqb j (fst (loc new 0 x))).
Proof. exact intersect_1d_tiles. Qed.
Print Assumptions C06_intersect_1d_tiles.

(* ... and the pieces PARTITION the old chunks: every element lies in exactly one piece, listed under the new chunk
   that contains the element (no piece is listed twice, none is missing). *)
Theorem C06_intersect_1d_partition : forall old new x,
  allpos old -> allpos new -> zsum old = zsum new -> 0 <= x < zsum old ->
  forall j, length (filter (fun pc => covers pc (loc old 0 x)) (nth j (intersect_1d old new) [])) =
            if Nat.eqb j (fst (loc new 0 x)) then 1%nat else 0%nat.
Proof. exact intersect_1d_partition. Qed.
Print Assumptions C06_intersect_1d_partition.

(* vis and weights: zero exactly on the elements covered by their own absent chunks, otherwise the stored value
   (weights: stored weights * stored weights_channel). *)
Theorem C06_vis_weights : forall c p, cfg_ok c p ->
  model_vis c p = (if lost_in c A_VIS p then 0 else stored c A_VIS p) /\
  model_weights c p = (if lost_in c A_W p || lost_in c A_WC p then 0 else stored c A_W p * stored c A_WC p).
Proof. intros c p H. split; [exact (vis_model_is_spec c p H)|exact (weights_model_is_spec c p H)]. Qed.
Print Assumptions C06_vis_weights.

(* flags: stored flags (DATA_LOST where the flags chunk itself is absent) OR DATA_LOST where a chunk of any other
   array covering the element is absent. *)
Theorem C06_flags : forall c p, cfg_ok c p ->
  model_flags c p =
  Z.lor (if lost_in c A_FLAGS p then DATA_LOST else stored c A_FLAGS p)
        (if lost_in c A_VIS p || lost_in c A_W p || lost_in c A_WC p then DATA_LOST else 0).
Proof. exact flags_model_is_spec. Qed.
Print Assumptions C06_flags.

(* bit 3 is set exactly where something was lost (or the stored flag had it); every other bit is the stored bit
   (0 where the flags chunk is absent). *)
Theorem C06_other_bits_untouched : forall c p, cfg_ok c p ->
  Z.testbit (model_flags c p) 3 = any_lost c p || (negb (lost_in c A_FLAGS p) && Z.testbit (stored c A_FLAGS p) 3) /\
  forall i, 0 <= i -> i <> 3 ->
    Z.testbit (model_flags c p) i = negb (lost_in c A_FLAGS p) && Z.testbit (stored c A_FLAGS p) i.
Proof. exact flag_bits. Qed.
Print Assumptions C06_other_bits_untouched.

(* dumps beyond those written for an array (shorter array, shorter flags stream): after _align_chunk_info the
   covering chunk is a phantom one-dump chunk that the store reports absent, so the theorems above apply with
   lost_in = true there. *)
Theorem C06_phantom_dumps_lost : forall orig lost a t rest g0 g',
  nth a orig [] = t :: rest -> allpos t -> zsum t <= g0 < max_dumps orig ->
  store_missing orig lost a (chunk_id (nth a (align orig) []) (g0 :: g')) = true.
Proof. exact phantom_lost. Qed.
Print Assumptions C06_phantom_dumps_lost.

(* _prune_chunks, any chunk list, any slice: the kept chunks are a contiguous run of the original chunks and the
   offset is where that run starts. *)
Theorem C06_prune_keeps_boundaries : forall cs start stop,
  let '(cs2, _, _, off) := prune_core cs start stop in
  exists pre post, cs = pre ++ cs2 ++ post /\ off = zsum pre.
Proof. exact prune_keeps_boundaries. Qed.
Print Assumptions C06_prune_keeps_boundaries.

(* at least one existing chunk is always kept, whatever the slice (also an empty one): no zero-size chunk is ever
   requested from the store at the offset of a real chunk (finding C06-F1, fixed). *)
Theorem C06_prune_keeps_one : forall cs start stop, cs <> [] ->
  let '(cs2, _, _, _) := prune_core cs start stop in cs2 <> [].
Proof. exact prune_keeps_one. Qed.
Print Assumptions C06_prune_keeps_one.

(* ... the adjusted slice lies inside the pruned array and addresses the same stored elements. *)
Theorem C06_prune_selects_same_data : forall cs start stop,
  0 <= start -> start <= stop -> stop <= zsum cs ->
  let '(cs2, start1, stop1, off) := prune_core cs start stop in
  off + start1 = start /\ off + stop1 = stop /\ 0 <= start1 /\ start1 <= stop1 /\ stop1 <= zsum cs2.
Proof. exact prune_selects_same_data. Qed.
Print Assumptions C06_prune_selects_same_data.

(* ... and, for a non-empty slice, no kept chunk could be dropped: first and last kept chunk contain selected elements. *)
Theorem C06_prune_minimal : forall cs start stop,
  0 <= start -> start < stop -> stop <= zsum cs ->
  let '(cs2, start1, stop1, _) := prune_core cs start stop in
  cs2 <> [] /\ start1 < hd 0 cs2 /\ zsum cs2 - last cs2 0 < stop1.
Proof. exact prune_minimal. Qed.
Print Assumptions C06_prune_minimal.

(* prune + slice address, for every element of the window, exactly the stored chunk that covers it and the stored element *)
Theorem C06_axis_addresses_right_chunk : forall cs w x, allpos cs -> win_ok cs w -> 0 <= x < wsize cs w ->
  ax_id (mk_axis cs w) (fst (loc (ax_sizes (mk_axis cs w)) 0 x)) = chunk_start cs (wlo w + x) /\
  ax_src (mk_axis cs w) (loc (ax_sizes (mk_axis cs w)) 0 x) = wlo w + x.
Proof. exact axis_spec. Qed.
Print Assumptions C06_axis_addresses_right_chunk.

(* the hypotheses are satisfiable and the statements are not vacuous: a 3x4x2 store with four different chunkings,
   dumps 1..2 preselected, one vis chunk and one weights_channel chunk absent. *)
Theorem C06_cfg_ok_satisfiable : cfg_ok ex_cfg [1; 2; 1] /\
  model_flags ex_cfg [1; 2; 1] = Z.lor (stored ex_cfg A_FLAGS [1; 2; 1]) 8 /\ model_vis ex_cfg [1; 2; 1] = 0 /\
  model_flags ex_cfg [0; 2; 1] = stored ex_cfg A_FLAGS [0; 2; 1] /\ model_vis ex_cfg [0; 2; 1] <> 0.
Proof. exact (conj ex_cfg_ok ex_cfg_values). Qed.
Print Assumptions C06_cfg_ok_satisfiable.

(* The model's loop conditions of _prune_chunks, the fill values and the OR-ed mask are those found in the current
   source by the translator (katdal/chunkstore.py, katdal/vis_flags_weights.py; fail-closed on any other shape). *)
Theorem C06_model_matches_translated_source :
  (forall c start, gen_prune_front_drop c start = (c <=? start)) /\
  (forall c shape stop, gen_prune_back_drop c shape stop = (c <=? shape - stop)) /\
  gen_flags_missing_fill = DATA_LOST /\ gen_default_fill = 0 /\ gen_lost_or_mask = DATA_LOST /\
  gen_intersect_old_is_flags = true /\ gen_prune_front_keeps_last = true /\ gen_prune_back_keeps_last = true.
Proof. exact generated_agree. Qed.
Print Assumptions C06_model_matches_translated_source.

(* ================================================================================================================ *)
(* Round 2: the glue around the core (Model/LostIO.v) - "any preselection", "loading still succeeds", the errors option,
   histories of the chunk store, the chunk_info records of an attached flags stream. *)
From Coq Require Import String Permutation.


(* --- any preselection: raw slice bounds (None, negative, beyond the end, backwards) --- *)
(* What _prune_chunks works with after slice.indices and dask's normalize_slice: either the axis is skipped (None) and
   then Python's range(n)[a:b] is everything, or a window 0 <= lo <= hi <= n that is not the whole axis and contains
   exactly the elements Python selects.  Empty selections are included (lo = hi). *)
Theorem C06_window_is_python_slice : forall n a b, 0 <= n ->
  match norm_window n a b with
  | None => forall x, 0 <= x < n -> py_selected n a b x
  | Some (lo, hi) => 0 <= lo /\ lo <= hi /\ hi <= n /\ (lo <> 0 \/ hi < n) /\
                     forall x, lo <= x < hi <-> py_selected n a b x
  end.
Proof. exact norm_window_spec. Qed.
Print Assumptions C06_window_is_python_slice.
Example C06_window_examples :
  norm_window 10 (Some (-3)) None = Some (7, 10) /\ norm_window 10 (Some 0) (Some 12) = None /\
  norm_window 10 (Some 7) (Some 3) = Some (7, 7) /\ norm_window 10 None (Some 0) = Some (0, 0) /\
  norm_window 10 (Some (-20)) (Some (-1)) = Some (0, 9).
Proof. exact ex_norm_window. Qed.

(* _prune_chunks refuses (IndexError) exactly the indices with more elements than axes or an element that is not a
   unit-step slice - it never answers them; when it answers, axis k carries prune_axis of the normalised window. *)
Theorem C06_prune_chunks_rejects_exactly : forall chunks index,
  prune_chunks chunks index = None <-> ~ ((List.length index <= List.length chunks)%nat /\ Forall unit_slice index).
Proof. exact prune_chunks_rejects. Qed.
Print Assumptions C06_prune_chunks_rejects_exactly.
Theorem C06_prune_chunks_per_axis : forall chunks index r k cs,
  prune_chunks chunks index = Some r -> nth_error chunks k = Some cs ->
  let w := elt_window (zsum cs) (nth k index full_slice) in
  nth_error r k = Some (let '(cs', st, sp, off) := prune_axis cs w in
                        (cs', match w with None => None | Some _ => Some (st, sp) end, off)).
Proof. exact prune_chunks_axis. Qed.
Print Assumptions C06_prune_chunks_per_axis.
Example C06_prune_chunks_examples :
  prune_chunks [[2;3;5]; [4;4]] [PSlice (Some 2) (Some (-5)) None] = Some [([3], Some (0, 3), 2); ([4;4], None, 0)] /\
  prune_chunks [[2;3;5]; [4;4]] [PSlice (Some 5) (Some 5) (Some 1); full_slice] = Some [([5], Some (0, 0), 5); ([4;4], None, 0)] /\
  prune_chunks [[2;3;5]; [4;4]] [PSlice None None (Some 2)] = None /\
  prune_chunks [[2;3;5]; [4;4]] [PInt 1] = None /\
  prune_chunks [[2;3;5]; [4;4]] [full_slice; full_slice; full_slice] = None /\
  prune_chunks [[2;3;5]] [POther] = None.
Proof. exact ex_prune_chunks. Qed.

(* TelstateDataSource(preselect=...): refused (IndexError) exactly when a key is not dumps / channels or a value is
   not a unit-step slice; what is accepted reaches every array as (dumps, channels), a missing key as [:], no
   preselection as the empty index, and is never refused further down. *)
Theorem C06_preselect_rejected_exactly : forall pre, preselect_index pre = None <-> ~ preselect_valid pre.
Proof. exact preselect_index_rejects. Qed.
Print Assumptions C06_preselect_rejected_exactly.
Theorem C06_preselect_accepted_windows : forall chunks pre, (2 <= List.length chunks)%nat -> preselect_valid pre ->
  exists win, source_windows chunks pre = Some win /\
    (pre = [] -> win = []) /\
    (pre <> [] -> win = map (fun ci => elt_window (zsum (fst ci)) (snd ci))
                            (combine chunks [match dict_get "dumps" pre with Some i => i | None => full_slice end;
                                             match dict_get "channels" pre with Some i => i | None => full_slice end])).
Proof. exact source_windows_accepts. Qed.
Print Assumptions C06_preselect_accepted_windows.
Example C06_preselect_examples :
  preselect_index [("channels"%string, PSlice (Some 1) (Some 3) None)] = Some [full_slice; PSlice (Some 1) (Some 3) None] /\
  preselect_index [] = Some [] /\
  preselect_index [("dumps"%string, PSlice None None (Some 2))] = None /\
  preselect_index [("ants"%string, full_slice)] = None /\
  preselect_index [("dumps"%string, PInt 3)] = None.
Proof. exact ex_preselect. Qed.

(* Shape of what is loaded, for EVERY index get_dask_array accepts (empty selections included): per axis the number of
   selected elements, delivered as blocks of positive size (no zero-size chunk is ever requested). *)
Theorem C06_loaded_shape : forall chunks index win, Forall allpos chunks -> gda_windows chunks index = Some win ->
  map zsum (chunks_of (get_dask_array chunks win)) =
  map (fun cw => wsize (fst cw) (snd cw)) (combine chunks (pad_win win (List.length chunks))) /\
  Forall allpos (chunks_of (get_dask_array chunks win)).
Proof. exact gda_shape. Qed.
Print Assumptions C06_loaded_shape.
Example C06_empty_window_example :
  ax_sizes (mk_axis [2;3;5] (Some (5, 5))) = [] /\ ax_chunks (mk_axis [2;3;5] (Some (5, 5))) = [5] /\
  ax_sizes (mk_axis [2;3;5] (Some (4, 6))) = [1; 1] /\ ax_chunks (mk_axis [2;3;5] (Some (10, 10))) = [5].
Proof. exact ex_empty_window_shape. Qed.

(* The three clauses of the property for every raw index that is accepted: hypotheses in the caller's terms
   (load_ok: the windows are those get_dask_array computes from the index, positive chunks, equal axis lengths, p an
   element of the selection) - no assumption on the form of the slices. *)
Theorem C06_any_preselection : forall c index p, load_ok c index p ->
  model_vis c p = spec_vis c p /\ model_weights c p = spec_weights c p /\ model_flags c p = spec_flags c p.
Proof. exact any_preselection. Qed.
Print Assumptions C06_any_preselection.
Example C06_any_preselection_nonvacuous : load_ok ex_cfg [PSlice (Some (-2)) None None] [1; 2; 1].
Proof. exact ex_load_ok. Qed.

(* Preselecting is the same as loading everything and selecting afterwards: element p of the preselected load is element
   gpos c p (window start + p) of the load without preselection - values, zeros and every flag bit. *)
Theorem C06_preselection_commutes : forall c p, cfg_ok c p ->
  cfg_ok (no_win c) (gpos c p) /\
  model_vis c p = model_vis (no_win c) (gpos c p) /\
  model_weights c p = model_weights (no_win c) (gpos c p) /\
  model_flags c p = model_flags (no_win c) (gpos c p).
Proof. exact preselect_commutes. Qed.
Print Assumptions C06_preselection_commutes.
Example C06_preselection_commutes_example :
  gpos ex_cfg [1; 2; 1] = [2; 2; 1] /\ model_vis (no_win ex_cfg) [2; 2; 1] = model_vis ex_cfg [1; 2; 1] /\
  model_flags (no_win ex_cfg) [1; 2; 1] = model_flags ex_cfg [0; 2; 1].
Proof. exact ex_preselect_commutes. Qed.

(* --- "loading still succeeds": the errors option of get_dask_array and the getters --- *)
(* The decision chain regenerated from the source (Generated.gen_errors_mode) gives: 'placeholder' -> stored chunk or
   PlaceholderChunk; 'dryrun' -> always a PlaceholderChunk; 'raise' -> stored chunk or an exception; a number v -> stored
   chunk or an array filled with v; any other string -> ValueError. *)
Theorem C06_errors_modes : forall present v,
  read_block (getter_of (EStr "placeholder")) present = (if present then BData else BPlaceholder) /\
  read_block (getter_of (EStr "dryrun")) present = BPlaceholder /\
  read_block (getter_of (EStr "raise")) present = (if present then BData else BRaise) /\
  read_block (getter_of (ENum v)) present = (if present then BData else BFill v).
Proof. exact read_block_modes. Qed.
Print Assumptions C06_errors_modes.
Theorem C06_errors_unknown_string_refused : forall s present,
  s <> "placeholder"%string -> s <> "dryrun"%string -> s <> "raise"%string -> read_block (getter_of (EStr s)) present = BRaise.
Proof. exact read_block_bad. Qed.
Print Assumptions C06_errors_unknown_string_refused.

(* What ChunkStoreVisFlagsWeights asks for (errors = DATA_LOST for flags, 'placeholder' otherwise): no block ever raises
   because a chunk is absent, and the outputs computed through the getters, _default_zero and the PlaceholderChunk test
   of _apply_data_lost are defined (Some) and equal to model_vis / model_weights / model_flags - for EVERY configuration
   (no hypothesis). *)
Theorem C06_absent_chunks_never_raise : forall c a J, vfw_block c a J <> BRaise.
Proof. exact vfw_block_never_raises. Qed.
Print Assumptions C06_absent_chunks_never_raise.
Theorem C06_getters_refine_model : forall c p,
  io_vis c p = Some (model_vis c p) /\ io_weights c p = Some (model_weights c p) /\ io_flags c p = Some (model_flags c p).
Proof. intros c p. exact (conj (io_vis_refines c p) (conj (io_weights_refines c p) (io_flags_refines c p))). Qed.
Print Assumptions C06_getters_refine_model.
Example C06_getters_examples :
  vfw_block ex_cfg A_VIS [1%nat; 1%nat; 0%nat] = BPlaceholder /\ vfw_block ex_cfg A_VIS [0%nat; 0%nat; 0%nat] = BData /\
  read_block (getter_of (ENum 8)) false = BFill 8 /\ read_block (getter_of (EStr "dryrun")) true = BPlaceholder /\
  read_block (getter_of (EStr "raise")) false = BRaise /\ read_block (getter_of (EStr "ignore")) true = BRaise /\
  io_vis ex_cfg [1; 2; 1] = Some 0 /\ io_flags ex_cfg [1; 2; 1] = Some (Z.lor (stored ex_cfg A_FLAGS [1; 2; 1]) 8).
Proof. exact ex_getters. Qed.

(* --- histories: chunks that arrive or disappear between loads --- *)
(* A load at any point of a history of put / delete operations (reader without state): every element shows the version
   LAST written to its chunk, or zero + data_lost if that chunk was never written or removed since. *)
Theorem C06_history_load : forall chunks win vals h p, cfg_ok (hist_cfg chunks win vals h) p ->
  model_vis (hist_cfg chunks win vals h) p =
    (match last_write h A_VIS (hist_id chunks win A_VIS p) with
     | Some v => vals v A_VIS (hist_pos chunks win A_VIS p) | None => 0 end) /\
  model_weights (hist_cfg chunks win vals h) p =
    (match last_write h A_W (hist_id chunks win A_W p), last_write h A_WC (hist_id chunks win A_WC p) with
     | Some v, Some v' => vals v A_W (hist_pos chunks win A_W p) * vals v' A_WC (hist_pos chunks win A_WC p)
     | _, _ => 0 end) /\
  model_flags (hist_cfg chunks win vals h) p =
    Z.lor (match last_write h A_FLAGS (hist_id chunks win A_FLAGS p) with
           | Some v => vals v A_FLAGS (hist_pos chunks win A_FLAGS p) | None => DATA_LOST end)
          (if absent h A_VIS (hist_id chunks win A_VIS p) || absent h A_W (hist_id chunks win A_W p) ||
              absent h A_WC (hist_id chunks win A_WC p) then DATA_LOST else 0).
Proof.
  intros chunks win vals h p H.
  exact (conj (hist_vis _ _ _ _ _ H) (conj (hist_weights _ _ _ _ _ H) (hist_flags _ _ _ _ _ H))).
Qed.
Print Assumptions C06_history_load.
(* the last operation on a chunk decides, operations on other chunks are irrelevant *)
Theorem C06_history_last_operation_decides : forall h a id v o,
  last_write (h ++ [Put a id v]) a id = Some v /\ last_write (h ++ [Del a id]) a id = None /\
  (op_hits o a id = false -> last_write (h ++ [o]) a id = last_write h a id) /\ last_write [] a id = None.
Proof.
  intros h a id v o.
  exact (conj (last_write_put h a id v) (conj (last_write_del h a id) (conj (last_write_other h o a id) (last_write_nil a id)))).
Qed.
Print Assumptions C06_history_last_operation_decides.
(* two histories that leave the same chunks in the store are indistinguishable *)
Theorem C06_history_only_final_state_matters : forall chunks win vals h1 h2 p,
  (forall a id, last_write h1 a id = last_write h2 a id) -> cfg_ok (hist_cfg chunks win vals h1) p ->
  model_vis (hist_cfg chunks win vals h1) p = model_vis (hist_cfg chunks win vals h2) p /\
  model_weights (hist_cfg chunks win vals h1) p = model_weights (hist_cfg chunks win vals h2) p /\
  model_flags (hist_cfg chunks win vals h1) p = model_flags (hist_cfg chunks win vals h2) p.
Proof. exact hist_final_state. Qed.
Print Assumptions C06_history_only_final_state_matters.
(* a chunk that arrives after a load is seen by the next load; a chunk removed after a load is lost in the next one *)
Theorem C06_history_late_chunk_seen : forall chunks win vals h v p, cfg_ok (hist_cfg chunks win vals h) p ->
  model_vis (hist_cfg chunks win vals (h ++ [Put A_VIS (hist_id chunks win A_VIS p) v])) p =
  vals v A_VIS (hist_pos chunks win A_VIS p).
Proof. exact hist_put_seen. Qed.
Print Assumptions C06_history_late_chunk_seen.
Theorem C06_history_removed_chunk_lost : forall chunks win vals h a p, cfg_ok (hist_cfg chunks win vals h) p ->
  (a = A_VIS \/ a = A_W \/ a = A_WC \/ a = A_FLAGS) ->
  let c := hist_cfg chunks win vals (h ++ [Del a (hist_id chunks win a p)]) in
  Z.testbit (model_flags c p) 3 = true /\ (a = A_VIS -> model_vis c p = 0) /\
  (a = A_W \/ a = A_WC -> model_weights c p = 0).
Proof. exact hist_del_lost. Qed.
Print Assumptions C06_history_removed_chunk_lost.
Example C06_history_example :
  (forall h, cfg_ok (ex_hist h) [1; 2; 1]) /\
  hist_id (c_chunks ex_cfg) [Some (1, 3)] A_VIS [1; 2; 1] = [2; 1; 0] /\
  (model_vis (ex_hist ex_h0) [1; 2; 1], model_flags (ex_hist ex_h0) [1; 2; 1]) = (22, 23) /\
  (model_vis (ex_hist (ex_h0 ++ [Del A_VIS [2;1;0]])) [1; 2; 1],
   model_flags (ex_hist (ex_h0 ++ [Del A_VIS [2;1;0]])) [1; 2; 1]) = (0, 31) /\
  (model_vis (ex_hist (ex_h0 ++ [Del A_VIS [2;1;0]; Put A_VIS [2;1;0] 1])) [1; 2; 1],
   model_flags (ex_hist (ex_h0 ++ [Del A_VIS [2;1;0]; Put A_VIS [2;1;0] 1])) [1; 2; 1]) = (122, 23).
Proof. exact (conj ex_hist_ok ex_hist_values). Qed.

(* --- chunk_info records: _upgrade_chunk_info, _align_chunk_info (shape AND chunks fields) --- *)
(* after alignment every array has the dump count of the longest; its dump-axis chunks are the GIVEN chunks followed by
   one-dump phantom chunks (nothing described as stored is dropped), other axes untouched; aligning twice = once *)
Theorem C06_align_info : forall all,
  (forall i, In i (align_info all) -> info_dumps i = info_max_dumps all) /\
  (forall maxd i, hd [] (i_chunks (align_info_one maxd i)) = hd [] (i_chunks i) ++ repeat 1 (Z.to_nat (maxd - info_dumps i)) /\
                  tl (i_chunks (align_info_one maxd i)) = tl (i_chunks i) /\
                  tl (i_shape (align_info_one maxd i)) = tl (i_shape i)) /\
  align_info (align_info all) = align_info all.
Proof. intro all. exact (conj (align_info_dumps all) (conj align_info_one_chunks (align_info_idempotent all))). Qed.
Print Assumptions C06_align_info.
(* on consistent records (shape = sums of the chunks) the chunk lists are Model.LostMap.align (the function the main
   theorems and C06_phantom_dumps_lost are about), and consistency is preserved *)
Theorem C06_align_info_refines_align : forall all, Forall info_consistent all ->
  map i_chunks (align_info all) = align (map i_chunks all) /\ Forall info_consistent (align_info all).
Proof. exact align_info_consistent. Qed.
Print Assumptions C06_align_info_refines_align.
(* _upgrade_chunk_info refuses iff the shapes differ beyond the dump axis; otherwise the whole improved record replaces
   the entry (its dump count, every one of its chunks) and nothing else changes *)
Theorem C06_upgrade_info : forall all key imp orig, nth_error all key = Some orig ->
  (tl (i_shape imp) <> tl (i_shape orig) -> upgrade_info all key imp = None) /\
  (tl (i_shape imp) = tl (i_shape orig) ->
     exists r, upgrade_info all key imp = Some r /\ nth_error r key = Some imp /\
               List.length r = List.length all /\ forall k, k <> key -> nth_error r k = nth_error all k).
Proof. exact upgrade_info_spec. Qed.
Print Assumptions C06_upgrade_info.
(* an attached flags stream: every array ends with the dump count of the longest of ALL arrays (the flags stream
   included, so a longer flags stream extends the data set), and the flags array keeps every chunk of the stream *)
Theorem C06_flags_stream_chunks_all_kept : forall l0 f orig,
  nth_error l0 A_FLAGS = Some orig -> tl (i_shape f) = tl (i_shape orig) ->
  exists u r fl, upgrade_info l0 A_FLAGS f = Some u /\ source_info l0 (Some f) = Some r /\
    nth_error r A_FLAGS = Some fl /\
    (forall i, In i r -> info_dumps i = info_max_dumps u) /\
    info_dumps f <= info_max_dumps u /\
    (forall k i, k <> A_FLAGS -> nth_error l0 k = Some i -> info_dumps i <= info_max_dumps u) /\
    hd [] (i_chunks fl) = hd [] (i_chunks f) ++ repeat 1 (Z.to_nat (info_max_dumps u - info_dumps f)) /\
    tl (i_chunks fl) = tl (i_chunks f).
Proof. exact source_info_flags_stream. Qed.
Print Assumptions C06_flags_stream_chunks_all_kept.
Example C06_flags_stream_example :
  source_info ex_l0 (Some (ex_info [8;8;4] [[3;3;2]; [4;4]; [4]])) =
    Some [ex_info [8;8;4] [[1;1;1;1;1;1;1;1]; [4;4]; [4]]; ex_info [8;8;4] [[3;3;2]; [4;4]; [4]];
          ex_info [8;8;4] [[2;2;2;1;1]; [8]; [2;2]]; ex_info [8;8] [[1;1;1;1;1;1;1;1]; [8]]] /\
  source_info ex_l0 (Some (ex_info [8;8;2] [[3;3;2]; [4;4]; [2]])) = None /\
  Forall info_consistent ex_l0.
Proof. exact ex_source_info. Qed.

(* --- laws a user relies on --- *)
(* nothing absent: the load is exactly what is stored (no flag bit, no value changed) *)
Theorem C06_nothing_lost_identity : forall c p, cfg_ok c p -> (forall a id, c_miss c a id = false) ->
  model_vis c p = stored c A_VIS p /\ model_weights c p = stored c A_W p * stored c A_WC p /\
  model_flags c p = stored c A_FLAGS p.
Proof. exact no_loss_identity. Qed.
Print Assumptions C06_nothing_lost_identity.
Example C06_nothing_lost_example :
  let c := with_miss ex_cfg (fun _ _ => false) in
  cfg_ok c [1; 2; 1] /\ model_vis c [1; 2; 1] = stored c A_VIS [1; 2; 1] /\ model_vis c [1; 2; 1] <> 0 /\
  model_flags c [1; 2; 1] = stored c A_FLAGS [1; 2; 1].
Proof. exact ex_no_loss. Qed.
(* losing MORE chunks never clears a data_lost bit and never alters an element that is still delivered *)
Theorem C06_loss_monotone : forall c m p, cfg_ok c p -> (forall a id, c_miss c a id = true -> m a id = true) ->
  (Z.testbit (model_flags c p) 3 = true -> Z.testbit (model_flags (with_miss c m) p) 3 = true) /\
  (model_vis (with_miss c m) p <> 0 -> model_vis (with_miss c m) p = model_vis c p) /\
  (model_weights (with_miss c m) p <> 0 -> model_weights (with_miss c m) p = model_weights c p).
Proof. exact loss_monotone. Qed.
Print Assumptions C06_loss_monotone.
(* _apply_data_lost: order of the (chunk, slices) pairs irrelevant; idempotent; pairs whose chunk is present are ignored
   (so a flags chunk under which nothing is lost is returned as it is) *)
Theorem C06_apply_data_lost_laws : forall ph orig l l' q,
  (Permutation l l' -> apply_data_lost ph orig l q = apply_data_lost ph orig l' q) /\
  apply_data_lost ph (apply_data_lost ph orig l q) l q = apply_data_lost ph orig l q /\
  ((forall e, In e l -> ph (fst (fst e)) (snd (fst e)) = false) -> apply_data_lost ph orig l q = orig).
Proof.
  intros ph orig l l' q.
  exact (conj (apply_data_lost_perm ph orig l l' q) (conj (apply_data_lost_idem ph orig l q) (apply_data_lost_none ph orig l q))).
Qed.
Print Assumptions C06_apply_data_lost_laws.

(* every round-2 construct the model uses is the one found in the current source (fail-closed translator items
   item_getters, item_prune_head, item_preselect, item_lostmap); the model's getter_of / prune_index_ok /
   preselect_index / align_info / upgrade_info are DEFINED through these generated definitions *)
Theorem C06_round2_translated_source :
  gen_prune_ok_steps = [Some 1; None] /\ gen_preselect_ok_steps = [None; Some 1] /\
  gen_preselect_keys = ["channels"%string; "dumps"%string] /\ gen_preselect_axis_order = ["dumps"%string; "channels"%string] /\
  gen_other_errors = "placeholder"%string /\ (forall d, gen_placeholder_asks_store d = negb d) /\
  (forall n m, gen_align_pads n m = (n <? m)) /\ gen_align_phantom_size = 1 /\
  (forall n m, gen_align_phantom_count n m = m - n) /\ gen_upgrade_compares_shape_from = 1%nat /\
  gen_gda_prunes_iff_index_nonempty = true /\ gen_gda_slices_after_prune = true /\ gen_lostmap_literal = true /\
  gen_source_upgrades_then_aligns = true /\ gen_npy_get_chunk_stateless = true /\ gen_fallback_only_on_not_found = true.
Proof. repeat split; reflexivity. Qed.
Print Assumptions C06_round2_translated_source.

(* ================================================================================================================ *)
(* Round 2b: lost data under the processing options that sit between the chunk store and the user (they act on the
   zero-filled arrays): van_vleck='autocorr' and the division of the weights by the autocorrelation power.
   Numeric kernels: C15's Model/Weights.v. *)
From Coq Require Import QArith Qcanon.
From KV Require Import Model.Interp Model.Weights Model.LostOpt Proofs.WeightsP Proofs.LostOptP.
Close Scope Q_scope.

(* "visibilities are zero exactly on the elements covered by their own missing chunks" survives van_vleck='autocorr':
   for every strictly increasing lookup table that starts with the anchor found in the source (gen_vv_anchor, (0, 0)) the
   zero fill of a lost chunk stays exactly 0 (autocorrelations through np.interp, cross-correlations untouched). *)
Theorem C06_lost_vis_zero_under_van_vleck : forall vv is_auto t x,
  vv = None \/ (vv = Some (vv_anchor :: t) /\ strictly_inc (vv_anchor :: t)) ->
  opt_vis_re vv is_auto (delivered true x) = Fin 0.
Proof. exact opt_vis_lost. Qed.
Print Assumptions C06_lost_vis_zero_under_van_vleck.
(* ... and the anchor is what makes it so: a strictly increasing table without it sends 0 to its first true-power entry *)
Theorem C06_van_vleck_without_anchor_refuted : exists table, strictly_inc table /\ vv_interp table (Fin 0) <> Fin 0.
Proof. exact vv_without_anchor_refuted. Qed.
Print Assumptions C06_van_vleck_without_anchor_refuted.

(* weights under stored_weights_are_scaled True / False, any autocorrelation powers (lost, zero, infinite, NaN): a lost
   weights or weights_channel chunk gives EXACTLY zero; a lost autocorrelation visibility under power scaling gives the
   documented substitute bad_weight * stored weight (never a large weight); everything else is computed from the same
   inputs as without the loss.  weight_class is the decision table the correspondence uses. *)
Theorem C06_lost_weights_under_options : forall divided l1 l2 wl a1 a2 sw,
  opt_weight divided (delivered l1 a1) (delivered l2 a2) (delivered wl sw) =
  match weight_class divided l1 l2 wl with
  | 0 => Fin 0
  | 1 => emul (Fin bad_weight) sw
  | _ => opt_weight divided a1 a2 sw
  end.
Proof. exact weight_class_correct. Qed.
Print Assumptions C06_lost_weights_under_options.
Example C06_options_examples :
  weight_class true true false false = 1 /\ weight_class true false false false = 2 /\
  weight_class true true true true = 0 /\ weight_class false true true false = 2 /\ vis_class true = 0 /\
  opt_weight true (Fin 0) (Fin (Q2Qc 3)) (Fin (Q2Qc 5)) = Fin (bad_weight * Q2Qc 5)%Qc /\
  gen_weights_divided true false = true /\ gen_weights_divided true true = false /\ gen_weights_divided false true = false.
Proof. exact ex_weight_classes. Qed.

(* --- a store that serves views of arrays it owns (DictChunkStore) --- *)
(* Trailing dumps missing from an array held by such a store: asked for the chunks of the aligned chunk list (the chunks
   that were written ++ one-dump phantom chunks) the store FINDS every written chunk and reports every phantom chunk as
   not found - never as a malformed chunk - so the getters of C06_absent_chunks_never_raise apply (finding C06-F2, fixed:
   NumPy slicing beyond the end silently gave an empty array and the load raised BadChunk). *)
Theorem C06_view_store_trailing_dumps_not_found : forall t k j rest_shape rest_sl,
  allpos t -> (j < List.length t + k)%nat -> dict_get_chunk rest_shape rest_sl = Found ->
  dict_get_chunk (zsum t :: rest_shape) (chunk_slice (t ++ repeat 1 k) j :: rest_sl) =
  if Nat.ltb j (List.length t) then Found else NotFound.
Proof. exact dict_store_dump_axis. Qed.
Print Assumptions C06_view_store_trailing_dumps_not_found.
Example C06_view_store_examples :
  dict_get_chunk [3; 4] [(2, 3); (0, 4)] = Found /\ dict_get_chunk [3; 4] [(3, 4); (0, 4)] = NotFound /\
  dict_get_chunk [3; 4] [(2, 4); (0, 4)] = Malformed /\ dict_get_chunk [3; 4] [(1, 1); (4, 4)] = Found /\
  chunk_slice ([2; 1] ++ repeat 1 2) 3 = (4, 5).
Proof. exact ex_dict_store. Qed.

(* =================================================================================================================== *)
(* round 3: dtypes of the delivered data, graph keys, chunk-name prefixes (Model/LostKeys.v) *)
From KV Require Import Model.LostKeys Proofs.LostKeysP.

(* --- "every other element equals what was stored": the dtype is part of it --- *)
(* Every block reaches dask's concatenation with the DECLARED dtype of its array - a stored chunk, a PlaceholderChunk
   whether or not the window cut it (PlaceholderChunk.__getitem__), the zero fill, the DATA_LOST default chunk - ... *)
Theorem C06_block_dtype_kept : forall a present sliced d, vfw_block_dt a present sliced d = DArr d.
Proof. exact block_dtype_kept. Qed.
Print Assumptions C06_block_dtype_kept.
(* ... so what is delivered (dask takes the dtype of the FIRST block and casts every other block into it) has the declared
   dtype and holds every value unchanged, for every non-empty list of blocks, lost or not, cut by the window or not. *)
Theorem C06_delivered_dtype_values : forall a d bs,
  bs <> [] -> Forall (fun b : blockspec => Forall (well_typed d) (snd b)) bs ->
  delivered a d bs = Some (d, map snd bs).
Proof. exact delivered_dtype_values. Qed.
Print Assumptions C06_delivered_dtype_values.
(* The dtype a sliced placeholder passes on is what makes it so (float64 instead: a selection whose first block is a lost
   chunk cut by the window is delivered as float64 and a healthy complex element loses its imaginary part; the same lost
   block in second place shows nothing) - and these serve as the non-vacuity examples. *)
Theorem C06_sliced_placeholder_dtype_refuted :
  delivered_with (fun _ => DT_F64) A_VIS DT_C64 [(false, true, [(0, 0)]); (true, false, [(5, 7)])]
    = Some (DT_F64, [[(0, 0)]; [(5, 0)]]) /\
  delivered_with (fun _ => DT_F64) A_VIS DT_C64 [(true, false, [(5, 7)]); (false, true, [(0, 0)])]
    = Some (DT_C64, [[(5, 7)]; [(0, 0)]]) /\
  delivered A_VIS DT_C64 [(false, true, [(0, 0)]); (true, false, [(5, 7)])]
    = Some (DT_C64, [[(0, 0)]; [(5, 7)]]).
Proof. exact sliced_placeholder_dtype_matters. Qed.
Print Assumptions C06_sliced_placeholder_dtype_refuted.
Example C06_weights_dtype : weights_dt DT_U8 DT_F32 = DT_F32 /\ (forall a b, promote a b = promote b a) /\ (forall d, promote d d = d).
Proof. exact (conj weights_dt_stored (conj promote_comm promote_idem)). Qed.

(* --- "flagged exactly where THEY were lost": which array a graph key belongs to --- *)
(* The name get_dask_array gives a dask array (fields and token arguments regenerated from the source) determines the
   array: with pairwise different array names, the key (name of array a, block J) resolves in the merged graph to block J
   of array a - also when other arrays have identical chunks, dtype, index and offset (the usual MeerKAT layout). *)
Theorem C06_graph_keys_resolve : forall arrs a r blocks J,
  NoDup (map (fun rb => array_id (fst rb)) arrs) ->
  nth_error arrs a = Some (r, blocks) -> In J blocks ->
  resolve arrs r J = Some (a, J).
Proof. exact graph_keys_resolve. Qed.
Print Assumptions C06_graph_keys_resolve.
(* Hence the flags computed by looking every source chunk up THROUGH the graph keys are the flags of the core model
   (C06_flags), for every configuration and any four requests with pairwise different array names. *)
Theorem C06_flags_through_graph_keys : forall c r0 r1 r2 r3 p,
  NoDup (map array_id [r0; r1; r2; r3]) ->
  model_flags_via_graph c [r0; r1; r2; r3] p = model_flags c p.
Proof. exact flags_through_graph_keys. Qed.
Print Assumptions C06_flags_through_graph_keys.
(* Named by offset and token only, two arrays with identical chunks and dtype share their keys: the key of a block of
   the first resolves to the second array (and with the generated fields to the first: the non-vacuity example). *)
Theorem C06_names_without_array_name_refuted :
  resolve_with (dask_name_with ["offset"%string; "token"%string] gen_token_args) [twin 1; twin 2] (fst (twin 1)) [0; 0]%nat
    = Some (1%nat, [0; 0]%nat) /\
  resolve [twin 1; twin 2] (fst (twin 1)) [0; 0]%nat = Some (0%nat, [0; 0]%nat).
Proof. exact names_without_array_name_refuted. Qed.
Print Assumptions C06_names_without_array_name_refuted.
Theorem C06_apply_data_lost_reads_only_its_keys : forall ph1 ph2 lost orig q,
  (forall e, In e lost -> ph1 (fst (fst e)) (snd (fst e)) = ph2 (fst (fst e)) (snd (fst e))) ->
  apply_data_lost ph1 orig lost q = apply_data_lost ph2 orig lost q.
Proof. intros; now apply apply_data_lost_ext. Qed.
Print Assumptions C06_apply_data_lost_reads_only_its_keys.

(* --- where the chunks are looked for: 'prefix' or (legacy layout) chunk_name of the stream's own telstate view --- *)
(* _ensure_prefix_is_set: an explicit prefix always stays, an entry without one gets chunk_name of the view given; it
   raises exactly when an entry has no prefix and the view has no chunk_name. *)
Theorem C06_ensure_prefix : forall ci cn,
  (forall r, ensure_prefix ci cn = Some r ->
             r = map (filled_prefix cn) ci /\ Forall (fun e => pe_prefix e <> None) r) /\
  (ensure_prefix ci cn = None <-> cn = None /\ exists e, In e ci /\ pe_prefix e = None).
Proof. intros; split; [intros r; apply ensure_prefix_some | apply ensure_prefix_none]. Qed.
Print Assumptions C06_ensure_prefix.
(* _upgrade_chunk_info, keyed: every key of the improved info carries the improved entry (its prefix included), every
   other key its original entry. *)
Theorem C06_upgrade_entries_find : forall imp ci r k,
  upgrade_entries ci imp = Some r ->
  pfind k r = match pfind k (rev imp) with Some e => Some e | None => pfind k ci end.
Proof. exact upgrade_entries_find. Qed.
Print Assumptions C06_upgrade_entries_find.
(* THE LEGACY LAYOUT: one attached flags stream s1 among any other archived streams, its chunk_info = a flags entry
   WITHOUT 'prefix', chunk_name p1 in its own <cbid>_<s1> namespace: the chunks of `flags` are looked for under p1
   whatever chunk_name / prefixes the L0 stream has, every other array where the L0 chunk_info says. *)
Theorem C06_legacy_flags_stream_prefix : forall ts l0 pre s1 post ci0 ci0' inf p1,
  let view0 := view_capture_stream root_view l0 in
  vget (t_chunk_info ts) view0 = Some ci0 ->
  ensure_prefix ci0 (vget (t_chunk_name ts) view0) = Some ci0' ->
  t_archived ts = Some (pre ++ s1 :: post) ->
  Forall (fun s => qualifies ts view0 l0 s = Some false) pre ->
  Forall (fun s => qualifies ts view0 l0 s = Some false) post ->
  qualifies ts view0 l0 s1 = Some true ->
  vget (t_chunk_info ts) (view_capture_stream view0 s1) = Some [(FLAGS_KEY, None, inf)] ->
  t_chunk_name ts (0, s1) = Some p1 ->
  (forall o, pfind FLAGS_KEY ci0' = Some o ->
             skipn gen_upgrade_compares_shape_from (i_shape inf) =
             skipn gen_upgrade_compares_shape_from (i_shape (pe_info o))) ->
  exists r, source_entries ts l0 true = Some r /\
            pfind FLAGS_KEY r = Some (FLAGS_KEY, Some p1, inf) /\
            forall k, k <> FLAGS_KEY -> pfind k r = pfind k ci0'.
Proof. exact legacy_flags_stream_prefix. Qed.
Print Assumptions C06_legacy_flags_stream_prefix.
Example C06_legacy_example :
  source_entries ex_ts 0 true = Some [(0, Some 10, ex_info 6); (1, Some 11, ex_info 8); (2, Some 12, ex_info 6)] /\
  source_entries ex_ts 0 false = Some [(0, Some 10, ex_info 6); (1, Some 10, ex_info 6); (2, Some 12, ex_info 6)].
Proof. exact legacy_example. Qed.
Theorem C06_round3_translated_source :
  gen_out_name_fields = ["array_name"%string; "offset"%string; "token"%string] /\
  gen_token_args = ["self"%string; "chunks"%string; "dtype"%string; "index"%string] /\
  gen_flags_prefix_from_stream_view = true /\
  gen_view_order = ["capture_stream"%string; "capture_block"%string; "stream"%string] /\
  (forall d, gen_placeholder_slice_dtype d = d /\ gen_placeholder_ctor_dtype d = d /\
             gen_default_zero_dtype d = d /\ gen_default_chunk_dtype d = d).
Proof. repeat split; reflexivity. Qed.
Print Assumptions C06_round3_translated_source.
