(* C06 — Lost data become zeros flagged data_lost, exactly where they were lost.  Only statements here.

   Model (Model/Prune.v, Model/LostMap.v): chunkstore._prune_chunks + the unit-step slicing of get_dask_array,
   dask's intersect_chunks, the lost map / _apply_data_lost / _default_zero / weights * weights_channel of
   ChunkStoreVisFlagsWeights, datasources._align_chunk_info.  cfg_ok c p (Proofs/C06P.v) says: every array is
   chunked into positive chunks (any chunking, independently per array), the arrays agree on the length of each
   axis they have (weights_channel may have fewer axes), each axis carries no window or a normalised non-empty
   window lo < hi, and p is an element of the preselected window.  c_miss (which chunks are absent) and c_dat
   (what was stored) are arbitrary. *)
From Coq Require Import ZArith List Bool.
From KV Require Import Gen.Generated Base.Sx Model.Prune Model.LostMap Proofs.PruneP Proofs.LostMapP Proofs.LostMapNdP Proofs.C06P.
Import ListNotations.
Open Scope Z_scope.

(* DATA_LOST as translated from katdal/flags.py is bit 3. *)
Theorem C06_data_lost_is_bit3 : DATA_LOST = 8.
Proof. exact data_lost_is_bit3. Qed.
Print Assumptions C06_data_lost_is_bit3.

(* intersect_chunks on one axis, any two chunkings of the same length into positive chunks: one list of pieces per
   new chunk; every piece is a non-empty slice of an existing old chunk; element x, seen as (old chunk, local
   position), is inside a piece listed under new chunk j exactly when j is the new chunk containing x. *)
Theorem C06_intersect_1d_tiles : forall old new, allpos old -> allpos new -> zsum old = zsum new ->
  length (intersect_1d old new) = length new /\
  (forall j pc, In pc (nth j (intersect_1d old new) []) -> piece_ok old pc) /\
  (forall x, 0 <= x < zsum old -> forall j,
     cov1 (nth j (intersect_1d old new) []) (loc old 0 x) = Nat.eqb j (fst (loc new 0 x))).
Proof. exact intersect_1d_tiles. Qed.
Print Assumptions C06_intersect_1d_tiles.

(* ... and the pieces PARTITION the old chunks: every element lies in exactly one piece, listed under the new chunk
   that contains the element (no piece is listed twice, none is missing). *)
Theorem C06_intersect_1d_partition : forall old new x,
  allpos old -> allpos new -> zsum old = zsum new -> 0 <= x < zsum old ->
  forall j, length (filter (fun pc => covers pc (loc old 0 x)) (nth j (intersect_1d old new) [])) =
            if Nat.eqb j (fst (loc new 0 x)) then 1%nat else 0%nat.
Proof. exact intersect_1d_partition. Qed.
Print Assumptions C06_intersect_1d_partition.

(* vis and weights: zero exactly on the elements covered by their own absent chunks, otherwise the stored value
   (weights: stored weights * stored weights_channel). *)
Theorem C06_vis_weights : forall c p, cfg_ok c p ->
  model_vis c p = (if lost_in c A_VIS p then 0 else stored c A_VIS p) /\
  model_weights c p = (if lost_in c A_W p || lost_in c A_WC p then 0 else stored c A_W p * stored c A_WC p).
Proof. intros c p H. split; [exact (vis_model_is_spec c p H)|exact (weights_model_is_spec c p H)]. Qed.
Print Assumptions C06_vis_weights.

(* flags: stored flags (DATA_LOST where the flags chunk itself is absent) OR DATA_LOST where a chunk of any other
   array covering the element is absent. *)
Theorem C06_flags : forall c p, cfg_ok c p ->
  model_flags c p =
  Z.lor (if lost_in c A_FLAGS p then DATA_LOST else stored c A_FLAGS p)
        (if lost_in c A_VIS p || lost_in c A_W p || lost_in c A_WC p then DATA_LOST else 0).
Proof. exact flags_model_is_spec. Qed.
Print Assumptions C06_flags.

(* bit 3 is set exactly where something was lost (or the stored flag had it); every other bit is the stored bit
   (0 where the flags chunk is absent). *)
Theorem C06_other_bits_untouched : forall c p, cfg_ok c p ->
  Z.testbit (model_flags c p) 3 = any_lost c p || (negb (lost_in c A_FLAGS p) && Z.testbit (stored c A_FLAGS p) 3) /\
  forall i, 0 <= i -> i <> 3 ->
    Z.testbit (model_flags c p) i = negb (lost_in c A_FLAGS p) && Z.testbit (stored c A_FLAGS p) i.
Proof. exact flag_bits. Qed.
Print Assumptions C06_other_bits_untouched.

(* dumps beyond those written for an array (shorter array, shorter flags stream): after _align_chunk_info the
   covering chunk is a phantom one-dump chunk that the store reports absent, so the theorems above apply with
   lost_in = true there. *)
Theorem C06_phantom_dumps_lost : forall orig lost a t rest g0 g',
  nth a orig [] = t :: rest -> allpos t -> zsum t <= g0 < max_dumps orig ->
  store_missing orig lost a (chunk_id (nth a (align orig) []) (g0 :: g')) = true.
Proof. exact phantom_lost. Qed.
Print Assumptions C06_phantom_dumps_lost.

(* _prune_chunks, any chunk list, any slice: the kept chunks are a contiguous run of the original chunks and the
   offset is where that run starts. *)
Theorem C06_prune_keeps_boundaries : forall cs start stop,
  let '(cs2, _, _, off) := prune_core cs start stop in
  exists pre post, cs = pre ++ cs2 ++ post /\ off = zsum pre.
Proof. exact prune_keeps_boundaries. Qed.
Print Assumptions C06_prune_keeps_boundaries.

(* at least one existing chunk is always kept, whatever the slice (also an empty one): no zero-size chunk is ever
   requested from the store at the offset of a real chunk (finding C06-F1, fixed). *)
Theorem C06_prune_keeps_one : forall cs start stop, cs <> [] ->
  let '(cs2, _, _, _) := prune_core cs start stop in cs2 <> [].
Proof. exact prune_keeps_one. Qed.
Print Assumptions C06_prune_keeps_one.

(* ... the adjusted slice lies inside the pruned array and addresses the same stored elements. *)
Theorem C06_prune_selects_same_data : forall cs start stop,
  0 <= start -> start <= stop -> stop <= zsum cs ->
  let '(cs2, start1, stop1, off) := prune_core cs start stop in
  off + start1 = start /\ off + stop1 = stop /\ 0 <= start1 /\ start1 <= stop1 /\ stop1 <= zsum cs2.
Proof. exact prune_selects_same_data. Qed.
Print Assumptions C06_prune_selects_same_data.

(* ... and, for a non-empty slice, no kept chunk could be dropped: first and last kept chunk contain selected elements. *)
Theorem C06_prune_minimal : forall cs start stop,
  0 <= start -> start < stop -> stop <= zsum cs ->
  let '(cs2, start1, stop1, _) := prune_core cs start stop in
  cs2 <> [] /\ start1 < hd 0 cs2 /\ zsum cs2 - last cs2 0 < stop1.
Proof. exact prune_minimal. Qed.
Print Assumptions C06_prune_minimal.

(* prune + slice address, for every element of the window, exactly the stored chunk that covers it and the stored element *)
Theorem C06_axis_addresses_right_chunk : forall cs w x, allpos cs -> win_ok cs w -> 0 <= x < wsize cs w ->
  ax_id (mk_axis cs w) (fst (loc (ax_sizes (mk_axis cs w)) 0 x)) = chunk_start cs (wlo w + x) /\
  ax_src (mk_axis cs w) (loc (ax_sizes (mk_axis cs w)) 0 x) = wlo w + x.
Proof. exact axis_spec. Qed.
Print Assumptions C06_axis_addresses_right_chunk.

(* the hypotheses are satisfiable and the statements are not vacuous: a 3x4x2 store with four different chunkings,
   dumps 1..2 preselected, one vis chunk and one weights_channel chunk absent. *)
Theorem C06_cfg_ok_satisfiable : cfg_ok ex_cfg [1; 2; 1] /\
  model_flags ex_cfg [1; 2; 1] = Z.lor (stored ex_cfg A_FLAGS [1; 2; 1]) 8 /\ model_vis ex_cfg [1; 2; 1] = 0 /\
  model_flags ex_cfg [0; 2; 1] = stored ex_cfg A_FLAGS [0; 2; 1] /\ model_vis ex_cfg [0; 2; 1] <> 0.
Proof. exact (conj ex_cfg_ok ex_cfg_values). Qed.
Print Assumptions C06_cfg_ok_satisfiable.

(* The model's loop conditions of _prune_chunks, the fill values and the OR-ed mask are those found in the current
   source by the translator (katdal/chunkstore.py, katdal/vis_flags_weights.py; fail-closed on any other shape). *)
Theorem C06_model_matches_translated_source :
  (forall c start, gen_prune_front_drop c start = (c <=? start)) /\
  (forall c shape stop, gen_prune_back_drop c shape stop = (c <=? shape - stop)) /\
  gen_flags_missing_fill = DATA_LOST /\ gen_default_fill = 0 /\ gen_lost_or_mask = DATA_LOST /\
  gen_intersect_old_is_flags = true /\ gen_prune_front_keeps_last = true /\ gen_prune_back_keeps_last = true.
Proof. exact generated_agree. Qed.
Print Assumptions C06_model_matches_translated_source.
