(* C16 — Flags: bit meanings, selection by name and derivation.  Only statements here. *)
From Coq Require Import ZArith List Bool String.
From KV Require Import Base.Sx Base.Str Gen.Generated Model.Flags Proofs.FlagsP Model.FlagsV4 Proofs.FlagsV4P.
From KV Require Model.Select Proofs.SelectP Props.C02.
From KV Require Model.FlagsSel Proofs.FlagsSelP.
Import ListNotations.
Open Scope Z_scope.

(* The names in /repo's flags.NAMES are the documented ones, in the documented order. *)
Theorem C16_names_are_documented : flag_names = doc_names.
Proof. exact names_are_documented. Qed.
Print Assumptions C16_names_are_documented.

(* X_BIT = index of "x" in NAMES and X = 2^X_BIT for the seven named constants. *)
Theorem C16_NAMES_BITS_consistent :
  forallb (fun p => match index_of (fst p) flag_names with
                    | Some i => Z.eqb (Z.of_nat i) (snd p) | None => false end) flag_bits = true
  /\ forallb (fun p => match index_of (fst p) flag_names with
                    | Some i => Z.eqb (2 ^ Z.of_nat i) (snd p) | None => false end) flag_masks = true
  /\ List.length flag_bits = 7%nat /\ List.length flag_masks = 7%nat.
Proof. exact bits_consistent. Qed.
Print Assumptions C16_NAMES_BITS_consistent.

(* v3/v4: for EVERY selection argument (any string or list of names, any length) the mask computed by
   the setter has exactly the bits of the selected documented names, bit i = i-th name. *)
Theorem C16_mask_v34_bits : forall a : selarg,
  flagmask_v34 flag_names a =
  fold_right Z.add 0 (map (fun i => if mem_string (nth i doc_names ""%string) (selection_to_list a doc_names)
                                    then 2 ^ Z.of_nat i else 0) (seq 0 8)).
Proof. intro a. rewrite mask_v34_bits. exact (spec_mask_v34_sum _). Qed.
Print Assumptions C16_mask_v34_bits.

(* v2: reverse bit order. *)
Theorem C16_mask_v2_bits : forall a : selarg,
  flagmask_v2 flag_names a =
  fold_right Z.add 0 (map (fun i => if mem_string (nth i doc_names ""%string) (selection_to_list a doc_names)
                                    then 2 ^ (7 - Z.of_nat i) else 0) (seq 0 8)).
Proof. intro a. rewrite mask_v2_bits. exact (spec_mask_v2_sum _). Qed.
Print Assumptions C16_mask_v2_bits.

Theorem C16_all_is_255 : flagmask_v34 flag_names (SelStr "all") = 255 /\ flagmask_v2 flag_names (SelStr "all") = 255.
Proof. exact all_is_255. Qed.
Print Assumptions C16_all_is_255.

Theorem C16_empty_is_0 : flagmask_v34 flag_names (SelStr "") = 0 /\ flagmask_v34 flag_names (SelList []) = 0
  /\ flagmask_v2 flag_names (SelStr "") = 0 /\ flagmask_v2 flag_names (SelList []) = 0.
Proof. exact empty_is_0. Qed.
Print Assumptions C16_empty_is_0.

Theorem C16_unknown_ignored : forall n l, ~ In n doc_names ->
  flagmask_v34 flag_names (SelList (n :: l)) = flagmask_v34 flag_names (SelList l) /\
  flagmask_v2 flag_names (SelList (n :: l)) = flagmask_v2 flag_names (SelList l).
Proof. exact unknown_ignored. Qed.
Print Assumptions C16_unknown_ignored.

(* ... with a warning: the setter warns about exactly the requested names that are not documented flag names
   (one warning per occurrence), and about nothing when every requested name is documented. *)
Theorem C16_unknown_warned : forall a n,
  In n (unknown_names flag_names a) <-> In n (selection_to_list a doc_names) /\ ~ In n doc_names.
Proof. exact unknown_warned. Qed.
Print Assumptions C16_unknown_warned.

Theorem C16_no_warning_iff_all_documented : forall a,
  unknown_names flag_names a = [] <-> forall n, In n (selection_to_list a doc_names) -> In n doc_names.
Proof. exact no_warning_iff. Qed.
Print Assumptions C16_no_warning_iff_all_documented.

(* boolean flag = (raw AND mask) non-zero = some selected bit is set in the raw byte; all 256 x 256 bytes. *)
Theorem C16_flags_bool_spec : forall raw mask, 0 <= raw < 256 -> 0 <= mask < 256 ->
  flag_bool raw mask = existsb (fun i => Z.testbit raw i && Z.testbit mask i) [0;1;2;3;4;5;6;7].
Proof. exact flag_bool_spec. Qed.
Print Assumptions C16_flags_bool_spec.

(* v4 raw flags: stored byte with data_lost (bit 3) / postproc (bit 7) added; every other bit is the stored bit. *)
Theorem C16_raw_flags_v4 : forall stored lost cal,
  raw_flags_v4 stored lost cal = Z.lor (Z.lor stored (if lost then 8 else 0)) (if cal then 128 else 0)
  /\ forall i, 0 <= i -> i <> 3 -> i <> 7 -> Z.testbit (raw_flags_v4 stored lost cal) i = Z.testbit stored i.
Proof.
  intros s l c. split; [exact (raw_flags_v4_spec s l c)|].
  intros i. rewrite raw_flags_v4_spec. exact (raw_flags_v4_other_bits s l c i).
Qed.
Print Assumptions C16_raw_flags_v4.

(* Changing the flag or weight selection never changes the time, frequency and product selection: a select()
   call that carries only flags= / weights= leaves the three masks of EVERY reachable selection state alone
   (re-export of C02's theorem about the model of DataSet.select; visibilities and raw flags are functions of
   the masks and the stored arrays only, cf. C01). *)
Theorem C16_flag_select_changes_nothing_else : forall o s kw,
  KV.Proofs.SelectP.reachable o s -> NoDup (KV.Model.Select.keys kw) -> kw <> [] ->
  (forall k, In k (KV.Model.Select.keys kw) -> k = "flags"%string \/ k = "weights"%string) ->
  exists s', KV.Model.Select.select o s kw = KV.Model.Select.Ok s'
             /\ KV.Model.Select.masks_of s' = KV.Model.Select.masks_of s.
Proof.
  intros o s kw Hr Nk Hne Hk.
  destruct (proj1 (KV.Props.C02.C02_flags_weights_never_change_masks o s kw Hr Nk) Hne Hk) as (s' & A & B & _).
  exists s'. split; assumption.
Qed.
Print Assumptions C16_flag_select_changes_nothing_else.

(* ======== v4 data sets: what d.raw_flags / d.flags / d.vis / d.weights show after ANY history of select() calls ======== *)

(* The structure of VisibilityDataV4._set_keep / __init__ as regenerated from /repo at this run: vis, weights and
   raw_flags are indexers on the corrected arrays and the first-stage index only (in particular NOT on the flag
   selection), flags = raw_flags + [bitwise_and, view_as_bool]; the constants OR-ed in for lost chunks / invalid
   calibration are flags.DATA_LOST (= 8) and flags.POSTPROC (= 128). *)
Theorem C16_v4_indexer_sources :
  v4_indexer_src = [("vis", "_corrected.vis"); ("weights", "_corrected.weights");
                    ("raw_flags", "_corrected.flags"); ("flags", "_raw_flags")]%string
  /\ v4_corrected_src = [("vis", ("apply_vis_correction", "source.data.vis"));
                         ("flags", ("apply_flags_correction", "source.data.flags"));
                         ("weights", ("apply_weights_correction", "source.data.weights"))]%string
  /\ v4_flag_transforms = ["bitwise_and"; "view_as_bool"]%string
  /\ v4_and_skipped_iff_all_ones = true.
Proof. exact indexer_sources. Qed.
Print Assumptions C16_v4_indexer_sources.

Theorem C16_v4_flag_constants :
  v4_lost_flag_name = "data_lost"%string /\ v4_lost_fill_name = "data_lost"%string
  /\ v4_cal_flag_name = "postproc"%string
  /\ lookup_mask v4_lost_flag_name = 8 /\ lookup_mask v4_lost_fill_name = 8 /\ lookup_mask v4_cal_flag_name = 128.
Proof. exact flag_const_names. Qed.
Print Assumptions C16_v4_flag_constants.

(* The mask in force after any history of select() calls is the one of the LAST flags= argument (all names when
   there was none), i.e. exactly the bits of the names currently selected. *)
Theorem C16_history_mask : forall h : list (option selarg),
  hist_mask flag_names h = spec_mask_v34 (spec_wanted (last_sel h (SelStr "all")))
  /\ 0 <= hist_mask flag_names h < 256.
Proof. exact history_mask. Qed.
Print Assumptions C16_history_mask.

Theorem C16_history_mask_last : forall h a h',
  (forall st, In st h' -> st = None) ->
  hist_mask flag_names (h ++ Some a :: h') = flagmask_v34 flag_names a.
Proof. exact (hist_mask_app_some flag_names). Qed.
Print Assumptions C16_history_mask_last.

Theorem C16_history_mask_default : forall h,
  (forall st, In st h -> st = None) -> hist_mask flag_names h = 255.
Proof. exact history_mask_default. Qed.
Print Assumptions C16_history_mask_default.

(* v4 raw flags REGARDLESS of the selection history: stored byte (nothing where the flags chunk itself is lost)
   | data_lost where any chunk of the sample is lost | postproc where the calibration correction is invalid. *)
Theorem C16_v4_raw_flags_regardless_of_selection : forall (h : list (option selarg)) (s : v4s),
  o_raw (v4_observe flag_names h s)
  = Z.lor (Z.lor (if s_lostf s then 0 else s_stored s) (if lost_any s then 8 else 0))
          (if cal_invalid s then 128 else 0)
  /\ (lost_any s = true -> Z.testbit (o_raw (v4_observe flag_names h s)) 3 = true)
  /\ (cal_invalid s = true -> Z.testbit (o_raw (v4_observe flag_names h s)) 7 = true)
  /\ (lost_any s = false -> Z.testbit (o_raw (v4_observe flag_names h s)) 3 = Z.testbit (s_stored s) 3)
  /\ (s_lostf s = false -> cal_invalid s = false ->
      Z.testbit (o_raw (v4_observe flag_names h s)) 7 = Z.testbit (s_stored s) 7)
  /\ (s_lostf s = false -> forall i, 0 <= i -> i <> 3 -> i <> 7 ->
      Z.testbit (o_raw (v4_observe flag_names h s)) i = Z.testbit (s_stored s) i).
Proof. exact v4_raw_regardless. Qed.
Print Assumptions C16_v4_raw_flags_regardless_of_selection.

(* v4 boolean flags after any history = some bit of the (derived) raw byte is among the currently selected names. *)
Theorem C16_v4_flags_after_history : forall (h : list (option selarg)) (s : v4s), 0 <= s_stored s < 256 ->
  o_flag (v4_observe flag_names h s)
  = existsb (fun i => Z.testbit (spec_v4_raw s) i && Z.testbit (spec_hist_mask h) i) [0;1;2;3;4;5;6;7].
Proof. exact v4_flag_spec. Qed.
Print Assumptions C16_v4_flags_after_history.

(* the code's short cut (no bitwise_and when the mask is all ones) is the same function on bytes *)
Theorem C16_v4_flag_transform : forall raw mask, 0 <= raw < 256 -> 0 <= mask < 256 ->
  v4_flag raw mask = flag_bool raw mask.
Proof. exact v4_flag_is_flag_bool. Qed.
Print Assumptions C16_v4_flag_transform.

(* Two histories give the same raw flags, visibilities and weights for every sample; the boolean flags differ at
   most through the last flags= argument. *)
Theorem C16_history_only_moves_boolean_flags : forall h h' s,
  o_raw (v4_observe flag_names h s) = o_raw (v4_observe flag_names h' s) /\
  o_vis (v4_observe flag_names h s) = o_vis (v4_observe flag_names h' s) /\
  o_weight (v4_observe flag_names h s) = o_weight (v4_observe flag_names h' s) /\
  (last_sel h (SelStr "all") = last_sel h' (SelStr "all") ->
   o_flag (v4_observe flag_names h s) = o_flag (v4_observe flag_names h' s)).
Proof. exact history_only_moves_boolean_flags. Qed.
Print Assumptions C16_history_only_moves_boolean_flags.

(* ======== selection plumbing: from select(flags=..., weights=...) to the masks of a data set and of the members of
   a concatenated data set (Model/FlagsSel.v) ======== *)

(* What the translator read from dataset.py (DataSet.__init__, select, _set_keep), concatdata.py
   (ConcatenatedDataSet._set_keep, flags / weights / vis, end of __init__), the _flags_keep / _weights_keep properties
   of the three formats and the HDF5 flag transform, at this run. *)
Theorem C16_selection_plumbing_sources :
  ds_set_keep_guards = [("weights", "is_not_none"); ("flags", "is_not_none")]%string
  /\ ds_init_keeps = [("_weights_keep", "all"); ("_flags_keep", "all")]%string
  /\ ds_select_keeps = [("weights", "_weights_keep"); ("flags", "_flags_keep")]%string
  /\ ds_select_final_set_keep = ["_time_keep"; "_freq_keep"; "_corrprod_keep"; "_weights_keep"; "_flags_keep"]%string
  /\ concat_super_set_keep_args = ["time_keep"; "freq_keep"; "corrprod_keep"; "weights_keep"; "flags_keep"]%string
  /\ concat_member_keep_args = [("weights_keep", "self._weights_keep"); ("flags_keep", "self._flags_keep")]%string
  /\ set_keep_overridden_by = ["VisibilityDataV4"]%string
  /\ concat_data_from_members = ["vis"; "weights"; "flags"]%string
  /\ concat_init_ends_with_select = true
  /\ flag_setter_flip = [("v4", (true, true)); ("v3", (true, true)); ("v2", (false, false))]%string
  /\ ds_weight_names = [("v3", ["precision"]); ("v2", ["precision"])]%string
  /\ h5_flag_transform = [("v3", "bool(and(mask,stored))"); ("v2", "bool(and(mask,stored))")]%string.
Proof. exact KV.Proofs.FlagsSelP.plumbing_sources. Qed.
Print Assumptions C16_selection_plumbing_sources.

(* The setter of each format (flip as regenerated) computes exactly the bits of the selected documented names in
   the bit order of the format. *)
Theorem C16_setter_of_each_format : forall f a,
  KV.Model.FlagsSel.mk_mask flag_names f a
  = match f with
    | KV.Model.FlagsSel.FV2 => spec_mask_v2 (spec_wanted a)
    | _ => spec_mask_v34 (spec_wanted a)
    end.
Proof. exact KV.Proofs.FlagsSelP.mk_mask_spec. Qed.
Print Assumptions C16_setter_of_each_format.

(* The getter (which select() reads back before calling _set_keep) returns exactly the documented names whose bit is
   set, and getter followed by setter is the identity on bytes (256 x 3 sweep lifted by forallb_forall). *)
Theorem C16_getter_setter_roundtrip : forall f m, 0 <= m < 256 ->
  KV.Model.FlagsSel.mk_mask flag_names f (SelList (KV.Model.FlagsSel.keep_names flag_names f m)) = m
  /\ forall i, (i < 8)%nat ->
       mem_string (nth i doc_names ""%string) (KV.Model.FlagsSel.keep_names flag_names f m)
       = Z.testbit m (match f with KV.Model.FlagsSel.FV2 => 7 - Z.of_nat i | _ => Z.of_nat i end).
Proof. exact KV.Proofs.FlagsSelP.getter_setter_roundtrip. Qed.
Print Assumptions C16_getter_setter_roundtrip.

(* ONE data set of any format, the faithful model of select() (self._selection, setter, getter, guarded setter):
   after ANY history of calls the mask is the one of the last flags= argument ('all' by default) in the bit order of
   the format, the weight selection the one of the last weights= argument. *)
Theorem C16_dataset_mask_after_history : forall f (h : list KV.Model.FlagsSel.kwpair),
  let d := KV.Model.FlagsSel.pds_run KV.Model.FlagsSel.cur_plumbing flag_names (KV.Model.FlagsSel.pds_init flag_names f) h in
  KV.Model.FlagsSel.p_fmt d = f
  /\ KV.Model.FlagsSel.p_mask d = KV.Model.FlagsSel.spec_fmt_mask f (last_sel (map fst h) (SelStr "all"))
  /\ KV.Model.FlagsSel.p_wts d = KV.Model.FlagsSel.mk_wts f (last_sel (map snd h) (SelStr "all"))
  /\ 0 <= KV.Model.FlagsSel.p_mask d < 256.
Proof. exact KV.Proofs.FlagsSelP.pds_history. Qed.
Print Assumptions C16_dataset_mask_after_history.

(* ... and for v4 it is the mask the per-sample theorems above (the C16_v4_ ones) are stated with. *)
Theorem C16_dataset_v4_refines_history_mask : forall h : list KV.Model.FlagsSel.kwpair,
  KV.Model.FlagsSel.p_mask (KV.Model.FlagsSel.pds_run KV.Model.FlagsSel.cur_plumbing flag_names
                              (KV.Model.FlagsSel.pds_init flag_names KV.Model.FlagsSel.FV4) h)
  = hist_mask flag_names (map fst h).
Proof. exact KV.Proofs.FlagsSelP.pds_v4_is_hist_mask. Qed.
Print Assumptions C16_dataset_v4_refines_history_mask.

(* A concatenated data set built from members in ANY state (whatever they had selected on their own), after ANY
   history of select() calls on the whole and directly on members whose last call went to the whole: the formats of
   the members are what they were, and EVERY member's mask is the mask -- in the member's own bit order -- of the
   last flags= argument given to the whole ('all' if none; an empty selection gives 0), its weight selection the
   one of the last weights= argument. *)
Theorem C16_concat_members_follow_the_whole : forall (members : list KV.Model.FlagsSel.pds) (h : list KV.Model.FlagsSel.step),
  KV.Model.FlagsSel.ends_whole h = true ->
  let c := KV.Model.FlagsSel.cds_run KV.Model.FlagsSel.cur_plumbing flag_names
             (KV.Model.FlagsSel.cds_open KV.Model.FlagsSel.cur_plumbing flag_names members) h in
  map KV.Model.FlagsSel.p_fmt (KV.Model.FlagsSel.c_members c) = map KV.Model.FlagsSel.p_fmt members
  /\ forall d, In d (KV.Model.FlagsSel.c_members c) ->
       KV.Model.FlagsSel.p_mask d
       = KV.Model.FlagsSel.spec_fmt_mask (KV.Model.FlagsSel.p_fmt d) (KV.Model.FlagsSel.last_whole_f h (SelStr "all"))
       /\ KV.Model.FlagsSel.p_wts d
          = KV.Model.FlagsSel.mk_wts (KV.Model.FlagsSel.p_fmt d) (KV.Model.FlagsSel.last_whole_w h (SelStr "all"))
       /\ 0 <= KV.Model.FlagsSel.p_mask d < 256.
Proof. exact KV.Proofs.FlagsSelP.concat_history. Qed.
Print Assumptions C16_concat_members_follow_the_whole.

(* Just concatenated: all flags (and the weights) are selected, whatever the members had selected before. *)
Theorem C16_concat_default_is_all : forall members d,
  In d (KV.Model.FlagsSel.c_members (KV.Model.FlagsSel.cds_open KV.Model.FlagsSel.cur_plumbing flag_names members)) ->
  KV.Model.FlagsSel.p_mask d = 255
  /\ (KV.Model.FlagsSel.p_fmt d <> KV.Model.FlagsSel.FV4 -> KV.Model.FlagsSel.p_wts d = [0%nat]).
Proof. exact KV.Proofs.FlagsSelP.concat_open_resets. Qed.
Print Assumptions C16_concat_default_is_all.

(* The boolean flag every sample of every member shows through the glued flags indexer: some bit of its raw byte is
   among the names currently selected on the whole. *)
Theorem C16_concat_flags_after_history : forall members h d raw,
  KV.Model.FlagsSel.ends_whole h = true -> 0 <= raw < 256 ->
  In d (KV.Model.FlagsSel.c_members (KV.Model.FlagsSel.cds_run KV.Model.FlagsSel.cur_plumbing flag_names
          (KV.Model.FlagsSel.cds_open KV.Model.FlagsSel.cur_plumbing flag_names members) h)) ->
  KV.Model.FlagsSel.member_flag d raw
  = existsb (fun i => Z.testbit raw i
                      && Z.testbit (KV.Model.FlagsSel.spec_fmt_mask (KV.Model.FlagsSel.p_fmt d)
                                      (KV.Model.FlagsSel.last_whole_f h (SelStr "all"))) i)
            [0;1;2;3;4;5;6;7].
Proof. exact KV.Proofs.FlagsSelP.concat_flags_after_history. Qed.
Print Assumptions C16_concat_flags_after_history.

(* A v4 member (possibly opened with applycal, possibly with lost chunks): its samples show the DERIVED raw byte
   (stored | data_lost | postproc, cf. C16_v4_raw_flags_regardless_of_selection) against the names selected on the whole. *)
Theorem C16_concat_v4_member_sample : forall members h d (s : v4s),
  KV.Model.FlagsSel.ends_whole h = true -> KV.Model.FlagsSel.p_fmt d = KV.Model.FlagsSel.FV4 -> 0 <= s_stored s < 256 ->
  In d (KV.Model.FlagsSel.c_members (KV.Model.FlagsSel.cds_run KV.Model.FlagsSel.cur_plumbing flag_names
          (KV.Model.FlagsSel.cds_open KV.Model.FlagsSel.cur_plumbing flag_names members) h)) ->
  KV.Model.FlagsSel.member_flag d (v4_raw s)
  = existsb (fun i => Z.testbit (spec_v4_raw s) i
                      && Z.testbit (spec_mask_v34 (spec_wanted (KV.Model.FlagsSel.last_whole_f h (SelStr "all")))) i)
            [0;1;2;3;4;5;6;7].
Proof. exact KV.Proofs.FlagsSelP.concat_v4_member_sample. Qed.
Print Assumptions C16_concat_v4_member_sample.

(* HDF5 members: the weights are the stored ones iff a documented weight name is selected on the whole, else 1. *)
Theorem C16_concat_weights_after_history : forall members h d w,
  KV.Model.FlagsSel.ends_whole h = true -> KV.Model.FlagsSel.p_fmt d <> KV.Model.FlagsSel.FV4 ->
  In d (KV.Model.FlagsSel.c_members (KV.Model.FlagsSel.cds_run KV.Model.FlagsSel.cur_plumbing flag_names
          (KV.Model.FlagsSel.cds_open KV.Model.FlagsSel.cur_plumbing flag_names members) h)) ->
  KV.Model.FlagsSel.member_weight d w
  = if KV.Model.FlagsSel.spec_weights_on (KV.Model.FlagsSel.last_whole_w h (SelStr "all")) then w else (1, 0).
Proof. exact KV.Proofs.FlagsSelP.concat_weights_after_history. Qed.
Print Assumptions C16_concat_weights_after_history.

(* A call made directly on one member moves that member only. *)
Theorem C16_concat_member_call_is_local : forall c n kf kw i, i <> n ->
  nth_error (KV.Model.FlagsSel.c_members
               (KV.Model.FlagsSel.cds_step KV.Model.FlagsSel.cur_plumbing flag_names c (KV.Model.FlagsSel.Member n kf kw))) i
  = nth_error (KV.Model.FlagsSel.c_members c) i.
Proof. exact KV.Proofs.FlagsSelP.member_step_local. Qed.
Print Assumptions C16_concat_member_call_is_local.

(* Whether DataSet._set_keep tests `is not None` or the truth value makes no difference for a data set that is
   selected directly (select() has been through the setter already and hands on what the getter returns) ... *)
Theorem C16_guard_invisible_on_one_dataset : forall pl f (h : list KV.Model.FlagsSel.kwpair),
  KV.Proofs.FlagsSelP.good_guard (KV.Model.FlagsSel.g_flags pl) ->
  KV.Proofs.FlagsSelP.good_guard (KV.Model.FlagsSel.g_weights pl) ->
  let d := KV.Model.FlagsSel.pds_run pl flag_names (KV.Model.FlagsSel.pds_init flag_names f) h in
  let d' := KV.Model.FlagsSel.pds_run KV.Model.FlagsSel.cur_plumbing flag_names (KV.Model.FlagsSel.pds_init flag_names f) h in
  KV.Model.FlagsSel.p_mask d = KV.Model.FlagsSel.p_mask d' /\ KV.Model.FlagsSel.p_wts d = KV.Model.FlagsSel.p_wts d'.
Proof. exact KV.Proofs.FlagsSelP.pds_guard_irrelevant. Qed.
Print Assumptions C16_guard_invisible_on_one_dataset.

(* ... but it is what carries an EMPTY selection to the members of a concatenated data set: the same steps with a
   truthiness test leave the members on the previous selection. *)
Theorem C16_truthy_guard_would_break_concat_example :
  let ms := [KV.Model.FlagsSel.pds_init flag_names KV.Model.FlagsSel.FV4;
             KV.Model.FlagsSel.pds_init flag_names KV.Model.FlagsSel.FV3;
             KV.Model.FlagsSel.pds_init flag_names KV.Model.FlagsSel.FV2] in
  let h := [KV.Model.FlagsSel.Whole (Some (SelStr "cam")) None;
            KV.Model.FlagsSel.Whole (Some (SelList [])) (Some (SelStr ""))] in
  map KV.Model.FlagsSel.p_mask (KV.Model.FlagsSel.c_members
        (KV.Model.FlagsSel.cds_run KV.Proofs.FlagsSelP.truthy_plumbing flag_names
           (KV.Model.FlagsSel.cds_open KV.Proofs.FlagsSelP.truthy_plumbing flag_names ms) h)) = [4; 4; 32]
  /\ map KV.Model.FlagsSel.p_wts (KV.Model.FlagsSel.c_members
        (KV.Model.FlagsSel.cds_run KV.Proofs.FlagsSelP.truthy_plumbing flag_names
           (KV.Model.FlagsSel.cds_open KV.Proofs.FlagsSelP.truthy_plumbing flag_names ms) h)) = [[]; [0%nat]; [0%nat]]
  /\ map KV.Model.FlagsSel.p_mask (KV.Model.FlagsSel.c_members
        (KV.Model.FlagsSel.cds_run KV.Model.FlagsSel.cur_plumbing flag_names
           (KV.Model.FlagsSel.cds_open KV.Model.FlagsSel.cur_plumbing flag_names ms) h)) = [0; 0; 0]
  /\ map KV.Model.FlagsSel.p_wts (KV.Model.FlagsSel.c_members
        (KV.Model.FlagsSel.cds_run KV.Model.FlagsSel.cur_plumbing flag_names
           (KV.Model.FlagsSel.cds_open KV.Model.FlagsSel.cur_plumbing flag_names ms) h)) = [[]; []; []].
Proof. exact KV.Proofs.FlagsSelP.truthy_guard_breaks_concat. Qed.
Print Assumptions C16_truthy_guard_would_break_concat_example.

(* ======== round 3: `where applicable`, computed exactly from the chunk layout (Model/FlagsLost.v on top of C06's
   Model/LostMap.v, imported unchanged) ========
   A v4 data set is a LostMap.cfg c (the chunkings of correlator_data, flags, weights, weights_channel - ANY positive
   chunk sizes, drawn independently per array, boundaries anywhere -, the set of chunks absent from the store, the
   stored flag bytes, a preselected window) and the set `calok` of elements whose calibration correction is valid.
   cfg_ok c p (Proofs/FlagsLostBaseP.v, = C06's): positive chunks, the arrays agree on the length of each axis they have, p is an element
   of the loaded window.  lx_raw is d.raw_flags at p: the lost map of ChunkStoreVisFlagsWeights (intersect_chunks +
   _apply_data_lost per flags chunk), apply_flags_correction and the regenerated indexer chain. *)
From KV Require Import Model.Prune Model.LostMap Model.FlagsLost Proofs.FlagsLostBaseP Proofs.FlagsLostP.

(* raw_flags = stored byte (nothing where the flags chunk itself is absent) | data_lost exactly on the elements covered by
   an absent chunk of ANY of the four arrays (each in its own chunking) | postproc exactly where the correction is
   invalid.  No selection history occurs in the statement: d.raw_flags has no transform and no mask. *)
Theorem C16_v4_raw_flags_exact_lost_set : forall c calok p, cfg_ok c p ->
  lx_raw c calok p
  = Z.lor (Z.lor (if lost_in c A_FLAGS p then 0 else stored c A_FLAGS p)
                 (if lost_in c A_FLAGS p || lost_in c A_VIS p || lost_in c A_W p || lost_in c A_WC p then 8 else 0))
          (if calok p then 0 else 128).
Proof. exact lx_raw_exact. Qed.
Print Assumptions C16_v4_raw_flags_exact_lost_set.

(* bit by bit: data_lost is set exactly where something covering p is absent (or it was stored), postproc exactly where
   the correction is invalid (or it was stored), every other bit is the stored one *)
Theorem C16_v4_raw_flag_bits_exact : forall c calok p, cfg_ok c p ->
  Z.testbit (lx_raw c calok p) 3
    = lx_any_lost c p || (negb (lost_in c A_FLAGS p) && Z.testbit (stored c A_FLAGS p) 3) /\
  Z.testbit (lx_raw c calok p) 7
    = negb (calok p) || (negb (lost_in c A_FLAGS p) && Z.testbit (stored c A_FLAGS p) 7) /\
  forall i, 0 <= i -> i <> 3 -> i <> 7 ->
    Z.testbit (lx_raw c calok p) i = negb (lost_in c A_FLAGS p) && Z.testbit (stored c A_FLAGS p) i.
Proof. exact lx_raw_bits. Qed.
Print Assumptions C16_v4_raw_flag_bits_exact.

(* an element none of whose covering chunks is absent and whose correction is valid shows the stored byte, untouched -
   whatever is lost elsewhere in ITS flags chunk and however the other arrays' chunks lie across the flags chunks *)
Theorem C16_v4_raw_flags_untouched_where_nothing_lost : forall c calok p, cfg_ok c p ->
  lx_any_lost c p = false -> calok p = true -> lx_raw c calok p = stored c A_FLAGS p.
Proof. exact lx_raw_untouched. Qed.
Print Assumptions C16_v4_raw_flags_untouched_where_nothing_lost.

(* boolean flags after ANY history of select() calls = some bit of that derived byte is among the names currently
   selected (the last flags= argument, all by default) *)
Theorem C16_v4_flags_exact_lost_set : forall h c calok p, cfg_ok c p -> 0 <= stored c A_FLAGS p < 256 ->
  lx_flag flag_names h c calok p
  = existsb (fun i => Z.testbit (lx_raw c calok p) i && Z.testbit (spec_hist_mask h) i) [0;1;2;3;4;5;6;7].
Proof. exact lx_flag_exact. Qed.
Print Assumptions C16_v4_flags_exact_lost_set.

(* the derived model refines the per-sample model: every C16_v4_... theorem above applies to the sample filled with the
   exact lost sets *)
Theorem C16_v4_lost_map_refines_sample : forall c calok p, cfg_ok c p ->
  lx_raw c calok p = v4_raw (lx_sample c calok p) /\
  s_lostf (lx_sample c calok p) = lost_in c A_FLAGS p /\ s_lostv (lx_sample c calok p) = lost_in c A_VIS p /\
  s_lostw (lx_sample c calok p) = (lost_in c A_W p || lost_in c A_WC p) /\
  s_stored (lx_sample c calok p) = stored c A_FLAGS p.
Proof. exact lx_refines_sample. Qed.
Print Assumptions C16_v4_lost_map_refines_sample.

(* not vacuous, and the layout that defeats a "the lost chunk has the shape of this flags chunk, so all of it is lost"
   short cut (seeded change C16-7): flags in time chunks (2,2,2), correlator_data in (1,2,2,1), the correlator_data
   chunk of dumps 1-2 absent.  Dumps 1, 2 get data_lost; dumps 0 and 3, in the same two flags chunks, keep the stored byte. *)
Theorem C16_v4_straddling_chunk_example :
  (forall t, In t [0;1;2;3;4;5] -> cfg_ok ex_straddle [t; 1; 0]) /\
  map (fun t => lx_raw ex_straddle all_true [t; 1; 0]) [0;1;2;3;4;5]
  = map (fun t => Z.lor (stored ex_straddle A_FLAGS [t; 1; 0]) (if (1 <=? t) && (t <=? 2) then 8 else 0)) [0;1;2;3;4;5]
  /\ map (fun t => stored ex_straddle A_FLAGS [t; 1; 0]) [0;1;2;3;4;5] = [3; 4; 5; 6; 7; 1]
  /\ map (fun t => lx_flag flag_names [Some (SelStr "data_lost")] ex_straddle all_true [t; 1; 0]) [0;1;2;3;4;5]
     = [false; true; true; false; false; false].
Proof. exact (conj ex_straddle_ok ex_straddle_values). Qed.
Print Assumptions C16_v4_straddling_chunk_example.

(* d.flags read for the first time by ANY number of threads at once (every select() makes new indexers whose dask graph
   is built lazily by DaskLazyIndexer.dataset - the site `site_dask` of C20's Model/LazyInit.v, regenerated from
   katdal/lazy_indexer.py on every run): under EVERY interleaving, at source-line granularity, no reader fails, every
   reader that has returned holds the graph with the WHOLE transform chain applied - boolean = some bit of the raw byte
   among the names currently selected - and the graph was built exactly once.  (S = what the raw-flags indexer delivers
   for a sample, V = what d.flags delivers, f = [bitwise_and unless the mask is all ones; view as bool].) *)
Theorem C16_v4_flags_under_concurrent_first_reads :
  forall (h : list (option selarg)) (raw : Z) (schedule : list nat), 0 <= raw < 256 ->
  let c := KV.Model.LazyInit.exec Z bool (fun r => v4_flag r (hist_mask flag_names h)) KV.Model.LazyInit.site_dask
                                  (KV.Model.LazyInit.mkSh None (Some raw) 0) schedule in
  (forall t, KV.Model.LazyInit.c_th c t <> KV.Model.LazyInit.Failed) /\
  (forall t lo, KV.Model.LazyInit.c_th c t = KV.Model.LazyInit.Done lo ->
     KV.Model.LazyInit.lres lo = Some (spec_flag_bool raw (spec_hist_mask h))) /\
  (KV.Model.LazyInit.c_lock c = None -> KV.Model.LazyInit.c_hist c <> [] ->
   KV.Model.LazyInit.ncomp (KV.Model.LazyInit.c_sh c) = 1%nat).
Proof. exact flags_first_reads_safe. Qed.
Print Assumptions C16_v4_flags_under_concurrent_first_reads.

(* ======== round 4: the argument of select(flags=...), the marking loop of the setters, flag tables of the file ======== *)
From KV Require Model.FlagsArg Proofs.FlagsArgP.
Import KV.Model.FlagsSel KV.Model.FlagsArg.

(* What the translator read at this run: _selection_to_list splits at "," and strips EVERY field on both sides (hence
   also the two ends of the whole string), the three setters hand their known names in as the group "all", the
   ValueError of an unknown name is handled PER NAME in all three setters (the loop goes on with the next name), and
   the flag table of a v3 / v2 file is decoded to str. *)
Theorem C16_argument_parsing_sources :
  sel_to_list_strip = "strip"%string /\ sel_to_list_sep = ","%string
  /\ flag_setter_group_key = [("v4", "all"); ("v3", "all"); ("v2", "all")]%string
  /\ flag_setter_loop = [("v4", "per_name"); ("v3", "per_name"); ("v2", "per_name")]%string
  /\ h5_flag_table_decoded = [("v3", true); ("v2", true)]%string.
Proof. exact KV.Proofs.FlagsArgP.arg_sources. Qed.
Print Assumptions C16_argument_parsing_sources.

(* The setter assembled from those constants (separator, strip method, group key, loop shape, bit flip - all
   regenerated) IS the setter every theorem above speaks about, for every format, table and argument; it warns about
   the same names. *)
Theorem C16_setter_from_source_refines_model : forall known f a,
  mk_mask_src known f a = mk_mask known f a
  /\ selection_to_list_src (group_key f) a known = selection_to_list a known
  /\ warned_src flag_names f a = unknown_names flag_names a.
Proof.
  intros. split; [apply KV.Proofs.FlagsArgP.mk_mask_src_eq|].
  split; [apply KV.Proofs.FlagsArgP.selection_to_list_src_eq|apply KV.Proofs.FlagsArgP.warned_src_eq].
Qed.
Print Assumptions C16_setter_from_source_refines_model.

(* ANY table of 8 distinct names (flags.NAMES, or the flags_description of the file), any format, any argument: the
   mask is exactly the sum of the bits of the names of the table that are requested - bit i for the i-th name (v3,
   v4), bit 7-i (v2) -, it is a byte, and bit by bit: bit (i | 7-i) is set iff the i-th name is requested. *)
Theorem C16_mask_of_any_table : forall known f a, NoDup known -> List.length known = 8%nat ->
  mk_mask known f a = table_mask f known (table_wanted known a)
  /\ 0 <= mk_mask known f a < 256
  /\ forall i, (i < 8)%nat ->
       Z.testbit (mk_mask known f a) (bitpos f i) = mem_string (nth i known ""%string) (table_wanted known a).
Proof.
  intros known f a ND L8. split; [exact (KV.Proofs.FlagsArgP.mk_mask_table_arg known f a ND L8)|].
  split; [apply KV.Proofs.FlagsArgP.mk_mask_range_any|].
  intros i Hi. rewrite (KV.Proofs.FlagsArgP.mk_mask_table_arg known f a ND L8).
  apply KV.Proofs.FlagsArgP.table_mask_testbit. exact Hi.
Qed.
Print Assumptions C16_mask_of_any_table.

(* for the default table this is the documented-bit spec of the theorems above *)
Theorem C16_default_table_is_documented : forall f a,
  table_mask f flag_names (table_wanted flag_names a) = spec_fmt_mask f a.
Proof. exact KV.Proofs.FlagsArgP.table_mask_default. Qed.
Print Assumptions C16_default_table_is_documented.

(* The mask depends ONLY on which names of the table occur in the request: two requests that contain the same names
   of the table give the same mask - whatever else they contain, in whatever order, however often. *)
Theorem C16_mask_depends_on_requested_known_names_only : forall known f l1 l2,
  NoDup known -> List.length known = 8%nat ->
  (forall n, In n known -> (In n l1 <-> In n l2)) ->
  mk_mask known f (SelList l1) = mk_mask known f (SelList l2).
Proof. exact KV.Proofs.FlagsArgP.mask_known_names_only. Qed.
Print Assumptions C16_mask_depends_on_requested_known_names_only.

(* An unknown name is ignored at EVERY position of the request: the names before it and the names after it count. *)
Theorem C16_unknown_ignored_at_any_position : forall known f l1 u l2,
  NoDup known -> List.length known = 8%nat -> ~ In u known ->
  mk_mask known f (SelList (l1 ++ u :: l2)) = mk_mask known f (SelList (l1 ++ l2)).
Proof. exact KV.Proofs.FlagsArgP.unknown_ignored_anywhere. Qed.
Print Assumptions C16_unknown_ignored_at_any_position.

Theorem C16_order_and_repetition_irrelevant : forall known f l1 l2,
  NoDup known -> List.length known = 8%nat ->
  mk_mask known f (SelList (l1 ++ l2)) = mk_mask known f (SelList (l2 ++ l1))
  /\ mk_mask known f (SelList (l1 ++ l1)) = mk_mask known f (SelList l1)
  /\ mk_mask known f (SelList (rev l1)) = mk_mask known f (SelList l1).
Proof. exact KV.Proofs.FlagsArgP.mask_order_irrelevant. Qed.
Print Assumptions C16_order_and_repetition_irrelevant.

(* The two shapes of the marking loop: with the handler around the whole loop the request is cut at its first unknown
   name (everything behind it is silently dropped); without unknown names the shapes agree - which is why only a request
   with an unknown name IN FRONT OF a known one tells them apart. *)
Theorem C16_handler_around_the_loop_would_drop_names : forall known f l1 u l2,
  (forall n, In n l1 -> In n known) -> ~ In u known ->
  mk_mask_shape "whole_loop" known f (l1 ++ u :: l2) = mk_mask known f (SelList l1)
  /\ forall shape, mk_mask_shape shape known f l1 = mk_mask known f (SelList l1).
Proof.
  intros known f l1 u l2 H Hu. split; [exact (KV.Proofs.FlagsArgP.whole_loop_stops known f l1 u l2 H Hu)|].
  intro shape. exact (KV.Proofs.FlagsArgP.shapes_agree_without_unknown shape known f l1 H).
Qed.
Print Assumptions C16_handler_around_the_loop_would_drop_names.

Theorem C16_loop_shape_example :
  mk_mask_shape "whole_loop" flag_names FV3 ["static"; "bogus"; "cam"]%string = 2
  /\ mk_mask_shape "per_name" flag_names FV3 ["static"; "bogus"; "cam"]%string = 6
  /\ mk_mask_src flag_names FV3 (SelStr "static,bogus,cam") = 6
  /\ mk_mask_shape "whole_loop" flag_names FV2 ["bogus"; "cam"]%string = 0
  /\ mk_mask_src flag_names FV2 (SelList ["bogus"; "cam"]%string) = 32.
Proof. exact KV.Proofs.FlagsArgP.whole_loop_would_drop_names. Qed.
Print Assumptions C16_loop_shape_example.

(* A comma-separated string whose fields carry ANY white space on either side - in front of the first field and behind
   the last one included: ' cam', 'static,cam\n' - selects exactly what the list of its names selects (names as a user
   means them: no comma inside, no white space at either end; the string as a whole neither empty nor the word 'all'). *)
Theorem C16_string_selection_white_space : forall known f (fields : list field),
  fields <> [] -> forallb field_ok fields = true ->
  let s := join_comma (map field_text fields) in
  s <> ""%string -> s <> "all"%string ->
  selection_to_list (SelStr s) known = map field_name fields
  /\ mk_mask known f (SelStr s) = mk_mask known f (SelList (map field_name fields)).
Proof.
  intros known f fields Hne Hok s H0 Hall. split.
  - exact (KV.Proofs.FlagsArgP.string_selection_is_list fields known Hne Hok H0 Hall).
  - exact (KV.Proofs.FlagsArgP.string_selection_mask known f fields Hne Hok H0 Hall).
Qed.
Print Assumptions C16_string_selection_white_space.

Theorem C16_white_space_example :
  selection_to_list (SelStr (join_comma (map field_text
     [(" ", "static", ""); ("", "cam", String (Ascii.ascii_of_nat 10) "")]%string))) flag_names = ["static"; "cam"]%string
  /\ join_comma (map field_text [(" ", "static", ""); ("", "cam", String (Ascii.ascii_of_nat 10) "")]%string)
     = (" static,cam" ++ String (Ascii.ascii_of_nat 10) "")%string
  /\ forallb field_ok [(" ", "static", ""); ("", "cam", String (Ascii.ascii_of_nat 10) "")]%string = true
  /\ mk_mask flag_names FV3 (SelStr (" cam" ++ String (Ascii.ascii_of_nat 9) "")) = 4
  /\ mk_mask flag_names FV2 (SelStr (String (Ascii.ascii_of_nat 10) "static , cam ")) = 96
  /\ mk_mask flag_names FV4 (SelStr " all") = 0 /\ unknown_names flag_names (SelStr " all") = ["all"]%string.
Proof. exact KV.Proofs.FlagsArgP.whitespace_nonvacuous. Qed.
Print Assumptions C16_white_space_example.

(* A v3 / v2 file that carries its OWN flag table (8 distinct names, in the order of the file): selecting by name
   answers with exactly the bits of the requested names OF THAT TABLE in the bit order of the format, warns about
   exactly the requested names the table does not have, and a table that does not have 8 rows is refused (never
   answered wrongly). *)
Theorem C16_file_table_selection : forall table f a, NoDup table -> List.length table = 8%nat ->
  file_mask f table a = Some (table_mask f table (table_wanted table a))
  /\ file_warned f table a
     = List.length (filter (fun n => negb (mem_string n table)) (table_wanted table a)).
Proof. intros table f a ND L8. exact (KV.Proofs.FlagsArgP.file_mask_table table ND L8 f a). Qed.
Print Assumptions C16_file_table_selection.

Theorem C16_file_table_wrong_length_refused : forall f table a,
  List.length table <> 8%nat -> file_mask f table a = None.
Proof. exact KV.Proofs.FlagsArgP.file_mask_wrong_length. Qed.
Print Assumptions C16_file_table_wrong_length_refused.

(* getter o setter = identity on every byte for ANY such table (what makes the read-back in select() harmless on a
   file with its own table), and the getter names exactly the set bits *)
Theorem C16_file_table_getter_setter_roundtrip : forall table f m,
  NoDup table -> List.length table = 8%nat -> 0 <= m < 256 ->
  mk_mask table f (SelList (keep_names table f m)) = m
  /\ forall i, (i < 8)%nat -> mem_string (nth i table ""%string) (keep_names table f m) = Z.testbit m (bitpos f i).
Proof.
  intros table f m ND L8 Hm. split; [exact (KV.Proofs.FlagsArgP.roundtrip_table table f m ND L8 Hm)|].
  intros i Hi. exact (KV.Proofs.FlagsArgP.getter_table table f m i ND L8 Hm Hi).
Qed.
Print Assumptions C16_file_table_getter_setter_roundtrip.

(* ... so, under the faithful model of select() (self._selection, setter, read-back through the getter, guarded
   setter), ONE data set on such a file shows after ANY history the mask of the last flags= argument, read against
   the table of the file ('all' by default). *)
Theorem C16_file_table_mask_after_history : forall table f (h : list kwpair),
  NoDup table -> List.length table = 8%nat ->
  p_fmt (file_run f table h) = f
  /\ p_mask (file_run f table h)
     = table_mask f table (table_wanted table (last_sel (map fst h) (SelStr "all")))
  /\ 0 <= p_mask (file_run f table h) < 256.
Proof. intros table f h ND L8. exact (KV.Proofs.FlagsArgP.file_history table ND L8 f h). Qed.
Print Assumptions C16_file_table_mask_after_history.

Theorem C16_file_table_example :
  let kat7 := ["reserved0"; "static"; "cam"; "reserved3"; "detected_rfi"; "predicted_rfi"; "reserved6"; "reserved7"]%string in
  file_mask FV2 kat7 (SelStr "detected_rfi, cam") = Some 40
  /\ file_mask FV3 kat7 (SelStr "detected_rfi, cam") = Some 20
  /\ file_mask FV3 kat7 (SelStr "ingest_rfi") = Some 0 /\ file_warned FV3 kat7 (SelStr "ingest_rfi,cam") = 1%nat
  /\ file_mask FV3 kat7 (SelStr "all") = Some 255
  /\ file_mask FV3 (tl kat7) (SelStr "all") = None
  /\ p_mask (file_run FV2 kat7 [(Some (SelStr "static"), None); (None, None)]) = 64
  /\ NoDup kat7.
Proof. exact KV.Proofs.FlagsArgP.file_table_nonvacuous. Qed.
Print Assumptions C16_file_table_example.
