(* C16 — Flags: bit meanings, selection by name and derivation.  Only statements here. *)
From Coq Require Import ZArith List Bool String.
From KV Require Import Base.Sx Base.Str Gen.Generated Model.Flags Proofs.FlagsP.
From KV Require Model.Select Proofs.SelectP Props.C02.
Import ListNotations.
Open Scope Z_scope.

(* The names in /repo's flags.NAMES are the documented ones, in the documented order. *)
Theorem C16_names_are_documented : flag_names = doc_names.
Proof. exact names_are_documented. Qed.
Print Assumptions C16_names_are_documented.

(* X_BIT = index of "x" in NAMES and X = 2^X_BIT for the seven named constants. *)
Theorem C16_NAMES_BITS_consistent :
  forallb (fun p => match index_of (fst p) flag_names with
                    | Some i => Z.eqb (Z.of_nat i) (snd p) | None => false end) flag_bits = true
  /\ forallb (fun p => match index_of (fst p) flag_names with
                    | Some i => Z.eqb (2 ^ Z.of_nat i) (snd p) | None => false end) flag_masks = true
  /\ List.length flag_bits = 7%nat /\ List.length flag_masks = 7%nat.
Proof. exact bits_consistent. Qed.
Print Assumptions C16_NAMES_BITS_consistent.

(* v3/v4: for EVERY selection argument (any string or list of names, any length) the mask computed by
   the setter has exactly the bits of the selected documented names, bit i = i-th name. *)
Theorem C16_mask_v34_bits : forall a : selarg,
  flagmask_v34 flag_names a =
  fold_right Z.add 0 (map (fun i => if mem_string (nth i doc_names ""%string) (selection_to_list a doc_names)
                                    then 2 ^ Z.of_nat i else 0) (seq 0 8)).
Proof. intro a. rewrite mask_v34_bits. exact (spec_mask_v34_sum _). Qed.
Print Assumptions C16_mask_v34_bits.

(* v2: reverse bit order. *)
Theorem C16_mask_v2_bits : forall a : selarg,
  flagmask_v2 flag_names a =
  fold_right Z.add 0 (map (fun i => if mem_string (nth i doc_names ""%string) (selection_to_list a doc_names)
                                    then 2 ^ (7 - Z.of_nat i) else 0) (seq 0 8)).
Proof. intro a. rewrite mask_v2_bits. exact (spec_mask_v2_sum _). Qed.
Print Assumptions C16_mask_v2_bits.

Theorem C16_all_is_255 : flagmask_v34 flag_names (SelStr "all") = 255 /\ flagmask_v2 flag_names (SelStr "all") = 255.
Proof. exact all_is_255. Qed.
Print Assumptions C16_all_is_255.

Theorem C16_empty_is_0 : flagmask_v34 flag_names (SelStr "") = 0 /\ flagmask_v34 flag_names (SelList []) = 0
  /\ flagmask_v2 flag_names (SelStr "") = 0 /\ flagmask_v2 flag_names (SelList []) = 0.
Proof. exact empty_is_0. Qed.
Print Assumptions C16_empty_is_0.

Theorem C16_unknown_ignored : forall n l, ~ In n doc_names ->
  flagmask_v34 flag_names (SelList (n :: l)) = flagmask_v34 flag_names (SelList l) /\
  flagmask_v2 flag_names (SelList (n :: l)) = flagmask_v2 flag_names (SelList l).
Proof. exact unknown_ignored. Qed.
Print Assumptions C16_unknown_ignored.

(* boolean flag = (raw AND mask) non-zero = some selected bit is set in the raw byte; all 256 x 256 bytes. *)
Theorem C16_flags_bool_spec : forall raw mask, 0 <= raw < 256 -> 0 <= mask < 256 ->
  flag_bool raw mask = existsb (fun i => Z.testbit raw i && Z.testbit mask i) [0;1;2;3;4;5;6;7].
Proof. exact flag_bool_spec. Qed.
Print Assumptions C16_flags_bool_spec.

(* v4 raw flags: stored byte with data_lost (bit 3) / postproc (bit 7) added; every other bit is the stored bit. *)
Theorem C16_raw_flags_v4 : forall stored lost cal,
  raw_flags_v4 stored lost cal = Z.lor (Z.lor stored (if lost then 8 else 0)) (if cal then 128 else 0)
  /\ forall i, 0 <= i -> i <> 3 -> i <> 7 -> Z.testbit (raw_flags_v4 stored lost cal) i = Z.testbit stored i.
Proof.
  intros s l c. split; [exact (raw_flags_v4_spec s l c)|].
  intros i. rewrite raw_flags_v4_spec. exact (raw_flags_v4_other_bits s l c i).
Qed.
Print Assumptions C16_raw_flags_v4.

(* Changing the flag or weight selection never changes the time, frequency and product selection: a select()
   call that carries only flags= / weights= leaves the three masks of EVERY reachable selection state alone
   (re-export of C02's theorem about the model of DataSet.select; visibilities and raw flags are functions of
   the masks and the stored arrays only, cf. C01). *)
Theorem C16_flag_select_changes_nothing_else : forall o s kw,
  KV.Proofs.SelectP.reachable o s -> NoDup (KV.Model.Select.keys kw) -> kw <> [] ->
  (forall k, In k (KV.Model.Select.keys kw) -> k = "flags"%string \/ k = "weights"%string) ->
  exists s', KV.Model.Select.select o s kw = KV.Model.Select.Ok s'
             /\ KV.Model.Select.masks_of s' = KV.Model.Select.masks_of s.
Proof.
  intros o s kw Hr Nk Hne Hk.
  destruct (proj1 (KV.Props.C02.C02_flags_weights_never_change_masks o s kw Hr Nk) Hne Hk) as (s' & A & B & _).
  exists s'. split; assumption.
Qed.
Print Assumptions C16_flag_select_changes_nothing_else.
