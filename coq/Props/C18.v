(* C18 — Telstate stream resolution and flag-stream upgrade.  Statements only. *)
From Coq Require Import ZArith List Bool String.
From KV Require Import Base.Sx Base.Str Model.Telstate Proofs.TelstateP.
Import ListNotations.
Open Scope string_scope.
Open Scope list_scope.

(* view_capture_stream builds, for EVERY inherit chain [stream; inh1; inh2; ...], the prefixes in the order
   cb+stream, cb+inherited..., cb, stream, inherited..., global *)
Theorem C18_prefix_order : forall cb streams,
  view_capture_stream cb streams =
  map (fun s => (joinp cb s ++ sep)%string) streams ++ [(cb ++ sep)%string]
  ++ map (fun s => (s ++ sep)%string) streams ++ [""%string].
Proof. exact prefix_order. Qed.
Print Assumptions C18_prefix_order.

(* the chain is obtained by following `<stream>_inherit` until it is absent (acyclic chains; a cyclic chain
   exhausts the fuel = the real loop does not terminate: excluded) *)
Theorem C18_chain_sound : forall st names fuel s streams, chain st names fuel s = Some streams ->
  hd_error streams = Some s /\
  (forall i a b, nth_error streams i = Some a -> nth_error streams (S i) = Some b -> inherit_of st names a = Some b) /\
  (forall a, nth_error streams (List.length streams - 1) = Some a -> inherit_of st names a = None).
Proof. exact chain_sound. Qed.
Print Assumptions C18_chain_sound.

(* an attribute is taken from the FIRST namespace in that order that defines it *)
Theorem C18_attr_most_specific : forall st ps k v, lookup st ps k = Some v <->
  exists ps1 p ps2 e, ps = ps1 ++ p :: ps2 /\ (forall q, In q ps1 -> find_key st (q ++ k)%string = None)
                      /\ find_key st (p ++ k)%string = Some e /\ e_val e = v.
Proof. exact lookup_first. Qed.
Print Assumptions C18_attr_most_specific.

Theorem C18_attr_absent : forall st ps k,
  lookup st ps k = None <-> forall q, In q ps -> find_key st (q ++ k)%string = None.
Proof. exact lookup_none. Qed.
Print Assumptions C18_attr_absent.

(* FULL STATEMENT for sensors: forall ps st n, tbl_get (sensor_table ps st) n = spec_sensor st ps n.
   It is FALSE of the faithful model (known finding F6): *)
Theorem C18_sensor_most_specific_refuted :
  exists ps st n, spec_sensor st ps n = Some "cb_base_foo"%string
                  /\ tbl_get (sensor_table ps st) n = Some "cb_foo"%string.
Proof. exact sensor_most_specific_refuted. Qed.
Print Assumptions C18_sensor_most_specific_refuted.

(* what the code does: the LAST mutable key, in key order, whose shortened name is n *)
Theorem C18_sensor_table_last_owner : forall ps st n, n <> ""%string ->
  tbl_get (sensor_table ps st) n = last_owner ps st n.
Proof. exact sensor_table_last_owner. Qed.
Print Assumptions C18_sensor_table_last_owner.

(* partial: a sensor defined in one namespace only is always found *)
Theorem C18_sensor_most_specific_partial : forall ps st n k, n <> ""%string ->
  (forall e, In e st -> owns ps n e = true -> e_key e = k) ->
  (exists e, In e st /\ owns ps n e = true) ->
  tbl_get (sensor_table ps st) n = Some k.
Proof. exact sensor_single_namespace. Qed.
Print Assumptions C18_sensor_most_specific_partial.

Theorem C18_id_precedence : forall kw url file,
  (forall k, kw = Some k -> k <> ""%string -> resolve_id kw url file = Some k) /\
  (forall u, kw = None -> url = Some u -> u <> ""%string -> resolve_id kw url file = Some u) /\
  (kw = None -> url = None -> resolve_id kw url file = file) /\
  (kw = Some ""%string -> resolve_id kw url file = file) /\
  (kw = None -> url = Some ""%string -> resolve_id kw url file = file).
Proof. exact id_precedence. Qed.
Print Assumptions C18_id_precedence.

Theorem C18_wrong_type_refused : forall ty, check_stream_type ty = true <-> ty = Some "sdp.vis"%string.
Proof. exact wrong_type_refused. Qed.
Print Assumptions C18_wrong_type_refused.

(* flags upgrade: only sdp.flags streams whose src_streams contains the opened stream count; the last such
   stream wins; any of them with a different channel/baseline shape is an error — for every archived list *)
Theorem C18_flags_upgrade_rule : forall stream archived cur,
  upgrade_flags stream cur archived = spec_upgrade stream cur archived.
Proof. exact flags_upgrade_rule. Qed.
Print Assumptions C18_flags_upgrade_rule.

(* differing dump counts: every array is extended to the longest one by one-dump phantom chunks appended
   after its own (unaltered) chunks *)
Theorem C18_align_spans_longer : forall arrays a, In a arrays ->
  let maxd := zmax_list (map dumps_of arrays) in
  dumps_of (align_one maxd a) = maxd /\
  exists k, align_one maxd a = a ++ repeat 1%Z k /\ Z.of_nat k = (maxd - dumps_of a)%Z.
Proof. exact align_spans_longer. Qed.
Print Assumptions C18_align_spans_longer.
