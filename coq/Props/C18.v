(* C18 — Telstate stream resolution and flag-stream upgrade.  Statements only. *)
From Coq Require Import ZArith List Bool String.
From KV Require Import Base.Sx Base.Str Gen.Generated Model.Telstate Proofs.TelstateP.
Import ListNotations.
Open Scope string_scope.
Open Scope list_scope.

(* NOTE: sep, the key names ('inherit', 'stream_type', 'src_streams', ...), 'sdp.vis', 'sdp.flags', the ORDER of the
   view() calls of view_capture_stream (vcs_steps), the condition under which TelstateDataSource consults the
   chunk info (ds_reads_chunk_info) and the precedence of keywords over the URL query are GENERATED from
   katdal/datasources.py at every run (harness/vh/items/c18.py -> Gen/Generated.v); the statements below are
   written with the words of the property and are re-proved against what was generated. *)
Theorem C18_telstate_keys :
  l0_cbid_key = "capture_block_id"%string /\ l0_stream_key = "stream_name"%string /\ l0_type_key = "stream_type"%string
  /\ ts_inherit_key = "inherit"%string /\ fl_type_key = "stream_type"%string /\ fl_src_key = "src_streams"%string
  /\ fl_archived_key = "sdp_archived_streams"%string /\ ts_sep = "_"%string
  /\ ds_chunk_info_key = "chunk_info"%string /\ fl_chunk_info_key = "chunk_info"%string
  /\ ds_dumps_array = "correlator_data"%string.
Proof. exact telstate_keys. Qed.
Print Assumptions C18_telstate_keys.

(* view_capture_stream builds, for EVERY inherit chain [stream; inh1; inh2; ...], the prefixes in the order
   cb+stream, cb+inherited..., cb, stream, inherited..., global *)
Theorem C18_prefix_order : forall cb streams,
  view_capture_stream cb streams =
  map (fun s => (joinp cb s ++ sep)%string) streams ++ [(cb ++ sep)%string]
  ++ map (fun s => (s ++ sep)%string) streams ++ [""%string].
Proof. exact prefix_order. Qed.
Print Assumptions C18_prefix_order.

(* the same on top of any base view (the candidates of the flag upgrade are viewed on top of the L0 view) *)
Theorem C18_prefix_order_on : forall base cb streams,
  view_capture_stream_on base cb streams =
  map (fun s => (joinp cb s ++ sep)%string) streams ++ [(cb ++ sep)%string]
  ++ map (fun s => (s ++ sep)%string) streams ++ base.
Proof. exact prefix_order_on. Qed.
Print Assumptions C18_prefix_order_on.

(* the chain is obtained by following `<stream>_inherit` until it is absent (acyclic chains; a cyclic chain
   exhausts the fuel = the real loop does not terminate: excluded) *)
Theorem C18_chain_sound : forall st names fuel s streams, chain st names fuel s = Some streams ->
  hd_error streams = Some s /\
  (forall i a b, nth_error streams i = Some a -> nth_error streams (S i) = Some b -> inherit_of st names a = Some b) /\
  (forall a, nth_error streams (List.length streams - 1) = Some a -> inherit_of st names a = None).
Proof. exact chain_sound. Qed.
Print Assumptions C18_chain_sound.

(* an attribute is taken from the FIRST namespace in that order that defines it *)
Theorem C18_attr_most_specific : forall st ps k v, lookup st ps k = Some v <->
  exists ps1 p ps2 e, ps = ps1 ++ p :: ps2 /\ (forall q, In q ps1 -> find_key st (q ++ k)%string = None)
                      /\ find_key st (p ++ k)%string = Some e /\ e_val e = v.
Proof. exact lookup_first. Qed.
Print Assumptions C18_attr_most_specific.

Theorem C18_attr_absent : forall st ps k,
  lookup st ps k = None <-> forall q, In q ps -> find_key st (q ++ k)%string = None.
Proof. exact lookup_none. Qed.
Print Assumptions C18_attr_absent.

(* Sensors: the table built by TelstateDataSource (after the repair of F6) reads sensor [n] from a key that
   defines it in the MOST SPECIFIC namespace: the chosen key is a mutable key whose shortened name is n, owned by
   the namespace of rank r, and no other namespace that defines n has a smaller rank; if no namespace defines it
   the sensor is absent.  For every store (in any key order) and every prefix list. *)
Theorem C18_sensor_most_specific : forall ps st n, n <> ""%string ->
  match rtbl_get (sensor_table ps st) n with
  | None => forall e, In e st -> owns ps n e = false
  | Some (r, k) =>
      (exists e, In e st /\ owns ps n e = true /\ e_key e = k /\ key_rank ps k = Some r) /\
      (forall e, In e st -> owns ps n e = true -> exists r', key_rank ps (e_key e) = Some r' /\ (r <= r')%nat)
  end.
Proof. exact sensor_most_specific. Qed.
Print Assumptions C18_sensor_most_specific.

(* before the repair the LAST key in key order won, so a less specific namespace could win (F6, fixed):
   the witness on which the old table and the new one differ *)
Theorem C18_sensor_refuted_before_fix :
  exists ps st n, spec_sensor st ps n = Some "cb_base_foo"%string
                  /\ tbl_get (sensor_table_unranked ps st) n = Some "cb_foo"%string
                  /\ sensor_key ps st n = Some "cb_base_foo"%string.
Proof. exact sensor_refuted_before_fix. Qed.
Print Assumptions C18_sensor_refuted_before_fix.

Theorem C18_id_precedence : forall kw url file,
  (forall k, kw = Some k -> k <> ""%string -> resolve_id kw url file = Some k) /\
  (forall u, kw = None -> url = Some u -> u <> ""%string -> resolve_id kw url file = Some u) /\
  (kw = None -> url = None -> resolve_id kw url file = file) /\
  (kw = Some ""%string -> resolve_id kw url file = file) /\
  (kw = None -> url = Some ""%string -> resolve_id kw url file = file).
Proof. exact id_precedence. Qed.
Print Assumptions C18_id_precedence.

Theorem C18_wrong_type_refused : forall ty, check_stream_type ty = true <-> ty = Some "sdp.vis"%string.
Proof. exact wrong_type_refused. Qed.
Print Assumptions C18_wrong_type_refused.

(* flags upgrade: only sdp.flags streams whose src_streams contains the opened stream count; the last such
   stream wins; any of them with a different channel/baseline shape is an error — for every archived list *)
Theorem C18_flags_upgrade_rule : forall stream archived cur,
  upgrade_flags stream cur archived = spec_upgrade stream cur archived.
Proof. exact flags_upgrade_rule. Qed.
Print Assumptions C18_flags_upgrade_rule.

(* which archived streams count: type sdp.flags AND the opened stream among the sources *)
Theorem C18_flag_source_iff : forall stream f,
  is_flag_source stream f = true <-> f_type f = Some "sdp.flags"%string /\ In stream (f_src f).
Proof. exact flag_source_iff. Qed.
Print Assumptions C18_flag_source_iff.

(* differing dump counts: every array is extended to the longest one by one-dump phantom chunks appended
   after its own (unaltered) chunks *)
Theorem C18_align_spans_longer : forall arrays a, In a arrays ->
  let maxd := zmax_list (map dumps_of arrays) in
  dumps_of (align_one maxd a) = maxd /\
  exists k, align_one maxd a = a ++ repeat 1%Z k /\ Z.of_nat k = (maxd - dumps_of a)%Z.
Proof. exact align_spans_longer. Qed.
Print Assumptions C18_align_spans_longer.

(* HOWEVER the data set is opened - with a chunk store (s = true) or as metadata only, upgrade_flags given or
   defaulted (u), timestamps synthesised (t = None) or given - the same flag streams are consulted: an incompatible
   one is an error, and the number of dumps (of the data, and of the synthesised timestamps) is the larger of the
   opened stream's and of the flag stream that replaces its flags.  The only combination excluded is a source
   with neither data nor synthesised timestamps (s = false, t = Some k), which derives nothing from the streams
   (next theorem). *)
Theorem C18_span_however_opened : forall u stream cur archived, (0 <= c_dumps cur)%Z ->
  forall s t, s = true \/ t = None ->
  open_source (mkMode s u t) stream cur archived =
  match (if match u with Some b => b | None => ds_upgrade_default end
         then spec_upgrade stream cur archived else Ok cur) with
  | Err e => Err e
  | Ok c => let n := Z.max (c_dumps cur) (c_dumps c) in
            Ok (mkOpened (match t with Some k => k | None => n end) (if s then Some (n, c_id c) else None))
  end.
Proof. exact span_however_opened. Qed.
Print Assumptions C18_span_however_opened.

Theorem C18_meta_explicit_ignores_streams : forall u k stream cur archived,
  open_source (mkMode false u (Some k)) stream cur archived = Ok (mkOpened k None).
Proof. exact meta_explicit_ignores_streams. Qed.
Print Assumptions C18_meta_explicit_ignores_streams.

(* the whole path (from_url / katdal.open): ids resolved keyword > URL query > file, view of the opened stream,
   stream type check, own chunk info, candidates named by sdp_archived_streams each read through ITS view stacked
   on the L0 view, upgrade, alignment - equals the same path computed with the spec prefix order, the spec upgrade
   rule and the spec span, for every telstate content (dump counts non-negative) *)
Theorem C18_open_refines_spec : forall m st vals kwcb urlcb kwsn urlsn, dumps_nonneg vals ->
  open_url m st vals kwcb urlcb kwsn urlsn = spec_open_url m st vals kwcb urlcb kwsn urlsn.
Proof. exact open_url_spec. Qed.
Print Assumptions C18_open_refines_spec.
