(* C18 — Telstate stream resolution and flag-stream upgrade.  Statements only. *)
From Coq Require Import ZArith List Bool String Permutation.
From KV Require Import Base.Sx Base.Str Gen.Generated Model.Telstate Proofs.TelstateP Model.TelstateArrays Proofs.TelstateArraysP.
Import ListNotations.
Open Scope string_scope.
Open Scope list_scope.

(* NOTE: sep, the key names ('inherit', 'stream_type', 'src_streams', ...), 'sdp.vis', 'sdp.flags', the ORDER of the
   view() calls of view_capture_stream (vcs_steps), the condition under which TelstateDataSource consults the
   chunk info (ds_reads_chunk_info) and the precedence of keywords over the URL query are GENERATED from
   katdal/datasources.py at every run (harness/vh/items/c18.py -> Gen/Generated.v); the statements below are
   written with the words of the property and are re-proved against what was generated. *)
Theorem C18_telstate_keys :
  l0_cbid_key = "capture_block_id"%string /\ l0_stream_key = "stream_name"%string /\ l0_type_key = "stream_type"%string
  /\ ts_inherit_key = "inherit"%string /\ fl_type_key = "stream_type"%string /\ fl_src_key = "src_streams"%string
  /\ fl_archived_key = "sdp_archived_streams"%string /\ ts_sep = "_"%string
  /\ ds_chunk_info_key = "chunk_info"%string /\ fl_chunk_info_key = "chunk_info"%string
  /\ ds_dumps_array = "correlator_data"%string /\ ci_prefix_key = "chunk_name"%string.
Proof. exact telstate_keys. Qed.
Print Assumptions C18_telstate_keys.

(* view_capture_stream builds, for EVERY inherit chain [stream; inh1; inh2; ...], the prefixes in the order
   cb+stream, cb+inherited..., cb, stream, inherited..., global *)
Theorem C18_prefix_order : forall cb streams,
  view_capture_stream cb streams =
  map (fun s => (joinp cb s ++ sep)%string) streams ++ [(cb ++ sep)%string]
  ++ map (fun s => (s ++ sep)%string) streams ++ [""%string].
Proof. exact prefix_order. Qed.
Print Assumptions C18_prefix_order.

(* the same on top of any base view (the candidates of the flag upgrade are viewed on top of the L0 view) *)
Theorem C18_prefix_order_on : forall base cb streams,
  view_capture_stream_on base cb streams =
  map (fun s => (joinp cb s ++ sep)%string) streams ++ [(cb ++ sep)%string]
  ++ map (fun s => (s ++ sep)%string) streams ++ base.
Proof. exact prefix_order_on. Qed.
Print Assumptions C18_prefix_order_on.

(* the chain is obtained by following `<stream>_inherit` until it is absent (acyclic chains; a cyclic chain
   exhausts the fuel = the real loop does not terminate: excluded) *)
Theorem C18_chain_sound : forall st names fuel s streams, chain st names fuel s = Some streams ->
  hd_error streams = Some s /\
  (forall i a b, nth_error streams i = Some a -> nth_error streams (S i) = Some b -> inherit_of st names a = Some b) /\
  (forall a, nth_error streams (List.length streams - 1) = Some a -> inherit_of st names a = None).
Proof. exact chain_sound. Qed.
Print Assumptions C18_chain_sound.

(* an attribute is taken from the FIRST namespace in that order that defines it *)
Theorem C18_attr_most_specific : forall st ps k v, lookup st ps k = Some v <->
  exists ps1 p ps2 e, ps = ps1 ++ p :: ps2 /\ (forall q, In q ps1 -> find_key st (q ++ k)%string = None)
                      /\ find_key st (p ++ k)%string = Some e /\ e_val e = v.
Proof. exact lookup_first. Qed.
Print Assumptions C18_attr_most_specific.

Theorem C18_attr_absent : forall st ps k,
  lookup st ps k = None <-> forall q, In q ps -> find_key st (q ++ k)%string = None.
Proof. exact lookup_none. Qed.
Print Assumptions C18_attr_absent.

(* Sensors: the table built by TelstateDataSource (after the repair of F6) reads sensor [n] from a key that
   defines it in the MOST SPECIFIC namespace: the chosen key is a mutable key whose shortened name is n, owned by
   the namespace of rank r, and no other namespace that defines n has a smaller rank; if no namespace defines it
   the sensor is absent.  For every store (in any key order) and every prefix list. *)
Theorem C18_sensor_most_specific : forall ps st n, n <> ""%string ->
  match rtbl_get (sensor_table ps st) n with
  | None => forall e, In e st -> owns ps n e = false
  | Some (r, k) =>
      (exists e, In e st /\ owns ps n e = true /\ e_key e = k /\ key_rank ps k = Some r) /\
      (forall e, In e st -> owns ps n e = true -> exists r', key_rank ps (e_key e) = Some r' /\ (r <= r')%nat)
  end.
Proof. exact sensor_most_specific. Qed.
Print Assumptions C18_sensor_most_specific.

(* the rank is computed by the code as prefixes.index(key[:len(key) - len(sensor_name)]): that IS the index of the
   first prefix in view order that fits the key (so the comparison of ranks compares namespaces, not key lengths) *)
Theorem C18_sensor_rank_as_coded : forall ps k r,
  key_rank ps k = Some r -> rank_in_code ps k (shorten_key ps k) = Some r.
Proof. exact rank_in_code_ok. Qed.
Print Assumptions C18_sensor_rank_as_coded.

(* ... which is the namespace-by-namespace reading of the property: the sensor n is the mutable key <p><n> of the
   FIRST namespace p of the view that has one (immutable keys are passed over), absent if none has - for every
   store with distinct keys, every view and every name that is not aliased (see [canonical]) *)
Theorem C18_sensor_eq_spec : forall ps st n, n <> ""%string -> NoDup (map e_key st) -> canonical ps st n ->
  sensor_key ps st n = spec_sensor st ps n.
Proof. exact sensor_eq_spec. Qed.
Print Assumptions C18_sensor_eq_spec.

(* the order in which telstate.keys() lists the keys is immaterial *)
Theorem C18_sensor_order_independent : forall ps st st' n, n <> ""%string -> Permutation st st' ->
  sensor_key ps st n = sensor_key ps st' n.
Proof. exact sensor_order_independent. Qed.
Print Assumptions C18_sensor_order_independent.

(* the sensor NAMES of the data set: exactly the non-empty shortened names of the mutable keys; an immutable key, a
   key that equals a prefix and a key under no prefix of the view never appear *)
Theorem C18_sensor_names : forall ps st n,
  In n (sensor_names ps st) <-> n <> ""%string /\ exists e, In e st /\ owns ps n e = true.
Proof. exact sensor_names_iff. Qed.
Print Assumptions C18_sensor_names.

(* F-C18x-1 (repaired in the katdal worktree): the type of a key used to be asked of the view, which resolves the
   full key through its prefixes again - witnesses on which that loop dropped a sensor the property demands *)
Theorem C18_sensor_type_refuted_before_fix :
  let ps := spec_prefixes "cb" ["s"] in
  let st := [mkEntry "cb_s_foo" false 1; mkEntry "s_foo" true 2] in
  spec_sensor st ps "foo" = Some "s_foo"%string /\ sensor_key_viewtyped ps st "foo" = None
  /\ sensor_key ps st "foo" = Some "s_foo"%string
  /\ sensor_key_viewtyped ["cb_s_"; "cb_"; "s_"]%string [mkEntry "s_foo" true 2] "foo" = None
  /\ sensor_key ["cb_s_"; "cb_"; "s_"]%string [mkEntry "s_foo" true 2] "foo" = Some "s_foo"%string.
Proof. exact sensor_type_refuted_before_fix. Qed.
Print Assumptions C18_sensor_type_refuted_before_fix.

(* before the repair the LAST key in key order won, so a less specific namespace could win (F6, fixed):
   the witness on which the old table and the new one differ *)
Theorem C18_sensor_refuted_before_fix :
  exists ps st n, spec_sensor st ps n = Some "cb_base_foo"%string
                  /\ tbl_get (sensor_table_unranked ps st) n = Some "cb_foo"%string
                  /\ sensor_key ps st n = Some "cb_base_foo"%string.
Proof. exact sensor_refuted_before_fix. Qed.
Print Assumptions C18_sensor_refuted_before_fix.

Theorem C18_id_precedence : forall kw url file,
  (forall k, kw = Some k -> k <> ""%string -> resolve_id kw url file = Some k) /\
  (forall u, kw = None -> url = Some u -> u <> ""%string -> resolve_id kw url file = Some u) /\
  (kw = None -> url = None -> resolve_id kw url file = file) /\
  (kw = Some ""%string -> resolve_id kw url file = file) /\
  (kw = None -> url = Some ""%string -> resolve_id kw url file = file).
Proof. exact id_precedence. Qed.
Print Assumptions C18_id_precedence.

Theorem C18_wrong_type_refused : forall ty, check_stream_type ty = true <-> ty = Some "sdp.vis"%string.
Proof. exact wrong_type_refused. Qed.
Print Assumptions C18_wrong_type_refused.

(* flags upgrade, for every archived list: streams that are not sdp.flags streams of the opened stream are
   ignored; the FIRST defective one (incompatible channel/baseline shape = 1 ValueError; no sources / no chunk info
   = 2 KeyError) is the error; otherwise the LAST one replaces the flags; none = own flags *)
Theorem C18_flags_upgrade_rule : forall stream archived cur,
  upgrade_flags stream cur archived =
  let ss := statuses stream (c_rest cur) archived in
  match find is_err ss with
  | Some r => r
  | None => match rev ss with r :: _ => r | [] => Ok cur end
  end.
Proof. exact flags_upgrade_rule. Qed.
Print Assumptions C18_flags_upgrade_rule.

(* which archived streams count: type sdp.flags AND the opened stream among the sources *)
Theorem C18_flag_source_iff : forall stream f,
  is_flag_source stream f = true <-> f_type f = Some "sdp.flags"%string /\ exists l, f_src f = Some l /\ In stream l.
Proof. exact flag_source_iff. Qed.
Print Assumptions C18_flag_source_iff.

Theorem C18_flag_candidate_ignored_iff : forall stream rest f,
  candidate_status stream rest f = None <->
  f_type f <> Some "sdp.flags"%string \/ exists l, f_src f = Some l /\ ~ In stream l.
Proof. exact candidate_ignored_iff. Qed.
Print Assumptions C18_flag_candidate_ignored_iff.

(* what must NOT change *)
Theorem C18_flags_ignore_other_streams : forall stream cur archived,
  (forall f, In f archived -> candidate_status stream (c_rest cur) f = None) ->
  upgrade_flags stream cur archived = Ok cur.
Proof. exact upgrade_ignores_others. Qed.
Print Assumptions C18_flags_ignore_other_streams.

Theorem C18_flags_keep_shape : forall stream archived cur c,
  upgrade_flags stream cur archived = Ok c -> c_rest c = c_rest cur.
Proof. exact upgrade_keeps_shape. Qed.
Print Assumptions C18_flags_keep_shape.

Theorem C18_flags_errors : forall stream archived cur e,
  upgrade_flags stream cur archived = Err e -> e = 1%Z \/ e = 2%Z.
Proof. exact upgrade_err. Qed.
Print Assumptions C18_flags_errors.

(* differing dump counts: every array is extended to the longest one by one-dump phantom chunks appended
   after its own (unaltered) chunks *)
Theorem C18_align_spans_longer : forall arrays a, In a arrays ->
  let maxd := zmax_list (map dumps_of arrays) in
  dumps_of (align_one maxd a) = maxd /\
  exists k, align_one maxd a = a ++ repeat 1%Z k /\ Z.of_nat k = (maxd - dumps_of a)%Z.
Proof. exact align_spans_longer. Qed.
Print Assumptions C18_align_spans_longer.

(* HOWEVER the data set is opened - with a chunk store (s = true) or as metadata only, upgrade_flags given or
   defaulted (u), timestamps synthesised (t = None) or given - the same flag streams are consulted: an incompatible
   one is an error, and the number of dumps (of the data, and of the synthesised timestamps) is the larger of the
   opened stream's and of the flag stream that replaces its flags.  The only combination excluded is a source
   with neither data nor synthesised timestamps (s = false, t = Some k), which derives nothing from the streams
   (next theorem). *)
Theorem C18_span_however_opened : forall u stream cur archived, (0 <= c_dumps cur)%Z ->
  forall s t, s = true \/ t = None ->
  open_source (mkMode s u t) stream cur archived =
  match (if match u with Some b => b | None => ds_upgrade_default end
         then spec_upgrade stream cur archived else Ok cur) with
  | Err e => Err e
  | Ok c => let n := Z.max (c_dumps cur) (c_dumps c) in
            Ok (mkOpened (match t with Some k => k | None => n end) (if s then Some (n, c_id c, c_from c) else None))
  end.
Proof. exact span_however_opened. Qed.
Print Assumptions C18_span_however_opened.

Theorem C18_meta_explicit_ignores_streams : forall u k stream cur archived,
  open_source (mkMode false u (Some k)) stream cur archived = Ok (mkOpened k None).
Proof. exact meta_explicit_ignores_streams. Qed.
Print Assumptions C18_meta_explicit_ignores_streams.

(* the whole path (from_url / katdal.open): ids resolved keyword > URL query > file, view of the opened stream,
   stream type check, own chunk info, candidates named by sdp_archived_streams each read through ITS view stacked
   on the L0 view, upgrade, alignment - equals the same path computed with the spec prefix order, the spec upgrade
   rule and the spec span, for every telstate content (dump counts non-negative) *)
Theorem C18_open_refines_spec : forall m st vals kwcb urlcb kwsn urlsn, dumps_nonneg vals ->
  open_url m st vals kwcb urlcb kwsn urlsn = spec_open_url m st vals kwcb urlcb kwsn urlsn.
Proof. exact open_url_spec. Qed.
Print Assumptions C18_open_refines_spec.

(* EVERY entry point (from_url, open_data_source, katdal.open of a '*.rdb' name or of a URL): the scheme dispatch,
   the handler around load_from_file and the re-raise of open_data_source, as generated from the source, give: a
   file that cannot be read (OSError) or parsed (RdbParseError) and an unknown scheme are DataSourceNotFound (5);
   a readable file is opened exactly as spec_open_url says *)
Theorem C18_entry_points_refine_spec : forall h scheme l m st vals kwcb urlcb kwsn urlsn, dumps_nonneg vals ->
  open_how h scheme l m st vals kwcb urlcb kwsn urlsn = spec_open_how h scheme l m st vals kwcb urlcb kwsn urlsn.
Proof. exact open_how_spec. Qed.
Print Assumptions C18_entry_points_refine_spec.

Theorem C18_unreadable_not_found : forall h l m st vals kwcb urlcb kwsn urlsn,
  (l = Raises "OSError" \/ l = Raises "RdbParseError") ->
  (forall e s, h = HOpen e s -> (e || s)%bool = true) ->
  open_how h "file" l m st vals kwcb urlcb kwsn urlsn = Err 5.
Proof. exact unreadable_not_found. Qed.
Print Assumptions C18_unreadable_not_found.

Theorem C18_unknown_scheme_not_found : forall h scheme l m st vals kwcb urlcb kwsn urlsn,
  ~ In scheme ["file"; "redis"; "http"; "https"]%string ->
  (forall e s, h = HOpen e s -> (e || s)%bool = true) ->
  open_how h scheme l m st vals kwcb urlcb kwsn urlsn = Err 5.
Proof. exact unknown_scheme_not_found. Qed.
Print Assumptions C18_unknown_scheme_not_found.

(* what must NOT change: a readable source is never "not found" - its own errors (wrong stream type, missing ids,
   incompatible flags) keep their class - and the outer entry points add nothing to from_url *)
Theorem C18_readable_never_not_found : forall h m st vals kwcb urlcb kwsn urlsn,
  (forall e s, h = HOpen e s -> (e || s)%bool = true) ->
  open_how h "file" Loaded m st vals kwcb urlcb kwsn urlsn = open_url m st vals kwcb urlcb kwsn urlsn
  /\ open_how h "file" Loaded m st vals kwcb urlcb kwsn urlsn <> Err 5.
Proof. exact readable_never_not_found. Qed.
Print Assumptions C18_readable_never_not_found.

(* visdatav4._relative_view (attributes of a cal / other stream "relative to every L0 namespace"): the prefixes
   are <p><name>_ for the prefixes p of the view IN THE SAME ORDER, and nothing else (exclusive) ... *)
Theorem C18_relative_view_order : forall ps name, ps <> [] ->
  relative_view ps name = Some (map (fun p => ((p ++ name) ++ sep)%string) ps).
Proof. exact relative_view_order. Qed.
Print Assumptions C18_relative_view_order.

(* ... so attribute k of that stream is attribute <name>_k as seen through the view of the opened stream: taken
   from the most specific namespace that defines it (C18_attr_most_specific applies) *)
Theorem C18_relative_lookup : forall st name k ps,
  lookup st (spec_relative_view ps name) k = lookup st ps (name ++ sep ++ k)%string.
Proof. exact relative_lookup. Qed.
Print Assumptions C18_relative_lookup.

(* "unless disabled": with upgrade_flags=False the archived streams are not looked at at all - no error even for an
   incompatible one, the stream's own flags and its own number of dumps, in every way of opening that reads them *)
Theorem C18_upgrade_disabled_keeps_own_flags : forall s t stream cur archived, (0 <= c_dumps cur)%Z -> s = true \/ t = None ->
  open_source (mkMode s (Some false) t) stream cur archived =
  Ok (mkOpened (match t with Some k => k | None => c_dumps cur end)
               (if s then Some (c_dumps cur, c_id cur, c_from cur) else None)).
Proof. exact upgrade_disabled. Qed.
Print Assumptions C18_upgrade_disabled_keeps_own_flags.

(* laws: the archived list composes piecewise; stacked views fall back; aligning is idempotent *)
Theorem C18_upgrade_composes : forall stream a b cur,
  upgrade_flags stream cur (a ++ b) =
  match upgrade_flags stream cur a with Ok c => upgrade_flags stream c b | Err e => Err e end.
Proof. exact upgrade_composes. Qed.
Print Assumptions C18_upgrade_composes.

Theorem C18_view_stacking_falls_back : forall st k ps1 ps2,
  lookup st (ps1 ++ ps2) k = match lookup st ps1 k with Some v => Some v | None => lookup st ps2 k end.
Proof. exact lookup_app. Qed.
Print Assumptions C18_view_stacking_falls_back.

Theorem C18_align_idempotent : forall arrays, align_chunk_info (align_chunk_info arrays) = align_chunk_info arrays.
Proof. exact align_idempotent. Qed.
Print Assumptions C18_align_idempotent.

(* ================= chunk infos with ALL their arrays (Model/TelstateArrays.v) =================
   Every array of a chunk info has its own shape, time chunks and prefix; uci_lo / uci_hi / uci_refuses (which part of
   the shapes _upgrade_chunk_info compares, and how), al_extends / al_phantom (_align_chunk_info) are GENERATED. *)

(* the part of a shape that must agree is everything after the dump axis: shape[1:] *)
Theorem C18_shape_compared_part : forall n r, shape_key (n :: r) = r.
Proof. exact shape_key_cons. Qed.
Print Assumptions C18_shape_compared_part.

(* "an incompatible channel or baseline shape is an error", PER AXIS: an offered array that differs from the array it
   would replace on the channel axis (i = 1), on the baseline axis (i = 2), on any further axis or in the number of
   axes is refused with ValueError (Err 1) - wherever it stands in the offered chunk info *)
Theorem C18_shape_axis_refused : forall imp d k a o i, NoDup (dkeys imp) -> In (k, a) imp -> dget d k = Some o ->
  (1 <= i)%nat -> nth_error (a_shape a) i <> nth_error (a_shape o) i -> upgrade_chunk_info d imp = Err 1.
Proof. exact uci_axis_refused. Qed.
Print Assumptions C18_shape_axis_refused.

(* ... and ONLY then: the offered chunk info is accepted iff each of its arrays that has a counterpart agrees with
   it on every axis but the dump axis (a different number of dumps is never an error; a new array is always accepted) *)
Theorem C18_shape_accepted_iff : forall imp, NoDup (dkeys imp) -> forall d,
  (exists d', upgrade_chunk_info d imp = Ok d') <->
  (forall k a o, In (k, a) imp -> dget d k = Some o -> shape_key (a_shape a) = shape_key (a_shape o)).
Proof. exact uci_ok_iff. Qed.
Print Assumptions C18_shape_accepted_iff.

(* the result array by array: an offered array replaces its counterpart (or is added), every other array is the
   original one, untouched *)
Theorem C18_upgrade_chunk_info_per_array : forall imp, NoDup (dkeys imp) -> forall d d', upgrade_chunk_info d imp = Ok d' ->
  forall k, dget d' k = match dget imp k with Some a => Some a | None => dget d k end.
Proof. exact uci_get. Qed.
Print Assumptions C18_upgrade_chunk_info_per_array.

(* the keys of the original stay first and in their order *)
Theorem C18_upgrade_chunk_info_keys : forall imp d d', upgrade_chunk_info d imp = Ok d' ->
  exists extra, dkeys d' = dkeys d ++ extra.
Proof. exact uci_keys_prefix. Qed.
Print Assumptions C18_upgrade_chunk_info_keys.

(* _ensure_prefix_is_set: an array without 'prefix' takes the chunk name of the view it was read through, one
   with a prefix keeps it; KeyError (2) exactly when an array needs a chunk name and the view has none *)
Theorem C18_prefix_completed : forall name d d', ensure_prefix name d = Ok d' ->
  d' = map (fun p => (fst p, with_name name (snd p))) d /\ forall k a, In (k, a) d' -> a_prefix a <> None.
Proof. exact ensure_prefix_ok. Qed.
Print Assumptions C18_prefix_completed.

Theorem C18_prefix_missing_iff : forall name d, (exists e, ensure_prefix name d = Err e) <->
  name = None /\ exists k a, In (k, a) d /\ a_prefix a = None.
Proof. exact ensure_prefix_err. Qed.
Print Assumptions C18_prefix_missing_iff.

(* the loop of _upgrade_flags over whole chunk infos: only errors 1 (ValueError) and 2 (KeyError) *)
Theorem C18_arrays_errors : forall stream archived cur e, upgrade_flags_A stream cur archived = Err e -> e = 1%Z \/ e = 2%Z.
Proof. exact upgradeA_err. Qed.
Print Assumptions C18_arrays_errors.

(* what must NOT change: whatever the archived streams are, every array of the opened stream is still there with its
   channel / baseline shape; an array that no flags stream of the opened stream offers is the stream's own *)
Theorem C18_arrays_keep_shape : forall stream archived cur d', upgrade_flags_A stream cur archived = Ok d' ->
  forall k o, dget cur k = Some o -> exists a, dget d' k = Some a /\ shape_key (a_shape a) = shape_key (a_shape o).
Proof. exact upgradeA_keeps. Qed.
Print Assumptions C18_arrays_keep_shape.

Theorem C18_arrays_untouched : forall stream k archived cur d', upgrade_flags_A stream cur archived = Ok d' ->
  (forall f i, In f archived -> is_flag_sourceA stream f = true -> fa_info f = Some i -> ~ In k (dkeys i)) ->
  dget d' k = dget cur k.
Proof. exact upgradeA_untouched. Qed.
Print Assumptions C18_arrays_untouched.

(* the LAST flags stream of the opened stream wins, array by array; the archived list composes piecewise *)
Theorem C18_arrays_last_wins : forall stream archived f i i' cur c k a,
  is_flag_sourceA stream f = true -> fa_info f = Some i -> ensure_prefix (fa_name f) i = Ok i' -> NoDup (dkeys i') ->
  upgrade_flags_A stream cur (archived ++ [f]) = Ok c -> dget i' k = Some a -> dget c k = Some a.
Proof. exact upgradeA_last_wins. Qed.
Print Assumptions C18_arrays_last_wins.

Theorem C18_arrays_compose : forall stream a b cur,
  upgrade_flags_A stream cur (a ++ b) =
  match upgrade_flags_A stream cur a with Ok c => upgrade_flags_A stream c b | Err e => Err e end.
Proof. exact upgradeA_composes. Qed.
Print Assumptions C18_arrays_compose.

(* the abstraction of Model.Telstate (a chunk info = its flags array) is SOUND: when the archived streams hold at most
   a flags array, the upgrade of the whole chunk info seen through its flags array is upgrade_flags (errors included) *)
Theorem C18_flags_abstraction_sound : forall stream archived cur c0,
  forallb only_flags archived = true -> cinfo_of cur = Some c0 ->
  match upgrade_flags_A stream cur archived with
  | Ok d => option_map Ok (cinfo_of d) = Some (upgrade_flags stream c0 (map fstream_of_A archived))
  | Err e => upgrade_flags stream c0 (map fstream_of_A archived) = Err e
  end.
Proof. exact upgradeA_refines. Qed.
Print Assumptions C18_flags_abstraction_sound.

(* alignment of ALL arrays: each spans the longest one, keeps its own chunks followed by one-dump phantom chunks,
   and keeps its other axes, its origin and its prefix; keys and order are kept *)
Theorem C18_arrays_aligned : forall d k a, In (k, a) d ->
  let b := align_arr (max_dumps d) a in
  In (k, b) (align_A d) /\ a_dumps b = max_dumps d /\ tl (a_shape b) = tl (a_shape a) /\ a_id b = a_id a
  /\ a_prefix b = a_prefix a
  /\ exists n, a_chunks b = a_chunks a ++ repeat 1%Z n /\ Z.of_nat n = (max_dumps d - a_dumps a)%Z.
Proof. exact alignA_spec. Qed.
Print Assumptions C18_arrays_aligned.

Theorem C18_arrays_aligned_keys : forall d, dkeys (align_A d) = dkeys d.
Proof. exact alignA_keys. Qed.
Print Assumptions C18_arrays_aligned_keys.

(* the data set spans the longest array of the (upgraded) chunk info: every array AND the synthesised timestamps *)
Theorem C18_span_all_arrays : forall up stream own name archived d, prepare up stream own name archived = Ok d ->
  exists c, d = align_A c /\
  (forall k a, dget d k = Some a -> a_dumps a = max_dumps c) /\
  (forall n, n_timestamps d = Some n -> n = max_dumps c).
Proof. exact prepare_span. Qed.
Print Assumptions C18_span_all_arrays.

Theorem C18_prepare_errors : forall up stream own name archived e,
  prepare up stream own name archived = Err e -> e = 1%Z \/ e = 2%Z.
Proof. exact prepare_err. Qed.
Print Assumptions C18_prepare_errors.

Theorem C18_prepare_disabled_ignores_streams : forall stream own name a1 a2,
  prepare false stream own name a1 = prepare false stream own name a2.
Proof. exact prepare_disabled. Qed.
Print Assumptions C18_prepare_disabled_ignores_streams.
