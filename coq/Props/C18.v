(* C18 — Telstate stream resolution and flag-stream upgrade.  Statements only. *)
From Coq Require Import ZArith List Bool String.
From KV Require Import Base.Sx Base.Str Model.Telstate Proofs.TelstateP.
Import ListNotations.
Open Scope string_scope.
Open Scope list_scope.

(* view_capture_stream builds, for EVERY inherit chain [stream; inh1; inh2; ...], the prefixes in the order
   cb+stream, cb+inherited..., cb, stream, inherited..., global *)
Theorem C18_prefix_order : forall cb streams,
  view_capture_stream cb streams =
  map (fun s => (joinp cb s ++ sep)%string) streams ++ [(cb ++ sep)%string]
  ++ map (fun s => (s ++ sep)%string) streams ++ [""%string].
Proof. exact prefix_order. Qed.
Print Assumptions C18_prefix_order.

(* the chain is obtained by following `<stream>_inherit` until it is absent (acyclic chains; a cyclic chain
   exhausts the fuel = the real loop does not terminate: excluded) *)
Theorem C18_chain_sound : forall st names fuel s streams, chain st names fuel s = Some streams ->
  hd_error streams = Some s /\
  (forall i a b, nth_error streams i = Some a -> nth_error streams (S i) = Some b -> inherit_of st names a = Some b) /\
  (forall a, nth_error streams (List.length streams - 1) = Some a -> inherit_of st names a = None).
Proof. exact chain_sound. Qed.
Print Assumptions C18_chain_sound.

(* an attribute is taken from the FIRST namespace in that order that defines it *)
Theorem C18_attr_most_specific : forall st ps k v, lookup st ps k = Some v <->
  exists ps1 p ps2 e, ps = ps1 ++ p :: ps2 /\ (forall q, In q ps1 -> find_key st (q ++ k)%string = None)
                      /\ find_key st (p ++ k)%string = Some e /\ e_val e = v.
Proof. exact lookup_first. Qed.
Print Assumptions C18_attr_most_specific.

Theorem C18_attr_absent : forall st ps k,
  lookup st ps k = None <-> forall q, In q ps -> find_key st (q ++ k)%string = None.
Proof. exact lookup_none. Qed.
Print Assumptions C18_attr_absent.

(* Sensors: the table built by TelstateDataSource (after the repair of F6) reads sensor [n] from a key that
   defines it in the MOST SPECIFIC namespace: the chosen key is a mutable key whose shortened name is n, owned by
   the namespace of rank r, and no other namespace that defines n has a smaller rank; if no namespace defines it
   the sensor is absent.  For every store (in any key order) and every prefix list. *)
Theorem C18_sensor_most_specific : forall ps st n, n <> ""%string ->
  match rtbl_get (sensor_table ps st) n with
  | None => forall e, In e st -> owns ps n e = false
  | Some (r, k) =>
      (exists e, In e st /\ owns ps n e = true /\ e_key e = k /\ key_rank ps k = Some r) /\
      (forall e, In e st -> owns ps n e = true -> exists r', key_rank ps (e_key e) = Some r' /\ (r <= r')%nat)
  end.
Proof. exact sensor_most_specific. Qed.
Print Assumptions C18_sensor_most_specific.

(* before the repair the LAST key in key order won, so a less specific namespace could win (F6, fixed):
   the witness on which the old table and the new one differ *)
Theorem C18_sensor_refuted_before_fix :
  exists ps st n, spec_sensor st ps n = Some "cb_base_foo"%string
                  /\ tbl_get (sensor_table_unranked ps st) n = Some "cb_foo"%string
                  /\ sensor_key ps st n = Some "cb_base_foo"%string.
Proof. exact sensor_refuted_before_fix. Qed.
Print Assumptions C18_sensor_refuted_before_fix.

Theorem C18_id_precedence : forall kw url file,
  (forall k, kw = Some k -> k <> ""%string -> resolve_id kw url file = Some k) /\
  (forall u, kw = None -> url = Some u -> u <> ""%string -> resolve_id kw url file = Some u) /\
  (kw = None -> url = None -> resolve_id kw url file = file) /\
  (kw = Some ""%string -> resolve_id kw url file = file) /\
  (kw = None -> url = Some ""%string -> resolve_id kw url file = file).
Proof. exact id_precedence. Qed.
Print Assumptions C18_id_precedence.

Theorem C18_wrong_type_refused : forall ty, check_stream_type ty = true <-> ty = Some "sdp.vis"%string.
Proof. exact wrong_type_refused. Qed.
Print Assumptions C18_wrong_type_refused.

(* flags upgrade: only sdp.flags streams whose src_streams contains the opened stream count; the last such
   stream wins; any of them with a different channel/baseline shape is an error — for every archived list *)
Theorem C18_flags_upgrade_rule : forall stream archived cur,
  upgrade_flags stream cur archived = spec_upgrade stream cur archived.
Proof. exact flags_upgrade_rule. Qed.
Print Assumptions C18_flags_upgrade_rule.

(* differing dump counts: every array is extended to the longest one by one-dump phantom chunks appended
   after its own (unaltered) chunks *)
Theorem C18_align_spans_longer : forall arrays a, In a arrays ->
  let maxd := zmax_list (map dumps_of arrays) in
  dumps_of (align_one maxd a) = maxd /\
  exists k, align_one maxd a = a ++ repeat 1%Z k /\ Z.of_nat k = (maxd - dumps_of a)%Z.
Proof. exact align_spans_longer. Qed.
Print Assumptions C18_align_spans_longer.
