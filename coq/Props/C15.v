(* C15 — Weights, excision and averaging are reconstructed as documented.  Only statements here.
   Models: Model/Weights.v (katdal/vis_flags_weights.py, visdatav4.py excision, h5datav3.py weights) and
   Model/Averager.v (katdal/averager.py).  Numbers: Ext := Fin q | PInf | NInf | NaN over canonical rationals with
   the IEEE rules for special values (no rounding / overflow / signed zero); the averager is over exact rationals.
   Round 2 (second half of this file): the glue around that core - Model/WeightsApi.v (_narrow, the constructor's
   options / defaults / error branches, lost chunks, preselection, the excision API of visdatav4, the weight selection
   of h5datav3) and Model/AveragerApi.v (baseline blocking, defaults) - and algebraic laws.
   Concrete instances of every hypothesis: Proofs/C15ExamplesP.v, Proofs/C15Examples2P.v. *)
From Coq Require Import ZArith QArith Qabs Qcanon Qround List Bool Arith.
From KV Require Import Base.Sx Gen.Generated Model.Interp Model.Weights Model.Averager Model.WeightsApi Model.AveragerApi.
From KV Require Import Proofs.WeightsP Proofs.WeightsBlocksP Proofs.WeightsNumP Proofs.AveragerP Proofs.C15TopP
                       Proofs.C15ExamplesP Proofs.WeightsApiP Proofs.WeightsStoreP Proofs.WeightsLawsP
                       Proofs.AveragerApiP Proofs.C15Examples2P.
From KV Require Import Model.VanVleckTable Model.AveragerFlags Proofs.VanVleckTableP Proofs.AveragerFlagsP Proofs.C15Examples3P.
Import ListNotations.
Close Scope Q_scope.
Open Scope nat_scope.

(* ================================================================== the autocorrelation lookup *)
(* For EVERY list of correlation products (autocorrelations anywhere, cross-polarisation products, repeated autos):
   if the scan succeeds, auto_indices are exactly the positions of the products (a, a), and for every product (a, b)
   at position k  auto_indices[index1[k]] / auto_indices[index2[k]] are the positions of the LAST (a, a) / (b, b). *)
Theorem auto_lookup_correct : forall cps ai i1 i2, corrprod_to_autocorr cps = Some (ai, i1, i2) ->
  ai = auto_positions cps 0 /\ List.length i1 = List.length cps /\ List.length i2 = List.length cps /\
  forall k a b, nth_error cps k = Some (a, b) ->
    exists p q, last_auto cps a = Some p /\ last_auto cps b = Some q /\
                nth_error ai (nth k i1 0) = Some p /\ nth_error ai (nth k i2 0) = Some q.
Proof. exact auto_lookup. Qed.
Print Assumptions auto_lookup_correct.

(* what "last (a, a)" means: that position holds (a, a) and no later one does *)
Theorem last_auto_is_last : forall a cps p, last_auto cps a = Some p ->
  nth_error cps p = Some (a, a) /\ forall j, p < j -> nth_error cps j <> Some (a, a).
Proof. exact top_last_auto_is_last. Qed.
Print Assumptions last_auto_is_last.

Theorem auto_positions_are_autos : forall cps p,
  In p (auto_positions cps 0) <-> exists c, nth_error cps p = Some c /\ is_auto c = true.
Proof. exact top_auto_positions_are_autos. Qed.
Print Assumptions auto_positions_are_autos.

(* a missing autocorrelation is an error (KeyError), exactly then *)
Theorem auto_lookup_missing_iff : forall cps,
  corrprod_to_autocorr cps = None <->
  exists a b, In (a, b) cps /\ (last_auto cps a = None \/ last_auto cps b = None).
Proof. exact auto_lookup_missing. Qed.
Print Assumptions auto_lookup_missing_iff.

(* ================================================================== the scaling kernel, every value *)
(* stored weights unscaled: finite non-zero autocorrelation powers x, y -> (w * wc) / (x * y) *)
Theorem C15_scaled : forall (x y : Qc) (sw : Ext), x <> 0%Qc -> y <> 0%Qc ->
  power_scale true (Fin x) (Fin y) sw = emul (Fin (/ (x * y))%Qc) sw.
Proof. exact top_C15_scaled. Qed.
Print Assumptions C15_scaled.

Theorem C15_scaled_finite_weights : forall (x y w wc : Qc), x <> 0%Qc -> y <> 0%Qc ->
  power_scale true (Fin x) (Fin y) (emul (Fin w) (Fin wc)) = Fin (w * wc / (x * y))%Qc.
Proof. exact top_C15_scaled_finite_weights. Qed.
Print Assumptions C15_scaled_finite_weights.

(* stored weights scaled: the product is multiplied back (zero powers included) *)
Theorem C15_unscaled : forall (x y : Qc) (sw : Ext),
  power_scale false (Fin x) (Fin y) sw = emul (Fin (x * y)%Qc) sw.
Proof. exact top_C15_unscaled. Qed.
Print Assumptions C15_unscaled.

(* the substituted constant (regenerated from the source) is tiny and positive *)
Theorem bad_weight_is_tiny_positive : (0 < bad_weight)%Qc /\ (bad_weight <= Q2Qc (1 # 1073741824))%Qc.
Proof. exact bad_weight_tiny_positive. Qed.
Print Assumptions bad_weight_is_tiny_positive.

(* FULL STRENGTH (holds for the repaired kernel, finding F9): an autocorrelation that is zero or not finite
   (NaN, +inf, -inf), on either side -> the tiny weight times the stored weight *)
Theorem bad_weight_when_zero_or_nonfinite : forall a1 a2 sw, bad_auto a1 \/ bad_auto a2 ->
  power_scale true a1 a2 sw = emul (Fin bad_weight) sw.
Proof. exact top_bad_weight_when_zero_or_nonfinite. Qed.
Print Assumptions bad_weight_when_zero_or_nonfinite.

(* the kernel WITHOUT the repair (as pinned): +-inf gives weight 0 — refuted; zero and NaN were handled *)
Theorem bad_weight_unguarded_refuted :
  exists a1 a2 w, bad_auto a1 /\ power_scale_gen false true a1 a2 w = Fin 0 /\ emul (Fin bad_weight) w <> Fin 0.
Proof. exact bad_weight_div_unguarded_refuted. Qed.
Print Assumptions bad_weight_unguarded_refuted.
Theorem bad_weight_unguarded_partial : forall a1 a2 w,
  (a1 = Fin 0 \/ a1 = NaN) \/ (a2 = Fin 0 \/ a2 = NaN) ->
  power_scale_gen false true a1 a2 w = emul (Fin bad_weight) w.
Proof. exact bad_weight_div_unguarded_partial. Qed.
Print Assumptions bad_weight_unguarded_partial.

(* multiplying back with a non-finite autocorrelation: the tiny weight as well *)
Theorem C15_unscaled_nonfinite : forall a1 a2 sw, isfinite a1 = false \/ isfinite a2 = false ->
  power_scale false a1 a2 sw = emul (Fin bad_weight) sw.
Proof. exact top_C15_unscaled_nonfinite. Qed.
Print Assumptions C15_unscaled_nonfinite.

(* the sign of a zero autocorrelation (1/+0 = +inf, 1/-0 = -inf) cannot change the weight *)
Theorem zero_sign_irrelevant : forall s w,
  finish_scale PInf s w = finish_scale NInf s w /\ finish_scale s PInf w = finish_scale s NInf w.
Proof. exact top_zero_sign_irrelevant. Qed.
Print Assumptions zero_sign_irrelevant.

(* ================================================================== the whole v4 pipeline, every chunking *)
(* For every corrprod list with all autocorrelations present, both scaling declarations, Van Vleck on or off,
   every chunking of the dump, channel and BASELINE axes of the visibilities and of the weights: the arrays built
   block by block (rechunk of the baseline axis, kernel per block, assembly) are, at every coordinate,
     vis       = stored, except autocorrelations = (table lookup of the real part, 0) when Van Vleck is on
     weights   = w*wc                      (scaled declaration)   | w*wc * scale_div(a1, a2)   (unscaled declaration)
     unscaled  = w*wc * scale_mul(a1, a2)  (scaled declaration)   | w*wc                       (unscaled declaration)
   where a1, a2 are the real parts of the (corrected) visibilities at the LAST (a, a) and (b, b) of the same dump and
   channel, scale_div = 1/(a1 a2) for finite non-zero powers and the tiny constant otherwise, scale_mul = a1 a2 for
   finite powers and the tiny constant otherwise. *)
Theorem C15_weights : forall cps scaled vv vis bchv w bchw wc tch fch T F,
  shape3 vis T F (List.length cps) -> shape3 w T F (List.length cps) -> shape2 wc T F ->
  Weights.total tch = T -> Weights.total fch = F ->
  Weights.total bchv = List.length cps -> Weights.total bchw = List.length cps ->
  has_autos cps ->
  exists r, vis_flags_weights cps scaled vv vis bchv w bchw wc tch fch = Some r /\
    forall t f b, t < T -> f < F -> b < List.length cps ->
      let a1 := auto_re cps (v_vis r) t f (fst (cp_at cps b)) in
      let a2 := auto_re cps (v_vis r) t f (snd (cp_at cps b)) in
      Weights.get3 (v_vis r) cx_nan t f b = vv_vis vv cps vis t f b /\
      Weights.get3 (v_weights r) NaN t f b =
        spec_weight scaled a1 a2 (Weights.get3 w NaN t f b) (nth f (nth t wc []) NaN) /\
      Weights.get3 (v_unscaled r) NaN t f b =
        spec_unscaled scaled a1 a2 (Weights.get3 w NaN t f b) (nth f (nth t wc []) NaN).
Proof. exact vis_flags_weights_pointwise. Qed.
Print Assumptions C15_weights.

Theorem C15_missing_auto_is_error : forall cps scaled vv vis bchv w bchw wc tch fch,
  ~ has_autos cps -> vis_flags_weights cps scaled vv vis bchv w bchw wc tch fch = None.
Proof. exact vis_flags_weights_missing. Qed.
Print Assumptions C15_missing_auto_is_error.

(* baseline_chunk_independent: any two chunkings (all axes, both arrays) give the same scaled weights *)
Theorem baseline_chunk_independent : forall divide cps vis w T F bchv bchw tch fch bchv' bchw' tch' fch' r r',
  shape3 vis T F (List.length cps) -> shape3 w T F (List.length cps) ->
  Weights.total tch = T -> Weights.total fch = F ->
  Weights.total bchv = List.length cps -> Weights.total bchw = List.length cps ->
  Weights.total tch' = T -> Weights.total fch' = F ->
  Weights.total bchv' = List.length cps -> Weights.total bchw' = List.length cps ->
  scale_weights divide cps vis bchv w bchw tch fch = Some r ->
  scale_weights divide cps vis bchv' w bchw' tch' fch' = Some r' ->
  forall t f k, t < T -> f < F -> k < List.length cps -> Weights.get3 r NaN t f k = Weights.get3 r' NaN t f k.
Proof. exact scale_weights_chunk_independent. Qed.
Print Assumptions baseline_chunk_independent.

(* rechunking the baseline axis to one chunk reassembles the stored cell, whatever the stored chunking *)
Theorem rechunk_baseline_identity : forall (bch : list nat) (cell : list Ext),
  Weights.total bch = List.length cell -> rechunk_b bch cell = cell.
Proof. exact top_rechunk_baseline_identity. Qed.
Print Assumptions rechunk_baseline_identity.

(* ================================================================== Van Vleck *)
(* only the products (a, a) change; they become (lookup of the real part, 0) *)
Theorem vanvleck_only_real_autos : forall table cps vis bchv tch fch T F,
  shape3 vis T F (List.length cps) -> Weights.total tch = T -> Weights.total fch = F ->
  Weights.total bchv = List.length cps -> has_autos cps ->
  exists r, correct_autocorr table cps vis bchv tch fch = Some r /\ shape3 r T F (List.length cps) /\
    forall t f b, t < T -> f < F -> b < List.length cps ->
      (is_auto (cp_at cps b) = false -> Weights.get3 r cx_nan t f b = Weights.get3 vis cx_nan t f b) /\
      (is_auto (cp_at cps b) = true ->
         Weights.get3 r cx_nan t f b = (vv_interp table (fst (Weights.get3 vis cx_nan t f b)), Fin 0)).
Proof. exact top_vanvleck_only_real_autos. Qed.
Print Assumptions vanvleck_only_real_autos.

(* monotone, given a table with increasing abscissae and non-decreasing ordinates (checked numerically for the
   MeerKAT table by the harness); NaN stays NaN, -inf / +inf map to the ends of the table *)
Theorem vanvleck_monotone : forall table x y, strictly_inc table -> nondec_y table ->
  ele x y -> ele (vv_interp table x) (vv_interp table y).
Proof. exact vv_interp_mono. Qed.
Print Assumptions vanvleck_monotone.

Theorem vanvleck_finite_monotone : forall table (x x' : Q), strictly_inc table -> nondec_y table -> (x <= x')%Q ->
  (interp_d table x <= interp_d table x')%Q.
Proof. exact interp_d_mono. Qed.
Print Assumptions vanvleck_finite_monotone.

(* ================================================================== excision *)
(* excision = 1 - (weight rounded to a whole number of correlator dumps, in accumulations) / accumulations per dump,
   for every finite unscaled weight, n_accs > 0 accumulations per correlator dump, k > 0 correlator dumps per dump *)
Theorem excision_formula : forall n k (w : Qc), (0 < n)%Z -> (0 < k)%Z ->
  excision n k (Fin w) = Fin (spec_excision n k w).
Proof. exact excision_finite. Qed.
Print Assumptions excision_formula.

(* the rounding: to a nearest whole number, half-way cases to the even one (numpy / Python round) *)
Theorem excision_rounding : forall q : Q,
  (Qabs (q - inject_Z (rheQ q)) <= 1 # 2)%Q /\
  ((q - inject_Z (Qfloor q) == 1 # 2)%Q -> Z.even (rheQ q) = true).
Proof. exact top_excision_rounding. Qed.
Print Assumptions excision_rounding.

Theorem excision_in_unit_interval : forall n k (w : Qc), (0 < n)%Z -> (0 < k)%Z ->
  (0 <= w)%Qc -> (w <= ZQc (accs_per_dump n k))%Qc ->
  (0 <= spec_excision n k w)%Qc /\ (spec_excision n k w <= 1)%Qc.
Proof. exact excision_range. Qed.
Print Assumptions excision_in_unit_interval.

Theorem excision_of_nonfinite_weights : forall n k, (0 < n)%Z -> (0 < k)%Z ->
  excision n k NaN = NaN /\ excision n k PInf = NInf /\ excision n k NInf = PInf.
Proof. exact excision_nonfinite. Qed.
Print Assumptions excision_of_nonfinite_weights.

(* accumulations per dump = n_accs * (dump period / correlator dump period) when that ratio is whole *)
Theorem correlator_dumps_per_dump : forall (cdp : Qc) m, cdp <> 0%Qc -> cbf_dumps (ZQc m * cdp)%Qc cdp = m.
Proof. exact cbf_dumps_whole. Qed.
Print Assumptions correlator_dumps_per_dump.

(* ================================================================== HDF5 v3 *)
Theorem v3_weights : forall w wc,
  v3_weight true true true w wc = emul w wc /\
  v3_weight true false true w wc = wc /\ v3_weight true true false w wc = w /\ v3_weight true false false w wc = Fin 1.
Proof. exact top_v3_weights. Qed.
Print Assumptions v3_weights.

Theorem v3_weights_unselected : forall hw hwc w wc, v3_weight false hw hwc w wc = Fin 1.
Proof. exact v3_unselected. Qed.
Print Assumptions v3_weights_unselected.

(* ================================================================== averaging *)
(* For ALL array sizes, averaging factors and flag patterns: when the call succeeds the result has
   T/ta x F/ca x B cells (ta, ca the effective factors: which one is clamped to the array size is regenerated from
   the source) and cell (i, j, b) is spec_bin of the samples of product b at the positions of bin (i, j). *)
Theorem avg_bins : forall a T F B timeav chanav flagav r,
  average a T F B timeav chanav flagav = Some r ->
  let ta := time_factor timeav T in
  let ca := chan_factor chanav F in
  List.length r = T / ta /\
  (forall i, i < T / ta -> List.length (nth i r []) = F / ca) /\
  (forall i j, i < T / ta -> j < F / ca -> List.length (nth j (nth i r []) []) = B) /\
  forall i j b, i < T / ta -> j < F / ca -> b < B ->
    Averager.get3 r sample0 i j b =
    spec_bin flagav (map (fun tc => Averager.get3 a sample0 (fst tc) (snd tc) b) (bin_positions ta ca i j)).
Proof. exact average_spec. Qed.
Print Assumptions avg_bins.

(* the positions of bin (i, j): ta consecutive dumps from i*ta, ca consecutive channels from j*ca, each once *)
Theorem avg_bin_positions : forall ta ca i j,
  (forall t c, In (t, c) (bin_positions ta ca i j) <-> i * ta <= t < i * ta + ta /\ j * ca <= c < j * ca + ca) /\
  NoDup (bin_positions ta ca i j) /\ List.length (bin_positions ta ca i j) = ta * ca.
Proof. exact top_avg_bin_positions. Qed.
Print Assumptions avg_bin_positions.

(* = the stored positions whose dump index / ta is i and whose channel index / ca is j *)
Theorem avg_bin_is_quotient_class : forall T F ta ca i j, ta <> 0 -> ca <> 0 -> i < T / ta -> j < F / ca ->
  filter (fun tc => Nat.eqb (fst tc / ta) i && Nat.eqb (snd tc / ca) j) (list_prod (seq 0 T) (seq 0 F)) =
  bin_positions ta ca i j.
Proof. exact bin_positions_filter. Qed.
Print Assumptions avg_bin_is_quotient_class.

(* avg_weight_sum: the summed weights of the unflagged samples *)
Theorem avg_weight_sum : forall flagav l, s_w (spec_bin flagav l) = qsum (map s_w (unflagged l)).
Proof. exact spec_bin_weight. Qed.
Print Assumptions avg_weight_sum.

(* avg_weighted_mean: sum of w*v over the unflagged samples / sum of their weights (when that is not zero) *)
Theorem avg_weighted_mean : forall flagav l, qsum (map s_w (unflagged l)) <> 0%Qc ->
  s_vis (spec_bin flagav l) =
  cdivq (csum (map (fun s => cscale (s_w s) (s_vis s)) (unflagged l))) (qsum (map s_w (unflagged l))).
Proof. exact spec_bin_mean. Qed.
Print Assumptions avg_weighted_mean.

(* everything flagged (or the unflagged weights sum to zero): the unweighted mean of ALL samples of the bin *)
Theorem avg_fallback_unweighted_mean : forall flagav l, qsum (map s_w (unflagged l)) = 0%Qc ->
  s_vis (spec_bin flagav l) = cscale (inv_count (List.length l)) (csum (map s_vis l)).
Proof. exact spec_bin_fallback. Qed.
Print Assumptions avg_fallback_unweighted_mean.
Theorem avg_all_flagged_weight_zero : forall l, forallb s_flag l = true -> qsum (map s_w (unflagged l)) = 0%Qc.
Proof. exact all_flagged_no_weight. Qed.
Print Assumptions avg_all_flagged_weight_zero.

(* avg_flags_and_or: AND of the flags of the bin, OR with flagav *)
Theorem avg_flags_and_or : forall flagav l,
  s_flag (spec_bin flagav l) = if flagav then existsb s_flag l else forallb s_flag l.
Proof. exact spec_bin_flag. Qed.
Print Assumptions avg_flags_and_or.

(* avg_trim: the positions of every bin lie inside the whole bins, and two inputs that agree there average alike *)
Theorem avg_trim : forall a a' T F B timeav chanav flagav r r',
  average a T F B timeav chanav flagav = Some r -> average a' T F B timeav chanav flagav = Some r' ->
  let ta := time_factor timeav T in
  let ca := chan_factor chanav F in
  (forall t c b, t < T / ta * ta -> c < F / ca * ca -> b < B ->
     Averager.get3 a sample0 t c b = Averager.get3 a' sample0 t c b) ->
  forall i j b, i < T / ta -> j < F / ca -> b < B -> Averager.get3 r sample0 i j b = Averager.get3 r' sample0 i j b.
Proof. exact average_ignores_tail. Qed.
Print Assumptions avg_trim.

(* the call fails (ZeroDivisionError) exactly when an effective factor is zero *)
Theorem avg_defined : forall a T F B timeav chanav flagav,
  average a T F B timeav chanav flagav = None <-> time_factor timeav T = 0 \/ chan_factor chanav F = 0.
Proof. exact average_defined. Qed.
Print Assumptions avg_defined.

(* ###################################################################################################### round 2 *)
(* ================================================================== the lookup arrays as returned (_narrow) *)
(* the unsigned type chosen by the regenerated if-chain holds every index: nothing wraps around *)
Theorem lookup_arrays_not_truncated : forall l : list Z, snd (narrow l) = l.
Proof. exact narrow_lossless. Qed.
Print Assumptions lookup_arrays_not_truncated.

(* ... for ANY threshold table whose rows accept only values that fit (the condition checked on the regenerated table) *)
Theorem narrow_any_sound_table : forall table eb l, forallb entry_ok table = true -> snd (narrow_gen table eb l) = l.
Proof. exact narrow_gen_lossless. Qed.
Print Assumptions narrow_any_sound_table.

Theorem lookup_dtype_is_first_fit : forall x r, (0 <= zmin_list x r)%Z ->
  fst (narrow (x :: r)) = match find (narrow_hit (zmax_list x r)) narrow_table with
                          | Some (_, _, b) => UInt b | None => KeepDtype end.
Proof. exact narrow_dtype_first. Qed.
Print Assumptions lookup_dtype_is_first_fit.

(* corrprod_to_autocorr as called: an empty product list is a ValueError (np.array([]) is not integral); a non-empty
   one gives KeyError exactly when the scan fails, else the three arrays with every value intact *)
Theorem lookup_api_empty : c2a_api [] = Err ValueError.
Proof. exact c2a_api_nil. Qed.
Print Assumptions lookup_api_empty.

Theorem lookup_api_outcomes : forall cps, cps <> [] ->
  match corrprod_to_autocorr cps with
  | None => c2a_api cps = Err KeyError
  | Some (ai, i1, i2) =>
      exists d1 d2 d3, c2a_api cps = Ok ((d1, map Z.of_nat ai), (d2, map Z.of_nat i1), (d3, map Z.of_nat i2))
  end.
Proof. exact c2a_api_spec. Qed.
Print Assumptions lookup_api_outcomes.

Theorem lookup_api_ok_iff : forall cps, (exists r, c2a_api cps = Ok r) <-> cps <> [] /\ has_autos cps.
Proof. exact c2a_api_ok_iff. Qed.
Print Assumptions lookup_api_ok_iff.

(* ================================================================== ChunkStoreVisFlagsWeights.__init__: options *)
(* a non-empty product list of the right length and van_vleck in {'off', 'autocorr'}: the constructor IS the core
   model of C15_weights (None = KeyError) *)
Theorem ctor_is_core : forall cps scaled vvo table vis bchv w bchw wc tch fch,
  cps <> [] -> vvo <> VOther ->
  vfw_api (Some cps) scaled vvo table (List.length cps) vis bchv w bchw wc tch fch =
  match vis_flags_weights cps scaled (vv_arg vvo table) vis bchv w bchw wc tch fch with
  | Some r => Ok (mkOut (v_vis r) (v_weights r) (Some (v_unscaled r)))
  | None => Err KeyError
  end.
Proof. exact vfw_api_core. Qed.
Print Assumptions ctor_is_core.

(* corrprods=None: the stored product becomes `weights`, vis untouched, there are NO unscaled weights *)
Theorem ctor_without_corrprods : forall table B vis bchv w bchw wc tch fch,
  vfw_api None true VOff table B vis bchv w bchw wc tch fch = Ok (mkOut vis (stored_weights w wc) None).
Proof. exact vfw_no_corrprods. Qed.
Print Assumptions ctor_without_corrprods.

Theorem ctor_unscaled_needs_corrprods : forall table B vis bchv w bchw wc tch fch,
  vfw_api None false VOff table B vis bchv w bchw wc tch fch = Err ValueError.
Proof. exact vfw_unscaled_without_corrprods. Qed.
Print Assumptions ctor_unscaled_needs_corrprods.

(* an unknown van_vleck string is refused before anything else is looked at *)
Theorem ctor_rejects_unknown_van_vleck : forall cps scaled table B vis bchv w bchw wc tch fch,
  vfw_api cps scaled VOther table B vis bchv w bchw wc tch fch = Err ValueError.
Proof. exact vfw_bad_van_vleck. Qed.
Print Assumptions ctor_rejects_unknown_van_vleck.

Theorem ctor_van_vleck_needs_corrprods : forall scaled table B vis bchv w bchw wc tch fch,
  vfw_api None scaled VAuto table B vis bchv w bchw wc tch fch = Err TypeError.
Proof. exact vfw_van_vleck_without_corrprods. Qed.
Print Assumptions ctor_van_vleck_needs_corrprods.

Theorem ctor_wrong_number_of_corrprods : forall cps scaled vvo table B vis bchv w bchw wc tch fch,
  List.length cps <> B -> vvo <> VOther ->
  vfw_api (Some cps) scaled vvo table B vis bchv w bchw wc tch fch = Err AssertionError.
Proof. exact vfw_wrong_length. Qed.
Print Assumptions ctor_wrong_number_of_corrprods.

Theorem ctor_empty_corrprods : forall scaled vvo table vis bchv w bchw wc tch fch,
  vvo <> VOther -> vfw_api (Some []) scaled vvo table 0 vis bchv w bchw wc tch fch = Err ValueError.
Proof. exact vfw_empty_corrprods. Qed.
Print Assumptions ctor_empty_corrprods.

(* every optional argument left out (defaults regenerated from the signature) *)
Theorem ctor_defaults : forall B vis bchv w bchw wc tch fch,
  vfw_api_default B vis bchv w bchw wc tch fch = Ok (mkOut vis (stored_weights w wc) None).
Proof. exact vfw_defaults. Qed.
Print Assumptions ctor_defaults.

(* an answer is given ONLY in these situations (everything else is one of the four exceptions) *)
Theorem ctor_answers_only_when : forall cps scaled vvo table B vis bchv w bchw wc tch fch o,
  vfw_api cps scaled vvo table B vis bchv w bchw wc tch fch = Ok o ->
  vvo <> VOther /\
  match cps with
  | None => scaled = true /\ vvo = VOff /\ o = mkOut vis (stored_weights w wc) None
  | Some c => c <> [] /\ List.length c = B /\ has_autos c /\ exists u, o_unscaled o = Some u
  end.
Proof. exact vfw_api_ok_cases. Qed.
Print Assumptions ctor_answers_only_when.

(* ================================================================== lost chunks and preselection *)
(* the chunk holding a coordinate: the one whose offset range contains it, and only that one *)
Theorem chunk_of_coordinate : forall ch x, x < Weights.total ch ->
  let i := chunk_idx ch x in
  i < List.length ch /\ Weights.total (firstn i ch) <= x < Weights.total (firstn i ch) + nth i ch 0.
Proof. exact chunk_idx_spec. Qed.
Print Assumptions chunk_of_coordinate.

Theorem chunk_of_coordinate_unique : forall ch x i, i < List.length ch ->
  Weights.total (firstn i ch) <= x < Weights.total (firstn i ch) + nth i ch 0 -> chunk_idx ch x = i.
Proof. exact chunk_idx_unique. Qed.
Print Assumptions chunk_of_coordinate_unique.

(* what the pipeline sees of the stored visibilities: the fill value (0, regenerated from _default_zero) in a lost
   chunk, the stored value elsewhere; a preselection only shifts the coordinates *)
Theorem lost_chunks_read_as_zero : forall vis tchv fchv bchv lostv p T F B,
  shape3 vis T F B -> presel_ok p T F ->
  forall t f b, t < presel_T p T -> f < presel_F p F -> b < B ->
    Weights.get3 (seen_vis vis tchv fchv bchv lostv p) cx_nan t f b =
    (let t' := presel_t0 p + t in
     let f' := presel_f0 p + f in
     if mem3 (chunk_idx tchv t', chunk_idx fchv f', chunk_idx bchv b) lostv then (Fin 0%Qc, Fin 0%Qc)
     else Weights.get3 vis cx_nan t' f' b).
Proof. exact seen_vis_get3. Qed.
Print Assumptions lost_chunks_read_as_zero.

Theorem lost_weight_chunks_read_as_zero : forall w tchw fchw bchw lostw p T F B,
  shape3 w T F B -> presel_ok p T F ->
  forall t f b, t < presel_T p T -> f < presel_F p F -> b < B ->
    Weights.get3 (seen_w w tchw fchw bchw lostw p) NaN t f b =
    (let t' := presel_t0 p + t in
     let f' := presel_f0 p + f in
     if mem3 (chunk_idx tchw t', chunk_idx fchw f', chunk_idx bchw b) lostw then Fin 0%Qc
     else Weights.get3 w NaN t' f' b).
Proof. exact seen_w_get3. Qed.
Print Assumptions lost_weight_chunks_read_as_zero.

Theorem lost_channel_weight_chunks_read_as_zero : forall wc tchc fchc lostc p T F,
  shape2 wc T F -> presel_ok p T F ->
  forall t f, t < presel_T p T -> f < presel_F p F ->
    nth f (nth t (seen_wc wc tchc fchc lostc p) []) NaN =
    (let t' := presel_t0 p + t in
     let f' := presel_f0 p + f in
     if mem2 (chunk_idx tchc t', chunk_idx fchc f') lostc then Fin 0%Qc else nth f' (nth t' wc []) NaN).
Proof. exact seen_wc_nth. Qed.
Print Assumptions lost_channel_weight_chunks_read_as_zero.

(* THE WHOLE CONSTRUCTOR ON A STORE: own chunkings of the three stored arrays, any set of lost chunks in each, an
   optional preselection, both declarations, Van Vleck on or off, any chunking of the result: at every kept
   coordinate the pointwise specification of C15_weights on the arrays described by the three theorems above *)
Theorem C15_weights_on_store : forall cps scaled vvo table vis tchv fchv bchv lostv w tchw fchw bchw lostw
                                      wc tchc fchc lostc p tch fch T F,
  cps <> [] -> has_autos cps -> vvo <> VOther ->
  shape3 vis T F (List.length cps) -> shape3 w T F (List.length cps) -> shape2 wc T F -> presel_ok p T F ->
  Weights.total tch = presel_T p T -> Weights.total fch = presel_F p F ->
  Weights.total bchv = List.length cps -> Weights.total bchw = List.length cps ->
  let sv := seen_vis vis tchv fchv bchv lostv p in
  let sw := seen_w w tchw fchw bchw lostw p in
  let sc := seen_wc wc tchc fchc lostc p in
  exists o u,
    vfw_store (Some cps) scaled vvo table (List.length cps) vis (tchv, fchv, bchv) lostv w (tchw, fchw, bchw) lostw
              wc (tchc, fchc) lostc p tch fch = Ok o /\ o_unscaled o = Some u /\
    forall t f b, t < presel_T p T -> f < presel_F p F -> b < List.length cps ->
      let a1 := auto_re cps (o_vis o) t f (fst (cp_at cps b)) in
      let a2 := auto_re cps (o_vis o) t f (snd (cp_at cps b)) in
      Weights.get3 (o_vis o) cx_nan t f b = vv_vis (vv_arg vvo table) cps sv t f b /\
      Weights.get3 (o_weights o) NaN t f b = spec_weight scaled a1 a2 (Weights.get3 sw NaN t f b) (nth f (nth t sc []) NaN) /\
      Weights.get3 u NaN t f b = spec_unscaled scaled a1 a2 (Weights.get3 sw NaN t f b) (nth f (nth t sc []) NaN).
Proof. exact vfw_store_pointwise. Qed.
Print Assumptions C15_weights_on_store.

(* unscaled stored weights: the chunk of the visibilities that holds an autocorrelation of product b is lost ->
   the tiny weight (the autocorrelation reads as zero) *)
Theorem lost_autocorrelation_gives_tiny_weight :
  forall cps table vis w wc tchv fchv bchv tchw fchw bchw tchc fchc lostv lostw lostc T F,
  cps <> [] -> has_autos cps ->
  shape3 vis T F (List.length cps) -> shape3 w T F (List.length cps) -> shape2 wc T F ->
  Weights.total bchv = List.length cps -> Weights.total bchw = List.length cps ->
  forall p tch fch, presel_ok p T F -> Weights.total tch = presel_T p T -> Weights.total fch = presel_F p F ->
  exists o,
    vfw_store (Some cps) false VOff table (List.length cps) vis (tchv, fchv, bchv) lostv w (tchw, fchw, bchw) lostw
              wc (tchc, fchc) lostc p tch fch = Ok o /\
    forall t f b a pa, t < presel_T p T -> f < presel_F p F -> b < List.length cps ->
      a = fst (cp_at cps b) \/ a = snd (cp_at cps b) -> last_auto cps a = Some pa ->
      mem3 (chunk_idx tchv (presel_t0 p + t), chunk_idx fchv (presel_f0 p + f), chunk_idx bchv pa) lostv = true ->
      Weights.get3 (o_weights o) NaN t f b =
      emul (Fin bad_weight) (emul (Weights.get3 (seen_w w tchw fchw bchw lostw p) NaN t f b)
                                  (nth f (nth t (seen_wc wc tchc fchc lostc p) []) NaN)).
Proof. exact lost_vis_chunk_tiny_weight. Qed.
Print Assumptions lost_autocorrelation_gives_tiny_weight.

(* a lost chunk of the weights: weight and unscaled weight exactly 0 there, whatever the rest is *)
Theorem lost_weights_give_zero :
  forall cps table vis w wc tchv fchv bchv tchw fchw bchw tchc fchc lostv lostw lostc T F,
  cps <> [] -> has_autos cps ->
  shape3 vis T F (List.length cps) -> shape3 w T F (List.length cps) -> shape2 wc T F ->
  Weights.total bchv = List.length cps -> Weights.total bchw = List.length cps ->
  forall scaled vvo p tch fch, vvo <> VOther -> presel_ok p T F ->
  Weights.total tch = presel_T p T -> Weights.total fch = presel_F p F ->
  exists o u,
    vfw_store (Some cps) scaled vvo table (List.length cps) vis (tchv, fchv, bchv) lostv w (tchw, fchw, bchw) lostw
              wc (tchc, fchc) lostc p tch fch = Ok o /\ o_unscaled o = Some u /\
    forall t f b (c : Qc), t < presel_T p T -> f < presel_F p F -> b < List.length cps ->
      mem3 (chunk_idx tchw (presel_t0 p + t), chunk_idx fchw (presel_f0 p + f), chunk_idx bchw b) lostw = true ->
      nth f (nth t (seen_wc wc tchc fchc lostc p) []) NaN = Fin c ->
      Weights.get3 (o_weights o) NaN t f b = Fin 0%Qc /\ Weights.get3 u NaN t f b = Fin 0%Qc.
Proof. exact lost_weights_chunk_zero. Qed.
Print Assumptions lost_weights_give_zero.

(* opening with preselect_index = (dumps t0..t0+tn, channels f0..f0+fn) gives at every kept coordinate what the
   full data set gives there - vis, weights and unscaled weights, whatever the chunkings of the two calls *)
Theorem preselection_commutes :
  forall cps table vis w wc tchv fchv bchv tchw fchw bchw tchc fchc lostv lostw lostc T F,
  cps <> [] -> has_autos cps ->
  shape3 vis T F (List.length cps) -> shape3 w T F (List.length cps) -> shape2 wc T F ->
  Weights.total bchv = List.length cps -> Weights.total bchw = List.length cps ->
  forall scaled vvo t0 tn f0 fn tch fch tch' fch', vvo <> VOther ->
  t0 + tn <= T -> f0 + fn <= F -> Weights.total tch = T -> Weights.total fch = F ->
  Weights.total tch' = tn -> Weights.total fch' = fn ->
  exists o u o' u',
    vfw_store (Some cps) scaled vvo table (List.length cps) vis (tchv, fchv, bchv) lostv w (tchw, fchw, bchw) lostw
              wc (tchc, fchc) lostc None tch fch = Ok o /\ o_unscaled o = Some u /\
    vfw_store (Some cps) scaled vvo table (List.length cps) vis (tchv, fchv, bchv) lostv w (tchw, fchw, bchw) lostw
              wc (tchc, fchc) lostc (Some (t0, tn, f0, fn)) tch' fch' = Ok o' /\ o_unscaled o' = Some u' /\
    forall t f b, t < tn -> f < fn -> b < List.length cps ->
      Weights.get3 (o_vis o') cx_nan t f b = Weights.get3 (o_vis o) cx_nan (t0 + t) (f0 + f) b /\
      Weights.get3 (o_weights o') NaN t f b = Weights.get3 (o_weights o) NaN (t0 + t) (f0 + f) b /\
      Weights.get3 u' NaN t f b = Weights.get3 u NaN (t0 + t) (f0 + f) b.
Proof. exact preselect_commutes. Qed.
Print Assumptions preselection_commutes.

(* ================================================================== laws of the scaling kernel *)
Theorem weights_symmetric_in_inputs : forall g d a1 a2 w, power_scale_gen g d a1 a2 w = power_scale_gen g d a2 a1 w.
Proof. exact power_scale_symmetric. Qed.
Print Assumptions weights_symmetric_in_inputs.

(* the point of the tiny constant: a non-zero stored weight NEVER becomes weight 0, whatever the autocorrelations *)
Theorem scaled_weight_is_never_zero : forall a1 a2 (q : Qc), q <> 0%Qc -> power_scale true a1 a2 (Fin q) <> Fin 0%Qc.
Proof. exact scaled_weight_never_zero. Qed.
Print Assumptions scaled_weight_is_never_zero.

Theorem scaled_weight_stays_positive : forall a1 a2 (q : Qc), nonneg_auto a1 -> nonneg_auto a2 -> (0 < q)%Qc ->
  exists r, power_scale true a1 a2 (Fin q) = Fin r /\ (0 < r)%Qc.
Proof. exact scaled_weight_positive. Qed.
Print Assumptions scaled_weight_stays_positive.

(* weights / unscaled_weights are inverse to each other on finite non-zero powers *)
Theorem scaling_roundtrip : forall (x y q : Qc), x <> 0%Qc -> y <> 0%Qc ->
  power_scale false (Fin x) (Fin y) (power_scale true (Fin x) (Fin y) (Fin q)) = Fin q /\
  power_scale true (Fin x) (Fin y) (power_scale false (Fin x) (Fin y) (Fin q)) = Fin q.
Proof. exact scale_unscale_roundtrip. Qed.
Print Assumptions scaling_roundtrip.

(* ================================================================== excision: laws and availability *)
Theorem excision_of_whole_dumps : forall n k m, (0 < n)%Z -> (0 < k)%Z ->
  excision n k (Fin (ZQc (m * n))) = Fin (1 - ZQc m / ZQc k)%Qc.
Proof. exact excision_whole_dumps. Qed.
Print Assumptions excision_of_whole_dumps.

Theorem excision_nothing_excised : forall n k, (0 < n)%Z -> (0 < k)%Z ->
  excision n k (Fin (ZQc (accs_per_dump n k))) = Fin 0%Qc.
Proof. exact excision_full_weight. Qed.
Print Assumptions excision_nothing_excised.

Theorem excision_everything_excised : forall n k, (0 < n)%Z -> (0 < k)%Z -> excision n k (Fin 0%Qc) = Fin 1%Qc.
Proof. exact excision_zero_weight. Qed.
Print Assumptions excision_everything_excised.

Theorem rounding_to_dumps_idempotent : forall n (w : Qc), (0 < n)%Z ->
  rhe (ZQc (rhe (w / ZQc n)) * ZQc n / ZQc n)%Qc = rhe (w / ZQc n)%Qc.
Proof. exact integer_cbf_dumps_idempotent. Qed.
Print Assumptions rounding_to_dumps_idempotent.

Theorem rounding_monotone : forall q q' : Q, (q <= q')%Q -> (rheQ q <= rheQ q')%Z.
Proof. exact rheQ_mono. Qed.
Print Assumptions rounding_monotone.

Theorem excision_antitone : forall n k (w w' : Qc), (0 < n)%Z -> (0 < k)%Z -> (w <= w')%Qc ->
  (spec_excision n k w' <= spec_excision n k w)%Qc.
Proof. exact excision_monotone. Qed.
Print Assumptions excision_antitone.

(* _cbf_attrs: every one of the six look-ups is needed (scale_factor_timestamp included) *)
Theorem cbf_attributes_all_needed : forall (s0 : option unit) it n f0 ins sft r,
  cbf_attrs s0 it n f0 ins sft = Some r <->
  s0 <> None /\ f0 <> None /\ ins <> None /\ sft <> None /\ exists i m, it = Some i /\ n = Some m /\ r = (i, m).
Proof. exact (@cbf_attrs_some_iff unit). Qed.
Print Assumptions cbf_attributes_all_needed.

(* d.excision answers iff there are CBF attributes AND unscaled weights; otherwise ValueError *)
Theorem excision_available_iff : forall dp c u, (exists r, excision_api dp c u = Ok r) <-> c <> None /\ u <> None.
Proof. exact excision_api_ok_iff. Qed.
Print Assumptions excision_available_iff.

Theorem excision_unavailable_is_error : forall dp c u, c = None \/ u = None -> excision_api dp c u = Err ValueError.
Proof. exact excision_api_unavailable. Qed.
Print Assumptions excision_unavailable_is_error.

Theorem excision_cellwise : forall dp cdp n u r t f b,
  excision_api dp (Some (cdp, n)) (Some u) = Ok r ->
  Weights.get3 r (excision n (cbf_dumps dp cdp) NaN) t f b = excision n (cbf_dumps dp cdp) (Weights.get3 u NaN t f b).
Proof. exact excision_api_pointwise. Qed.
Print Assumptions excision_cellwise.

Theorem accumulations_per_dump_value : forall dp c,
  accumulations_per_dump dp c = match c with Some (cdp, n) => Some (n * cbf_dumps dp cdp)%Z | None => None end.
Proof. exact accumulations_per_dump_spec. Qed.
Print Assumptions accumulations_per_dump_value.

Theorem excision_without_corrprods : forall dp c table B vis bchv w bchw wc tch fch,
  v4_excision dp c (vfw_api None true VOff table B vis bchv w bchw wc tch fch) = Err ValueError.
Proof. exact v4_excision_without_corrprods. Qed.
Print Assumptions excision_without_corrprods.

(* ================================================================== HDF5 v3: dummy values and selection *)
(* with the dummy values regenerated from h5datav3.py the model is the one of v3_weights above *)
Theorem v3_dummy_values : forall sel hw hwc w wc, v3_weight_gen sel hw hwc w wc = v3_weight sel hw hwc w wc.
Proof. exact v3_weight_gen_eq. Qed.
Print Assumptions v3_dummy_values.

Theorem v3_selection_iff : forall known s,
  v3_selected known s = true <-> exists n, In n (sel_names known s) /\ In n known.
Proof. exact v3_selected_iff. Qed.
Print Assumptions v3_selection_iff.

Theorem v3_weights_under_request : forall known s hw hwc w wc,
  v3_weight_req known s hw hwc w wc = if v3_selected known s then emul (v3_read hw w) (v3_read hwc wc) else Fin 1%Qc.
Proof. exact v3_weight_req_spec. Qed.
Print Assumptions v3_weights_under_request.

Theorem v3_select_all_selects : forall known, known <> [] -> v3_selected known SelAll = true.
Proof. exact v3_select_all. Qed.
Print Assumptions v3_select_all_selects.

(* ================================================================== averager: as written, defaults, laws *)
(* the baselines are processed in blocks with re-initialised buffers: for EVERY positive block size that is the
   per-baseline kernel *)
Theorem avg_baseline_blocks_invisible : forall bl_step a nt nc nb ta ca fl, bl_step <> 0 ->
  average_kernel_blocked true bl_step a nt nc nb ta ca fl = average_kernel a nt nc nb ta ca fl.
Proof. exact average_kernel_blocked_spec. Qed.
Print Assumptions avg_baseline_blocks_invisible.

(* average_visibilities as written (regenerated block size and initialisation place) = the model of avg_bins *)
Theorem avg_as_written : forall a T F B timeav chanav flagav,
  average_api a T F B timeav chanav flagav = average a T F B timeav chanav flagav.
Proof. exact average_api_eq. Qed.
Print Assumptions avg_as_written.

Theorem avg_defaults : forall a T F B,
  average_default a T F B = average a T F B averager_default_timeav averager_default_chanav averager_default_flagav.
Proof. exact average_default_eq. Qed.
Print Assumptions avg_defaults.

(* factors 1 x 1: every sample comes back; a flagged one with weight 0 *)
Theorem avg_single_sample_unflagged : forall flagav v (w : Qc), w <> 0%Qc ->
  spec_bin flagav [(v, w, false)] = (v, w, false).
Proof. exact avg_single_unflagged. Qed.
Print Assumptions avg_single_sample_unflagged.

Theorem avg_single_sample_flagged : forall flagav v (w : Qc), spec_bin flagav [(v, w, true)] = (v, 0%Qc, true).
Proof. exact avg_single_flagged. Qed.
Print Assumptions avg_single_sample_flagged.

Theorem avg_flag_and_implies_or : forall l, l <> [] -> forallb s_flag l = true -> existsb s_flag l = true.
Proof. exact avg_and_implies_or. Qed.
Print Assumptions avg_flag_and_implies_or.

(* WHAT MUST NOT MATTER: visibility and weight of flagged samples, as long as unflagged weight is left *)
Theorem avg_flagged_values_do_not_matter : forall flagav l l', same_unflagged l l' ->
  qsum (map s_w (unflagged l)) <> 0%Qc -> spec_bin flagav l' = spec_bin flagav l.
Proof. exact avg_flagged_samples_irrelevant. Qed.
Print Assumptions avg_flagged_values_do_not_matter.

Theorem avg_common_weight_factor : forall flagav (c : Qc) l, c <> 0%Qc ->
  spec_bin flagav (map (scale_w c) l) = scale_w c (spec_bin flagav l).
Proof. exact avg_weight_scaling. Qed.
Print Assumptions avg_common_weight_factor.

(* HDF5 v3 under EVERY second-stage index (per-axis lists of kept positions: slices, integers, lists, masks, on one,
   two or three axes at once, repeated / unsorted positions included): element (i, j, k) of d.weights[kt, kf, kb] is
   the product of the two stored arrays at (kt[i], kf[j], kb[k]) resp. (kt[i], kf[j]) - absent arrays reading one *)
Theorem v3_weights_any_index : forall sel hw hwc w wc kt kf kb,
  List.length (v3_weights_indexed sel hw hwc w wc kt kf kb) = List.length kt /\
  forall i j k, i < List.length kt -> j < List.length kf -> k < List.length kb ->
    List.length (nth i (v3_weights_indexed sel hw hwc w wc kt kf kb) []) = List.length kf /\
    List.length (nth j (nth i (v3_weights_indexed sel hw hwc w wc kt kf kb) []) []) = List.length kb /\
    Weights.get3 (v3_weights_indexed sel hw hwc w wc kt kf kb) NaN i j k =
    v3_weight sel hw hwc (Weights.get3 w NaN (nth i kt 0) (nth j kf 0) (nth k kb 0))
                         (nth (nth j kf 0) (nth (nth i kt 0) wc []) NaN).
Proof. exact v3_weights_outer. Qed.
Print Assumptions v3_weights_any_index.

(* defaults that the documentation / the property fix: the kernel divides when `divide` is left out; the averaged flag
   is the AND of the bin unless flagav is asked for *)
Theorem kernel_default_direction : forall g a1 a2 w,
  power_scale_gen g weights_default_divide a1 a2 w = power_scale_gen g true a1 a2 w.
Proof. intros g a1 a2 w. rewrite default_direction_divides. reflexivity. Qed.
Print Assumptions kernel_default_direction.

Theorem avg_default_flag_is_and : averager_default_flagav = false.
Proof. exact default_flagav_is_and. Qed.
Print Assumptions avg_default_flag_is_and.

(* ================================================================== ROUND 3 *)
(* ------------------------------------------------------------------ the Van Vleck table as katdal builds it *)
(* Model/VanVleckTable.v: sxx_table = np.r_[0., sxx_mean, sxx_max], rxx_table = np.r_[0., rxx_grid, rxx_grid[-1]], both
   times 2. (anchor, clip, factors, counts, exponents regenerated).  `vv_numerics_ok grid mean smax` states what the
   source expects of its numerics: equal lengths, the grid of true powers positive and strictly increasing, the
   expected quantised powers positive (NO underflow to zero), strictly increasing and below sxx_max.  The harness
   checks exactly that (and the table itself, via table_ok_b) on the real arrays on every run. *)

(* the regenerated anchor is the origin and both factors are positive *)
Theorem vanvleck_table_anchor_and_factors : (vv_ax == 0 /\ vv_ay == 0 /\ 0 < vv_fx /\ 0 < vv_fy)%Q.
Proof. destruct vv_anchor_is_origin, vv_factors_positive. repeat split; assumption. Qed.
Print Assumptions vanvleck_table_anchor_and_factors.

(* table abscissae strictly increasing, ordinates non-decreasing *)
Theorem vanvleck_table_abscissae_strictly_increasing : forall grid mean smax, vv_numerics_ok grid mean smax ->
  strictly_inc (vv_table grid mean smax) /\ nondec_y (vv_table grid mean smax).
Proof. exact vv_katdal_table_ok. Qed.
Print Assumptions vanvleck_table_abscissae_strictly_increasing.

(* VV(0) = 0: needs ONLY that the first expected quantised power (and sxx_max) is positive, i.e. that no second zero
   abscissa shadows the anchor *)
Theorem vanvleck_zero_to_zero : forall grid mean smax,
  match mean with [] => True | m :: _ => (0 < m)%Q end -> (0 < smax)%Q ->
  vv_interp (vv_table grid mean smax) (Fin 0%Qc) = Fin 0%Qc.
Proof. exact vv_katdal_zero. Qed.
Print Assumptions vanvleck_zero_to_zero.

(* ... and that hypothesis is needed: when the first expected quantised power IS zero (grid extended below the
   underflow point) the corrected power of a dead input is the first grid power times the factor - positive *)
Theorem vanvleck_zero_underflow_refuted : forall g0 g1 grid m1 mean smax, (0 < g0)%Q -> (0 < m1)%Q ->
  exists y : Qc, vv_interp (vv_table (g0 :: g1 :: grid) (0%Q :: m1 :: mean) smax) (Fin 0%Qc) = Fin y /\ (0 < y)%Qc.
Proof. exact vv_katdal_underflow. Qed.
Print Assumptions vanvleck_zero_underflow_refuted.

(* the correction with the constructed table is monotone on the extended numbers (NaN stays NaN) *)
Theorem vanvleck_constructed_table_monotone : forall grid mean smax x y, vv_numerics_ok grid mean smax ->
  ele x y -> ele (vv_interp (vv_table grid mean smax) x) (vv_interp (vv_table grid mean smax) y).
Proof. exact vv_katdal_monotone. Qed.
Print Assumptions vanvleck_constructed_table_monotone.

(* the two ends: non-positive stored powers give 0, stored powers from 2 * sxx_max upwards give 2 * the last grid power *)
Theorem vanvleck_nonpositive_to_zero : forall grid mean smax (q : Qc), vv_numerics_ok grid mean smax -> (q <= 0)%Qc ->
  vv_interp (vv_table grid mean smax) (Fin q) = Fin 0%Qc.
Proof. exact vv_katdal_negative. Qed.
Print Assumptions vanvleck_nonpositive_to_zero.

Theorem vanvleck_top_clipped : forall grid mean smax (q : Qc), vv_numerics_ok grid mean smax -> (vv_fx * smax <= q)%Q ->
  vv_interp (vv_table grid mean smax) (Fin q) = Fin (Q2Qc (vv_fy * last grid 0)%Q).
Proof. exact vv_katdal_top. Qed.
Print Assumptions vanvleck_top_clipped.

(* the table has `size` entries whenever numpy accepts the two counts (size // 2 and size - 2 - size // 2) *)
Theorem vanvleck_table_size : forall size n, vv_table_size size = Some n -> n = size.
Proof. exact vv_table_size_is_size. Qed.
Print Assumptions vanvleck_table_size.

Theorem vanvleck_table_length : forall grid mean smax, List.length grid = List.length mean ->
  List.length (vv_table grid mean smax) = S (S (List.length mean)).
Proof. exact vv_table_length. Qed.
Print Assumptions vanvleck_table_length.

(* the decision procedure the harness runs on the REAL table (exact dyadic values): if it answers true, the table has
   strictly increasing abscissae and non-decreasing ordinates, VV(0) = 0, every non-positive power maps to 0 and the
   correction is monotone *)
Theorem vanvleck_table_check_sound : forall t, table_ok_b t = true ->
  strictly_inc t /\ nondec_y t /\ vv_interp t (Fin 0%Qc) = Fin 0%Qc /\
  (forall q : Qc, (q <= 0)%Qc -> vv_interp t (Fin q) = Fin 0%Qc) /\
  (forall x y, ele x y -> ele (vv_interp t x) (vv_interp t y)).
Proof. exact table_ok_sound. Qed.
Print Assumptions vanvleck_table_check_sound.

(* ------------------------------------------------------------------ the averager reads flags as BYTES *)
(* Model/AveragerFlags.v: `flag_u8 = flag.view(np.uint8)`, `f = (flag_u8[...] != 0)`, `if f: w = wzero`.  A v4 data set
   delivers d.flags as a bool VIEW of `select & raw`: a True backed by 2, 4, 16, 80 ... *)

(* regenerated decision / constant: a sample is flagged iff its byte is non-zero; a flagged sample weighs 0 *)
Theorem avg_flag_test_on_byte : forall b : Z, averager_flag_is_set b = negb (Z.eqb b 0).
Proof. exact flag_test_is_nonzero. Qed.
Print Assumptions avg_flag_test_on_byte.

Theorem avg_flagged_weight_is_zero : averager_wzero = 0%Qc.
Proof. exact wzero_is_zero. Qed.
Print Assumptions avg_flagged_weight_is_zero.

(* the loop body as written on the byte is the loop body of the round-1 model on the truth value *)
Theorem avg_byte_step_is_step : forall a s, step_b a s = step a (to_flagged s).
Proof. exact step_b_is_step. Qed.
Print Assumptions avg_byte_step_is_step.

(* WHATEVER non-zero byte backs a True: nothing is added to the weighted sums, OR becomes true, AND is kept *)
Theorem avg_flagged_byte_weighs_nothing : forall a v w (b : Z), b <> 0%Z ->
  weight_sum (step_b a (v, w, b)) = weight_sum a /\ vis_weight_sum (step_b a (v, w, b)) = vis_weight_sum a /\
  flag_any (step_b a (v, w, b)) = true /\ flag_all (step_b a (v, w, b)) = flag_all a.
Proof. exact flagged_byte_weighs_nothing. Qed.
Print Assumptions avg_flagged_byte_weighs_nothing.

(* every output cell = the declarative bin with "flagged iff byte <> 0" *)
Theorem avg_bins_on_flag_bytes : forall a T F B timeav chanav flagav r,
  average_bytes a T F B timeav chanav flagav = Some r ->
  let ta := time_factor timeav T in
  let ca := chan_factor chanav F in
  forall i j b, i < T / ta -> j < F / ca -> b < B ->
    Averager.get3 r sample0 i j b =
    spec_bin flagav (map (fun tc => let s := Averager.get3 a bsample0 (fst tc) (snd tc) b in
                                    (fst (fst s), snd (fst s), negb (Z.eqb (snd s) 0)))
                         (bin_positions ta ca i j)).
Proof. exact average_bytes_spec. Qed.
Print Assumptions avg_bins_on_flag_bytes.

(* what must NOT matter: any re-encoding of the bytes that keeps zero / non-zero leaves the whole result unchanged *)
Theorem avg_only_truth_of_flag_bytes : forall (g : Z -> Z) a T F B timeav chanav flagav,
  (forall b, g b = 0%Z <-> b = 0%Z) ->
  average_bytes (recode g a) T F B timeav chanav flagav = average_bytes a T F B timeav chanav flagav.
Proof. exact average_bytes_truth_only. Qed.
Print Assumptions avg_only_truth_of_flag_bytes.

(* the documented v4 usage average_visibilities(d.vis[:], d.weights[:], d.flags[:]) under EVERY flag selection: a
   sample is flagged iff a SELECTED bit of its raw flag byte is set; bits outside the selection cannot matter *)
Theorem avg_v4_flags : forall select a T F B timeav chanav flagav r,
  average_bytes (v4_deliver select a) T F B timeav chanav flagav = Some r ->
  let ta := time_factor timeav T in
  let ca := chan_factor chanav F in
  forall i j b, i < T / ta -> j < F / ca -> b < B ->
    Averager.get3 r sample0 i j b =
    spec_bin flagav (map (fun tc => let s := Averager.get3 a bsample0 (fst tc) (snd tc) b in
                                    (fst (fst s), snd (fst s), negb (Z.eqb (Z.land select (snd s)) 0)))
                         (bin_positions ta ca i j)).
Proof. exact average_v4_spec. Qed.
Print Assumptions avg_v4_flags.

Theorem avg_v4_unselected_bits_invisible : forall select (g : Z -> Z) a T F B timeav chanav flagav,
  (forall r, Z.land select (g r) = Z.land select r) ->
  average_bytes (v4_deliver select (recode g a)) T F B timeav chanav flagav =
  average_bytes (v4_deliver select a) T F B timeav chanav flagav.
Proof. exact average_v4_selected_bits_only. Qed.
Print Assumptions avg_v4_unselected_bits_invisible.

(* the theorems discriminate: zeroing the weight arithmetically with the raw byte gives -15 w on an ingest_rfi flag *)
Theorem avg_arithmetic_zeroing_refuted :
  weight_sum (step_arith acc0 (cq0, 1%Qc, 16%Z)) = Q2Qc (-15 # 1) /\ weight_sum (step_b acc0 (cq0, 1%Qc, 16%Z)) = 0%Qc.
Proof. exact arith_zeroing_differs. Qed.
Print Assumptions avg_arithmetic_zeroing_refuted.
