(* C15 — Weights, excision and averaging are reconstructed as documented.  Only statements here.
   Models: Model/Weights.v (katdal/vis_flags_weights.py, visdatav4.py excision, h5datav3.py weights) and
   Model/Averager.v (katdal/averager.py).  Numbers: Ext := Fin q | PInf | NInf | NaN over canonical rationals with
   the IEEE rules for special values (no rounding / overflow / signed zero); the averager is over exact rationals.
   Concrete instances of every hypothesis: Proofs/C15ExamplesP.v. *)
From Coq Require Import ZArith QArith Qabs Qcanon Qround List Bool Arith.
From KV Require Import Base.Sx Gen.Generated Model.Interp Model.Weights Model.Averager.
From KV Require Import Proofs.WeightsP Proofs.WeightsBlocksP Proofs.WeightsNumP Proofs.AveragerP Proofs.C15TopP
                       Proofs.C15ExamplesP.
Import ListNotations.
Close Scope Q_scope.
Open Scope nat_scope.

(* ================================================================== the autocorrelation lookup *)
(* For EVERY list of correlation products (autocorrelations anywhere, cross-polarisation products, repeated autos):
   if the scan succeeds, auto_indices are exactly the positions of the products (a, a), and for every product (a, b)
   at position k  auto_indices[index1[k]] / auto_indices[index2[k]] are the positions of the LAST (a, a) / (b, b). *)
Theorem auto_lookup_correct : forall cps ai i1 i2, corrprod_to_autocorr cps = Some (ai, i1, i2) ->
  ai = auto_positions cps 0 /\ List.length i1 = List.length cps /\ List.length i2 = List.length cps /\
  forall k a b, nth_error cps k = Some (a, b) ->
    exists p q, last_auto cps a = Some p /\ last_auto cps b = Some q /\
                nth_error ai (nth k i1 0) = Some p /\ nth_error ai (nth k i2 0) = Some q.
Proof. exact auto_lookup. Qed.
Print Assumptions auto_lookup_correct.

(* what "last (a, a)" means: that position holds (a, a) and no later one does *)
Theorem last_auto_is_last : forall a cps p, last_auto cps a = Some p ->
  nth_error cps p = Some (a, a) /\ forall j, p < j -> nth_error cps j <> Some (a, a).
Proof. exact top_last_auto_is_last. Qed.
Print Assumptions last_auto_is_last.

Theorem auto_positions_are_autos : forall cps p,
  In p (auto_positions cps 0) <-> exists c, nth_error cps p = Some c /\ is_auto c = true.
Proof. exact top_auto_positions_are_autos. Qed.
Print Assumptions auto_positions_are_autos.

(* a missing autocorrelation is an error (KeyError), exactly then *)
Theorem auto_lookup_missing_iff : forall cps,
  corrprod_to_autocorr cps = None <->
  exists a b, In (a, b) cps /\ (last_auto cps a = None \/ last_auto cps b = None).
Proof. exact auto_lookup_missing. Qed.
Print Assumptions auto_lookup_missing_iff.

(* ================================================================== the scaling kernel, every value *)
(* stored weights unscaled: finite non-zero autocorrelation powers x, y -> (w * wc) / (x * y) *)
Theorem C15_scaled : forall (x y : Qc) (sw : Ext), x <> 0%Qc -> y <> 0%Qc ->
  power_scale true (Fin x) (Fin y) sw = emul (Fin (/ (x * y))%Qc) sw.
Proof. exact top_C15_scaled. Qed.
Print Assumptions C15_scaled.

Theorem C15_scaled_finite_weights : forall (x y w wc : Qc), x <> 0%Qc -> y <> 0%Qc ->
  power_scale true (Fin x) (Fin y) (emul (Fin w) (Fin wc)) = Fin (w * wc / (x * y))%Qc.
Proof. exact top_C15_scaled_finite_weights. Qed.
Print Assumptions C15_scaled_finite_weights.

(* stored weights scaled: the product is multiplied back (zero powers included) *)
Theorem C15_unscaled : forall (x y : Qc) (sw : Ext),
  power_scale false (Fin x) (Fin y) sw = emul (Fin (x * y)%Qc) sw.
Proof. exact top_C15_unscaled. Qed.
Print Assumptions C15_unscaled.

(* the substituted constant (regenerated from the source) is tiny and positive *)
Theorem bad_weight_is_tiny_positive : (0 < bad_weight)%Qc /\ (bad_weight <= Q2Qc (1 # 1073741824))%Qc.
Proof. exact bad_weight_tiny_positive. Qed.
Print Assumptions bad_weight_is_tiny_positive.

(* FULL STRENGTH (holds for the repaired kernel, finding F9): an autocorrelation that is zero or not finite
   (NaN, +inf, -inf), on either side -> the tiny weight times the stored weight *)
Theorem bad_weight_when_zero_or_nonfinite : forall a1 a2 sw, bad_auto a1 \/ bad_auto a2 ->
  power_scale true a1 a2 sw = emul (Fin bad_weight) sw.
Proof. exact top_bad_weight_when_zero_or_nonfinite. Qed.
Print Assumptions bad_weight_when_zero_or_nonfinite.

(* the kernel WITHOUT the repair (as pinned): +-inf gives weight 0 — refuted; zero and NaN were handled *)
Theorem bad_weight_unguarded_refuted :
  exists a1 a2 w, bad_auto a1 /\ power_scale_gen false true a1 a2 w = Fin 0 /\ emul (Fin bad_weight) w <> Fin 0.
Proof. exact bad_weight_div_unguarded_refuted. Qed.
Print Assumptions bad_weight_unguarded_refuted.
Theorem bad_weight_unguarded_partial : forall a1 a2 w,
  (a1 = Fin 0 \/ a1 = NaN) \/ (a2 = Fin 0 \/ a2 = NaN) ->
  power_scale_gen false true a1 a2 w = emul (Fin bad_weight) w.
Proof. exact bad_weight_div_unguarded_partial. Qed.
Print Assumptions bad_weight_unguarded_partial.

(* multiplying back with a non-finite autocorrelation: the tiny weight as well *)
Theorem C15_unscaled_nonfinite : forall a1 a2 sw, isfinite a1 = false \/ isfinite a2 = false ->
  power_scale false a1 a2 sw = emul (Fin bad_weight) sw.
Proof. exact top_C15_unscaled_nonfinite. Qed.
Print Assumptions C15_unscaled_nonfinite.

(* the sign of a zero autocorrelation (1/+0 = +inf, 1/-0 = -inf) cannot change the weight *)
Theorem zero_sign_irrelevant : forall s w,
  finish_scale PInf s w = finish_scale NInf s w /\ finish_scale s PInf w = finish_scale s NInf w.
Proof. exact top_zero_sign_irrelevant. Qed.
Print Assumptions zero_sign_irrelevant.

(* ================================================================== the whole v4 pipeline, every chunking *)
(* For every corrprod list with all autocorrelations present, both scaling declarations, Van Vleck on or off,
   every chunking of the dump, channel and BASELINE axes of the visibilities and of the weights: the arrays built
   block by block (rechunk of the baseline axis, kernel per block, assembly) are, at every coordinate,
     vis       = stored, except autocorrelations = (table lookup of the real part, 0) when Van Vleck is on
     weights   = w*wc                      (scaled declaration)   | w*wc * scale_div(a1, a2)   (unscaled declaration)
     unscaled  = w*wc * scale_mul(a1, a2)  (scaled declaration)   | w*wc                       (unscaled declaration)
   where a1, a2 are the real parts of the (corrected) visibilities at the LAST (a, a) and (b, b) of the same dump and
   channel, scale_div = 1/(a1 a2) for finite non-zero powers and the tiny constant otherwise, scale_mul = a1 a2 for
   finite powers and the tiny constant otherwise. *)
Theorem C15_weights : forall cps scaled vv vis bchv w bchw wc tch fch T F,
  shape3 vis T F (List.length cps) -> shape3 w T F (List.length cps) -> shape2 wc T F ->
  Weights.total tch = T -> Weights.total fch = F ->
  Weights.total bchv = List.length cps -> Weights.total bchw = List.length cps ->
  has_autos cps ->
  exists r, vis_flags_weights cps scaled vv vis bchv w bchw wc tch fch = Some r /\
    forall t f b, t < T -> f < F -> b < List.length cps ->
      let a1 := auto_re cps (v_vis r) t f (fst (cp_at cps b)) in
      let a2 := auto_re cps (v_vis r) t f (snd (cp_at cps b)) in
      Weights.get3 (v_vis r) cx_nan t f b = vv_vis vv cps vis t f b /\
      Weights.get3 (v_weights r) NaN t f b =
        spec_weight scaled a1 a2 (Weights.get3 w NaN t f b) (nth f (nth t wc []) NaN) /\
      Weights.get3 (v_unscaled r) NaN t f b =
        spec_unscaled scaled a1 a2 (Weights.get3 w NaN t f b) (nth f (nth t wc []) NaN).
Proof. exact vis_flags_weights_pointwise. Qed.
Print Assumptions C15_weights.

Theorem C15_missing_auto_is_error : forall cps scaled vv vis bchv w bchw wc tch fch,
  ~ has_autos cps -> vis_flags_weights cps scaled vv vis bchv w bchw wc tch fch = None.
Proof. exact vis_flags_weights_missing. Qed.
Print Assumptions C15_missing_auto_is_error.

(* baseline_chunk_independent: any two chunkings (all axes, both arrays) give the same scaled weights *)
Theorem baseline_chunk_independent : forall divide cps vis w T F bchv bchw tch fch bchv' bchw' tch' fch' r r',
  shape3 vis T F (List.length cps) -> shape3 w T F (List.length cps) ->
  Weights.total tch = T -> Weights.total fch = F ->
  Weights.total bchv = List.length cps -> Weights.total bchw = List.length cps ->
  Weights.total tch' = T -> Weights.total fch' = F ->
  Weights.total bchv' = List.length cps -> Weights.total bchw' = List.length cps ->
  scale_weights divide cps vis bchv w bchw tch fch = Some r ->
  scale_weights divide cps vis bchv' w bchw' tch' fch' = Some r' ->
  forall t f k, t < T -> f < F -> k < List.length cps -> Weights.get3 r NaN t f k = Weights.get3 r' NaN t f k.
Proof. exact scale_weights_chunk_independent. Qed.
Print Assumptions baseline_chunk_independent.

(* rechunking the baseline axis to one chunk reassembles the stored cell, whatever the stored chunking *)
Theorem rechunk_baseline_identity : forall (bch : list nat) (cell : list Ext),
  Weights.total bch = List.length cell -> rechunk_b bch cell = cell.
Proof. exact top_rechunk_baseline_identity. Qed.
Print Assumptions rechunk_baseline_identity.

(* ================================================================== Van Vleck *)
(* only the products (a, a) change; they become (lookup of the real part, 0) *)
Theorem vanvleck_only_real_autos : forall table cps vis bchv tch fch T F,
  shape3 vis T F (List.length cps) -> Weights.total tch = T -> Weights.total fch = F ->
  Weights.total bchv = List.length cps -> has_autos cps ->
  exists r, correct_autocorr table cps vis bchv tch fch = Some r /\ shape3 r T F (List.length cps) /\
    forall t f b, t < T -> f < F -> b < List.length cps ->
      (is_auto (cp_at cps b) = false -> Weights.get3 r cx_nan t f b = Weights.get3 vis cx_nan t f b) /\
      (is_auto (cp_at cps b) = true ->
         Weights.get3 r cx_nan t f b = (vv_interp table (fst (Weights.get3 vis cx_nan t f b)), Fin 0)).
Proof. exact top_vanvleck_only_real_autos. Qed.
Print Assumptions vanvleck_only_real_autos.

(* monotone, given a table with increasing abscissae and non-decreasing ordinates (checked numerically for the
   MeerKAT table by the harness); NaN stays NaN, -inf / +inf map to the ends of the table *)
Theorem vanvleck_monotone : forall table x y, strictly_inc table -> nondec_y table ->
  ele x y -> ele (vv_interp table x) (vv_interp table y).
Proof. exact vv_interp_mono. Qed.
Print Assumptions vanvleck_monotone.

Theorem vanvleck_finite_monotone : forall table (x x' : Q), strictly_inc table -> nondec_y table -> (x <= x')%Q ->
  (interp_d table x <= interp_d table x')%Q.
Proof. exact interp_d_mono. Qed.
Print Assumptions vanvleck_finite_monotone.

(* ================================================================== excision *)
(* excision = 1 - (weight rounded to a whole number of correlator dumps, in accumulations) / accumulations per dump,
   for every finite unscaled weight, n_accs > 0 accumulations per correlator dump, k > 0 correlator dumps per dump *)
Theorem excision_formula : forall n k (w : Qc), (0 < n)%Z -> (0 < k)%Z ->
  excision n k (Fin w) = Fin (spec_excision n k w).
Proof. exact excision_finite. Qed.
Print Assumptions excision_formula.

(* the rounding: to a nearest whole number, half-way cases to the even one (numpy / Python round) *)
Theorem excision_rounding : forall q : Q,
  (Qabs (q - inject_Z (rheQ q)) <= 1 # 2)%Q /\
  ((q - inject_Z (Qfloor q) == 1 # 2)%Q -> Z.even (rheQ q) = true).
Proof. exact top_excision_rounding. Qed.
Print Assumptions excision_rounding.

Theorem excision_in_unit_interval : forall n k (w : Qc), (0 < n)%Z -> (0 < k)%Z ->
  (0 <= w)%Qc -> (w <= ZQc (accs_per_dump n k))%Qc ->
  (0 <= spec_excision n k w)%Qc /\ (spec_excision n k w <= 1)%Qc.
Proof. exact excision_range. Qed.
Print Assumptions excision_in_unit_interval.

Theorem excision_of_nonfinite_weights : forall n k, (0 < n)%Z -> (0 < k)%Z ->
  excision n k NaN = NaN /\ excision n k PInf = NInf /\ excision n k NInf = PInf.
Proof. exact excision_nonfinite. Qed.
Print Assumptions excision_of_nonfinite_weights.

(* accumulations per dump = n_accs * (dump period / correlator dump period) when that ratio is whole *)
Theorem correlator_dumps_per_dump : forall (cdp : Qc) m, cdp <> 0%Qc -> cbf_dumps (ZQc m * cdp)%Qc cdp = m.
Proof. exact cbf_dumps_whole. Qed.
Print Assumptions correlator_dumps_per_dump.

(* ================================================================== HDF5 v3 *)
Theorem v3_weights : forall w wc,
  v3_weight true true true w wc = emul w wc /\
  v3_weight true false true w wc = wc /\ v3_weight true true false w wc = w /\ v3_weight true false false w wc = Fin 1.
Proof. exact top_v3_weights. Qed.
Print Assumptions v3_weights.

Theorem v3_weights_unselected : forall hw hwc w wc, v3_weight false hw hwc w wc = Fin 1.
Proof. exact v3_unselected. Qed.
Print Assumptions v3_weights_unselected.

(* ================================================================== averaging *)
(* For ALL array sizes, averaging factors and flag patterns: when the call succeeds the result has
   T/ta x F/ca x B cells (ta, ca the effective factors: which one is clamped to the array size is regenerated from
   the source) and cell (i, j, b) is spec_bin of the samples of product b at the positions of bin (i, j). *)
Theorem avg_bins : forall a T F B timeav chanav flagav r,
  average a T F B timeav chanav flagav = Some r ->
  let ta := time_factor timeav T in
  let ca := chan_factor chanav F in
  List.length r = T / ta /\
  (forall i, i < T / ta -> List.length (nth i r []) = F / ca) /\
  (forall i j, i < T / ta -> j < F / ca -> List.length (nth j (nth i r []) []) = B) /\
  forall i j b, i < T / ta -> j < F / ca -> b < B ->
    Averager.get3 r sample0 i j b =
    spec_bin flagav (map (fun tc => Averager.get3 a sample0 (fst tc) (snd tc) b) (bin_positions ta ca i j)).
Proof. exact average_spec. Qed.
Print Assumptions avg_bins.

(* the positions of bin (i, j): ta consecutive dumps from i*ta, ca consecutive channels from j*ca, each once *)
Theorem avg_bin_positions : forall ta ca i j,
  (forall t c, In (t, c) (bin_positions ta ca i j) <-> i * ta <= t < i * ta + ta /\ j * ca <= c < j * ca + ca) /\
  NoDup (bin_positions ta ca i j) /\ List.length (bin_positions ta ca i j) = ta * ca.
Proof. exact top_avg_bin_positions. Qed.
Print Assumptions avg_bin_positions.

(* = the stored positions whose dump index / ta is i and whose channel index / ca is j *)
Theorem avg_bin_is_quotient_class : forall T F ta ca i j, ta <> 0 -> ca <> 0 -> i < T / ta -> j < F / ca ->
  filter (fun tc => Nat.eqb (fst tc / ta) i && Nat.eqb (snd tc / ca) j) (list_prod (seq 0 T) (seq 0 F)) =
  bin_positions ta ca i j.
Proof. exact bin_positions_filter. Qed.
Print Assumptions avg_bin_is_quotient_class.

(* avg_weight_sum: the summed weights of the unflagged samples *)
Theorem avg_weight_sum : forall flagav l, s_w (spec_bin flagav l) = qsum (map s_w (unflagged l)).
Proof. exact spec_bin_weight. Qed.
Print Assumptions avg_weight_sum.

(* avg_weighted_mean: sum of w*v over the unflagged samples / sum of their weights (when that is not zero) *)
Theorem avg_weighted_mean : forall flagav l, qsum (map s_w (unflagged l)) <> 0%Qc ->
  s_vis (spec_bin flagav l) =
  cdivq (csum (map (fun s => cscale (s_w s) (s_vis s)) (unflagged l))) (qsum (map s_w (unflagged l))).
Proof. exact spec_bin_mean. Qed.
Print Assumptions avg_weighted_mean.

(* everything flagged (or the unflagged weights sum to zero): the unweighted mean of ALL samples of the bin *)
Theorem avg_fallback_unweighted_mean : forall flagav l, qsum (map s_w (unflagged l)) = 0%Qc ->
  s_vis (spec_bin flagav l) = cscale (inv_count (List.length l)) (csum (map s_vis l)).
Proof. exact spec_bin_fallback. Qed.
Print Assumptions avg_fallback_unweighted_mean.
Theorem avg_all_flagged_weight_zero : forall l, forallb s_flag l = true -> qsum (map s_w (unflagged l)) = 0%Qc.
Proof. exact all_flagged_no_weight. Qed.
Print Assumptions avg_all_flagged_weight_zero.

(* avg_flags_and_or: AND of the flags of the bin, OR with flagav *)
Theorem avg_flags_and_or : forall flagav l,
  s_flag (spec_bin flagav l) = if flagav then existsb s_flag l else forallb s_flag l.
Proof. exact spec_bin_flag. Qed.
Print Assumptions avg_flags_and_or.

(* avg_trim: the positions of every bin lie inside the whole bins, and two inputs that agree there average alike *)
Theorem avg_trim : forall a a' T F B timeav chanav flagav r r',
  average a T F B timeav chanav flagav = Some r -> average a' T F B timeav chanav flagav = Some r' ->
  let ta := time_factor timeav T in
  let ca := chan_factor chanav F in
  (forall t c b, t < T / ta * ta -> c < F / ca * ca -> b < B ->
     Averager.get3 a sample0 t c b = Averager.get3 a' sample0 t c b) ->
  forall i j b, i < T / ta -> j < F / ca -> b < B -> Averager.get3 r sample0 i j b = Averager.get3 r' sample0 i j b.
Proof. exact average_ignores_tail. Qed.
Print Assumptions avg_trim.

(* the call fails (ZeroDivisionError) exactly when an effective factor is zero *)
Theorem avg_defined : forall a T F B timeav chanav flagav,
  average a T F B timeav chanav flagav = None <-> time_factor timeav T = 0 \/ chan_factor chanav F = 0.
Proof. exact average_defined. Qed.
Print Assumptions avg_defined.
