(* C15: lemmas about Model/Weights.v — extended arithmetic, the scaling kernel, the autocorrelation lookup. *)
From Coq Require Import ZArith QArith Qcanon Qround List Bool Arith Lia Lqa.
From KV Require Import Base.Sx Gen.Generated Model.Interp Model.Weights.
Import ListNotations.
Close Scope Q_scope.
Open Scope nat_scope.

(* ------------------------------------------------------------------ constants regenerated from the source *)
Lemma guard_on : weights_nonfinite_auto_guard = true.
Proof. reflexivity. Qed.

Lemma bad_weight_value : bad_weight = spec_tiny.
Proof. apply Qc_is_canon. reflexivity. Qed.

Lemma bad_weight_tiny_positive : (0 < bad_weight)%Qc /\ (bad_weight <= Q2Qc (1 # 1073741824))%Qc.
Proof. rewrite bad_weight_value. unfold spec_tiny. split; vm_compute; congruence. Qed.

(* ------------------------------------------------------------------ Ext arithmetic *)
Lemma Qc_compare_zero_cases : forall a : Qc, (a ?= 0)%Qc = Eq <-> a = 0%Qc.
Proof. intro a. split; intro H; [apply Qc_is_canon; now apply Qeq_alt | subst; reflexivity]. Qed.

Lemma emul_comm : forall x y, emul x y = emul y x.
Proof.
  intros [a| | |] [b| | |]; cbn; try reflexivity.
  f_equal. apply Qcmult_comm.
Qed.

Lemma emul_nan_l : forall y, emul NaN y = NaN.
Proof. reflexivity. Qed.
Lemma emul_nan_r : forall x, emul x NaN = NaN.
Proof. intros [a| | |]; reflexivity. Qed.

Lemma einf_signed_not_finite : forall c i, i = PInf \/ i = NInf -> isfinite (einf_signed c i) = false.
Proof. intros [| |] i [-> | ->]; reflexivity. Qed.

(* an infinity times anything is never finite *)
Lemma emul_inf_not_finite : forall i y, i = PInf \/ i = NInf -> isfinite (emul i y) = false.
Proof.
  intros i [b| | |] [-> | ->]; cbn; try reflexivity;
    destruct (b ?= 0)%Qc; reflexivity.
Qed.

Lemma emul_fin : forall a b, emul (Fin a) (Fin b) = Fin (a * b).
Proof. reflexivity. Qed.

Lemma erecip_fin : forall a : Qc, a <> 0%Qc -> erecip (Fin a) = Fin (/ a).
Proof. intros a H. cbn. destruct (Qc_eq_dec a 0); [contradiction | reflexivity]. Qed.

Lemma erecip_zero : erecip (Fin 0) = PInf.
Proof. cbn. destruct (Qc_eq_dec 0 0); [reflexivity | congruence]. Qed.

Lemma is_zero_true : forall q, is_zero q = true <-> q = 0%Qc.
Proof. intro q. unfold is_zero. destruct (Qc_eq_dec q 0); split; congruence. Qed.
Lemma is_zero_false : forall q, is_zero q = false <-> q <> 0%Qc.
Proof. intro q. unfold is_zero. destruct (Qc_eq_dec q 0); split; congruence. Qed.

(* ------------------------------------------------------------------ the kernel, pointwise *)
(* the sign of a zero autocorrelation (not in the carrier) cannot matter: +inf and -inf as its reciprocal give the
   same weight, whatever the other factor and the stored weight *)
Lemma recip_zero_sign : forall s2 w, finish_scale PInf s2 w = finish_scale NInf s2 w.
Proof.
  intros s2 w. unfold finish_scale.
  rewrite (emul_inf_not_finite PInf s2), (emul_inf_not_finite NInf s2); auto.
Qed.
Lemma recip_zero_sign_r : forall s1 w, finish_scale s1 PInf w = finish_scale s1 NInf w.
Proof.
  intros s1 w. unfold finish_scale.
  rewrite (emul_comm s1 PInf), (emul_comm s1 NInf).
  rewrite (emul_inf_not_finite PInf s1), (emul_inf_not_finite NInf s1); auto.
Qed.

Lemma finish_nonfinite : forall s1 s2 w, isfinite (emul s1 s2) = false -> finish_scale s1 s2 w = emul (Fin bad_weight) w.
Proof. intros s1 s2 w H. unfold finish_scale. now rewrite H. Qed.

Lemma finish_fin : forall a b w, finish_scale (Fin a) (Fin b) w = emul (Fin (a * b)) w.
Proof. reflexivity. Qed.

(* C15_scaled: finite non-zero powers -> stored weight divided by their product (any guard setting) *)
Lemma scaled_finite : forall g (x y : Qc) w, x <> 0%Qc -> y <> 0%Qc ->
  power_scale_gen g true (Fin x) (Fin y) w = emul (Fin (/ (x * y))) w.
Proof.
  intros g x y w Hx Hy. unfold power_scale_gen, auto_scale_gen. cbn [isfinite negb].
  rewrite andb_false_r. rewrite !erecip_fin by assumption. rewrite finish_fin.
  do 2 f_equal. field. split; assumption.
Qed.

(* C15_unscaled: finite powers (zero included) -> stored weight times their product *)
Lemma unscaled_finite : forall g (x y : Qc) w,
  power_scale_gen g false (Fin x) (Fin y) w = emul (Fin (x * y)) w.
Proof.
  intros. unfold power_scale_gen, auto_scale_gen. cbn [isfinite negb]. rewrite andb_false_r. apply finish_fin.
Qed.

Definition bad_auto (a : Ext) : Prop := a = Fin 0 \/ isfinite a = false.

Lemma auto_scale_bad_div : forall a, bad_auto a ->
  auto_scale_gen true true a = PInf \/ auto_scale_gen true true a = NaN.
Proof.
  intros a [-> | H].
  - left. unfold auto_scale_gen. cbn [isfinite negb andb]. apply erecip_zero.
  - right. unfold auto_scale_gen. now rewrite H.
Qed.

(* with the guard (the repaired code): a zero or non-finite autocorrelation on either side -> the tiny weight *)
Lemma bad_weight_div_guarded : forall a1 a2 w, bad_auto a1 \/ bad_auto a2 ->
  power_scale_gen true true a1 a2 w = emul (Fin bad_weight) w.
Proof.
  intros a1 a2 w H. unfold power_scale_gen. apply finish_nonfinite.
  destruct H as [H | H]; apply auto_scale_bad_div in H; destruct H as [-> | ->].
  - apply emul_inf_not_finite; auto.
  - reflexivity.
  - rewrite emul_comm. apply emul_inf_not_finite; auto.
  - now rewrite emul_nan_r.
Qed.

(* the multiply direction: a non-finite autocorrelation -> the tiny weight (both guard settings) *)
Lemma bad_weight_mul : forall g a1 a2 w, isfinite a1 = false \/ isfinite a2 = false ->
  power_scale_gen g false a1 a2 w = emul (Fin bad_weight) w.
Proof.
  intros g a1 a2 w H. unfold power_scale_gen. apply finish_nonfinite.
  unfold auto_scale_gen.
  destruct g, a1 as [x| | |], a2 as [y| | |]; cbn [isfinite negb andb] in *;
    try (destruct H; discriminate); try reflexivity;
    cbn; try reflexivity; try (destruct (x ?= 0)%Qc; reflexivity); try (destruct (y ?= 0)%Qc; reflexivity).
Qed.

(* the unrepaired kernel (no guard): zero and NaN are handled, +-inf is NOT — F9 *)
Lemma bad_weight_div_unguarded_partial : forall a1 a2 w,
  (a1 = Fin 0 \/ a1 = NaN) \/ (a2 = Fin 0 \/ a2 = NaN) ->
  power_scale_gen false true a1 a2 w = emul (Fin bad_weight) w.
Proof.
  intros a1 a2 w H. unfold power_scale_gen, auto_scale_gen. cbn [andb]. apply finish_nonfinite.
  destruct H as [[-> | ->] | [-> | ->]].
  - rewrite erecip_zero. apply emul_inf_not_finite; auto.
  - reflexivity.
  - rewrite erecip_zero, emul_comm. apply emul_inf_not_finite; auto.
  - cbn [erecip]. now rewrite emul_nan_r.
Qed.

Lemma bad_weight_div_unguarded_refuted :
  exists a1 a2 w, bad_auto a1 /\ power_scale_gen false true a1 a2 w = Fin 0
                  /\ emul (Fin bad_weight) w <> Fin 0.
Proof.
  exists PInf, (Fin 1), (Fin 1). split; [right; reflexivity |]. split.
  - unfold power_scale_gen, auto_scale_gen. cbn [andb]. change (erecip PInf) with (Fin 0).
    assert (N : 1%Qc <> 0%Qc) by (intro H; inversion H).
    rewrite (erecip_fin 1%Qc N). unfold finish_scale. rewrite !emul_fin. cbn [isfinite]. rewrite emul_fin.
    f_equal; ring.
  - rewrite bad_weight_value. unfold spec_tiny. rewrite emul_fin. intro H. inversion H.
Qed.

(* the whole kernel against the specification's scale factor *)
Lemma power_scale_div_spec : forall a1 a2 w,
  power_scale true a1 a2 w = emul (Fin (spec_scale_div a1 a2)) w.
Proof.
  intros a1 a2 w. unfold power_scale. rewrite guard_on. unfold spec_scale_div. rewrite <- bad_weight_value.
  destruct a1 as [x| | |]; try (rewrite bad_weight_div_guarded by (left; right; reflexivity); reflexivity).
  destruct a2 as [y| | |]; try (rewrite bad_weight_div_guarded by (right; right; reflexivity); reflexivity).
  destruct (is_zero x) eqn:Ex.
  - apply is_zero_true in Ex. subst. cbn [orb]. apply bad_weight_div_guarded. left. left. reflexivity.
  - destruct (is_zero y) eqn:Ey.
    + apply is_zero_true in Ey. subst. cbn [orb]. apply bad_weight_div_guarded. right. left. reflexivity.
    + cbn [orb]. apply is_zero_false in Ex. apply is_zero_false in Ey. now apply scaled_finite.
Qed.

Lemma power_scale_mul_spec : forall a1 a2 w,
  power_scale false a1 a2 w = emul (Fin (spec_scale_mul a1 a2)) w.
Proof.
  intros a1 a2 w. unfold power_scale, spec_scale_mul. rewrite <- bad_weight_value.
  destruct a1 as [x| | |]; try (rewrite bad_weight_mul by (left; reflexivity); reflexivity).
  destruct a2 as [y| | |]; try (rewrite bad_weight_mul by (right; reflexivity); reflexivity).
  apply unscaled_finite.
Qed.

(* ------------------------------------------------------------------ corrprod_to_autocorr *)
Lemma map_opt_some : forall {A B} (f : A -> option B) l r, map_opt f l = Some r ->
  List.length r = List.length l /\
  forall k x, nth_error l k = Some x -> exists y, f x = Some y /\ nth_error r k = Some y.
Proof.
  intros A B f. induction l as [| a l IH]; intros r H; cbn in H.
  - inversion H; subst. split; [reflexivity |]. intros [|k] x Hk; discriminate.
  - destruct (f a) as [y|] eqn:Ea; [| discriminate]. destruct (map_opt f l) as [r'|] eqn:Er; [| discriminate].
    inversion H; subst. destruct (IH r' eq_refl) as [Hl Hn]. split; [cbn; now rewrite Hl |].
    intros [|k] x Hk; cbn in Hk.
    + inversion Hk; subst. exists y. split; [assumption | reflexivity].
    + apply Hn. assumption.
Qed.

Lemma map_opt_none : forall {A B} (f : A -> option B) l, map_opt f l = None <-> exists x, In x l /\ f x = None.
Proof.
  intros A B f. induction l as [| a l IH]; cbn.
  - split; [discriminate | intros [x [[] _]]].
  - destruct (f a) as [y|] eqn:Ea.
    + destruct (map_opt f l) as [r|] eqn:Er.
      * split; [discriminate |]. intros [x [[-> | Hin] Hx]]; [congruence |].
        assert (Hn : Some r = None) by (apply IH; now exists x). discriminate.
      * split; [| reflexivity]. intros _. destruct (proj1 IH eq_refl) as [x [Hin Hx]]. exists x. auto.
    + split; [| reflexivity]. intros _. exists a. auto.
Qed.

(* positions (counted from i) of the products (a, a) *)
Fixpoint auto_positions (cps : list corrprod) (i : nat) : list nat :=
  match cps with
  | [] => []
  | p :: t => if is_auto p then i :: auto_positions t (S i) else auto_positions t (S i)
  end.

Lemma scan_indices : forall cps i ai lk, fst (scan_autos cps i ai lk) = ai ++ auto_positions cps i.
Proof.
  induction cps as [| [a b] t IH]; intros i ai lk; cbn [scan_autos auto_positions].
  - now rewrite app_nil_r.
  - unfold is_auto. cbn [fst snd]. destruct (Z.eqb a b).
    + rewrite IH, <- app_assoc. reflexivity.
    + apply IH.
Qed.

Lemma lookup_cons : forall a n lk b,
  lookup ((a, n) :: lk) b = if Z.eqb a b then Some n else lookup lk b.
Proof. intros. unfold lookup. cbn [find fst snd]. destruct (Z.eqb a b); reflexivity. Qed.

Lemma auto_positions_ge : forall cps i p, In p (auto_positions cps i) -> i <= p.
Proof.
  induction cps as [| c t IH]; intros i p H; cbn in H; [contradiction |].
  destruct (is_auto c).
  - destruct H as [<- | H]; [lia | apply IH in H; lia].
  - apply IH in H. lia.
Qed.

(* the dictionary after the scan: for every label the index (within auto_indices) of its LAST autocorrelation *)
Lemma scan_lookup : forall cps i ai lk a,
  match last_auto_from a cps i with
  | Some p => exists j, lookup (snd (scan_autos cps i ai lk)) a = Some j
                        /\ nth_error (fst (scan_autos cps i ai lk)) j = Some p
  | None => lookup (snd (scan_autos cps i ai lk)) a = lookup lk a
  end.
Proof.
  induction cps as [| [x y] t IH]; intros i ai lk a; cbn [scan_autos last_auto_from]; [reflexivity |].
  destruct (Z.eqb x y) eqn:Exy.
  - specialize (IH (S i) (ai ++ [i]) ((x, List.length ai) :: lk) a).
    destruct (last_auto_from a t (S i)) as [p|]; [exact IH |].
    apply Z.eqb_eq in Exy. subst y.
    destruct (Z.eqb x a) eqn:Exa; cbn [andb].
    + exists (List.length ai). rewrite IH, lookup_cons, Exa. split; [reflexivity |].
      rewrite scan_indices, <- app_assoc. rewrite nth_error_app2 by lia. now rewrite Nat.sub_diag.
    + rewrite IH, lookup_cons, Exa. reflexivity.
  - specialize (IH (S i) ai lk a).
    destruct (last_auto_from a t (S i)) as [p|]; [exact IH |].
    replace (Z.eqb x a && Z.eqb y a) with false; [exact IH |].
    symmetry. apply andb_false_iff. destruct (Z.eqb x a) eqn:E1; [right | left; reflexivity].
    apply Z.eqb_eq in E1. subst. apply Z.eqb_neq. apply Z.eqb_neq in Exy. congruence.
Qed.

Lemma lookup_nil : forall a, lookup [] a = None.
Proof. reflexivity. Qed.

(* what last_auto means: the position holds (a, a) and no later position does *)
Lemma last_auto_from_some : forall a cps i p, last_auto_from a cps i = Some p ->
  i <= p /\ nth_error cps (p - i) = Some (a, a) /\ forall j, p - i < j -> nth_error cps j <> Some (a, a).
Proof.
  induction cps as [| [x y] t IH]; intros i p H; cbn [last_auto_from] in H; [discriminate |].
  destruct (last_auto_from a t (S i)) as [q|] eqn:E.
  - inversion H; subst q. destruct (IH (S i) p E) as [Hle [Hn Hl]].
    split; [lia |]. replace (p - i) with (S (p - S i)) by lia. split; [exact Hn |].
    intros [|j] Hj; [lia |]. cbn. apply Hl. lia.
  - destruct (Z.eqb x a && Z.eqb y a) eqn:Exy; [| discriminate]. inversion H; subst p.
    apply andb_true_iff in Exy. destruct Exy as [E1 E2]. apply Z.eqb_eq in E1. apply Z.eqb_eq in E2. subst.
    rewrite Nat.sub_diag. split; [lia |]. split; [reflexivity |].
    intros [|j] Hj; [lia |]. cbn.
    clear -E. revert E. generalize (S i). revert j.
    induction t as [| [u v] t IHt]; intros j n E.
    + destruct j; discriminate.
    + cbn [last_auto_from] in E. destruct (last_auto_from a t (S n)) eqn:E'; [discriminate |].
      destruct j; cbn.
      * intro H. inversion H; subst. rewrite !Z.eqb_refl in E. discriminate.
      * apply (IHt j (S n) E').
Qed.

Lemma last_auto_from_none : forall a cps i, last_auto_from a cps i = None -> forall j, nth_error cps j <> Some (a, a).
Proof.
  induction cps as [| [x y] t IH]; intros i H j; cbn [last_auto_from] in H.
  - destruct j; discriminate.
  - destruct (last_auto_from a t (S i)) eqn:E; [discriminate |].
    destruct j; cbn.
    + intro H'. inversion H'; subst. rewrite !Z.eqb_refl in H. discriminate.
    + apply (IH (S i) E).
Qed.

(* auto_lookup_correct *)
Lemma auto_lookup : forall cps ai i1 i2, corrprod_to_autocorr cps = Some (ai, i1, i2) ->
  ai = auto_positions cps 0 /\ List.length i1 = List.length cps /\ List.length i2 = List.length cps /\
  forall k a b, nth_error cps k = Some (a, b) ->
    exists p q, last_auto cps a = Some p /\ last_auto cps b = Some q /\
                nth_error ai (nth k i1 0) = Some p /\ nth_error ai (nth k i2 0) = Some q.
Proof.
  intros cps ai i1 i2 H. unfold corrprod_to_autocorr in H.
  destruct (scan_autos cps 0 [] []) as [ai' lk] eqn:Es.
  destruct (map_opt (fun p => lookup lk (fst p)) cps) as [r1|] eqn:E1; [| discriminate].
  destruct (map_opt (fun p => lookup lk (snd p)) cps) as [r2|] eqn:E2; [| discriminate].
  inversion H; subst ai' r1 r2. clear H.
  assert (Hai : ai = auto_positions cps 0).
  { pose proof (scan_indices cps 0 [] []) as Hs. rewrite Es in Hs. exact Hs. }
  destruct (map_opt_some _ _ _ E1) as [L1 N1]. destruct (map_opt_some _ _ _ E2) as [L2 N2].
  split; [exact Hai |]. split; [exact L1 |]. split; [exact L2 |].
  intros k a b Hk.
  destruct (N1 k (a, b) Hk) as [j1 [Hj1 Hn1]]. destruct (N2 k (a, b) Hk) as [j2 [Hj2 Hn2]].
  cbn [fst snd] in *.
  pose proof (scan_lookup cps 0 [] [] a) as Sa. pose proof (scan_lookup cps 0 [] [] b) as Sb.
  rewrite Es in Sa, Sb. cbn [fst snd] in Sa, Sb. unfold last_auto.
  destruct (last_auto_from a cps 0) as [p|]; [| rewrite lookup_nil in Sa; congruence].
  destruct (last_auto_from b cps 0) as [q|]; [| rewrite lookup_nil in Sb; congruence].
  destruct Sa as [ja [Hla Hpa]]. destruct Sb as [jb [Hlb Hpb]].
  exists p, q. split; [reflexivity |]. split; [reflexivity |].
  rewrite (nth_error_nth _ _ 0 Hn1), (nth_error_nth _ _ 0 Hn2).
  assert (j1 = ja) by congruence. assert (j2 = jb) by congruence. subst. auto.
Qed.

(* KeyError exactly when some product mentions an input without autocorrelation *)
Lemma auto_lookup_missing : forall cps,
  corrprod_to_autocorr cps = None <->
  exists a b, In (a, b) cps /\ (last_auto cps a = None \/ last_auto cps b = None).
Proof.
  intro cps. unfold corrprod_to_autocorr.
  destruct (scan_autos cps 0 [] []) as [ai lk] eqn:Es.
  assert (Hlk : forall a, lookup lk a = None <-> last_auto cps a = None).
  { intro a. pose proof (scan_lookup cps 0 [] [] a) as S. rewrite Es in S. cbn [fst snd] in S. unfold last_auto.
    destruct (last_auto_from a cps 0).
    - destruct S as [j [Hj _]]. split; congruence.
    - rewrite lookup_nil in S. tauto. }
  destruct (map_opt (fun p => lookup lk (fst p)) cps) as [r1|] eqn:E1.
  - destruct (map_opt (fun p => lookup lk (snd p)) cps) as [r2|] eqn:E2.
    + split; [discriminate |]. intros [a [b [Hin [Hn | Hn]]]]; exfalso.
      * assert (map_opt (fun p => lookup lk (fst p)) cps = None)
          by (apply map_opt_none; exists (a, b); split; [assumption | now apply Hlk]). congruence.
      * assert (map_opt (fun p => lookup lk (snd p)) cps = None)
          by (apply map_opt_none; exists (a, b); split; [assumption | now apply Hlk]). congruence.
    + split; [| reflexivity]. intros _. apply map_opt_none in E2. destruct E2 as [[a b] [Hin Hx]].
      exists a, b. split; [assumption |]. right. now apply Hlk.
  - split; [| reflexivity]. intros _. apply map_opt_none in E1. destruct E1 as [[a b] [Hin Hx]].
    exists a, b. split; [assumption |]. left. now apply Hlk.
Qed.

(* auto_indices are exactly the positions of the products (a, a) *)
Lemma auto_positions_in : forall cps i p,
  In p (auto_positions cps i) <-> i <= p /\ exists c, nth_error cps (p - i) = Some c /\ is_auto c = true.
Proof.
  induction cps as [| c t IH]; intros i p; cbn [auto_positions].
  - split; [intros [] | intros [_ [c [H _]]]; destruct (p - i); discriminate].
  - destruct (is_auto c) eqn:Ec.
    + cbn [In]. rewrite IH. split.
      * intros [<- | [Hle [c' [Hn Ha]]]].
        -- split; [lia |]. exists c. rewrite Nat.sub_diag. auto.
        -- split; [lia |]. exists c'. replace (p - i) with (S (p - S i)) by lia. auto.
      * intros [Hle [c' [Hn Ha]]]. destruct (Nat.eq_dec i p) as [-> | Hne]; [left; reflexivity | right].
        split; [lia |]. exists c'. replace (p - i) with (S (p - S i)) in Hn by lia. auto.
    + rewrite IH. split.
      * intros [Hle [c' [Hn Ha]]]. split; [lia |]. exists c'. replace (p - i) with (S (p - S i)) by lia. auto.
      * intros [Hle [c' [Hn Ha]]]. destruct (Nat.eq_dec i p) as [-> | Hne].
        -- rewrite Nat.sub_diag in Hn. cbn in Hn. congruence.
        -- split; [lia |]. exists c'. replace (p - i) with (S (p - S i)) in Hn by lia. auto.
Qed.

Lemma existsb_eqb_in : forall k l, existsb (Nat.eqb k) l = true <-> In k l.
Proof.
  intros k l. rewrite existsb_exists. split.
  - intros [x [Hin He]]. apply Nat.eqb_eq in He. now subst.
  - intro H. exists k. split; [assumption | apply Nat.eqb_refl].
Qed.

Lemma auto_index_test : forall cps k, k < List.length cps ->
  existsb (Nat.eqb k) (auto_positions cps 0) = is_auto (nth k cps (0%Z, 1%Z)).
Proof.
  intros cps k Hk. destruct (nth_error cps k) as [c|] eqn:Ec; [| apply nth_error_None in Ec; lia].
  rewrite (nth_error_nth _ _ _ Ec).
  destruct (is_auto c) eqn:Ea.
  - apply existsb_eqb_in. apply auto_positions_in. split; [lia |]. exists c. now rewrite Nat.sub_0_r.
  - destruct (existsb (Nat.eqb k) (auto_positions cps 0)) eqn:Ex; [| reflexivity].
    apply existsb_eqb_in, auto_positions_in in Ex. destruct Ex as [_ [c' [Hn Ha]]].
    rewrite Nat.sub_0_r in Hn. congruence.
Qed.
