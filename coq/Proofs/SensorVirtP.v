(* C12: lemmas about pointwise virtual sensors (Model/SensorVirt.v). *)
From Coq Require Import ZArith QArith List Bool String Lia Lqa.
From KV Require Import Base.Sx Base.Str Gen.Generated Model.Interp Model.SensorCache Model.SensorVirt
  Proofs.InterpP Proofs.SensorCacheP.
Import ListNotations.
Open Scope Q_scope.

(* ================================================================== pw *)
Lemma select_mask_nil : forall {A} (m : list bool), select_mask m (@nil A) = [].
Proof. intros A m. destruct m; reflexivity. Qed.

Lemma pw_length : forall f ts vals, List.length (pw f vals ts) = List.length ts.
Proof. intros f ts. induction ts as [|t ts IH]; intros; simpl; [reflexivity | rewrite IH; reflexivity]. Qed.

Lemma at_dump_0 : forall vals, at_dump 0 vals = map hd_qn vals.
Proof. intros. unfold at_dump. apply map_ext. intros v. destruct v; reflexivity. Qed.

Lemma at_dump_S : forall i vals, at_dump (S i) vals = at_dump i (map (@tl qn) vals).
Proof.
  intros. unfold at_dump. rewrite map_map. apply map_ext. intros v. destruct v as [|x v]; simpl; [destruct i|]; reflexivity.
Qed.

(* dump i of a pointwise virtual sensor is f of timestamps[i] and of the sources AT dump i: nothing else *)
Lemma pw_nth : forall f ts vals i,
  nth_error (pw f vals ts) i = option_map (fun t => f t (at_dump i vals)) (nth_error ts i).
Proof.
  intros f ts. induction ts as [|t ts IH]; intros vals i.
  - destruct i; reflexivity.
  - destruct i as [|i]; simpl.
    + rewrite at_dump_0. reflexivity.
    + rewrite IH, at_dump_S. reflexivity.
Qed.

(* hence two grids / source arrays that agree AT one dump give the same value there, whatever the other dumps, their
   spacing (the dump period) and their number are *)
Lemma pw_local : forall f ts vals i ts' vals' j,
  nth_error ts i = nth_error ts' j -> at_dump i vals = at_dump j vals' ->
  nth_error (pw f vals ts) i = nth_error (pw f vals' ts') j.
Proof. intros. rewrite !pw_nth. rewrite H, H0. reflexivity. Qed.

(* virtual sensor of a sub-grid = sub-grid of the virtual sensor *)
Lemma pw_select : forall f ts m vals,
  select_mask m (pw f vals ts) = pw f (map (select_mask m) vals) (select_mask m ts).
Proof.
  intros f ts. induction ts as [|t ts IH]; intros m vals.
  - simpl. rewrite !select_mask_nil. reflexivity.
  - destruct m as [|b m]; [reflexivity|]. destruct b; simpl.
    + f_equal.
      * f_equal. rewrite map_map. apply map_ext. intros v. destruct v; reflexivity.
      * rewrite IH. f_equal. rewrite !map_map. apply map_ext. intros v. destruct v; simpl;
          [rewrite select_mask_nil|]; reflexivity.
    + rewrite IH. f_equal. rewrite !map_map. apply map_ext. intros v. destruct v; simpl;
        [rewrite select_mask_nil|]; reflexivity.
Qed.

Lemma zip_app_nil_l : forall a b, Forall (fun v => v = []) a -> List.length a = List.length b -> zip_app a b = b.
Proof.
  induction a as [|x a IH]; intros b Ha Hl; destruct b as [|y b]; try discriminate; [reflexivity|].
  inversion Ha; subst. unfold zip_app in *. simpl. f_equal. apply IH; [assumption | simpl in Hl; lia].
Qed.

(* a concatenated dump grid: the virtual sensor of the concatenation = concatenation of the virtual sensors *)
Lemma pw_app : forall f ts1 ts2 vals1 vals2,
  Forall (fun v => List.length v = List.length ts1) vals1 -> List.length vals1 = List.length vals2 ->
  pw f (zip_app vals1 vals2) (ts1 ++ ts2) = (pw f vals1 ts1 ++ pw f vals2 ts2)%list.
Proof.
  intros f ts1. induction ts1 as [|t ts1 IH]; intros ts2 vals1 vals2 Hlen Hl.
  - simpl. rewrite zip_app_nil_l; [reflexivity| |assumption].
    eapply Forall_impl; [|exact Hlen]. intros v Hv. destruct v; [reflexivity | discriminate].
  - simpl. f_equal.
    + f_equal. revert vals2 Hl. induction Hlen as [|v vals1 Hv Hr IHv]; intros vals2 Hl;
        destruct vals2 as [|w vals2]; try discriminate; [reflexivity|].
      unfold zip_app in *. simpl. f_equal; [destruct v; [discriminate | reflexivity]|].
      apply IHv. simpl in Hl. lia.
    + assert (E : map (@tl qn) (zip_app vals1 vals2) = zip_app (map (@tl qn) vals1) vals2).
      { clear IH. revert vals2 Hl. induction Hlen as [|v vals1 Hv Hr IHv]; intros vals2 Hl;
          destruct vals2 as [|w vals2]; try discriminate; [reflexivity|].
        unfold zip_app in *. simpl. f_equal; [destruct v; [discriminate | reflexivity]|].
        apply IHv. simpl in Hl. lia. }
      rewrite E. apply IH.
      * rewrite Forall_map. eapply Forall_impl; [|exact Hlen]. intros v Hv. destruct v; [discriminate|].
        simpl in *. lia.
      * rewrite map_length. assumption.
Qed.

(* ================================================================== through the cache *)
(* A built-in virtual sensor read through the cache: the full-length result is the per-dump function applied to every
   dump; with the selection it is the per-dump function applied to the SELECTED dumps and the selected source values
   (sub-grid of the virtual sensor = virtual sensor of the sub-grid); every produced name is cached full-length. *)
Lemma virtual_pointwise : forall pf fuel c name select extract kw v c1 vals k,
  select && negb extract = false ->
  r_lookup name (c_raw c) = None ->
  find (fun v => mem_string name (v_names v)) (c_virt c) = Some v ->
  eval_srcs (fun c' s => get (vf_pw pf) false fuel c' s false true p_empty) c (v_srcs v) = (c1, inl vals) ->
  index_of_name name (v_names v) = Some k -> NoDup (v_names v) ->
  let '(c', r) := get (vf_pw pf) false (S fuel) c name select extract kw in
  r = RVals (if select then pw (pf (v_fid v) k) (map (select_mask (c_keep c)) vals) (select_mask (c_keep c) (c_ts c))
             else pw (pf (v_fid v) k) vals (c_ts c)) /\
  (forall j n, nth_error (v_names v) j = Some n ->
     r_lookup n (c_raw c') = Some (EVals (pw (pf (v_fid v) j) vals (c_ts c)))) /\
  c_store c' = c_store c.
Proof.
  intros pf fuel c name select extract kw v c1 vals k Hse Hl Hf He Hk Hnd.
  pose proof (virtual_is_function_of_sources (vf_pw pf) fuel c name select extract kw v c1 vals k Hse Hl Hf He Hk Hnd) as H.
  destruct (get (vf_pw pf) false (S fuel) c name select extract kw) as [c' r].
  destruct H as [Hr [Hs Hp]]. split; [|split; assumption].
  rewrite Hr. unfold vf_pw. destruct select; [rewrite pw_select|]; reflexivity.
Qed.

(* dump i of the result depends on timestamps[i] and the source values at dump i only *)
Lemma virtual_dump_local : forall pf fid k vals ts i t,
  nth_error ts i = Some t -> nth_error (vf_pw pf fid k vals ts) i = Some (pf fid k t (at_dump i vals)).
Proof. intros. unfold vf_pw. rewrite pw_nth, H. reflexivity. Qed.

(* concatenated cache: when every part has the (virtual or real) sensor, the result is the concatenation of the
   per-part results, in order *)
Lemma concat_vals_app : forall rs l, concat_vals rs = Some l ->
  forallb is_vals rs = true.
Proof.
  induction rs as [|r rs IH]; intros l H; [reflexivity|].
  destruct r; try discriminate. simpl in *. destruct (concat_vals rs); [|discriminate]. eapply IH. reflexivity.
Qed.

Lemma all_vals_flags : forall rs, forallb is_vals rs = true ->
  existsb is_hard_err rs = false /\ existsb is_key rs = false /\ existsb is_cat rs = false /\
  exists l, concat_vals rs = Some l.
Proof.
  induction rs as [|r rs IH]; intros H; [repeat split; exists []; reflexivity|].
  simpl in H. apply andb_true_iff in H. destruct H as [Hr Ht]. destruct r; try discriminate.
  destruct (IH Ht) as [A [B [C [l' D]]]]. simpl. rewrite A, B, C, D. repeat split. eexists. reflexivity.
Qed.

Lemma cget_all_vals : forall vf cc name select kw p2 r2,
  gets vf false (cc_parts cc) name select true kw = (p2, r2) ->
  forallb is_vals r2 = true -> r2 <> [] ->
  exists l, concat_vals r2 = Some l /\
    cget vf false cc name select true kw =
      (mkCC p2 (snd (get_props name (cc_props cc) kw)), RVals l).
Proof.
  intros vf cc name select kw p2 r2 Hg Hv Hne.
  destruct (all_vals_flags r2 Hv) as [A [B [C [l D]]]]. exists l. split; [assumption|].
  unfold cget. rewrite andb_false_r. rewrite Hg, A.
  assert (K : forallb is_key r2 = false).
  { destruct r2 as [|r r2]; [congruence|]. simpl in Hv. apply andb_true_iff in Hv. destruct Hv as [Hr _].
    destruct r; try discriminate. reflexivity. }
  rewrite K. simpl. rewrite A. destruct (get_props name (cc_props cc) kw) as [p pm'] eqn:Ep.
  rewrite B, C, D. reflexivity.
Qed.

(* ================================================================== Timestamps/mjd *)
Lemma mjd_pw : forall vals ts, pw mjd_pf vals ts = map (fun t => Some (mjd_q t)) ts.
Proof. intros vals ts. revert vals. induction ts as [|t ts IH]; intros; simpl; [|rewrite IH]; reflexivity. Qed.

(* MJD differences track timestamp differences, on every grid *)
Lemma mjd_diff : forall a b, mjd_q b - mjd_q a == (b - a) / 86400.
Proof. intros. unfold mjd_q. field. Qed.

Lemma mjd_epoch : mjd_q 0 == 40587 /\ mjd_q 86400 == 40588.
Proof. split; vm_compute; reflexivity. Qed.

Lemma steps_grid : forall n t0 p i,
  Forall2 Qeq (steps (mjd_q t0) (p / 86400) i n) (map mjd_q (grid t0 p i n)).
Proof.
  induction n as [|n IH]; intros; simpl; constructor; [|apply IH].
  unfold mjd_q. field.
Qed.

(* on a perfectly regular grid whose spacing IS the dump period, stepping agrees with the documented function ... *)
Lemma grid_length : forall n t0 p i, List.length (grid t0 p i n) = n.
Proof. induction n as [|n IH]; intros; simpl; [|rewrite IH]; reflexivity. Qed.

Lemma mjd_stepped_regular : forall n t0 p,
  Forall2 Qeq (mjd_stepped p (regular t0 p n)) (map mjd_q (regular t0 p n)).
Proof.
  intros. unfold mjd_stepped, regular. cbn [List.length]. rewrite grid_length. cbn [steps map]. constructor.
  - unfold inject_Z. ring.
  - apply steps_grid.
Qed.

(* ... and on a grid with one dropped dump it does not: the statement about the documented function discriminates *)
Lemma mjd_stepped_refuted :
  let ts := [0; 8; 24] in                     (* dump period 8 s, the dump at t = 16 was dropped *)
  exists a b, nth_error (mjd_stepped 8 ts) 2 = Some a /\ nth_error (map mjd_q ts) 2 = Some b /\ ~ a == b.
Proof.
  simpl. eexists. eexists. split; [reflexivity|]. split; [reflexivity|].
  vm_compute. discriminate.
Qed.

(* ================================================================== what the functions read (from the source) *)
Lemma virtual_registry :
  virtual_sensor_templates =
    ["Antennas/{ant}/[uvw]"; "Antennas/{ant}/az"; "Antennas/{ant}/basis_[uvw]"; "Antennas/{ant}/dec";
     "Antennas/{ant}/el"; "Antennas/{ant}/lst"; "Antennas/{ant}/parangle"; "Antennas/{ant}/ra";
     "Antennas/{ant}/target_[xy]_{projection}_{coordsys}"; "Correlator/Inputs/{inp}/applied_delay";
     "Correlator/Inputs/{inp}/applied_gain"; "Correlator/Inputs/{inp}/applied_phase"; "Timestamps/mjd"]%string /\
  forall a, In a virtual_cache_attrs -> In a virtual_cache_allowed.
Proof.
  split; [reflexivity|]. intros a Ha.
  assert (H : forallb (fun a => mem_string a virtual_cache_allowed) virtual_cache_attrs = true) by reflexivity.
  rewrite forallb_forall in H. specialize (H a Ha).
  unfold mem_string in H. apply existsb_exists in H. destruct H as [y [Hy He]].
  apply String.eqb_eq in He. subst. exact Hy.
Qed.
